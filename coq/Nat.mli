open Datatypes

val add : nat -> nat -> nat
