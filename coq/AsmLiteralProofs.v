(* AsmLiteralProofs.v -- the lexer's reading of a decimal literal: the digit string denotes its Horner value, and the
   NUMBER token carries that value modulo 2^32 (the model of strtoul + the store into `unsigned`). *)
From Coq Require Import ZArith List Lia.
From HexVerif Require Import AsmModel.
Import ListNotations.
Local Open Scope Z_scope.

(* the number a string of ASCII digits denotes, most significant digit first *)
Fixpoint horner (ds : list Z) (acc : Z) : Z :=
  match ds with [] => acc | c :: r => horner r (acc * 10 + (c - 48)) end.
Definition is_digit (c : Z) : Prop := 48 <= c <= 57.

Lemma horner_mono : forall ds acc, Forall is_digit ds -> 0 <= acc -> acc <= horner ds acc.
Proof.
  induction ds as [|c r IH]; intros acc F Ha; cbn [horner]; [lia|].
  inversion F as [|? ? Hc Hr]; subst. unfold is_digit in Hc.
  specialize (IH (acc * 10 + (c - 48)) Hr ltac:(lia)). lia.
Qed.

Lemma strtoul_go_horner : forall ds acc, Forall is_digit ds -> 0 <= acc ->
  horner ds acc <= ULONG_MAX -> strtoul_go ds acc false = horner ds acc.
Proof.
  induction ds as [|c r IH]; intros acc F Ha Hb; cbn [strtoul_go horner] in *; [reflexivity|].
  inversion F as [|? ? Hc Hr]; subst. unfold is_digit in Hc.
  pose proof (horner_mono r (acc * 10 + (c - 48)) Hr ltac:(lia)) as Hm.
  replace (ULONG_MAX <? acc * 10 + (c - 48)) with false by (symmetry; apply Z.ltb_ge; lia).
  cbn [orb]. apply IH; [assumption|lia|assumption].
Qed.

(* every decimal spelling of a value that fits the 64-bit accumulator lexes to that value modulo 2^32; in particular
   every spelling (leading zeros included) of u in [0, 2^32) lexes to u *)
Theorem number_value_of_spelling : forall ds, Forall is_digit ds -> horner ds 0 <= ULONG_MAX ->
  number_value ds = horner ds 0 mod W32.
Proof. intros ds F Hb. unfold number_value. rewrite strtoul_go_horner by (assumption || lia). reflexivity. Qed.

Corollary number_value_32 : forall ds u, Forall is_digit ds -> horner ds 0 = u -> 0 <= u < W32 -> number_value ds = u.
Proof.
  intros ds u F Hh Hu. rewrite number_value_of_spelling; [rewrite Hh; apply Z.mod_small; exact Hu|assumption|].
  rewrite Hh. unfold W32, ULONG_MAX in *. lia.
Qed.

(* ---- the lexer: a run of digits ended by a non-digit becomes ONE NUMBER token carrying number_value of the run *)
Definition digit_byte (b : Z) : Prop := 48 <= b <= 57.

Lemma char_of_digit b : digit_byte b -> char_of_byte b = b.
Proof. unfold digit_byte, char_of_byte. intros H. destruct (128 <=? b) eqn:E; [apply Z.leb_le in E; lia|reflexivity]. Qed.
Lemma is_digit_true c : digit_byte c -> AsmModel.is_digit c = true.
Proof. unfold digit_byte, AsmModel.is_digit. intros H. apply andb_true_intro. split; apply Z.leb_le; lia. Qed.

Lemma first_token_after_run : forall rest' b acc' s1,
  AsmModel.is_digit (char_of_byte b) = false ->
  exists toks s', lex_go rest' (char_of_byte b) (MNum acc') s1 = mk_lexed TNUMBER (set_val s' (number_value acc')) :: toks.
Proof.
  intros rest' b acc' s1 Hnd. destruct rest' as [|b2 r2]; cbn [lex_go one_char]; rewrite Hnd.
  - destruct (start_action (char_of_byte b) EOFc (set_val s1 (number_value acc'))) as [[[toks m'] s'] stop].
    destruct stop.
    + eexists. exists s1. reflexivity.
    + destruct (one_char m' EOFc EOFc s') as [[[t2 m2] s2] stop2]. destruct stop2.
      * eexists. exists s1. cbn [app]. reflexivity.
      * destruct (one_char m2 EOFc EOFc s2) as [[[t3 ?] ?] ?]. eexists. exists s1. cbn [app]. reflexivity.
  - destruct (start_action (char_of_byte b) (char_of_byte b2) (set_val s1 (number_value acc'))) as [[[toks m'] s'] stop].
    destruct stop; eexists; exists s1; cbn [app]; reflexivity.
Qed.

Theorem lex_number_run : forall ds acc c s b rest',
  digit_byte c -> Forall digit_byte ds -> AsmModel.is_digit (char_of_byte b) = false ->
  exists toks s', lex_go (ds ++ b :: rest') c (MNum acc) s
                  = mk_lexed TNUMBER (set_val s' (number_value (acc ++ c :: ds))) :: toks.
Proof.
  induction ds as [|d ds IH]; intros acc c s b rest' Hc Hds Hb.
  - cbn [app lex_go one_char]. rewrite (is_digit_true c Hc). cbn [app].
    destruct (first_token_after_run rest' b (acc ++ [c]) (bump s) Hb) as (toks & s' & E). exists toks, s'. exact E.
  - inversion Hds as [|? ? Hd Hr]; subst. cbn [app lex_go one_char]. rewrite (is_digit_true c Hc). cbn [app].
    rewrite (char_of_digit d Hd).
    destruct (IH (acc ++ [c]) d (bump s) b rest' Hd Hr Hb) as (toks & s' & E). exists toks, s'.
    rewrite E. rewrite <- app_assoc. reflexivity.
Qed.
