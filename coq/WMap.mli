open BinInt
open BinNums
open FMapPositive

type t = { cells : coq_Z PositiveMap.t; bg : (coq_Z -> coq_Z) }

val key : coq_Z -> positive

val rd : t -> coq_Z -> coq_Z

val wr : t -> coq_Z -> coq_Z -> t

val empty : (coq_Z -> coq_Z) -> t

val zero : t

val load_words : t -> coq_Z -> coq_Z list -> t
