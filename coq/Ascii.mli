open BinNat
open BinNums
open Bool
open Datatypes

type ascii =
| Ascii of bool * bool * bool * bool * bool * bool * bool * bool

val zero : ascii

val one : ascii

val shift : bool -> ascii -> ascii

val eqb : ascii -> ascii -> bool

val ascii_of_pos : positive -> ascii

val ascii_of_N : coq_N -> ascii

val ascii_of_nat : nat -> ascii

val coq_N_of_digits : bool list -> coq_N

val coq_N_of_ascii : ascii -> coq_N

val nat_of_ascii : ascii -> nat
