(* AsmSymtabProofs.v -- a symbol table that passes the spec validator check_symtab has ascending offsets (so that the
   trace lookup theorems of C15 apply to it): the walk over the image places directives at non-decreasing positions. *)
From Coq Require Import ZArith List String Bool Lia.
From HexVerif Require Import WMap Isa SimModel SimProofs15 AsmModel AsmSpec.
Import ListNotations.
Local Open Scope Z_scope.
Ltac Zify.zify_post_hook ::= Z.div_mod_to_equations.

Lemma decode_go_advances : forall fuel img pos oreg opc o nxt, decode_go fuel img pos oreg = Some (opc, o, nxt) -> pos < nxt.
Proof.
  induction fuel as [|f IH]; intros img pos oreg opc o nxt H; cbn [decode_go] in H; [discriminate|].
  destruct ((rd img pos / 16 =? 14) || (rd img pos / 16 =? 15)).
  - apply IH in H. lia.
  - inversion H; subst. lia.
Qed.
Lemma decode_advances img pos opc o nxt : decode img pos = Some (opc, o, nxt) -> pos < nxt.
Proof. apply decode_go_advances. Qed.

Lemma up4_ge p : p <= up4 p.
Proof. unfold up4. destruct (p mod 4 =? 0); lia. Qed.

(* every placed directive starts at or after the walk's position, and the walk ends at or after it *)
Definition starts_from (pos : Z) (ps : list placed) : Prop := Forall (fun p => pos <= p_start p) ps.

Fixpoint placed_sorted (ps : list placed) : Prop :=
  match ps with
  | [] => True
  | p :: r => starts_from (p_start p) r /\ placed_sorted r
  end.

Lemma starts_from_le a b ps : a <= b -> starts_from b ps -> starts_from a ps.
Proof. intros H F. eapply Forall_impl; [|exact F]. cbn. intros; lia. Qed.

Lemma walk_sorted : forall l img pos ps e, walk l img pos = Some (ps, e) -> starts_from pos ps /\ placed_sorted ps.
Proof.
  induction l as [|d rest IH]; intros img pos ps e H.
  - cbn in H. inversion H; subst. split; [constructor|exact I].
  - cbn [walk] in H. destruct d as [v|k n|t v|t n rel|t|pd].
    + pose proof (up4_ge pos) as Hp.
      destruct (all_zero img pos (Z.to_nat (up4 pos - pos)) && (word_at img (up4 pos) =? v mod 4294967296)); [|discriminate].
      destruct (walk rest img (up4 pos + 4)) as [[ps' e']|] eqn:W; [|discriminate]. inversion H; subst.
      destruct (IH _ _ _ _ W) as [F S]. split.
      * constructor; [cbn; exact Hp|]. eapply starts_from_le; [|exact F]. lia.
      * cbn [placed_sorted p_start]. split; [eapply starts_from_le; [|exact F]; lia|assumption].
    + set (pos' := if run_then_data (DLabel k n :: rest) then up4 pos else pos) in *.
      assert (Hp: pos <= pos') by (unfold pos'; destruct (run_then_data _); [apply up4_ge|lia]).
      destruct (all_zero img pos (Z.to_nat (pos' - pos))); [|discriminate].
      destruct (walk rest img pos') as [[ps' e']|] eqn:W; [|discriminate]. inversion H; subst.
      destruct (IH _ _ _ _ W) as [F S]. split.
      * constructor; [cbn; exact Hp|]. eapply starts_from_le; [exact Hp|exact F].
      * cbn [placed_sorted p_start]. split; assumption.
    + destruct (decode img pos) as [[[opc o] nxt]|] eqn:D; [|discriminate]. destruct (token_opc t) as [c|]; [|discriminate].
      destruct ((opc =? c) && (o =? v mod 4294967296)); [|discriminate].
      destruct (walk rest img nxt) as [[ps' e']|] eqn:W; [|discriminate]. inversion H; subst.
      pose proof (decode_advances _ _ _ _ _ D) as Hn. destruct (IH _ _ _ _ W) as [F S]. split.
      * constructor; [cbn; lia|]. eapply starts_from_le; [|exact F]. lia.
      * cbn [placed_sorted p_start]. split; [eapply starts_from_le; [|exact F]; lia|assumption].
    + destruct (decode img pos) as [[[opc o] nxt]|] eqn:D; [|discriminate]. destruct (token_opc t) as [c|]; [|discriminate].
      destruct (opc =? c); [|discriminate].
      destruct (walk rest img nxt) as [[ps' e']|] eqn:W; [|discriminate]. inversion H; subst.
      pose proof (decode_advances _ _ _ _ _ D) as Hn. destruct (IH _ _ _ _ W) as [F S]. split.
      * constructor; [cbn; lia|]. eapply starts_from_le; [|exact F]. lia.
      * cbn [placed_sorted p_start]. split; [eapply starts_from_le; [|exact F]; lia|assumption].
    + destruct (opr_opc t) as [k|]; [|discriminate]. destruct (rd img pos =? 13 * 16 + k); [|discriminate].
      destruct (walk rest img (pos + 1)) as [[ps' e']|] eqn:W; [|discriminate]. inversion H; subst.
      destruct (IH _ _ _ _ W) as [F S]. split.
      * constructor; [cbn; lia|]. eapply starts_from_le; [|exact F]. lia.
      * cbn [placed_sorted p_start]. split; [eapply starts_from_le; [|exact F]; lia|assumption].
    + discriminate.
Qed.

Lemma expected_from : forall ps pos, starts_from pos ps -> Forall (fun s => pos <= snd s) (expected_syms ps).
Proof.
  induction ps as [|p r IH]; intros pos F; [constructor|]. inversion F; subst. cbn [expected_syms].
  destruct (p_dir p) as [v|k n|t v|t n rel|t|pd]; try (apply IH; assumption).
  destruct k; try (apply IH; assumption); (constructor; [cbn; assumption|apply IH; assumption]).
Qed.

Lemma asc_cons n o tab : Forall (fun s => o <= snd s) tab -> asc tab -> asc ((n, o) :: tab).
Proof. intros F A. destruct tab as [|[n2 o2] r]; [exact I|]. cbn [asc]. inversion F; subst. split; [assumption|exact A]. Qed.

Lemma expected_asc : forall ps, placed_sorted ps -> asc (expected_syms ps).
Proof.
  induction ps as [|p r IH]; intros S; [exact I|]. cbn [placed_sorted] in S. destruct S as [F S]. cbn [expected_syms].
  destruct (p_dir p) as [v|k n|t v|t n rel|t|pd]; try (apply IH; assumption).
  destruct k; try (apply IH; assumption); (apply asc_cons; [apply expected_from; assumption|apply IH; assumption]).
Qed.

Lemma syms_eqb_eq : forall a b, syms_eqb a b = true -> a = b.
Proof.
  induction a as [|[n1 o1] r1 IH]; intros [|[n2 o2] r2] H; cbn [syms_eqb] in H; try discriminate; [reflexivity|].
  apply andb_prop in H. destruct H as [H H3]. apply andb_prop in H. destruct H as [H1 H2].
  apply String.eqb_eq in H1. apply Z.eqb_eq in H2. subst. f_equal. apply IH; assumption.
Qed.

(* a symbol table accepted by the spec validator has ascending offsets *)
Theorem check_symtab_asc prog image syms : check_symtab prog image syms = true -> asc syms.
Proof.
  unfold check_symtab. destruct (walk prog (bytes_map image) 0) as [[ps e]|] eqn:W; [|discriminate].
  intros H. apply syms_eqb_eq in H. subst. apply expected_asc. apply (walk_sorted _ _ _ _ _ W).
Qed.
