open Ascii
open BinInt
open BinNums
open Datatypes
open List
open String

type token =
| TNUMBER
| TMINUS
| TDATA
| TPROC
| TFUNC
| TLDAM
| TLDBM
| TSTAM
| TLDAC
| TLDBC
| TLDAP
| TLDAI
| TLDBI
| TSTAI
| TBR
| TBRZ
| TBRN
| TBRB
| TSVC
| TADD
| TSUB
| TOPR
| TIDENTIFIER
| TEOF
| TNONE

(** val token_eqb : token -> token -> bool **)

let token_eqb a b =
  match a with
  | TNUMBER -> (match b with
                | TNUMBER -> true
                | _ -> false)
  | TMINUS -> (match b with
               | TMINUS -> true
               | _ -> false)
  | TDATA -> (match b with
              | TDATA -> true
              | _ -> false)
  | TPROC -> (match b with
              | TPROC -> true
              | _ -> false)
  | TFUNC -> (match b with
              | TFUNC -> true
              | _ -> false)
  | TLDAM -> (match b with
              | TLDAM -> true
              | _ -> false)
  | TLDBM -> (match b with
              | TLDBM -> true
              | _ -> false)
  | TSTAM -> (match b with
              | TSTAM -> true
              | _ -> false)
  | TLDAC -> (match b with
              | TLDAC -> true
              | _ -> false)
  | TLDBC -> (match b with
              | TLDBC -> true
              | _ -> false)
  | TLDAP -> (match b with
              | TLDAP -> true
              | _ -> false)
  | TLDAI -> (match b with
              | TLDAI -> true
              | _ -> false)
  | TLDBI -> (match b with
              | TLDBI -> true
              | _ -> false)
  | TSTAI -> (match b with
              | TSTAI -> true
              | _ -> false)
  | TBR -> (match b with
            | TBR -> true
            | _ -> false)
  | TBRZ -> (match b with
             | TBRZ -> true
             | _ -> false)
  | TBRN -> (match b with
             | TBRN -> true
             | _ -> false)
  | TBRB -> (match b with
             | TBRB -> true
             | _ -> false)
  | TSVC -> (match b with
             | TSVC -> true
             | _ -> false)
  | TADD -> (match b with
             | TADD -> true
             | _ -> false)
  | TSUB -> (match b with
             | TSUB -> true
             | _ -> false)
  | TOPR -> (match b with
             | TOPR -> true
             | _ -> false)
  | TIDENTIFIER -> (match b with
                    | TIDENTIFIER -> true
                    | _ -> false)
  | TEOF -> (match b with
             | TEOF -> true
             | _ -> false)
  | TNONE -> (match b with
              | TNONE -> true
              | _ -> false)

(** val token_str : token -> string **)

let token_str = function
| TNUMBER ->
  String ((Ascii (false, true, true, true, false, false, true, false)),
    (String ((Ascii (true, false, true, false, true, false, true, false)),
    (String ((Ascii (true, false, true, true, false, false, true, false)),
    (String ((Ascii (false, true, false, false, false, false, true, false)),
    (String ((Ascii (true, false, true, false, false, false, true, false)),
    (String ((Ascii (false, true, false, false, true, false, true, false)),
    EmptyString)))))))))))
| TMINUS ->
  String ((Ascii (true, false, true, true, false, false, true, false)),
    (String ((Ascii (true, false, false, true, false, false, true, false)),
    (String ((Ascii (false, true, true, true, false, false, true, false)),
    (String ((Ascii (true, false, true, false, true, false, true, false)),
    (String ((Ascii (true, true, false, false, true, false, true, false)),
    EmptyString)))))))))
| TDATA ->
  String ((Ascii (false, false, true, false, false, false, true, false)),
    (String ((Ascii (true, false, false, false, false, false, true, false)),
    (String ((Ascii (false, false, true, false, true, false, true, false)),
    (String ((Ascii (true, false, false, false, false, false, true, false)),
    EmptyString)))))))
| TPROC ->
  String ((Ascii (false, false, false, false, true, false, true, false)),
    (String ((Ascii (false, true, false, false, true, false, true, false)),
    (String ((Ascii (true, true, true, true, false, false, true, false)),
    (String ((Ascii (true, true, false, false, false, false, true, false)),
    EmptyString)))))))
| TFUNC ->
  String ((Ascii (false, true, true, false, false, false, true, false)),
    (String ((Ascii (true, false, true, false, true, false, true, false)),
    (String ((Ascii (false, true, true, true, false, false, true, false)),
    (String ((Ascii (true, true, false, false, false, false, true, false)),
    EmptyString)))))))
| TLDAM ->
  String ((Ascii (false, false, true, true, false, false, true, false)),
    (String ((Ascii (false, false, true, false, false, false, true, false)),
    (String ((Ascii (true, false, false, false, false, false, true, false)),
    (String ((Ascii (true, false, true, true, false, false, true, false)),
    EmptyString)))))))
| TLDBM ->
  String ((Ascii (false, false, true, true, false, false, true, false)),
    (String ((Ascii (false, false, true, false, false, false, true, false)),
    (String ((Ascii (false, true, false, false, false, false, true, false)),
    (String ((Ascii (true, false, true, true, false, false, true, false)),
    EmptyString)))))))
| TSTAM ->
  String ((Ascii (true, true, false, false, true, false, true, false)),
    (String ((Ascii (false, false, true, false, true, false, true, false)),
    (String ((Ascii (true, false, false, false, false, false, true, false)),
    (String ((Ascii (true, false, true, true, false, false, true, false)),
    EmptyString)))))))
| TLDAC ->
  String ((Ascii (false, false, true, true, false, false, true, false)),
    (String ((Ascii (false, false, true, false, false, false, true, false)),
    (String ((Ascii (true, false, false, false, false, false, true, false)),
    (String ((Ascii (true, true, false, false, false, false, true, false)),
    EmptyString)))))))
| TLDBC ->
  String ((Ascii (false, false, true, true, false, false, true, false)),
    (String ((Ascii (false, false, true, false, false, false, true, false)),
    (String ((Ascii (false, true, false, false, false, false, true, false)),
    (String ((Ascii (true, true, false, false, false, false, true, false)),
    EmptyString)))))))
| TLDAP ->
  String ((Ascii (false, false, true, true, false, false, true, false)),
    (String ((Ascii (false, false, true, false, false, false, true, false)),
    (String ((Ascii (true, false, false, false, false, false, true, false)),
    (String ((Ascii (false, false, false, false, true, false, true, false)),
    EmptyString)))))))
| TLDAI ->
  String ((Ascii (false, false, true, true, false, false, true, false)),
    (String ((Ascii (false, false, true, false, false, false, true, false)),
    (String ((Ascii (true, false, false, false, false, false, true, false)),
    (String ((Ascii (true, false, false, true, false, false, true, false)),
    EmptyString)))))))
| TLDBI ->
  String ((Ascii (false, false, true, true, false, false, true, false)),
    (String ((Ascii (false, false, true, false, false, false, true, false)),
    (String ((Ascii (false, true, false, false, false, false, true, false)),
    (String ((Ascii (true, false, false, true, false, false, true, false)),
    EmptyString)))))))
| TSTAI ->
  String ((Ascii (true, true, false, false, true, false, true, false)),
    (String ((Ascii (false, false, true, false, true, false, true, false)),
    (String ((Ascii (true, false, false, false, false, false, true, false)),
    (String ((Ascii (true, false, false, true, false, false, true, false)),
    EmptyString)))))))
| TBR ->
  String ((Ascii (false, true, false, false, false, false, true, false)),
    (String ((Ascii (false, true, false, false, true, false, true, false)),
    EmptyString)))
| TBRZ ->
  String ((Ascii (false, true, false, false, false, false, true, false)),
    (String ((Ascii (false, true, false, false, true, false, true, false)),
    (String ((Ascii (false, true, false, true, true, false, true, false)),
    EmptyString)))))
| TBRN ->
  String ((Ascii (false, true, false, false, false, false, true, false)),
    (String ((Ascii (false, true, false, false, true, false, true, false)),
    (String ((Ascii (false, true, true, true, false, false, true, false)),
    EmptyString)))))
| TBRB ->
  String ((Ascii (false, true, false, false, false, false, true, false)),
    (String ((Ascii (false, true, false, false, true, false, true, false)),
    (String ((Ascii (false, true, false, false, false, false, true, false)),
    EmptyString)))))
| TSVC ->
  String ((Ascii (true, true, false, false, true, false, true, false)),
    (String ((Ascii (false, true, true, false, true, false, true, false)),
    (String ((Ascii (true, true, false, false, false, false, true, false)),
    EmptyString)))))
| TADD ->
  String ((Ascii (true, false, false, false, false, false, true, false)),
    (String ((Ascii (false, false, true, false, false, false, true, false)),
    (String ((Ascii (false, false, true, false, false, false, true, false)),
    EmptyString)))))
| TSUB ->
  String ((Ascii (true, true, false, false, true, false, true, false)),
    (String ((Ascii (true, false, true, false, true, false, true, false)),
    (String ((Ascii (false, true, false, false, false, false, true, false)),
    EmptyString)))))
| TOPR ->
  String ((Ascii (true, true, true, true, false, false, true, false)),
    (String ((Ascii (false, false, false, false, true, false, true, false)),
    (String ((Ascii (false, true, false, false, true, false, true, false)),
    EmptyString)))))
| TIDENTIFIER ->
  String ((Ascii (true, false, false, true, false, false, true, false)),
    (String ((Ascii (false, false, true, false, false, false, true, false)),
    (String ((Ascii (true, false, true, false, false, false, true, false)),
    (String ((Ascii (false, true, true, true, false, false, true, false)),
    (String ((Ascii (false, false, true, false, true, false, true, false)),
    (String ((Ascii (true, false, false, true, false, false, true, false)),
    (String ((Ascii (false, true, true, false, false, false, true, false)),
    (String ((Ascii (true, false, false, true, false, false, true, false)),
    (String ((Ascii (true, false, true, false, false, false, true, false)),
    (String ((Ascii (false, true, false, false, true, false, true, false)),
    EmptyString)))))))))))))))))))
| TEOF ->
  String ((Ascii (true, false, true, false, false, false, true, false)),
    (String ((Ascii (false, true, true, true, false, false, true, false)),
    (String ((Ascii (false, false, true, false, false, false, true, false)),
    (String ((Ascii (true, true, true, true, true, false, true, false)),
    (String ((Ascii (true, true, true, true, false, false, true, false)),
    (String ((Ascii (false, true, true, false, false, false, true, false)),
    (String ((Ascii (true, true, true, true, true, false, true, false)),
    (String ((Ascii (false, true, true, false, false, false, true, false)),
    (String ((Ascii (true, false, false, true, false, false, true, false)),
    (String ((Ascii (false, false, true, true, false, false, true, false)),
    (String ((Ascii (true, false, true, false, false, false, true, false)),
    EmptyString)))))))))))))))))))))
| TNONE ->
  String ((Ascii (false, true, true, true, false, false, true, false)),
    (String ((Ascii (true, true, true, true, false, false, true, false)),
    (String ((Ascii (false, true, true, true, false, false, true, false)),
    (String ((Ascii (true, false, true, false, false, false, true, false)),
    EmptyString)))))))

(** val token_opc : token -> coq_Z option **)

let token_opc = function
| TLDAM -> Some Z0
| TLDBM -> Some (Zpos Coq_xH)
| TSTAM -> Some (Zpos (Coq_xO Coq_xH))
| TLDAC -> Some (Zpos (Coq_xI Coq_xH))
| TLDBC -> Some (Zpos (Coq_xO (Coq_xO Coq_xH)))
| TLDAP -> Some (Zpos (Coq_xI (Coq_xO Coq_xH)))
| TLDAI -> Some (Zpos (Coq_xO (Coq_xI Coq_xH)))
| TLDBI -> Some (Zpos (Coq_xI (Coq_xI Coq_xH)))
| TSTAI -> Some (Zpos (Coq_xO (Coq_xO (Coq_xO Coq_xH))))
| TBR -> Some (Zpos (Coq_xI (Coq_xO (Coq_xO Coq_xH))))
| TBRZ -> Some (Zpos (Coq_xO (Coq_xI (Coq_xO Coq_xH))))
| TBRN -> Some (Zpos (Coq_xI (Coq_xI (Coq_xO Coq_xH))))
| TOPR -> Some (Zpos (Coq_xI (Coq_xO (Coq_xI Coq_xH))))
| _ -> None

(** val opr_opc : token -> coq_Z option **)

let opr_opc = function
| TBRB -> Some Z0
| TSVC -> Some (Zpos (Coq_xI Coq_xH))
| TADD -> Some (Zpos Coq_xH)
| TSUB -> Some (Zpos (Coq_xO Coq_xH))
| _ -> None

(** val coq_W32 : coq_Z **)

let coq_W32 =
  Zpos (Coq_xO (Coq_xO (Coq_xO (Coq_xO (Coq_xO (Coq_xO (Coq_xO (Coq_xO
    (Coq_xO (Coq_xO (Coq_xO (Coq_xO (Coq_xO (Coq_xO (Coq_xO (Coq_xO (Coq_xO
    (Coq_xO (Coq_xO (Coq_xO (Coq_xO (Coq_xO (Coq_xO (Coq_xO (Coq_xO (Coq_xO
    (Coq_xO (Coq_xO (Coq_xO (Coq_xO (Coq_xO (Coq_xO
    Coq_xH))))))))))))))))))))))))))))))))

(** val to_int : coq_Z -> coq_Z **)

let to_int u =
  let x = Z.modulo u coq_W32 in
  if Z.leb (Zpos (Coq_xO (Coq_xO (Coq_xO (Coq_xO (Coq_xO (Coq_xO (Coq_xO
       (Coq_xO (Coq_xO (Coq_xO (Coq_xO (Coq_xO (Coq_xO (Coq_xO (Coq_xO
       (Coq_xO (Coq_xO (Coq_xO (Coq_xO (Coq_xO (Coq_xO (Coq_xO (Coq_xO
       (Coq_xO (Coq_xO (Coq_xO (Coq_xO (Coq_xO (Coq_xO (Coq_xO (Coq_xO
       Coq_xH)))))))))))))))))))))))))))))))) x
  then Z.sub x coq_W32
  else x

(** val char_of_byte : coq_Z -> coq_Z **)

let char_of_byte b =
  if Z.leb (Zpos (Coq_xO (Coq_xO (Coq_xO (Coq_xO (Coq_xO (Coq_xO (Coq_xO
       Coq_xH)))))))) b
  then Z.sub b (Zpos (Coq_xO (Coq_xO (Coq_xO (Coq_xO (Coq_xO (Coq_xO (Coq_xO
         (Coq_xO Coq_xH)))))))))
  else b

(** val is_space : coq_Z -> bool **)

let is_space c =
  (||) (Z.eqb c (Zpos (Coq_xO (Coq_xO (Coq_xO (Coq_xO (Coq_xO Coq_xH)))))))
    ((&&) (Z.leb (Zpos (Coq_xI (Coq_xO (Coq_xO Coq_xH)))) c)
      (Z.leb c (Zpos (Coq_xI (Coq_xO (Coq_xI Coq_xH))))))

(** val is_digit : coq_Z -> bool **)

let is_digit c =
  (&&) (Z.leb (Zpos (Coq_xO (Coq_xO (Coq_xO (Coq_xO (Coq_xI Coq_xH)))))) c)
    (Z.leb c (Zpos (Coq_xI (Coq_xO (Coq_xO (Coq_xI (Coq_xI Coq_xH)))))))

(** val is_alpha : coq_Z -> bool **)

let is_alpha c =
  (||)
    ((&&)
      (Z.leb (Zpos (Coq_xI (Coq_xO (Coq_xO (Coq_xO (Coq_xO (Coq_xO
        Coq_xH))))))) c)
      (Z.leb c (Zpos (Coq_xO (Coq_xI (Coq_xO (Coq_xI (Coq_xI (Coq_xO
        Coq_xH)))))))))
    ((&&)
      (Z.leb (Zpos (Coq_xI (Coq_xO (Coq_xO (Coq_xO (Coq_xO (Coq_xI
        Coq_xH))))))) c)
      (Z.leb c (Zpos (Coq_xO (Coq_xI (Coq_xO (Coq_xI (Coq_xI (Coq_xI
        Coq_xH)))))))))

(** val is_alnum : coq_Z -> bool **)

let is_alnum c =
  (||) (is_alpha c) (is_digit c)

(** val coq_EOFc : coq_Z **)

let coq_EOFc =
  Zneg Coq_xH

(** val string_of_chars : coq_Z list -> string **)

let rec string_of_chars = function
| [] -> EmptyString
| c :: r ->
  String
    ((ascii_of_nat
       (Z.to_nat
         (Z.modulo c (Zpos (Coq_xO (Coq_xO (Coq_xO (Coq_xO (Coq_xO (Coq_xO
           (Coq_xO (Coq_xO Coq_xH)))))))))))), (string_of_chars r))

(** val keyword : string -> token **)

let keyword s =
  if eqb s (String ((Ascii (true, false, false, false, false, false, true,
       false)), (String ((Ascii (false, false, true, false, false, false,
       true, false)), (String ((Ascii (false, false, true, false, false,
       false, true, false)), EmptyString))))))
  then TADD
  else if eqb s (String ((Ascii (false, true, false, false, false, false,
            true, false)), (String ((Ascii (false, true, false, false, true,
            false, true, false)), (String ((Ascii (false, true, true, true,
            false, false, true, false)), EmptyString))))))
       then TBRN
       else if eqb s (String ((Ascii (false, true, false, false, false,
                 false, true, false)), (String ((Ascii (false, true, false,
                 false, true, false, true, false)), EmptyString))))
            then TBR
            else if eqb s (String ((Ascii (false, true, false, false, false,
                      false, true, false)), (String ((Ascii (false, true,
                      false, false, true, false, true, false)), (String
                      ((Ascii (false, true, false, false, false, false, true,
                      false)), EmptyString))))))
                 then TBRB
                 else if eqb s (String ((Ascii (false, true, false, false,
                           false, false, true, false)), (String ((Ascii
                           (false, true, false, false, true, false, true,
                           false)), (String ((Ascii (false, true, false,
                           true, true, false, true, false)), EmptyString))))))
                      then TBRZ
                      else if eqb s (String ((Ascii (false, false, true,
                                false, false, false, true, false)), (String
                                ((Ascii (true, false, false, false, false,
                                false, true, false)), (String ((Ascii (false,
                                false, true, false, true, false, true,
                                false)), (String ((Ascii (true, false, false,
                                false, false, false, true, false)),
                                EmptyString))))))))
                           then TDATA
                           else if eqb s (String ((Ascii (false, true, true,
                                     false, false, false, true, false)),
                                     (String ((Ascii (true, false, true,
                                     false, true, false, true, false)),
                                     (String ((Ascii (false, true, true,
                                     true, false, false, true, false)),
                                     (String ((Ascii (true, true, false,
                                     false, false, false, true, false)),
                                     EmptyString))))))))
                                then TFUNC
                                else if eqb s (String ((Ascii (false, false,
                                          true, true, false, false, true,
                                          false)), (String ((Ascii (false,
                                          false, true, false, false, false,
                                          true, false)), (String ((Ascii
                                          (true, false, false, false, false,
                                          false, true, false)), (String
                                          ((Ascii (true, true, false, false,
                                          false, false, true, false)),
                                          EmptyString))))))))
                                     then TLDAC
                                     else if eqb s (String ((Ascii (false,
                                               false, true, true, false,
                                               false, true, false)), (String
                                               ((Ascii (false, false, true,
                                               false, false, false, true,
                                               false)), (String ((Ascii
                                               (true, false, false, false,
                                               false, false, true, false)),
                                               (String ((Ascii (true, false,
                                               false, true, false, false,
                                               true, false)),
                                               EmptyString))))))))
                                          then TLDAI
                                          else if eqb s (String ((Ascii
                                                    (false, false, true,
                                                    true, false, false, true,
                                                    false)), (String ((Ascii
                                                    (false, false, true,
                                                    false, false, false,
                                                    true, false)), (String
                                                    ((Ascii (true, false,
                                                    false, false, false,
                                                    false, true, false)),
                                                    (String ((Ascii (true,
                                                    false, true, true, false,
                                                    false, true, false)),
                                                    EmptyString))))))))
                                               then TLDAM
                                               else if eqb s (String ((Ascii
                                                         (false, false, true,
                                                         true, false, false,
                                                         true, false)),
                                                         (String ((Ascii
                                                         (false, false, true,
                                                         false, false, false,
                                                         true, false)),
                                                         (String ((Ascii
                                                         (true, false, false,
                                                         false, false, false,
                                                         true, false)),
                                                         (String ((Ascii
                                                         (false, false,
                                                         false, false, true,
                                                         false, true,
                                                         false)),
                                                         EmptyString))))))))
                                                    then TLDAP
                                                    else if eqb s (String
                                                              ((Ascii (false,
                                                              false, true,
                                                              true, false,
                                                              false, true,
                                                              false)),
                                                              (String ((Ascii
                                                              (false, false,
                                                              true, false,
                                                              false, false,
                                                              true, false)),
                                                              (String ((Ascii
                                                              (false, true,
                                                              false, false,
                                                              false, false,
                                                              true, false)),
                                                              (String ((Ascii
                                                              (true, true,
                                                              false, false,
                                                              false, false,
                                                              true, false)),
                                                              EmptyString))))))))
                                                         then TLDBC
                                                         else if eqb s
                                                                   (String
                                                                   ((Ascii
                                                                   (false,
                                                                   false,
                                                                   true,
                                                                   true,
                                                                   false,
                                                                   false,
                                                                   true,
                                                                   false)),
                                                                   (String
                                                                   ((Ascii
                                                                   (false,
                                                                   false,
                                                                   true,
                                                                   false,
                                                                   false,
                                                                   false,
                                                                   true,
                                                                   false)),
                                                                   (String
                                                                   ((Ascii
                                                                   (false,
                                                                   true,
                                                                   false,
                                                                   false,
                                                                   false,
                                                                   false,
                                                                   true,
                                                                   false)),
                                                                   (String
                                                                   ((Ascii
                                                                   (true,
                                                                   false,
                                                                   false,
                                                                   true,
                                                                   false,
                                                                   false,
                                                                   true,
                                                                   false)),
                                                                   EmptyString))))))))
                                                              then TLDBI
                                                              else if 
                                                                    eqb s
                                                                    (String
                                                                    ((Ascii
                                                                    (false,
                                                                    false,
                                                                    true,
                                                                    true,
                                                                    false,
                                                                    false,
                                                                    true,
                                                                    false)),
                                                                    (String
                                                                    ((Ascii
                                                                    (false,
                                                                    false,
                                                                    true,
                                                                    false,
                                                                    false,
                                                                    false,
                                                                    true,
                                                                    false)),
                                                                    (String
                                                                    ((Ascii
                                                                    (false,
                                                                    true,
                                                                    false,
                                                                    false,
                                                                    false,
                                                                    false,
                                                                    true,
                                                                    false)),
                                                                    (String
                                                                    ((Ascii
                                                                    (true,
                                                                    false,
                                                                    true,
                                                                    true,
                                                                    false,
                                                                    false,
                                                                    true,
                                                                    false)),
                                                                    EmptyString))))))))
                                                                   then TLDBM
                                                                   else 
                                                                    if 
                                                                    eqb s
                                                                    (String
                                                                    ((Ascii
                                                                    (true,
                                                                    true,
                                                                    true,
                                                                    true,
                                                                    false,
                                                                    false,
                                                                    true,
                                                                    false)),
                                                                    (String
                                                                    ((Ascii
                                                                    (false,
                                                                    false,
                                                                    false,
                                                                    false,
                                                                    true,
                                                                    false,
                                                                    true,
                                                                    false)),
                                                                    (String
                                                                    ((Ascii
                                                                    (false,
                                                                    true,
                                                                    false,
                                                                    false,
                                                                    true,
                                                                    false,
                                                                    true,
                                                                    false)),
                                                                    EmptyString))))))
                                                                    then TOPR
                                                                    else 
                                                                    if 
                                                                    eqb s
                                                                    (String
                                                                    ((Ascii
                                                                    (false,
                                                                    false,
                                                                    false,
                                                                    false,
                                                                    true,
                                                                    false,
                                                                    true,
                                                                    false)),
                                                                    (String
                                                                    ((Ascii
                                                                    (false,
                                                                    true,
                                                                    false,
                                                                    false,
                                                                    true,
                                                                    false,
                                                                    true,
                                                                    false)),
                                                                    (String
                                                                    ((Ascii
                                                                    (true,
                                                                    true,
                                                                    true,
                                                                    true,
                                                                    false,
                                                                    false,
                                                                    true,
                                                                    false)),
                                                                    (String
                                                                    ((Ascii
                                                                    (true,
                                                                    true,
                                                                    false,
                                                                    false,
                                                                    false,
                                                                    false,
                                                                    true,
                                                                    false)),
                                                                    EmptyString))))))))
                                                                    then TPROC
                                                                    else 
                                                                    if 
                                                                    eqb s
                                                                    (String
                                                                    ((Ascii
                                                                    (true,
                                                                    true,
                                                                    false,
                                                                    false,
                                                                    true,
                                                                    false,
                                                                    true,
                                                                    false)),
                                                                    (String
                                                                    ((Ascii
                                                                    (false,
                                                                    false,
                                                                    true,
                                                                    false,
                                                                    true,
                                                                    false,
                                                                    true,
                                                                    false)),
                                                                    (String
                                                                    ((Ascii
                                                                    (true,
                                                                    false,
                                                                    false,
                                                                    false,
                                                                    false,
                                                                    false,
                                                                    true,
                                                                    false)),
                                                                    (String
                                                                    ((Ascii
                                                                    (true,
                                                                    false,
                                                                    false,
                                                                    true,
                                                                    false,
                                                                    false,
                                                                    true,
                                                                    false)),
                                                                    EmptyString))))))))
                                                                    then TSTAI
                                                                    else 
                                                                    if 
                                                                    eqb s
                                                                    (String
                                                                    ((Ascii
                                                                    (true,
                                                                    true,
                                                                    false,
                                                                    false,
                                                                    true,
                                                                    false,
                                                                    true,
                                                                    false)),
                                                                    (String
                                                                    ((Ascii
                                                                    (false,
                                                                    false,
                                                                    true,
                                                                    false,
                                                                    true,
                                                                    false,
                                                                    true,
                                                                    false)),
                                                                    (String
                                                                    ((Ascii
                                                                    (true,
                                                                    false,
                                                                    false,
                                                                    false,
                                                                    false,
                                                                    false,
                                                                    true,
                                                                    false)),
                                                                    (String
                                                                    ((Ascii
                                                                    (true,
                                                                    false,
                                                                    true,
                                                                    true,
                                                                    false,
                                                                    false,
                                                                    true,
                                                                    false)),
                                                                    EmptyString))))))))
                                                                    then TSTAM
                                                                    else 
                                                                    if 
                                                                    eqb s
                                                                    (String
                                                                    ((Ascii
                                                                    (true,
                                                                    true,
                                                                    false,
                                                                    false,
                                                                    true,
                                                                    false,
                                                                    true,
                                                                    false)),
                                                                    (String
                                                                    ((Ascii
                                                                    (true,
                                                                    false,
                                                                    true,
                                                                    false,
                                                                    true,
                                                                    false,
                                                                    true,
                                                                    false)),
                                                                    (String
                                                                    ((Ascii
                                                                    (false,
                                                                    true,
                                                                    false,
                                                                    false,
                                                                    false,
                                                                    false,
                                                                    true,
                                                                    false)),
                                                                    EmptyString))))))
                                                                    then TSUB
                                                                    else 
                                                                    if 
                                                                    eqb s
                                                                    (String
                                                                    ((Ascii
                                                                    (true,
                                                                    true,
                                                                    false,
                                                                    false,
                                                                    true,
                                                                    false,
                                                                    true,
                                                                    false)),
                                                                    (String
                                                                    ((Ascii
                                                                    (false,
                                                                    true,
                                                                    true,
                                                                    false,
                                                                    true,
                                                                    false,
                                                                    true,
                                                                    false)),
                                                                    (String
                                                                    ((Ascii
                                                                    (true,
                                                                    true,
                                                                    false,
                                                                    false,
                                                                    false,
                                                                    false,
                                                                    true,
                                                                    false)),
                                                                    EmptyString))))))
                                                                    then TSVC
                                                                    else 
                                                                    TIDENTIFIER

(** val coq_ULONG_MAX : coq_Z **)

let coq_ULONG_MAX =
  Zpos (Coq_xI (Coq_xI (Coq_xI (Coq_xI (Coq_xI (Coq_xI (Coq_xI (Coq_xI
    (Coq_xI (Coq_xI (Coq_xI (Coq_xI (Coq_xI (Coq_xI (Coq_xI (Coq_xI (Coq_xI
    (Coq_xI (Coq_xI (Coq_xI (Coq_xI (Coq_xI (Coq_xI (Coq_xI (Coq_xI (Coq_xI
    (Coq_xI (Coq_xI (Coq_xI (Coq_xI (Coq_xI (Coq_xI (Coq_xI (Coq_xI (Coq_xI
    (Coq_xI (Coq_xI (Coq_xI (Coq_xI (Coq_xI (Coq_xI (Coq_xI (Coq_xI (Coq_xI
    (Coq_xI (Coq_xI (Coq_xI (Coq_xI (Coq_xI (Coq_xI (Coq_xI (Coq_xI (Coq_xI
    (Coq_xI (Coq_xI (Coq_xI (Coq_xI (Coq_xI (Coq_xI (Coq_xI (Coq_xI (Coq_xI
    (Coq_xI
    Coq_xH)))))))))))))))))))))))))))))))))))))))))))))))))))))))))))))))

(** val strtoul_go : coq_Z list -> coq_Z -> bool -> coq_Z **)

let rec strtoul_go l acc sat =
  match l with
  | [] -> if sat then coq_ULONG_MAX else acc
  | c :: r ->
    let acc' =
      Z.add (Z.mul acc (Zpos (Coq_xO (Coq_xI (Coq_xO Coq_xH)))))
        (Z.sub c (Zpos (Coq_xO (Coq_xO (Coq_xO (Coq_xO (Coq_xI Coq_xH)))))))
    in
    if (||) sat (Z.ltb coq_ULONG_MAX acc')
    then strtoul_go r Z0 true
    else strtoul_go r acc' false

(** val number_value : coq_Z list -> coq_Z **)

let number_value digits =
  Z.modulo (strtoul_go digits Z0 false) coq_W32

type lexed = { lx_tok : token; lx_id : string; lx_val : coq_Z;
               lx_line : coq_Z; lx_col : coq_Z }

type lmode =
| MStart
| MComment
| MIdent of coq_Z list
| MNum of coq_Z list

type lstate = { ls_id : string; ls_val : coq_Z; ls_line : coq_Z;
                ls_col : coq_Z }

(** val mk_lexed : token -> lstate -> lexed **)

let mk_lexed t s =
  { lx_tok = t; lx_id = s.ls_id; lx_val = s.ls_val; lx_line = s.ls_line;
    lx_col = s.ls_col }

(** val bump : lstate -> lstate **)

let bump s =
  { ls_id = s.ls_id; ls_val = s.ls_val; ls_line = s.ls_line; ls_col =
    (Z.add s.ls_col (Zpos Coq_xH)) }

(** val newline : lstate -> lstate **)

let newline s =
  { ls_id = s.ls_id; ls_val = s.ls_val; ls_line =
    (Z.add s.ls_line (Zpos Coq_xH)); ls_col = Z0 }

(** val set_id : lstate -> string -> lstate **)

let set_id s i =
  { ls_id = i; ls_val = s.ls_val; ls_line = s.ls_line; ls_col = s.ls_col }

(** val set_val : lstate -> coq_Z -> lstate **)

let set_val s v =
  { ls_id = s.ls_id; ls_val = v; ls_line = s.ls_line; ls_col = s.ls_col }

(** val start_action :
    coq_Z -> coq_Z -> lstate -> ((lexed list * lmode) * lstate) * bool **)

let start_action c _ s =
  if is_space c
  then ((([], MStart),
         (bump
           (if Z.eqb c (Zpos (Coq_xO (Coq_xI (Coq_xO Coq_xH))))
            then newline s
            else s))), false)
  else if Z.eqb c (Zpos (Coq_xI (Coq_xI (Coq_xO (Coq_xO (Coq_xO Coq_xH))))))
       then ((([], MComment), (bump s)), false)
       else if is_alpha c
            then ((([], (MIdent (c :: []))), (bump s)), false)
            else if is_digit c
                 then ((([], (MNum (c :: []))), (bump s)), false)
                 else if Z.eqb c (Zpos (Coq_xI (Coq_xO (Coq_xI (Coq_xI
                           (Coq_xO Coq_xH))))))
                      then (((((mk_lexed TMINUS (bump s)) :: []), MStart),
                             (bump s)), false)
                      else if Z.eqb c coq_EOFc
                           then (((((mk_lexed TEOF s) :: []), MStart), s),
                                  true)
                           else (((((mk_lexed TNONE (bump s)) :: []),
                                  MStart), (bump s)), false)

(** val one_char :
    lmode -> coq_Z -> coq_Z -> lstate -> ((lexed
    list * lmode) * lstate) * bool **)

let one_char m c nxt s =
  match m with
  | MStart -> start_action c nxt s
  | MComment ->
    if Z.eqb c (Zpos (Coq_xO (Coq_xI (Coq_xO Coq_xH))))
    then ((([], MStart), (bump (newline s))), false)
    else if Z.eqb c coq_EOFc
         then start_action c nxt s
         else ((([], MComment), (bump s)), false)
  | MIdent acc ->
    if (||) (is_alnum c)
         (Z.eqb c (Zpos (Coq_xI (Coq_xI (Coq_xI (Coq_xI (Coq_xI (Coq_xO
           Coq_xH))))))))
    then ((([], (MIdent (app acc (c :: [])))), (bump s)), false)
    else let name = string_of_chars acc in
         let s1 = set_id s name in
         let (p, stop) = start_action c nxt s1 in
         let (p0, s') = p in
         let (toks, m') = p0 in
         (((((mk_lexed (keyword name) s1) :: toks), m'), s'), stop)
  | MNum acc ->
    if is_digit c
    then ((([], (MNum (app acc (c :: [])))), (bump s)), false)
    else let s1 = set_val s (number_value acc) in
         let (p, stop) = start_action c nxt s1 in
         let (p0, s') = p in
         let (toks, m') = p0 in
         (((((mk_lexed TNUMBER s1) :: toks), m'), s'), stop)

(** val lex_go : coq_Z list -> coq_Z -> lmode -> lstate -> lexed list **)

let rec lex_go rest c m s =
  match rest with
  | [] ->
    let (p, stop1) = one_char m c coq_EOFc s in
    let (p0, s1) = p in
    let (t1, m1) = p0 in
    if stop1
    then t1
    else let (p1, stop2) = one_char m1 coq_EOFc coq_EOFc s1 in
         let (p2, s2) = p1 in
         let (t2, m2) = p2 in
         if stop2
         then app t1 t2
         else let (p3, _) = one_char m2 coq_EOFc coq_EOFc s2 in
              let (p4, _) = p3 in let (t3, _) = p4 in app t1 (app t2 t3)
  | b :: rest' ->
    let nxt = char_of_byte b in
    let (p, stop) = one_char m c nxt s in
    let (p0, s') = p in
    let (toks, m') = p0 in
    if stop then toks else app toks (lex_go rest' nxt m' s')

(** val lex : coq_Z list -> lexed list **)

let lex src =
  let s0 = { ls_id = EmptyString; ls_val = Z0; ls_line = Z0; ls_col = (Zpos
    Coq_xH) }
  in
  (match src with
   | [] -> lex_go [] coq_EOFc MStart s0
   | b :: r -> lex_go r (char_of_byte b) MStart s0)

type lkind =
| LId
| LFunc
| LProc

type directive =
| DData of coq_Z
| DLabel of lkind * string
| DImm of token * coq_Z
| DRef of token * string * bool
| DOpr of token
| DPadding of coq_Z

type diag =
| EUnexpected of coq_Z * coq_Z * token
| EUnrecognised of coq_Z * coq_Z * token
| EInvalidOpr of coq_Z * coq_Z * token
| EUnknownLabel of nat * string
| EUnaligned of nat
| ENotConverged

type 'a outcome =
| Ok of 'a
| Reject of diag
| UB of string
| OutOfFuel

(** val eof_lexed : lexed **)

let eof_lexed =
  { lx_tok = TEOF; lx_id = EmptyString; lx_val = Z0; lx_line = Z0; lx_col =
    Z0 }

(** val parse_integer :
    lexed -> lexed list -> (coq_Z * lexed list) outcome **)

let parse_integer cur rest =
  match cur.lx_tok with
  | TNUMBER -> Ok ((to_int cur.lx_val), rest)
  | TMINUS ->
    (match rest with
     | [] -> Reject (EUnexpected (cur.lx_line, cur.lx_col, TNUMBER))
     | n :: rest' ->
       if token_eqb n.lx_tok TNUMBER
       then Ok ((to_int (Z.opp n.lx_val)), rest')
       else Reject (EUnexpected (n.lx_line, n.lx_col, TNUMBER)))
  | _ -> Reject (EUnexpected (cur.lx_line, cur.lx_col, TNUMBER))

(** val next_tok : lexed list -> lexed * lexed list **)

let next_tok = function
| [] -> (eof_lexed, [])
| t :: r -> (t, r)

(** val is_abs_opc : token -> bool **)

let is_abs_opc = function
| TLDAM -> true
| TLDBM -> true
| TSTAM -> true
| TLDAC -> true
| TLDBC -> true
| _ -> false

(** val is_rel_opc : token -> bool **)

let is_rel_opc = function
| TLDAP -> true
| TLDAI -> true
| TLDBI -> true
| TSTAI -> true
| TBR -> true
| TBRZ -> true
| TBRN -> true
| _ -> false

(** val parse_directive :
    lexed -> lexed list -> (((coq_Z * coq_Z) * directive) * lexed list)
    outcome **)

let parse_directive cur rest =
  let line = cur.lx_line in
  let col = cur.lx_col in
  (match cur.lx_tok with
   | TDATA ->
     let (n, rest1) = next_tok rest in
     (match parse_integer n rest1 with
      | Ok a -> let (v, rest2) = a in Ok (((line, col), (DData v)), rest2)
      | Reject d -> Reject d
      | UB w -> UB w
      | OutOfFuel -> OutOfFuel)
   | TPROC ->
     let (n, rest1) = next_tok rest in
     Ok (((line, col), (DLabel (LProc, n.lx_id))), rest1)
   | TFUNC ->
     let (n, rest1) = next_tok rest in
     Ok (((line, col), (DLabel (LFunc, n.lx_id))), rest1)
   | TOPR ->
     let (n, rest1) = next_tok rest in
     (match opr_opc n.lx_tok with
      | Some _ -> Ok (((line, col), (DOpr n.lx_tok)), rest1)
      | None -> Reject (EInvalidOpr (line, col, n.lx_tok)))
   | TIDENTIFIER -> Ok (((line, col), (DLabel (LId, cur.lx_id))), rest)
   | x ->
     if (||) (is_abs_opc x) (is_rel_opc x)
     then let (n, rest1) = next_tok rest in
          if token_eqb n.lx_tok TIDENTIFIER
          then Ok (((line, col), (DRef (x, n.lx_id, (is_rel_opc x)))), rest1)
          else (match parse_integer n rest1 with
                | Ok a ->
                  let (v, rest2) = a in
                  Ok (((line, col), (DImm (x, v))), rest2)
                | Reject d -> Reject d
                | UB w -> UB w
                | OutOfFuel -> OutOfFuel)
     else Reject (EUnrecognised (line, col, x)))

(** val parse_go :
    nat -> lexed list -> ((coq_Z * coq_Z) * directive) list ->
    ((coq_Z * coq_Z) * directive) list outcome **)

let rec parse_go fuel rest acc =
  match fuel with
  | O -> OutOfFuel
  | S f ->
    let (cur, rest1) = next_tok rest in
    if token_eqb cur.lx_tok TEOF
    then Ok (rev_append acc [])
    else (match parse_directive cur rest1 with
          | Ok a -> let (p, rest2) = a in parse_go f rest2 (p :: acc)
          | Reject d -> Reject d
          | UB w -> UB w
          | OutOfFuel -> OutOfFuel)

(** val parse : lexed list -> ((coq_Z * coq_Z) * directive) list outcome **)

let parse toks =
  parse_go (S (length toks)) toks []
