open AsmLayout
open AsmModel
open AsmSpec
open BinNums
open List

(** val struct_line : item -> lline **)

let struct_line it =
  let d = it.it_d in
  let st = it.it_st in
  (match d with
   | DData v -> LData (st.d_off, v, (dsize d st))
   | DLabel (_, _) -> LLabel (st.d_off, (dsize d st))
   | DImm (_, v) -> LInstr (st.d_off, (dir_opc d), v, (dsize d st))
   | DRef (_, _, _) -> LInstr (st.d_off, (dir_opc d), st.d_val, (dsize d st))
   | DOpr t ->
     LOpr (st.d_off, (match opr_opc t with
                      | Some k -> k
                      | None -> Z0), (dsize d st))
   | DPadding n -> LPadding n)

(** val struct_listing : layout -> lline list **)

let struct_listing l =
  map struct_line l.l_items
