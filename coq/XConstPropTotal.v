(* XConstPropTotal.v -- the model of xcmp's CreateSymbols + ConstProp + OptimiseExpr (XConstProp.v) never reaches an
   undefined-behaviour outcome, for EVERY program of XAst (well defined or not), in the CURRENT settings of the model:
     repo_arith = ArithWrap                 (+, - and unary - are folded through unsigned: no signed overflow)
     repo_rejects_nonconst_val = true       (exprValue is an optional: a val without a value is never read)
   The outcome of the front end is `COk` (a tree) or `CErr` (a diagnostic: unknown symbol, invalid system call number,
   val not constant, procedure defined twice); `CUB` is unreachable.
   Termination: every function of XConstProp.v is a structural Fixpoint over the syntax tree / the declaration lists
   (no fuel, no well-founded recursion), so totality is by construction: Coq accepted the definitions.
   Both settings are needed: on C int arithmetic `2147483647 + 1` is CUB SignedOverflow (Properties_C07,
   C07_fold_int_overflow_refuted). *)
From Coq Require Import ZArith String List Bool.
From HexVerif Require Import XAst XConstProp.
Import ListNotations.
Local Open Scope Z_scope.

Definition no_ub {A : Type} (r : cres A) : Prop := match r with CUB _ => False | _ => True end.

Lemma no_ub_cbind {A B : Type} (r : cres A) (k : A -> cres B) :
  no_ub r -> (forall a, no_ub (k a)) -> no_ub (cbind r k).
Proof. destruct r; cbn; auto. Qed.

Lemma c_arith_wrap_no_ub z : no_ub (c_arith ArithWrap z). Proof. exact I. Qed.
Lemma fold_un_no_ub o a : no_ub (fold_un ArithWrap o a). Proof. destruct o; exact I. Qed.
Lemma fold_bin_no_ub o a b : no_ub (fold_bin ArithWrap o a b). Proof. destruct o; exact I. Qed.

Section Settings.
  Variable E : cpenv.
  Hypothesis Harith : cp_arith E = ArithWrap.
  Hypothesis Hval : repo_rejects_nonconst_val = true.

  Lemma cp_call_no_ub f id args : no_ub (cp_call E f id args).
  Proof.
    unfold cp_call. cbv zeta. destruct (id =? -1); [destruct (resolve E f)|]; try exact I;
      try (destruct (_ || _); exact I).
    all: try (unfold unset_val_call; rewrite Hval; exact I).
  Qed.

  Lemma cp_expr_no_ub : forall e, no_ub (cp_expr E e).
  Proof.
    fix IH 1. intros e. destruct e as [n|b|bs|x|a i|f args|n args|o a|o l r]; cbn [cp_expr]; try exact I.
    - destruct (resolve E x); try exact I; rewrite Hval; exact I.
    - apply no_ub_cbind; [apply IH|intros; exact I].
    - apply no_ub_cbind.
      + induction args as [|x r IHr]; [exact I|].
        apply no_ub_cbind; [apply IH|]. intros x'. apply no_ub_cbind; [exact IHr|intros; exact I].
      + intros args'. apply no_ub_cbind; [apply cp_call_no_ub|]. intros [[f' id] a']. exact I.
    - apply no_ub_cbind.
      + induction args as [|x r IHr]; [exact I|].
        apply no_ub_cbind; [apply IH|]. intros x'. apply no_ub_cbind; [exact IHr|intros; exact I].
      + intros args'. apply no_ub_cbind; [apply cp_call_no_ub|]. intros [[f' id] a']. exact I.
    - apply no_ub_cbind; [apply IH|]. intros a'. destruct (const_of a'); [|exact I].
      apply no_ub_cbind; [rewrite Harith; apply fold_un_no_ub|intros; exact I].
    - apply no_ub_cbind; [apply IH|]. intros l'. apply no_ub_cbind; [apply IH|]. intros r'.
      destruct (const_of l'); [|exact I]. destruct (const_of r'); [|exact I].
      apply no_ub_cbind; [rewrite Harith; apply fold_bin_no_ub|intros; exact I].
  Qed.

  Lemma cp_exprs_no_ub : forall l, no_ub (cp_exprs E l).
  Proof.
    induction l as [|x r IH]; [exact I|]. cbn [cp_exprs].
    apply no_ub_cbind; [apply cp_expr_no_ub|]. intros x'. apply no_ub_cbind; [exact IH|intros; exact I].
  Qed.

  Lemma cp_stmt_no_ub : forall s, no_ub (cp_stmt E s).
  Proof.
    fix IH 1. intros s. destruct s as [| |e|c t e|c b|ss|x e|a i e|f args|n args]; cbn [cp_stmt]; try exact I.
    - apply no_ub_cbind; [apply cp_expr_no_ub|intros; exact I].
    - apply no_ub_cbind; [apply cp_expr_no_ub|]. intros c'. apply no_ub_cbind; [apply IH|]. intros t'.
      apply no_ub_cbind; [apply IH|intros; exact I].
    - apply no_ub_cbind; [apply cp_expr_no_ub|]. intros c'. apply no_ub_cbind; [apply IH|intros; exact I].
    - apply no_ub_cbind; [|intros; exact I].
      induction ss as [|x r IHr]; [exact I|].
      apply no_ub_cbind; [apply IH|]. intros x'. apply no_ub_cbind; [exact IHr|intros; exact I].
    - apply no_ub_cbind; [apply cp_expr_no_ub|]. intros lhs. apply no_ub_cbind; [apply cp_expr_no_ub|intros; exact I].
    - apply no_ub_cbind; [apply cp_expr_no_ub|]. intros i'. apply no_ub_cbind; [apply cp_expr_no_ub|intros; exact I].
    - apply no_ub_cbind; [apply cp_exprs_no_ub|]. intros args'. apply no_ub_cbind; [apply cp_call_no_ub|]. intros [[f' id] a']. exact I.
    - apply no_ub_cbind; [apply cp_exprs_no_ub|]. intros args'. apply no_ub_cbind; [apply cp_call_no_ub|]. intros [[f' id] a']. exact I.
  Qed.
End Settings.

Lemma cp_decls_no_ub st scope : repo_rejects_nonconst_val = true ->
  forall ds n vals, no_ub (cp_decls ArithWrap st scope ds n vals).
Proof.
  intros Hval. induction ds as [|d r IH]; intros n vals; [exact I|].
  destruct d as [x e|x|x e]; cbn [cp_decls].
  - apply no_ub_cbind; [apply cp_expr_no_ub; first [reflexivity | exact Hval]|]. intros e'.
    destruct (const_of e').
    + apply no_ub_cbind; [apply IH|]. intros [[ds' n'] v']. exact I.
    + rewrite Hval. exact I.
  - apply no_ub_cbind; [apply IH|]. intros [[ds' n'] v']. exact I.
  - apply no_ub_cbind; [apply cp_expr_no_ub; first [reflexivity | exact Hval]|]. intros e'.
    apply no_ub_cbind; [apply IH|]. intros [[ds' n'] v']. exact I.
Qed.

Lemma cp_procs_no_ub st : repo_rejects_nonconst_val = true ->
  forall ps n vals, no_ub (cp_procs ArithWrap st ps n vals).
Proof.
  intros Hval. induction ps as [|p r IH]; intros n vals; [exact I|]. cbn [cp_procs].
  apply no_ub_cbind; [apply cp_decls_no_ub; exact Hval|]. intros [[ds' n'] v'].
  apply no_ub_cbind; [apply cp_stmt_no_ub; first [reflexivity | exact Hval]|]. intros b'.
  apply no_ub_cbind; [apply IH|intros; exact I].
Qed.

(* for any program, with wrap-around folding and optional val values *)
Lemma constprop_with_wrap_no_ub : repo_rejects_nonconst_val = true ->
  forall p, no_ub (constprop_program_with ArithWrap p).
Proof.
  intros Hval p. unfold constprop_program_with. destruct (redefined_proc p); [exact I|].
  apply no_ub_cbind; [apply cp_decls_no_ub; exact Hval|]. intros [[gs' n'] v'].
  apply no_ub_cbind; [apply cp_procs_no_ub; exact Hval|intros; exact I].
Qed.

(* THE CURRENT SETTINGS: CreateSymbols + ConstProp of the model never reach undefined behaviour *)
Theorem constprop_program_no_ub : forall p : program,
  match constprop_program p with CUB _ => False | _ => True end.
Proof. intros p. exact (constprop_with_wrap_no_ub eq_refl p). Qed.

(* ... and neither does the whole front end (CreateSymbols, ConstProp, OptimiseExpr, the code generator's reading),
   nor the two tree dumps; OptimiseExpr and the printer are total functions that have no failure outcome at all *)
Theorem constprop_no_ub : forall p : program,
  match front p with CUB _ => False | _ => True end.
Proof.
  intros p. unfold front. pose proof (constprop_program_no_ub p) as H.
  destruct (constprop_program p); cbn [cbind]; auto.
Qed.

Theorem tree_no_ub : forall p : program,
  match tree p with CUB _ => False | _ => True end /\ match tree_opt p with CUB _ => False | _ => True end.
Proof.
  intros p. unfold tree, tree_opt. pose proof (constprop_program_no_ub p) as H.
  destruct (constprop_program p); cbn [cbind]; auto.
Qed.

(* the outcome is a tree or one of the four diagnostics *)
Corollary front_outcome : forall p : program, (exists q, front p = COk q) \/ (exists e, front p = CErr e).
Proof.
  intros p. pose proof (constprop_no_ub p) as H. destruct (front p) as [q|u|e]; [left; eauto|contradiction|right; eauto].
Qed.
Print Assumptions constprop_no_ub.
Print Assumptions tree_no_ub.
