(* AsmListingRead.v -- the listing of hexasm --instrs / xcmp -S as TEXT, and a total reader for it.
   (a) line_text / listing_text: the bytes CodeGen::emitProgramText prints for the model's listing triples
       (offset, Directive::toString(), size):  boost::format("%#08x %-20s (%d bytes)\n"), then "%d bytes\n".
       %#08x prints 0 as 00000000 (no 0x for zero) and everything else as 0x + at least six lower-case digits.
   (b) read_listing_line / read_listing: what a reader of that text sees, as AsmSpec.lline values: split the line at
       blanks; first word = offset, last two words = "(<size>" "bytes)", the words in between are the directive:
         no word or one word ............ a label line (names contain no blank, every other line has two words or more)
         FUNC n | PROC n ................ a label line
         DATA v ......................... LData          OPR BRB|ADD|SUB|SVC ... LOpr          PADDING n ... LPadding
         MNEMONIC v | MNEMONIC (v) ...... LInstr         MNEMONIC name (v) ..... LInstr with the value in parentheses
       anything else is refused (None).
   No proofs here: AsmListingReadProofs.v shows that reading the text printed for a layout gives exactly
   AsmStatements.struct_listing of that layout. *)
From Coq Require Import ZArith List String Ascii Bool.
From HexVerif Require Import WMap AsmModel AsmLayout AsmSpec.
Import ListNotations.
Local Open Scope Z_scope.

(* ------------------------------------------------------------------ printing *)
Definition dchar (d : Z) : Z := if d <? 10 then 48 + d else 87 + d.
(* the digits of n >= 0 in base b, most significant first (fuel = maximal number of digits) *)
Fixpoint digits (b : Z) (fuel : nat) (n : Z) : list Z :=
  match fuel with
  | O => []
  | S f => if n <? b then [dchar n] else digits b f (n / b) ++ [dchar (n mod b)]
  end.
Definition hex (n : Z) : list Z := digits 16 20 n.
Definition pad_left (c : Z) (w : nat) (l : list Z) : list Z := repeat c (w - List.length l) ++ l.
Definition pad_right (c : Z) (w : nat) (l : list Z) : list Z := l ++ repeat c (w - List.length l).

Definition off_text (off : Z) : list Z :=
  if off =? 0 then repeat 48 8 else [48; 120] ++ pad_left 48 6 (hex off).
Definition dec_bytes (n : Z) : list Z := bytes_of_string (dec n).
Definition w_bytes_close : list Z := [98; 121; 116; 101; 115; 41].      (* bytes) *)
Definition w_bytes : list Z := [98; 121; 116; 101; 115].                (* bytes *)

Definition line_text (l : Z * string * Z) : list Z :=
  let '(off, text, size) := l in
  off_text off ++ 32 :: (pad_right 32 20 (bytes_of_string text) ++ 32 :: (40 :: dec_bytes size) ++ 32 :: w_bytes_close).
Definition total_text (n : Z) : list Z := dec_bytes n ++ 32 :: w_bytes.

(* the lines of the whole listing, without line ends *)
Definition listing_lines (ls : list (Z * string * Z)) (total : Z) : list (list Z) := map line_text ls ++ [total_text total].
Definition listing_text (L : layout) : list (list Z) := listing_lines (listing L) (listing_total L).

(* ------------------------------------------------------------------ reading *)
(* the words of a line (separated by one or more blanks) *)
Fixpoint tokens (l : list Z) : list (list Z) :=
  match l with
  | [] => []
  | c :: r =>
      if c =? 32 then tokens r else
      match r with
      | [] => [[c]]
      | c2 :: _ => if c2 =? 32 then [c] :: tokens r
                   else match tokens r with t :: ts => (c :: t) :: ts | [] => [[c]] end
      end
  end.

Definition digit_of (b c : Z) : option Z :=
  if (48 <=? c) && (c <=? 57) then Some (c - 48)
  else if (b =? 16) && (97 <=? c) && (c <=? 102) then Some (c - 87) else None.
Fixpoint num_go (b : Z) (l : list Z) (acc : Z) : option Z :=
  match l with
  | [] => Some acc
  | c :: r => match digit_of b c with Some d => num_go b r (acc * b + d) | None => None end
  end.
Definition read_nat (b : Z) (l : list Z) : option Z := match l with [] => None | _ => num_go b l 0 end.
Definition read_int (l : list Z) : option Z :=
  match l with
  | [] => None
  | c :: r => if c =? 45 then option_map Z.opp (read_nat 10 r) else read_nat 10 l
  end.
(* "(v)" *)
Definition read_paren_int (l : list Z) : option Z :=
  match l with
  | c :: r => if c =? 40 then match rev r with d :: m => if d =? 41 then read_int (rev m) else None | [] => None end else None
  | [] => None
  end.
(* "(n" *)
Definition read_size (l : list Z) : option Z :=
  match l with c :: r => if c =? 40 then read_nat 10 r else None | [] => None end.
(* "0x<hex>" or a run of zeros *)
Definition read_off (l : list Z) : option Z :=
  match l with
  | c :: d :: r => if (c =? 48) && (d =? 120) then read_nat 16 r
                   else if forallb (Z.eqb 48) l then Some 0 else None
  | [c] => if c =? 48 then Some 0 else None
  | [] => None
  end.

Fixpoint list_eqb (a b : list Z) : bool :=
  match a, b with
  | [], [] => true
  | x :: a', y :: b' => (x =? y) && list_eqb a' b'
  | _, _ => false
  end.
Fixpoint assoc (w : list Z) (tab : list (list Z * Z)) : option Z :=
  match tab with [] => None | (k, v) :: r => if list_eqb w k then Some v else assoc w r end.

Definition mnemonics : list (list Z * Z) :=
  map (fun p : string * Z => (bytes_of_string (fst p), snd p))
      [("LDAM", 0); ("LDBM", 1); ("STAM", 2); ("LDAC", 3); ("LDBC", 4); ("LDAP", 5); ("LDAI", 6); ("LDBI", 7); ("STAI", 8);
       ("BR", 9); ("BRZ", 10); ("BRN", 11)]%string.
Definition oprs : list (list Z * Z) :=
  map (fun p : string * Z => (bytes_of_string (fst p), snd p)) [("BRB", 0); ("ADD", 1); ("SUB", 2); ("SVC", 3)]%string.

Inductive wordkind := WLabel | WData | WOpr | WPadding | WMnem (opc : Z) | WOther.
Definition classify (a : list Z) : wordkind :=
  if list_eqb a (bytes_of_string "FUNC") || list_eqb a (bytes_of_string "PROC") then WLabel
  else if list_eqb a (bytes_of_string "DATA") then WData
  else if list_eqb a (bytes_of_string "OPR") then WOpr
  else if list_eqb a (bytes_of_string "PADDING") then WPadding
  else match assoc a mnemonics with Some c => WMnem c | None => WOther end.

(* the directive words of a line whose offset and size columns read `off` and `size` *)
Definition read_text (off size : Z) (ws : list (list Z)) : option lline :=
  match ws with
  | [] | [_] => Some (LLabel off size)
  | [a; b] =>
      match classify a with
      | WLabel => Some (LLabel off size)
      | WData => option_map (fun v => LData off v size) (read_int b)
      | WOpr => option_map (fun k => LOpr off k size) (assoc b oprs)
      | WPadding => match read_int b with Some _ => Some (LPadding size) | None => None end
      | WMnem c => match read_paren_int b with
                   | Some v => Some (LInstr off c v size)
                   | None => option_map (fun v => LInstr off c v size) (read_int b)
                   end
      | WOther => None
      end
  | [a; b; c] =>
      match classify a, read_paren_int c with
      | WMnem opc, Some v => Some (LInstr off opc v size)
      | _, _ => None
      end
  | _ => None
  end.

Definition read_listing_line (line : list Z) : option lline :=
  match tokens line with
  | offw :: rest =>
      match rev rest with
      | bw :: sw :: rtext =>
          if list_eqb bw w_bytes_close then
            match read_off offw, read_size sw with
            | Some off, Some size => read_text off size (rev rtext)
            | _, _ => None
            end
          else None
      | _ => None
      end
  | [] => None
  end.

(* the last line of a listing: "<n> bytes" *)
Definition is_total_line (line : list Z) : bool :=
  match tokens line with
  | [a; b] => match read_int a with Some _ => list_eqb b w_bytes | None => false end
  | _ => false
  end.

(* all lines of a listing; a final total line is accepted and carries no item *)
Fixpoint read_listing (lines : list (list Z)) : option (list lline) :=
  match lines with
  | [] => Some []
  | [l] => if is_total_line l then Some [] else option_map (fun x => [x]) (read_listing_line l)
  | l :: r => match read_listing_line l, read_listing r with
              | Some x, Some xs => Some (x :: xs)
              | _, _ => None
              end
  end.
