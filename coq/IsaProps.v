(* IsaProps.v -- facts about the ISA spec itself: byte-granular fetch from a little-endian image. *)
From Coq Require Import ZArith List Lia Bool.
From HexVerif Require Import WMap Isa.
Import ListNotations.
Local Open Scope Z_scope.

Ltac Zify.zify_post_hook ::= Z.div_mod_to_equations.

Definition is_byte (b : Z) : Prop := 0 <= b < 256.

Lemma list_ind4 (P : list Z -> Prop) :
  P [] -> (forall a, P [a]) -> (forall a b, P [a; b]) -> (forall a b c, P [a; b; c]) ->
  (forall a b c d r, P r -> P (a :: b :: c :: d :: r)) -> forall l, P l.
Proof.
  intros H0 H1 H2 H3 H4.
  assert (G: forall n l, (length l <= n)%nat -> P l).
  { induction n as [|n IH]; intros l Hl.
    - destruct l; [exact H0 | cbn in Hl; lia].
    - destruct l as [|a [|b [|c [|d r]]]]; auto. apply H4. apply IH. cbn [length] in Hl. lia. }
  intros l. apply (G (length l)). lia.
Qed.

Lemma byte_of_word b0 b1 b2 b3 k :
  is_byte b0 -> is_byte b1 -> is_byte b2 -> is_byte b3 -> 0 <= k < 4 ->
  ((b0 + 256 * b1 + 65536 * b2 + 16777216 * b3) / 2 ^ (8 * k)) mod 256 = nth (Z.to_nat k) [b0; b1; b2; b3] 0.
Proof.
  unfold is_byte. intros H0 H1 H2 H3 Hk.
  assert (k = 0 \/ k = 1 \/ k = 2 \/ k = 3) as [->|[->|[->| ->]]] by lia.
  - change (2 ^ (8 * 0)) with 1. change (nth (Z.to_nat 0) [b0; b1; b2; b3] 0) with b0. lia.
  - change (2 ^ (8 * 1)) with 256. change (nth (Z.to_nat 1) [b0; b1; b2; b3] 0) with b1. lia.
  - change (2 ^ (8 * 2)) with 65536. change (nth (Z.to_nat 2) [b0; b1; b2; b3] 0) with b2. lia.
  - change (2 ^ (8 * 3)) with 16777216. change (nth (Z.to_nat 3) [b0; b1; b2; b3] 0) with b3. lia.
Qed.

Lemma words_of_bytes_nth : forall bs, Forall is_byte bs -> forall i, (i < length bs)%nat ->
  (nth (i / 4) (words_of_bytes bs) 0 / 2 ^ (8 * Z.of_nat (i mod 4))) mod 256 = nth i bs 0.
Proof.
  intros bs. induction bs as [|a|a b|a b c|a b c d r IH] using list_ind4; intros HF i Hi; cbn [length] in Hi.
  - lia.
  - inversion HF as [|? ? Ha HF1]; subst.
    assert (Z0: is_byte 0) by (unfold is_byte; lia).
    rewrite Nat.div_small, Nat.mod_small by lia. cbn [words_of_bytes nth].
    replace a with (a + 256 * 0 + 65536 * 0 + 16777216 * 0) at 1 by lia.
    rewrite (byte_of_word a 0 0 0 (Z.of_nat i) Ha Z0 Z0 Z0) by lia. rewrite Nat2Z.id.
    do 1 (destruct i as [|i]; [reflexivity|]). lia.
  - inversion HF as [|? ? Ha HF1]; subst. inversion HF1 as [|? ? Hb HF2]; subst.
    assert (Z0: is_byte 0) by (unfold is_byte; lia).
    rewrite Nat.div_small, Nat.mod_small by lia. cbn [words_of_bytes nth].
    replace (a + 256 * b) with (a + 256 * b + 65536 * 0 + 16777216 * 0) by lia.
    rewrite (byte_of_word a b 0 0 (Z.of_nat i) Ha Hb Z0 Z0) by lia. rewrite Nat2Z.id.
    do 2 (destruct i as [|i]; [reflexivity|]). lia.
  - inversion HF as [|? ? Ha HF1]; subst. inversion HF1 as [|? ? Hb HF2]; subst. inversion HF2 as [|? ? Hc HF3]; subst.
    assert (Z0: is_byte 0) by (unfold is_byte; lia).
    rewrite Nat.div_small, Nat.mod_small by lia. cbn [words_of_bytes nth].
    replace (a + 256 * b + 65536 * c) with (a + 256 * b + 65536 * c + 16777216 * 0) by lia.
    rewrite (byte_of_word a b c 0 (Z.of_nat i) Ha Hb Hc Z0) by lia. rewrite Nat2Z.id.
    do 3 (destruct i as [|i]; [reflexivity|]). lia.
  - inversion HF as [|? ? Ha HF1]; subst. inversion HF1 as [|? ? Hb HF2]; subst.
    inversion HF2 as [|? ? Hc HF3]; subst. inversion HF3 as [|? ? Hd HF4]; subst.
    cbn [words_of_bytes].
    destruct (Nat.lt_ge_cases i 4) as [Hlt|Hge].
    + assert (i / 4 = 0)%nat as -> by (apply Nat.div_small; lia).
      rewrite Nat.mod_small by lia. cbn [nth].
      rewrite (byte_of_word a b c d (Z.of_nat i) Ha Hb Hc Hd) by lia. rewrite Nat2Z.id.
      do 4 (destruct i as [|i]; [reflexivity|]). lia.
    + replace i with (4 + (i - 4))%nat by lia.
      replace ((4 + (i - 4)) / 4)%nat with (S ((i - 4) / 4)).
      2:{ replace (4 + (i - 4))%nat with ((i - 4) + 1 * 4)%nat by lia. rewrite Nat.div_add by lia. lia. }
      replace ((4 + (i - 4)) mod 4)%nat with ((i - 4) mod 4)%nat.
      2:{ replace (4 + (i - 4))%nat with ((i - 4) + 1 * 4)%nat by lia. rewrite Nat.mod_add by lia. reflexivity. }
      cbn [nth Nat.add]. apply IH; [assumption | lia].
Qed.

(* The byte the ISA fetches at address i of a booted image is byte i of the image file. *)
Theorem fetch_is_byte_of_image bs i a b o :
  Forall is_byte bs -> (i < length bs)%nat ->
  fetch {| pc := Z.of_nat i; areg := a; breg := b; oreg := o; mem := load_words WMap.zero 0 (words_of_bytes bs) |} = nth i bs 0.
Proof.
  intros HF Hi. unfold fetch. cbn [pc mem].
  assert (Hlen: (i / 4 < length (words_of_bytes bs))%nat).
  { clear HF. revert i Hi. induction bs as [|x|x y|x y z|x y z w r IH] using list_ind4; intros i Hi; cbn [length words_of_bytes] in *; try lia.
    - assert (i / 4 = 0)%nat as -> by (apply Nat.div_small; lia). lia.
    - assert (i / 4 = 0)%nat as -> by (apply Nat.div_small; lia). lia.
    - assert (i / 4 = 0)%nat as -> by (apply Nat.div_small; lia). lia.
    - destruct (Nat.lt_ge_cases i 4) as [Hlt|Hge].
      + assert (i / 4 = 0)%nat as -> by (apply Nat.div_small; lia). lia.
      + replace i with ((i - 4) + 1 * 4)%nat by lia. rewrite Nat.div_add by lia.
        specialize (IH (i - 4)%nat ltac:(lia)). lia. }
  replace (Z.of_nat i / 4) with (0 + Z.of_nat (i / 4)) by (rewrite Nat2Z.inj_div; reflexivity).
  rewrite rd_load_words_inside by (try lia; exact Hlen).
  replace (Z.of_nat i mod 4) with (Z.of_nat (i mod 4)) by (rewrite Nat2Z.inj_mod; reflexivity).
  apply words_of_bytes_nth; assumption.
Qed.

(* The ISA is a function: a state and an input have exactly one successor (trivially, as step is a
   Gallina function); stated for the record because C02 speaks of "the unique trace". *)
Theorem run_unique n s inp evs r1 r2 : run n s inp evs = r1 -> run n s inp evs = r2 -> r1 = r2.
Proof. congruence. Qed.
