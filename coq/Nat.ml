open Datatypes

(** val add : nat -> nat -> nat **)

let rec add n m =
  match n with
  | O -> m
  | S p -> S (add p m)
