(* XAst.v -- abstract syntax of X as accepted by xcmp's parser (xcmp.hpp, class Parser).  No precedence:
   a binary expression has exactly two operands unless it is a chain of one associative operator
   (+, and, or), which the parser nests to the right.  This file is part of THE SPEC of X (with XSem.v):
   no proofs, nothing that models the compiler. *)
From Coq Require Import ZArith String List.

Inductive binop := Plus | Minus | Or | And | Eq | Ne | Ls | Le | Gr | Ge.
Inductive unop := Neg | Not.

Inductive expr :=
| ENum (n : Z)                         (* decimal, #hex, 'c' : value as parsed into `unsigned` *)
| EBool (b : bool)
| EStr (bytes : list Z)
| EVar (x : string)                    (* variable, val, array name, formal *)
| ESub (a : string) (i : expr)         (* a[i] *)
| ECall (f : string) (args : list expr)
| ESys (n : Z) (args : list expr)      (* n(args): literal system-call number *)
| EUn (o : unop) (e : expr)
| EBin (o : binop) (l r : expr).

Inductive stmt :=
| SSkip | SStop
| SReturn (e : expr)
| SIf (c : expr) (t e : stmt)
| SWhile (c : expr) (b : stmt)
| SSeq (ss : list stmt)
| SAssign (x : string) (e : expr)
| SAssignSub (a : string) (i e : expr)
| SCall (f : string) (args : list expr)
| SSys (n : Z) (args : list expr).

Inductive decl := DVal (x : string) (e : expr) | DVar (x : string) | DArray (x : string) (len : expr).
Inductive formal := FVal (x : string) | FArray (x : string) | FProc (x : string) | FFunc (x : string).
Record proc := { is_func : bool; pname : string; formals : list formal; locals : list decl; body : stmt }.
Record program := { globals : list decl; procs : list proc }.
