(* XCodegenStmt.v -- a model of xcmp's statement code generation (xcmp.hpp StmtCodeGen, genSysCall for call-free
   actuals) and its correctness against Isa.step and XSem.exec.

   Input: statements in the form the code generator reads them (after XConstProp.front).
   Fragment: skip, stop, return e, if (with xcmp's three shapes for skip branches), while, sequences, assignment
   to a global, a local or a value formal, assignment to an element of an array in scope, the system calls exit
   `0(e)` and put `1(e, s)` as statements, procedure-call statements and function calls as whole right-hand sides
   (relative to call_spec; XCodegenCall.v discharges it), the system call get `2(s)` as a whole right-hand side, over
   the expressions of XCodegenExpr.v; array names in scope (global arrays, array formals) as actuals; calls and get on
   the left spine of + - = < ~ with simple right operands (cgl), also as conditions and as the first actual of a
   procedure-call statement whose other actuals are simple (cargs1) and as the byte of a put statement.
   Not in the fragment: calls (and get) in right operands, subscripts and other actuals.
   The code is the one handed to OptimiseDirectives (before its three peephole rewrites).

   stmt_correct: if XSem executes the statement from a state related to the machine memory (Rel: protected words
   intact, mem[1] = sp, every variable's word holds its value), then the generated code run on Isa.run from its
   first byte with the console holding XSem's remaining input emits events whose outputs are exactly those XSem
   records, leaves the console holding XSem's remaining input, and
     - ends just behind the code in a related state            (the statement terminates normally), or
     - ends at the procedure's exit label with the value in areg (return), or
     - performs the exit system call with the spec's exit value (stop / exit). *)
From Coq Require Import ZArith List String Bool Lia Wf_nat FMapPositive.
From HexVerif Require Import WMap Isa XAst XSem XCodegenIsa XCodegenInv XCodegenExpr.
Import ListNotations.
Local Open Scope Z_scope.

Ltac Zify.zify_post_hook ::= Z.div_mod_to_equations.

Definition is_skip (s : stmt) : bool := match s with SSkip => true | _ => false end.
Definition store_var (l : loc) : list instr :=
  match l with LGlobal a => [STAM a] | LFrame k => [LDBM 1; STAI k] end.

(* what a call site knows of a procedure: its entry label and whether it is a function *)
Record pframe := { pf_entry : label; pf_isfunc : bool }.

Section Codegen.
  Variable pinfo : string -> option pframe.   (* the procedures that may be called *)
  Variable venv : string -> option loc.
  Variable pool : Z -> option Z.
  Variables size nslots : Z.
  Variable aenv : string -> option loc.   (* the arrays in scope *)
  Variable off0 : Z.            (* frame offset of the first temporary (after the locals) *)
  Variable og : Z.              (* words of the frame's outgoing area (link, return value, actuals) *)
  Variable exitl : label.       (* the procedure's exit label *)

  Definition cge (e : expr) (n : label) : option (list instr * label) := cg venv pool size nslots aenv e RA n off0.

  (* an actual: an expression of the fragment, or the name of an array in scope (passed by the address of its cells) *)
  Definition carg (e : expr) (n : label) : option (list instr * label) :=
    match e with
    | EVar a => match aenv a with Some l => Some (gen_var RA l, n) | None => cge e n end
    | _ => cge e n
    end.
  (* loadActuals for call-free actuals: actual i goes to the outgoing word sp + k + i *)
  Fixpoint cargs (args : list expr) (k : Z) (n : label) : option (list instr * label) :=
    match args with
    | [] => Some ([], n)
    | e :: r => do (c, n1) <- carg e n; do (cr, n2) <- cargs r (k + 1) n1; Some (c ++ [LDBM 1; STAI k] ++ cr, n2)
    end.

  (* the right-hand side of an assignment / the value of a return: an expression of the fragment, or a call of a
     function with call-free actuals as the WHOLE expression (genFuncCall: the actuals go to the outgoing words
     sp+2.., branch and link, the result is read from the outgoing word sp+1) *)
  Definition cgx (e : expr) (n : label) : option (list instr * label) :=
    match e with
    | ECall g args =>
        do pi <- pinfo g;
        if pf_isfunc pi then
          if Z.of_nat (List.length args) + 2 <=? og then
            do (c, n1) <- cargs args 2 n; Some (c ++ [LDAP n1; BR (pf_entry pi); LABEL n1] ++ [LDAM 1; LDAI 1], n1 + 1)
          else None
        else None
    | ESys 2 [st] =>
        (* get: genSysCall in an expression -- the stream goes to the outgoing word sp+2, LDAC 2; SVC, the byte read is
           in the outgoing word sp+1 *)
        if 3 <=? og then do (c, n1) <- cge st n; Some (c ++ [LDBM 1; STAI 2; LDAC 2; SVC; LDAM 1; LDAI 1], n1) else None
    | _ => cge e n
    end.

  (* an expression whose LEFT spine contains a call or get: the operators + - = < with a simple right operand (a
     literal or a variable: genBinopOperands computes the left operand first, then loads the right one into breg), and ~;
     anything without a call is an expression of the fragment *)
  Fixpoint cgl (e : expr) (n : label) : option (list instr * label) :=
    if pure e then cge e n else
    match e with
    | EBin o l r =>
        if simple r then
          let arith (opi : instr) :=
            do (cl, n1) <- cgl l n; do (cr, n2) <- cg venv pool size nslots aenv r RB n1 off0; Some (cl ++ cr ++ [opi], n2) in
          match o with
          | Plus => arith ADD
          | Minus => arith SUB
          | Eq => do (c, n1) <- (if is_zero r then cgl l n else arith SUB); Some (c ++ bool_tail BRZ n1, n1 + 2)
          | Ls => do (c, n1) <- (if is_zero r then cgl l n else arith SUB); Some (c ++ bool_tail BRN n1, n1 + 2)
          | _ => None
          end
        else None
    | EUn Not a => do (c, n1) <- cgl a (n + 2); Some (c ++ bool_tail BRZ n, n1)
    | _ => cgx e n
    end.

  (* the actuals of a procedure call whose FIRST actual has a call (or get) on its left spine while the others are simple
     (literals, variables, array names): genCallActuals computes it first and saves it in the first temporary, loadActuals
     copies it to its outgoing word, then the simple actuals are stored -- the order in which XSem evaluates them *)
  Definition cargs1 (args : list expr) (k : Z) (n : label) : option (list instr * label) :=
    match args with
    | e :: r =>
        if pure e then cargs args k n
        else if forallb simple r && ((0 <=? off0) && (off0 <? nslots)) then
          do (c, n1) <- cgl e n; do (cr, n2) <- cargs r (k + 1) n1;
          Some (c ++ [LDBM 1; STAI (size - 1 - off0)] ++ [LDAM 1; LDAI (size - 1 - off0); LDBM 1; STAI k] ++ cr, n2)
        else None
    | [] => cargs args k n
    end.

  Fixpoint cs (s : stmt) (n : label) {struct s} : option (list instr * label) :=
    match s with
    | SSkip => Some ([], n)
    | SStop => Some ([LDBM 1; LDAC 0; STAI 2; SVC], n)
    | SReturn e => do (c, n1) <- cgl e n; Some (c ++ [BR exitl], n1)
    | SIf c t e =>
        if is_skip t && is_skip e then (if pure c then Some ([], n) else None)
        else if is_skip e then
          do (cc, n1) <- cgl c (n + 1); do (ct, n2) <- cs t n1;
          Some (cc ++ [BRZ n] ++ ct ++ [LABEL n], n2)
        else if is_skip t then
          do (cc, n1) <- cgl c (n + 2); do (ce, n2) <- cs e n1;
          Some (cc ++ [BRZ n; BR (n + 1); LABEL n] ++ ce ++ [LABEL (n + 1)], n2)
        else
          do (cc, n1) <- cgl c (n + 2); do (ct, n2) <- cs t n1; do (ce, n3) <- cs e n2;
          Some (cc ++ [BRZ n] ++ ct ++ [BR (n + 1); LABEL n] ++ ce ++ [LABEL (n + 1)], n3)
    | SWhile c b =>
        do (cc, n1) <- cgl c (n + 2); do (cb, n2) <- cs b n1;
        Some ([LABEL n] ++ cc ++ [BRZ (n + 1)] ++ cb ++ [BR n; LABEL (n + 1)], n2)
    | SSeq ss =>
        (fix go (l : list stmt) (n : label) : option (list instr * label) :=
           match l with
           | [] => Some ([], n)
           | x :: r => do (c1, n1) <- cs x n; do (c2, n2) <- go r n1; Some (c1 ++ c2, n2)
           end) ss n
    | SAssign x e => do l <- venv x; do (c, n1) <- cgl e n; Some (c ++ store_var l, n1)
    | SAssignSub a i e =>
        (* the element's address is saved in the first temporary while the value is computed *)
        do l <- aenv a;
        if (0 <=? off0) && (off0 <? nslots) then
          do (ci, n1) <- cge i n;
          do (ce, n2) <- cg venv pool size nslots aenv e RA n1 (off0 + 1);
          Some (ci ++ gen_var RB l ++ [ADD; LDBM 1; STAI (size - 1 - off0)] ++ ce ++ [LDBM 1; LDBI (size - 1 - off0); STAI 0], n2)
        else None
    | SCall p args =>
        (* genProcCall: the actuals, then branch and link *)
        do pi <- pinfo p;
        if pf_isfunc pi then None
        else if Z.of_nat (List.length args) + 1 <=? og then
          do (c, n1) <- cargs1 args 1 n; Some (c ++ [LDAP n1; BR (pf_entry pi); LABEL n1], n1 + 1)
        else None
    | SSys 0 [e] =>
        if 3 <=? og then do (c, n1) <- cge e n; Some (c ++ [LDBM 1; STAI 2; LDAC 0; SVC; LDAM 1; LDAI 1], n1) else None
    | SSys 1 [e; st] =>
        if 4 <=? og then
          if pure e then
            do (c1, n1) <- cge e n; do (c2, n2) <- cge st n1;
            Some (c1 ++ [LDBM 1; STAI 2] ++ c2 ++ [LDBM 1; STAI 3; LDAC 1; SVC; LDAM 1; LDAI 1], n2)
          else if simple st && ((0 <=? off0) && (off0 <? nslots)) then
            (* put(f(..) .., s): the byte has a call on its left spine, the stream is simple -- the byte is computed first,
               saved in the first temporary and copied to its outgoing word (genCallActuals / loadActuals) *)
            do (c1, n1) <- cgl e n; do (c2, n2) <- cge st n1;
            Some (c1 ++ [LDBM 1; STAI (size - 1 - off0)] ++ [LDAM 1; LDAI (size - 1 - off0); LDBM 1; STAI 2] ++ c2 ++
                  [LDBM 1; STAI 3; LDAC 1; SVC; LDAM 1; LDAI 1], n2)
          else None
        else None
    | _ => None
    end.

  Fixpoint cs_list (l : list stmt) (n : label) : option (list instr * label) :=
    match l with
    | [] => Some ([], n)
    | x :: r => do (c1, n1) <- cs x n; do (c2, n2) <- cs_list r n1; Some (c1 ++ c2, n2)
    end.
  Lemma cs_seq ss n : cs (SSeq ss) n = cs_list ss n.
  Proof. cbn [cs]. revert n. induction ss as [|x r IH]; intros n; cbn [cs_list]; [reflexivity|]. destruct (cs x n) as [[c1 n1]|]; cbn [obind]; [|reflexivity]. rewrite IH. reflexivity. Qed.
End Codegen.

(* OptimiseDirectives: the three peephole rewrites applied to the lowered directives *)
Fixpoint peephole (fuel : nat) (c : list instr) : list instr :=
  match fuel with
  | O => c
  | S f =>
      match c with
      | BR l :: LABEL l' :: r => if l =? l' then LABEL l' :: peephole f r else BR l :: peephole f (LABEL l' :: r)
      | STAM 1 :: LDAM 1 :: r => STAM 1 :: peephole f r        (* only operands that are not labels: the stack pointer word *)
      | LDBM 1 :: STAI x :: LDAM 1 :: LDAI y :: r =>
          if x =? y then LDBM 1 :: STAI x :: peephole f r else LDBM 1 :: peephole f (STAI x :: LDAM 1 :: LDAI y :: r)
      | i :: r => i :: peephole f r
      | [] => []
      end
  end.

(* a whole procedure as lowered (LowerDirectives: prologue, body, exit label, epilogue) and then optimised;
   labels: the exit label is 0, the body's labels are numbered from 1 *)
Definition prologue (size : Z) : list instr :=
  [LDBM 1; STAI 0] ++ (if 0 <? size then [LDAC (- size); ADD; STAM 1] else []).
Definition epilogue (isf : bool) (size : Z) : list instr :=
  [LABEL 0] ++ (if isf then [LDBM 1; STAI (size + 1)] else [LDBM 1]) ++
  (if 0 <? size then [LDAC size; ADD; STAM 1] else []) ++ [LDBI size; BRB].
(* the arrays a procedure body sees: its array formals (the frame word of formal i holds the address of the cells of
   the array passed) and the global arrays whose name no local or formal hides *)
Definition is_arr_formal (f : formal) : bool := match f with FArray _ => true | _ => false end.
Definition frame_aenv (aaddr : string -> option Z) (p : proc) (size : Z) : string -> option loc :=
  fun x =>
    match index_of x (map local_decl_name (locals p)) 0 with
    | Some _ => None
    | None =>
        match index_of x (map formal_nm (formals p)) 0 with
        | Some i => if existsb (fun f => String.eqb x (formal_nm f) && is_arr_formal f) (formals p)
                    then Some (LFrame (size + (if is_func p then 2 else 1) + i)) else None
        | None => match aaddr x with Some w => Some (LGlobal w) | None => None end
        end
    end.
Definition cproc_lowered (pinfo : string -> option pframe) (gaddr aaddr : string -> option Z) (pool : Z -> option Z) (p : proc) (size og : Z) : option (list instr) :=
  do (c, _) <- cs pinfo (frame_venv gaddr p size) pool size size (frame_aenv aaddr p size) (first_temp p) og 0 (body p) 1;
  Some (prologue size ++ c ++ epilogue (is_func p) size).
Definition cproc (pinfo : string -> option pframe) (gaddr aaddr : string -> option Z) (pool : Z -> option Z) (p : proc) (size og : Z) : option (list instr) :=
  do c <- cproc_lowered pinfo gaddr aaddr pool p size og; Some (peephole (List.length c) c).

(* ---------------------------------------------------------------- correctness *)
(* the outputs among the events of a run, as (stream, byte) *)
Fixpoint writes (evs : list event) : list (Z * Z) :=
  match evs with
  | [] => []
  | Write b st :: r => (st, b) :: writes r
  | _ :: r => writes r
  end.
Lemma writes_app e1 e2 : writes (e1 ++ e2) = writes e1 ++ writes e2.
Proof. induction e1 as [|[| | |] r IH]; cbn [app writes]; [reflexivity | exact IH | exact IH | rewrite IH; reflexivity | exact IH]. Qed.
(* the inputs of the machine when the spec state is s: the console holds what XSem has not consumed yet (input from
   file streams is outside XSem: the files stay as they are) *)
Definition adv (inp : inputs) (s : state) : inputs := {| console := input s; files := files inp |}.
Lemma adv_id inp s : console inp = input s -> adv inp s = inp.
Proof. destruct inp as [c f]. cbn. intros ->. reflexivity. Qed.
Lemma adv_eq inp s s' : input s' = input s -> adv inp s' = adv inp s.
Proof. unfold adv. intros ->. reflexivity. Qed.

Section Correct.
  Variable pinfo : string -> option pframe.
  Variable Fr : Z -> Prop.              (* the free stack below the frame (used by callees) *)
  Variable Dq : nat -> Prop.            (* an invariant of the call depth (the stack budget), handed on to callees *)
  Variable venv : string -> option loc.
  Variable aenv : string -> option loc.     (* the arrays in scope: the word that holds the address of the cells *)
  Variable garr : string -> bool.           (* the global arrays *)
  Variables abase alen_of : string -> Z.    (* where the cells of a global array are, and how many *)
  Variable pool : Z -> option Z.
  Variables size nslots off0 og : Z.
  Variable exitl : label.
  Variable ge : genv.
  Variable P : Z -> Prop.
  Variable m0 : WMap.t.
  Variable lab : label -> Z.
  Variable sp : Z.

  Notation Cm := (C P m0).
  Notation Tm := (T size nslots sp off0).
  Definition O (a : Z) : Prop := sp <= a < sp + og.
  Definition scratch (a : Z) : Prop := Tm a \/ O a \/ Fr a.
  Definition addr_of (l : loc) : Z := match l with LGlobal a => a | LFrame k => sp + k end.

  Hypothesis HT_mem : 0 <= tlo size nslots sp /\ fb size sp - off0 < MEMW.
  Hypothesis HT_P : forall a, Tm a -> ~ P a.
  Hypothesis HT_1 : ~ Tm 1.
  Hypothesis HO : forall a, O a -> in_mem a = true /\ ~ P a /\ a <> 1 /\ ~ Tm a.
  Hypothesis HF : forall a, Fr a -> ~ P a /\ a <> 1.
  Hypothesis Hstop : in_mem (sp + 2) = true /\ ~ P (sp + 2) /\ sp + 2 <> 1.
  Hypothesis Hpool : forall v a, pool v = Some a -> P a /\ in_mem a = true /\ rd m0 a = v mod W.
  Hypothesis Hvar : forall x l, venv x = Some l ->
    in_mem (addr_of l) = true /\ ~ scratch (addr_of l) /\ ~ P (addr_of l) /\ addr_of l <> 1.
  Hypothesis Hinj : forall x y lx ly, venv x = Some lx -> venv y = Some ly -> x <> y -> addr_of lx <> addr_of ly.
  (* arrays: the word of the name and the cells are ordinary memory (unprotected, not scratch, not word 1), apart
     from each other and from the variables; the cells of different arrays and elements are different words *)
  Definition cell_of (c : Z) : Prop := exists g i, garr g = true /\ 0 <= i < alen_of g /\ c = abase g + i.
  Hypothesis Hawd : forall a l, aenv a = Some l ->
    in_mem (waddr sp l) = true /\ ~ scratch (waddr sp l) /\ ~ P (waddr sp l) /\ waddr sp l <> 1 /\ ~ cell_of (waddr sp l) /\
    (forall x lx, venv x = Some lx -> addr_of lx <> waddr sp l).
  Hypothesis Hcell : forall c, cell_of c ->
    in_mem c = true /\ ~ scratch c /\ ~ P c /\ c <> 1 /\ (forall x lx, venv x = Some lx -> addr_of lx <> c).
  Hypothesis Hcinj : forall g g' i i', garr g = true -> garr g' = true -> 0 <= i < alen_of g -> 0 <= i' < alen_of g' ->
    abase g + i = abase g' + i' -> g = g' /\ i = i'.
  (* the procedures that can be called: their entry labels lie in the address space, and no constant bears their name *)
  Hypothesis Hentry : forall p pi, pinfo p = Some pi -> 0 <= lab (pf_entry pi) < W.
  Hypothesis Hcallt : forall p pi, pinfo p = Some pi -> assoc p (g_vals ge) = None.

  (* no local constant of the running frame bears the name of a callable procedure (such a name would denote a
     system call: XSem.call_target) *)
  Definition novals (st : state) : Prop := forall p pi, pinfo p = Some pi -> assoc p (f_vals (top st)) = None.
  (* the arrays.  Names: a name in scope denotes a global array g of the state (XCodegenExpr.resolves: a global array
     no local name hides, or an array formal bound to g) and its word holds the address of g's cells; a name that is
     is not a formal denotes the global array of that name.  Cells: a global array is no variable or constant (so its
     name evaluates to the array), has its length, and every assigned element is in its cell *)
  Definition arrs_ok (st : state) (m : WMap.t) : Prop :=
    (forall a l, aenv a = Some l ->
       exists g, resolves st a g /\ garr g = true /\ rd m (waddr sp l) = abase g /\ (forall w, l = LGlobal w -> g = a)) /\
    (forall g, garr g = true ->
       assoc g (g_vals ge) = None /\ assoc g (gvars st) = None /\
       exists ar, assoc g (garrs st) = Some ar /\ alen ar = alen_of g /\
         forall i n, 0 <= i < alen ar -> PositiveMap.find (cell i) (acells ar) = Some (Vint n) ->
                     in_int n = true /\ rd m (abase g + i) = n mod W).
  Definition Rel (st : state) (m : WMap.t) : Prop :=
    Cm m /\ rd m 1 = sp /\ (vars_ok venv ge sp m st /\ arrs_ok st m) /\ (stk st <> [] /\ novals st) /\ Dq (f_depth (top st)).

  (* what a statement adds to the spec state besides variables: the outputs among the events, and what it consumed of
     the input (every byte is either still in the input or counted as consumed); nothing else *)
  Definition post (st st' : state) (outs : list event) : Prop :=
    out_rev st' = rev (writes outs) ++ out_rev st /\
    (ncons st' + List.length (input st') = ncons st + List.length (input st))%nat /\
    tl (stk st') = tl (stk st) /\ f_depth (top st') = f_depth (top st).

  Lemma post_refl st : post st st []. Proof. repeat split. Qed.
  Lemma post_same st st' : same_store st st' -> post st st' [].
  Proof. intros (_ & Hk & Ha & Ho & Hi & Hn). unfold post, top. rewrite Hk, Hi, Hn. repeat split; assumption. Qed.
  Lemma post_trans a b c o1 o2 : post a b o1 -> post b c o2 -> post a c (o1 ++ o2).
  Proof.
    intros (H1 & H2 & H5 & H6) (G1 & G2 & G5 & G6). repeat split; try congruence.
    rewrite G1, H1, writes_app, rev_app_distr, app_assoc. reflexivity.
  Qed.

  (* when the program stops (exit), only the outputs and the input position are compared: the
     stack of the spec state is whatever it was at the exit *)
  Definition hpost (st st' : state) (outs : list event) : Prop :=
    out_rev st' = rev (writes outs) ++ out_rev st /\
    (ncons st' + List.length (input st') = ncons st + List.length (input st))%nat.
  Lemma post_hpost st st' o : post st st' o -> hpost st st' o.
  Proof. intros (H1 & H2 & _). exact (conj H1 H2). Qed.
  Lemma post_hpost_trans a b c o1 o2 : post a b o1 -> hpost b c o2 -> hpost a c (o1 ++ o2).
  Proof.
    intros (H1 & H2 & _) (G1 & G2). split; [|congruence].
    rewrite G1, H1, writes_app, rev_app_distr, app_assoc. reflexivity.
  Qed.
  Lemma same_store_input a b : same_store a b -> input b = input a.
  Proof. intros (_ & _ & _ & _ & Hi & _). exact Hi. Qed.
  Lemma con_same inp a b : console inp = input a -> same_store a b -> console inp = input b.
  Proof. intros H S. rewrite (same_store_input _ _ S). exact H. Qed.
  Lemma taus_adv inp s X Y : console inp = input s -> taus inp X Y -> runs inp X [] (adv inp s) Y.
  Proof. intros H T. rewrite (adv_id inp s H). exact T. Qed.

  Lemma in_mem_range a : in_mem a = true -> 0 <= a < MEMW.
  Proof. unfold in_mem. intros H. apply andb_prop in H. destruct H as [H1 H2]. apply Z.leb_le in H1. apply Z.ltb_lt in H2. lia. Qed.
  Lemma in_mem_wrap a : in_mem a = true -> wrap a = a.
  Proof. intros H. apply in_mem_range in H. unfold wrap. apply Z.mod_small. unfold MEMW, W in *. lia. Qed.

  Lemma vars_ok_mem st m m' : (forall x l, venv x = Some l -> rd m' (addr_of l) = rd m (addr_of l)) ->
    vars_ok venv ge sp m st -> vars_ok venv ge sp m' st.
  Proof.
    intros Hm [H1 H2]. split.
    - intros x a Hx. destruct (H1 x a Hx) as (A & B & D & v & E & F). repeat split; try assumption.
      exists v. split; [exact E|]. pose proof (Hm x (LGlobal a) Hx) as Hq. cbn [addr_of] in Hq. rewrite Hq. exact F.
    - intros x k Hx. destruct (H2 x k Hx) as (v & E & F). exists v. split; [exact E|].
      pose proof (Hm x (LFrame k) Hx) as Hq. cbn [addr_of] in Hq. rewrite Hq. exact F.
  Qed.

  Lemma arrs_ok_same st st' m : same_store st st' -> arrs_ok st m -> arrs_ok st' m.
  Proof.
    intros Hss [H1 H2]. pose proof Hss as (Hg & Hs & Ha & _). split.
    - intros a l Hal. destruct (H1 a l Hal) as (g & G1 & G2 & G3 & G4). exists g.
      split; [exact (resolves_same _ _ _ _ Hss G1)|]. split; [exact G2|]. split; [exact G3 | exact G4].
    - intros g Hg0. destruct (H2 g Hg0) as (Kv & Kg & ar & G1 & G2). split; [exact Kv|]. split; [rewrite Hg; exact Kg|].
      exists ar. rewrite Ha. exact (conj G1 G2).
  Qed.
  (* the memory may change anywhere but in the words of the arrays *)
  Lemma arrs_ok_mem st m m' :
    (forall a l, aenv a = Some l -> rd m' (waddr sp l) = rd m (waddr sp l)) ->
    (forall c, cell_of c -> rd m' c = rd m c) -> arrs_ok st m -> arrs_ok st m'.
  Proof.
    intros Hw Hc [H1 H2]. split.
    - intros a l Hal. destruct (H1 a l Hal) as (g & G1 & G2 & G3 & G4). exists g.
      split; [exact G1|]. split; [exact G2|]. split; [rewrite (Hw a l Hal); exact G3 | exact G4].
    - intros g Hg. destruct (H2 g Hg) as (Kv & Kg & ar & G1 & G2 & G3). split; [exact Kv|]. split; [exact Kg|].
      exists ar. split; [exact G1|]. split; [exact G2|].
      intros i n Hi Hf. destruct (G3 i n Hi Hf) as [K1 K2]. split; [exact K1|]. rewrite Hc; [exact K2|].
      exists g, i. split; [exact Hg|]. split; [rewrite <- G2; exact Hi | reflexivity].
  Qed.
  (* what the expression theorem needs *)
  Lemma arrs_arrays st m : arrs_ok st m -> arrays_ok size nslots aenv sp off0 m st.
  Proof.
    intros [H1 H2] a l Hal. destruct (H1 a l Hal) as (g & G1 & G2 & G3 & _). destruct (H2 g G2) as (_ & _ & ar & K1 & K2 & K3).
    exists g, ar, (abase g). split; [exact G1|]. split; [exact K1|]. split; [exact G3|]. split; [|exact K3].
    intros i Hi. assert (Hc : cell_of (abase g + i)) by (exists g, i; split; [exact G2|]; split; [rewrite <- K2; exact Hi | reflexivity]).
    destruct (Hcell _ Hc) as (C1 & C2 & _). split; [exact C1|]. intros Ht. apply C2. left. exact Ht.
  Qed.

  (* the state may change anywhere but in the arrays and in what the array names denote *)
  Lemma arrs_ok_state st st' m :
    garrs st' = garrs st -> f_vals (top st') = f_vals (top st) ->
    (forall a l, aenv a = Some l -> assoc a (f_vars (top st')) = assoc a (f_vars (top st))) ->
    (forall a, assoc a (gvars st) = None -> assoc a (gvars st') = None) ->
    arrs_ok st m -> arrs_ok st' m.
  Proof.
    intros Hga Hfv Hfa Hgv [H1 H2]. split.
    - intros a l Hal. destruct (H1 a l Hal) as (g & G1 & G2 & G3 & G4). exists g.
      split; [unfold resolves in *; rewrite (Hfa a l Hal), Hfv, Hga; exact G1|]. split; [exact G2|]. split; [exact G3 | exact G4].
    - intros g Hg. destruct (H2 g Hg) as (Kv & Kg & K). split; [exact Kv|]. split; [exact (Hgv g Kg)|]. rewrite Hga. exact K.
  Qed.
  Lemma assoc_update_none {A} x y (v : A) l : assoc y l = None -> assoc y (update x v l) = None.
  Proof.
    induction l as [|[z w] r IH]; cbn [assoc update]; [trivial|].
    destruct (String.eqb y z) eqn:Ey; [discriminate|]. intros H.
    destruct (String.eqb x z) eqn:Ex; cbn [assoc]; rewrite Ey; [exact H | exact (IH H)].
  Qed.

  Lemma Rel_same st st' m : same_store st st' -> Rel st m -> Rel st' m.
  Proof.
    intros Hs (A & B & [D D'] & E & Q). split; [exact A|]. split; [exact B|].
    split; [split; [eapply vars_ok_same; eassumption | eapply arrs_ok_same; eassumption]|].
    destruct Hs as (_ & Hk & _). unfold novals, top in *. rewrite Hk. exact (conj E Q).
  Qed.

  (* changes confined to temporaries and the outgoing area keep the relation *)
  Lemma Rel_scratch st m m' : (forall a, 0 <= a -> ~ scratch a -> rd m' a = rd m a) -> Rel st m -> Rel st m'.
  Proof.
    intros Hm (A & B & [D D'] & E). split; [|split; [|split; [split|exact E]]].
    - intros a Ha HP. rewrite Hm; [apply A; assumption | exact Ha|].
      intros [Ht|[Ho|Hf]]; [exact (HT_P a Ht HP) | exact (proj1 (proj2 (HO a Ho)) HP) | exact (proj1 (HF a Hf) HP)].
    - rewrite Hm; [exact B | lia|]. intros [Ht|[Ho|Hf]]; [exact (HT_1 Ht) | exact (proj1 (proj2 (proj2 (HO 1 Ho))) eq_refl) | exact (proj2 (HF 1 Hf) eq_refl)].
    - apply (vars_ok_mem st m m'); [|exact D]. intros x l Hx. destruct (Hvar x l Hx) as (Hin & Hns & _).
      apply Hm; [exact (proj1 (in_mem_range _ Hin)) | exact Hns].
    - apply (arrs_ok_mem st m m'); [| |exact D'].
      + intros a l Hal. destruct (Hawd a l Hal) as (Hin & Hns & _). apply Hm; [exact (proj1 (in_mem_range _ Hin)) | exact Hns].
      + intros c Hc. destruct (Hcell c Hc) as (Hin & Hns & _). apply Hm; [exact (proj1 (in_mem_range _ Hin)) | exact Hns].
  Qed.

  Lemma keeps_scratch off m m' : off0 <= off -> keeps size nslots sp off m m' ->
    forall a, 0 <= a -> ~ scratch a -> rd m' a = rd m a.
  Proof.
    intros Ho Hk a Ha Hn. apply Hk; [exact Ha|]. intros Hr. apply Hn. left. unfold T. unfold tlo, fb in *. lia.
  Qed.

  (* running the code of an expression of the fragment, with the temporaries from frame offset off on *)
  Lemma run_expr_off off e n c n1 f st v s m :
    off0 <= off -> cg venv pool size nslots aenv e RA n off = Some (c, n1) -> eval f ge e st = Ret v s -> Rel st m ->
    same_store st s /\
    exists z, v = Vint z /\ in_int z = true /\
      forall pos nxt a b inp, code_at Cm lab pos c nxt -> 0 <= pos -> nxt < W ->
      exists b' m', taus inp (mk pos a b 0 m) (mk nxt (z mod W) b' 0 m') /\ Rel st m' /\
                    keeps size nslots sp off m m'.
  Proof.
    intros Hoff Hc He (A & B & [D D'] & E).
    assert (Hglob : forall x a, venv x = Some (LGlobal a) -> in_mem a = true /\ ~ Tm a).
    { intros x a Hx. destruct (Hvar x _ Hx) as (H1 & H2 & _). cbn [addr_of] in *. split; [exact H1|]. intros Ht. apply H2. left. exact Ht. }
    assert (Hframe : forall x k, venv x = Some (LFrame k) -> in_mem (sp + k) = true /\ ~ Tm (sp + k)).
    { intros x k Hx. destruct (Hvar x _ Hx) as (H1 & H2 & _). cbn [addr_of] in *. split; [exact H1|]. intros Ht. apply H2. left. exact Ht. }
    assert (Harr : forall a l, aenv a = Some l -> in_mem (waddr sp l) = true /\ ~ Tm (waddr sp l)).
    { intros a l Hal. destruct (Hawd a l Hal) as (H1 & H2 & _). split; [exact H1|]. intros Ht. apply H2. left. exact Ht. }
    destruct (expr_runs venv pool size nslots aenv ge P m0 lab sp off0 m A B HT_mem HT_P HT_1 Hpool Hglob Hframe Harr
                        e n off c n1 Hc Hoff f st v s He D (arrs_arrays st m D')) as [Hss (z & Hz & Hr & Hrun)].
    split; [exact Hss|]. exists z. repeat split; try assumption.
    intros pos nxt a b inp Hca Hp Hn. destruct (Hrun pos nxt a b inp Hca Hp Hn) as (b' & m' & Ht & Hk).
    exists b', m'. split; [exact Ht|]. split; [|exact Hk].
    apply (Rel_scratch st m m'); [|exact (conj A (conj B (conj (conj D D') E)))]. apply (keeps_scratch off); [exact Hoff | exact Hk].
  Qed.
  Lemma run_expr e n c n1 f st v s m :
    cge venv pool size nslots aenv off0 e n = Some (c, n1) -> eval f ge e st = Ret v s -> Rel st m ->
    same_store st s /\
    exists z, v = Vint z /\ in_int z = true /\
      forall pos nxt a b inp, code_at Cm lab pos c nxt -> 0 <= pos -> nxt < W ->
      exists b' m', taus inp (mk pos a b 0 m) (mk nxt (z mod W) b' 0 m') /\ Rel st m' /\
                    (forall x, 0 <= x -> ~ Tm x -> rd m' x = rd m x).
  Proof.
    intros Hc He HR. unfold cge in Hc.
    destruct (run_expr_off off0 e n c n1 f st v s m ltac:(lia) Hc He HR) as [Hss (z & Hz & Hr & Hrun)].
    split; [exact Hss|]. exists z. split; [exact Hz|]. split; [exact Hr | exact Hrun].
  Qed.

  (* ---- assignment *)
  Lemma assoc_update_same {A} x (v : A) l : assoc x l <> None -> assoc x (update x v l) = Some v.
  Proof.
    induction l as [|[y w] r IH]; cbn [assoc update]; [intros H; exfalso; apply H; reflexivity|].
    destruct (String.eqb x y) eqn:E; cbn [assoc]; rewrite E; [reflexivity | exact IH].
  Qed.
  Lemma assoc_update_other {A} x y (v : A) l : x <> y -> assoc y (update x v l) = assoc y l.
  Proof.
    intros Hn. induction l as [|[z w] r IH]; cbn [assoc update]; [reflexivity|].
    destruct (String.eqb x z) eqn:E; cbn [assoc].
    - apply String.eqb_eq in E. subst z. destruct (String.eqb y x) eqn:E2; [apply String.eqb_eq in E2; congruence | reflexivity].
    - destruct (String.eqb y z); [reflexivity | exact IH].
  Qed.

  Lemma assign_ok x l n st m m' :
    venv x = Some l -> in_int n = true -> Rel st m ->
    rd m' (addr_of l) = n mod W -> (forall a, 0 <= a -> a <> addr_of l -> rd m' a = rd m a) ->
    exists st', assign ge x n st = Ret Normal st' /\ Rel st' m' /\ post st st' [] /\ input st' = input st.
  Proof.
    intros Hx Hn (A & B & [[Hg Hf] HA] & [E NV] & Q) Hw Hm.
    destruct (Hvar x l Hx) as (Hin & Hns & HnP & Hn1).
    (* the arrays are untouched: their words differ from the variable's *)
    assert (HA' : arrs_ok st m').
    { apply (arrs_ok_mem st m m'); [| |exact HA].
      - intros a la Hal. destruct (Hawd a la Hal) as (Hi & _ & _ & _ & _ & Hd). apply Hm; [exact (proj1 (in_mem_range _ Hi))|].
        intros Heq. exact (Hd x l Hx (eq_sym Heq)).
      - intros c Hc. destruct (Hcell c Hc) as (Hi & _ & _ & _ & Hd). apply Hm; [exact (proj1 (in_mem_range _ Hi))|].
        intros Heq. exact (Hd x l Hx (eq_sym Heq)). }
    destruct (stk st) as [|fr rest] eqn:Es; [exfalso; apply E; reflexivity|].
    assert (Htop : top st = fr) by (unfold top; rewrite Es; reflexivity).
    assert (HC' : Cm m').
    { intros a Ha HP. rewrite Hm; [apply A; assumption | exact Ha|]. intros ->. exact (HnP HP). }
    assert (H1' : rd m' 1 = sp) by (rewrite Hm; [exact B | lia | intros H; exact (Hn1 (eq_sym H))]).
    unfold assign. rewrite Es.
    destruct l as [ga|k]; cbn [addr_of] in *.
    - (* a global *)
      destruct (Hg x ga Hx) as (N1 & N2 & N3 & v & Hv & _). rewrite Htop in N1, N2. rewrite N1, N2, N3, Hv.
      eexists. split; [reflexivity|]. split; [|split; [unfold post, top; cbn; rewrite ?Es; repeat split | reflexivity]].
      split; [exact HC'|]. split; [exact H1'|]. split; [|split; [split; [cbn; rewrite Es; discriminate | unfold novals, top in *; cbn; rewrite Es in *; exact NV] | unfold top in *; cbn; rewrite Es in *; exact Q]].
      split; [|apply (arrs_ok_state st _ m'); [reflexivity | reflexivity | intros a la _; reflexivity | | exact HA'];
               intros a Ha; cbn [gvars note_wr set_gvars set_cur]; apply assoc_update_none; exact Ha].
      split.
      + intros y a Hy. destruct (Hg y a Hy) as (M1 & M2 & M3 & w & Hw' & Hok).
        unfold top in *. cbn. rewrite Es in *. repeat split; try assumption.
        destruct (string_dec x y) as [<-|Hne].
        * rewrite Hx in Hy. inversion Hy; subst a. exists (Vint n). split; [apply assoc_update_same; rewrite Hv; discriminate|].
          right. exists n. repeat split; assumption.
        * exists w. split; [rewrite (assoc_update_other x y _ _ Hne); exact Hw'|].
          pose proof (Hinj x y _ _ Hx Hy Hne) as Hd. cbn [addr_of] in Hd.
          destruct (Hvar y _ Hy) as (Hiny & _). cbn [addr_of] in Hiny.
          rewrite Hm; [exact Hok | exact (proj1 (in_mem_range _ Hiny)) | intros Heq; exact (Hd (eq_sym Heq))].
      + intros y k Hy. destruct (Hf y k Hy) as (w & Hw' & Hok). unfold top in *. cbn. rewrite Es in *.
        exists w. split; [exact Hw'|].
        assert (Hne : x <> y) by (intros <-; rewrite Hx in Hy; discriminate).
        pose proof (Hinj x y _ _ Hx Hy Hne) as Hd. cbn [addr_of] in Hd.
        destruct (Hvar y _ Hy) as (Hiny & _). cbn [addr_of] in Hiny.
        rewrite Hm; [exact Hok | exact (proj1 (in_mem_range _ Hiny)) | intros Heq; exact (Hd (eq_sym Heq))].
    - (* a frame word *)
      destruct (Hf x k Hx) as (v & Hv & Hvok). rewrite Htop in Hv. rewrite Hv.
      assert (Hupd : exists st', match v with Varr _ | Vstr _ => Fail (Unsupported "assignment to an array formal")
                                 | _ => Ret Normal (set_stk st ({| f_vars := update x (Vint n) (f_vars fr); f_vals := f_vals fr; f_depth := f_depth fr |} :: rest)) end
                                 = Ret Normal st' /\ st' = set_stk st ({| f_vars := update x (Vint n) (f_vars fr); f_vals := f_vals fr; f_depth := f_depth fr |} :: rest)).
      { destruct Hvok as [->|(z & -> & _)]; eexists; split; reflexivity. }
      destruct Hupd as (st' & Hst' & ->). exists (set_stk st ({| f_vars := update x (Vint n) (f_vars fr); f_vals := f_vals fr; f_depth := f_depth fr |} :: rest)).
      split; [exact Hst'|]. split; [|split; [unfold post, top; cbn; rewrite ?Es; repeat split | reflexivity]].
      split; [exact HC'|]. split; [exact H1'|]. split; [|split; [split; [cbn; discriminate | unfold novals, top in *; cbn; rewrite Es in NV; exact NV] | unfold top in *; cbn; rewrite Es in Q; exact Q]].
      split.
      2:{ apply (arrs_ok_state st _ m'); [reflexivity | unfold top; cbn [stk set_stk f_vals]; rewrite Es; reflexivity | | intros a Ha; exact Ha | exact HA'].
          intros a la Hal. unfold top. cbn [stk set_stk f_vars]. rewrite Es. apply assoc_update_other. intros <-.
          destruct HA' as [HA1 _]. destruct (HA1 x la Hal) as (g & Hres & _). unfold resolves in Hres. rewrite Htop in Hres.
          destruct Hres as [Hr|(Hr & _)]; rewrite Hr in Hv; [|discriminate]. inversion Hv; subst v.
          destruct Hvok as [Hu|(z & Hz & _)]; discriminate. }
      split.
      + intros y a Hy. destruct (Hg y a Hy) as (M1 & M2 & M3 & w & Hw' & Hok).
        assert (Hne : x <> y) by (intros <-; rewrite Hx in Hy; discriminate).
        unfold top in *. cbn. rewrite Es in *. cbn [f_vars f_vals]. rewrite (assoc_update_other x y _ _ Hne).
        repeat split; try assumption. exists w. split; [exact Hw'|].
        pose proof (Hinj x y _ _ Hx Hy Hne) as Hd. cbn [addr_of] in Hd.
        destruct (Hvar y _ Hy) as (Hiny & _). cbn [addr_of] in Hiny.
        rewrite Hm; [exact Hok | exact (proj1 (in_mem_range _ Hiny)) | intros Heq; exact (Hd (eq_sym Heq))].
      + intros y k' Hy. unfold top in *. cbn. cbn [f_vars].
        destruct (string_dec x y) as [<-|Hne].
        * rewrite Hx in Hy. inversion Hy; subst k'. exists (Vint n). split; [apply assoc_update_same; rewrite Hv; discriminate|].
          right. exists n. repeat split; assumption.
        * destruct (Hf y k' Hy) as (w & Hw' & Hok). rewrite Es in Hw'. exists w. split; [rewrite (assoc_update_other x y _ _ Hne); exact Hw'|].
          pose proof (Hinj x y _ _ Hx Hy Hne) as Hd. cbn [addr_of] in Hd.
          destruct (Hvar y _ Hy) as (Hiny & _). cbn [addr_of] in Hiny.
          rewrite Hm; [exact Hok | exact (proj1 (in_mem_range _ Hiny)) | intros Heq; exact (Hd (eq_sym Heq))].
  Qed.

  (* ---- frame discipline: the net effect of the code on memory is confined to the temporaries, the outgoing
     area and the words of the variables in scope *)
  Definition var_word (a : Z) : Prop := (exists x l, venv x = Some l /\ a = addr_of l) \/ cell_of a.
  Definition frame_only (m m' : WMap.t) : Prop :=
    forall a, 0 <= a -> ~ scratch a -> ~ var_word a -> rd m' a = rd m a.
  Lemma frame_only_refl m : frame_only m m. Proof. intros a _ _ _. reflexivity. Qed.
  Lemma frame_only_trans m1 m2 m3 : frame_only m1 m2 -> frame_only m2 m3 -> frame_only m1 m3.
  Proof. intros H1 H2 a Ha Hs Hv. rewrite (H2 a Ha Hs Hv). apply H1; assumption. Qed.
  Lemma frame_only_T m m' : (forall x, 0 <= x -> ~ Tm x -> rd m' x = rd m x) -> frame_only m m'.
  Proof. intros H a Ha Hs _. apply H; [exact Ha|]. intros Ht. apply Hs. left. exact Ht. Qed.
  Lemma frame_only_wr_scratch m a v : scratch a -> 0 <= a -> frame_only m (wr m a v).
  Proof. intros Hs Ha x Hx Hns _. apply rd_wr_other; [exact Ha | exact Hx | intros ->; exact (Hns Hs)]. Qed.
  Lemma frame_only_wr_var m x l v : venv x = Some l -> frame_only m (wr m (addr_of l) v).
  Proof.
    intros Hx a Ha _ Hnv. destruct (Hvar x l Hx) as (Hin & _).
    apply rd_wr_other; [exact (proj1 (in_mem_range _ Hin)) | exact Ha | intros Heq; apply Hnv; left; exists x, l; split; [exact Hx | symmetry; exact Heq]].
  Qed.

  (* ---- the statement theorem *)
  Definition result_ok (st : state) (r : res flow) (m : WMap.t) (pos nxt a b : Z) (inp : inputs) : Prop :=
    match r with
    | Ret Normal st' =>
        exists outs a' b' m', runs inp (mk pos a b 0 m) outs (adv inp st') (mk nxt a' b' 0 m') /\ Rel st' m' /\ post st st' outs /\ frame_only m m'
    | Ret (Returned v) st' =>
        exists outs z b' m', v = Vint z /\ in_int z = true /\
          runs inp (mk pos a b 0 m) outs (adv inp st') (mk (lab exitl) (z mod W) b' 0 m') /\ Rel st' m' /\ post st st' outs /\ frame_only m m'
    | Halt c st' => exists outs, exits inp (mk pos a b 0 m) outs (adv inp st') (c mod W) /\ hpost st st' outs
    | Fail _ => True
    end.

  Lemma post_start st st0 st' o : same_store st st0 -> post st0 st' o -> post st st' o.
  Proof. intros (_ & Hk & Ha & Ho & Hi & Hn) (H1 & H2 & H5 & H6). unfold post, top in *. rewrite <- Hk. repeat split; congruence. Qed.

  Lemma result_ok_start st st0 r m pos nxt a b inp : same_store st st0 ->
    result_ok st0 r m pos nxt a b inp -> result_ok st r m pos nxt a b inp.
  Proof.
    intros Hs. destruct r as [[|v] st'|c st'|u]; cbn [result_ok]; trivial.
    - intros (o & a' & b' & m' & H1 & H2 & H3 & H4). exists o, a', b', m'. exact (conj H1 (conj H2 (conj (post_start _ _ _ _ Hs H3) H4))).
    - intros (o & z & b' & m' & H0 & H0' & H1 & H2 & H3 & H4). exists o, z, b', m'.
      exact (conj H0 (conj H0' (conj H1 (conj H2 (conj (post_start _ _ _ _ Hs H3) H4))))).
    - intros (o & H1 & H2). exists o. split; [exact H1|]. destruct Hs as (_ & _ & Ha & Ho & Hi & Hn).
      destruct H2 as (G1 & G2). unfold hpost. split; congruence.
  Qed.

  Notation cs' := (cs pinfo venv pool size nslots aenv off0 og exitl).
  Notation cge' := (cge venv pool size nslots aenv off0).
  Notation cgx' := (cgx pinfo venv pool size nslots aenv off0 og).

  Lemma cge_pure e n r : cge' e n = Some r -> pure e = true.
  Proof. unfold cge. intros H. eapply cg_pure. exact H. Qed.

  (* running a prefix and then the rest *)
  Lemma result_ok_after st st1 r m m1 pos p1 nxt a b a1 b1 inp o1 :
    runs inp (mk pos a b 0 m) o1 (adv inp st1) (mk p1 a1 b1 0 m1) -> post st st1 o1 -> frame_only m m1 ->
    result_ok st1 r m1 p1 nxt a1 b1 (adv inp st1) -> result_ok st r m pos nxt a b inp.
  Proof.
    intros Hr Hp Hfo. destruct r as [[|v] st'|c st'|u]; cbn [result_ok]; trivial.
    - intros (o & a' & b' & m' & H1 & H2 & H3 & H4). exists (o1 ++ o), a', b', m'. change (adv (adv inp st1) st') with (adv inp st') in H1.
      exact (conj (runs_trans _ _ _ _ _ _ _ _ Hr H1) (conj H2 (conj (post_trans _ _ _ _ _ Hp H3) (frame_only_trans _ _ _ Hfo H4)))).
    - intros (o & z & b' & m' & H0 & H0' & H1 & H2 & H3 & H4). exists (o1 ++ o), z, b', m'. change (adv (adv inp st1) st') with (adv inp st') in H1.
      exact (conj H0 (conj H0' (conj (runs_trans _ _ _ _ _ _ _ _ Hr H1) (conj H2 (conj (post_trans _ _ _ _ _ Hp H3) (frame_only_trans _ _ _ Hfo H4)))))).
    - intros (o & H1 & H2). exists (o1 ++ o). change (adv (adv inp st1) st') with (adv inp st') in H1.
      exact (conj (runs_exits _ _ _ _ _ _ _ _ Hr H1) (post_hpost_trans _ _ _ _ _ Hp H2)).
  Qed.

  Lemma result_ok_after_taus st r m m1 pos p1 nxt a b a1 b1 inp :
    taus inp (mk pos a b 0 m) (mk p1 a1 b1 0 m1) -> frame_only m m1 ->
    result_ok st r m1 p1 nxt a1 b1 inp -> result_ok st r m pos nxt a b inp.
  Proof.
    intros Ht Hfo. destruct r as [[|v] st'|c st'|u]; cbn [result_ok]; trivial.
    - intros (o & a' & b' & m' & H1 & H2 & H3 & H4). exists o, a', b', m'.
      exact (conj (taus_runs _ _ _ _ _ _ Ht H1) (conj H2 (conj H3 (frame_only_trans _ _ _ Hfo H4)))).
    - intros (o & z & b' & m' & H0 & H0' & H1 & H2 & H3 & H4). exists o, z, b', m'.
      exact (conj H0 (conj H0' (conj (taus_runs _ _ _ _ _ _ Ht H1) (conj H2 (conj H3 (frame_only_trans _ _ _ Hfo H4)))))).
    - intros (o & H1 & H2). exists o. exact (conj (taus_exits _ _ _ _ _ _ Ht H1) H2).
  Qed.

  Definition stmt_ok (f : nat) : Prop :=
    forall s n code n' st, cs' s n = Some (code, n') ->
    forall m pos nxt a b inp, Rel st m -> console inp = input st -> code_at Cm lab pos code nxt -> 0 <= pos -> nxt < W -> 0 <= lab exitl < W ->
    result_ok st (exec f ge s st) m pos nxt a b inp.

  Lemma seq_ok F : (forall f, (f < F)%nat -> stmt_ok f) ->
    forall ss f, (f < F)%nat -> forall n code n' st, cs_list pinfo venv pool size nslots aenv off0 og exitl ss n = Some (code, n') ->
    forall m pos nxt a b inp, Rel st m -> console inp = input st -> code_at Cm lab pos code nxt -> 0 <= pos -> nxt < W -> 0 <= lab exitl < W ->
    result_ok st (execs f ge ss st) m pos nxt a b inp.
  Proof.
    intros IH. induction ss as [|x r IHr]; intros f Hf n code n' st Hcs m pos nxt a b inp HR Hcon Hc Hp Hn Hex;
      (destruct f as [|f0]; [exact I|]); cbn [execs execs_body]; cbn [cs_list] in Hcs.
    - inversion Hcs; subst code n'. cbn [code_at] in Hc. subst nxt.
      exists [], a, b, m. exact (conj (taus_adv _ _ _ _ Hcon (taus_refl _ _)) (conj HR (conj (post_refl st) (frame_only_refl m)))).
    - destruct (cs' x n) as [[c1 n1]|] eqn:E1; [|discriminate]. cbn [obind] in Hcs.
      destruct (cs_list pinfo venv pool size nslots aenv off0 og exitl r n1) as [[c2 n2]|] eqn:E2; [|discriminate]. cbn [obind] in Hcs.
      inversion Hcs; subst code n'. apply code_at_app in Hc. destruct Hc as (p1 & Hc1 & Hc2).
      pose proof (code_at_le _ _ _ _ _ Hc1) as L1. pose proof (code_at_le _ _ _ _ _ Hc2) as L2.
      pose proof (IH f0 ltac:(lia) x n c1 n1 st E1 m pos p1 a b inp HR Hcon Hc1 Hp ltac:(lia) Hex) as H1.
      destruct (exec f0 ge x st) as [[|v] st1|c st1|u]; cbn [bind rcase]; cbn [result_ok] in H1.
      + destruct H1 as (o1 & a1 & b1 & m1 & R1 & HR1 & P1 & F1).
        eapply result_ok_after; [exact R1 | exact P1 | exact F1|].
        exact (IHr f0 ltac:(lia) n1 c2 n2 st1 E2 m1 p1 nxt a1 b1 (adv inp st1) HR1 eq_refl Hc2 ltac:(lia) Hn Hex).
      + exact H1.
      + exact H1.
      + exact I.
  Qed.

  (* ---- small machine sequences *)
  Ltac one_instr Hc mid Hi := cbn [code_at] in Hc; destruct Hc as (mid & Hi & Hc).

  Lemma Cm_wr m a v : Cm m -> 0 <= a -> ~ P a -> Cm (wr m a v).
  Proof. intros HC Ha HnP x Hx HP. rewrite rd_wr_other; [apply HC; assumption | exact Ha | exact Hx | intros ->; exact (HnP HP)]. Qed.

  (* LDBM 1; STAI k : store areg into the frame word sp + k *)
  Lemma run_store_sp k m p q w b inp :
    code_at Cm lab p [LDBM 1; STAI k] q -> Cm m -> rd m 1 = sp -> in_mem (sp + k) = true -> q < W ->
    taus inp (mk p w b 0 m) (mk q w sp 0 (wr m (sp + k) w)).
  Proof.
    intros Hc HC H1 Hin Hq. one_instr Hc p1 Hi1. one_instr Hc p2 Hi2. subst p2.
    pose proof (instr_at_le _ _ _ _ _ Hi2) as L2.
    pose proof (exec_instr Cm lab m p p1 (LDBM 1) w b inp eq_refl Hi1 HC eq_refl ltac:(lia)) as T1.
    cbn [sem fst snd] in T1. rewrite H1 in T1.
    assert (R2 : readable (STAI k) w sp) by (cbn [readable]; rewrite (in_mem_wrap _ Hin); exact Hin).
    pose proof (exec_instr Cm lab m p1 q (STAI k) w sp inp eq_refl Hi2 HC R2 Hq) as T2.
    cbn [sem fst snd] in T2. rewrite (in_mem_wrap _ Hin) in T2.
    eapply taus_trans; eassumption.
  Qed.

  Lemma run_store_var l x m p q w b inp :
    venv x = Some l -> code_at Cm lab p (store_var l) q -> Cm m -> rd m 1 = sp -> q < W ->
    exists b', taus inp (mk p w b 0 m) (mk q w b' 0 (wr m (addr_of l) w)).
  Proof.
    intros Hx Hc HC H1 Hq. destruct (Hvar x l Hx) as (Hin & _).
    destruct l as [ga|k]; cbn [store_var addr_of] in *.
    - one_instr Hc p1 Hi1. subst p1. exists b.
      exact (exec_instr Cm lab m p q (STAM ga) w b inp eq_refl Hi1 HC Hin Hq).
    - exists sp. eapply run_store_sp; eassumption.
  Qed.

  Lemma Rel_eqv st st' m : gvars st' = gvars st -> stk st' = stk st -> garrs st' = garrs st -> Rel st m -> Rel st' m.
  Proof.
    intros Hg Hk Har (A & B & [[D1 D2] D3] & E & Q). split; [exact A|]. split; [exact B|]. split; [split|].
    - unfold vars_ok, top in *. rewrite Hg, Hk. split; assumption.
    - apply (arrs_ok_state st st' m); [exact Har | unfold top; rewrite Hk; reflexivity | intros a l _; unfold top; rewrite Hk; reflexivity | intros a Ha; rewrite Hg; exact Ha | exact D3].
    - unfold novals, top in *. rewrite Hk. exact (conj E Q).
  Qed.

  Lemma Rel_wr_scratch st m a v : scratch a -> 0 <= a -> Rel st m -> Rel st (wr m a v).
  Proof.
    intros Hs Ha HR. apply (Rel_scratch st m); [|exact HR].
    intros x Hx Hn. apply rd_wr_other; [exact Ha | exact Hx | intros ->; exact (Hn Hs)].
  Qed.

  Lemma mod_256 x : (x mod W) mod 256 = x mod 256.
  Proof. symmetry. apply Znumtheory.Zmod_div_mod; [lia | unfold W; lia | exists 16777216; reflexivity]. Qed.

  (* the address of an array's cells into breg *)
  Lemma run_load_b l m p q a b inp :
    code_at Cm lab p (gen_var RB l) q -> Cm m -> rd m 1 = sp -> in_mem (waddr sp l) = true -> q < W ->
    taus inp (mk p a b 0 m) (mk q a (rd m (waddr sp l)) 0 m).
  Proof.
    intros Hc HC H1 Hin Hq. destruct l as [w|k]; cbn [gen_var ldm waddr] in *.
    - one_instr Hc p1 Hi1. subst p1. exact (exec_instr Cm lab m p q (LDBM w) a b inp eq_refl Hi1 HC Hin Hq).
    - one_instr Hc p1 Hi1. one_instr Hc p2 Hi2. subst p2. pose proof (instr_at_le _ _ _ _ _ Hi2) as L2.
      pose proof (exec_instr Cm lab m p p1 (LDBM 1) a b inp eq_refl Hi1 HC eq_refl ltac:(lia)) as T1.
      cbn [sem fst snd] in T1. rewrite H1 in T1.
      assert (R2 : readable (LDBI k) a sp) by (cbn [readable]; rewrite (in_mem_wrap _ Hin); exact Hin).
      pose proof (exec_instr Cm lab m p1 q (LDBI k) a sp inp eq_refl Hi2 HC R2 Hq) as T2.
      cbn [sem fst snd] in T2. rewrite (in_mem_wrap _ Hin) in T2. eapply taus_trans; eassumption.
  Qed.

  Lemma cell_inj i j : 0 <= i -> 0 <= j -> cell i = cell j -> i = j.
  Proof. unfold cell. intros Hi Hj H. apply Z2Pos.inj in H; lia. Qed.

  Lemma assoc_update_some {A} x y (v : A) l : assoc y l <> None -> assoc y (update x v l) <> None.
  Proof.
    induction l as [|[z w] r IH]; cbn [assoc update]; [trivial|].
    destruct (String.eqb x z) eqn:Ex; cbn [assoc]; destruct (String.eqb y z) eqn:Ey; try discriminate; auto.
  Qed.

  (* an element of the global array g is assigned: the state XSem's write_elem yields is related to the memory with
     the cell written *)
  Lemma asub_ok g ix v st m m' ar :
    garr g = true -> in_int v = true -> Rel st m -> assoc g (garrs st) = Some ar -> 0 <= ix < alen ar ->
    rd m' (abase g + ix) = v mod W -> (forall a, 0 <= a -> a <> abase g + ix -> rd m' a = rd m a) ->
    Rel (note_wr g (set_garrs st (update g {| alen := alen ar; acells := PositiveMap.add (cell ix) (Vint v) (acells ar) |} (garrs st)))) m'.
  Proof.
    intros Hga Hv (A & B & [D [HA1 HA2]] & E & Q) Har Hix Hw Hm.
    destruct (HA2 g Hga) as (Nv & Ng & ar0 & N3 & N4 & N6). rewrite Har in N3. inversion N3; subst ar0.
    assert (Hc : cell_of (abase g + ix)) by (exists g, ix; split; [exact Hga|]; split; [rewrite <- N4; exact Hix | reflexivity]).
    destruct (Hcell _ Hc) as (Cin & Cns & CnP & Cn1 & Cnv).
    split; [|split; [|split; [split|exact (conj E Q)]]].
    - intros a Ha0 HP. rewrite Hm; [apply A; assumption | exact Ha0|]. intros ->. exact (CnP HP).
    - rewrite Hm; [exact B | lia | intros H; exact (Cn1 (eq_sym H))].
    - (* the variables *)
      apply (vars_ok_mem _ m m').
      + intros y ly Hy. destruct (Hvar y ly Hy) as (Hin & _). apply Hm; [exact (proj1 (in_mem_range _ Hin))|]. exact (Cnv y ly Hy).
      + destruct D as [D1 D2]. split; [intros y a Hy; exact (D1 y a Hy) | intros y k Hy; exact (D2 y k Hy)].
    - split.
      + (* the names *)
        intros a l Hal. destruct (HA1 a l Hal) as (g1 & G1 & G2 & G3 & G4). destruct (Hawd a l Hal) as (Win & _ & _ & _ & Wnc & _).
        exists g1. split; [|split; [exact G2|split; [|exact G4]]].
        * unfold resolves in *. cbn [garrs set_garrs note_wr set_cur top stk f_vars f_vals].
          destruct G1 as [G1|(K1 & K2 & K3 & K4)]; [left; exact G1|]. right. split; [exact K1|]. split; [exact K2|].
          split; [apply assoc_update_some; exact K3 | exact K4].
        * rewrite Hm; [exact G3 | exact (proj1 (in_mem_range _ Win))|]. intros Heq. apply Wnc. rewrite Heq. exact Hc.
      + (* the cells *)
        intros g1 Hg1. cbn [garrs set_garrs note_wr set_cur]. destruct (string_dec g g1) as [<-|Hne].
        * split; [exact Nv|]. split; [exact Ng|].
          exists {| alen := alen ar; acells := PositiveMap.add (cell ix) (Vint v) (acells ar) |}. cbn [alen acells].
          split; [apply assoc_update_same; rewrite Har; discriminate|]. split; [exact N4|].
          intros i n Hi Hf. destruct (Z.eq_dec i ix) as [->|Hni].
          -- rewrite PositiveMap.gss in Hf. inversion Hf; subst n. split; [exact Hv | exact Hw].
          -- rewrite PositiveMap.gso in Hf by (intros Hk; apply Hni; apply cell_inj in Hk; lia).
             destruct (N6 i n Hi Hf) as [G1 G2]. split; [exact G1|]. rewrite Hm; [exact G2 | |lia].
             assert (Hci : cell_of (abase g + i)) by (exists g, i; split; [exact Hga|]; split; [rewrite <- N4; exact Hi | reflexivity]).
             destruct (Hcell _ Hci) as (Hin & _). exact (proj1 (in_mem_range _ Hin)).
        * destruct (HA2 g1 Hg1) as (Mv & Mg & ar1 & M3 & M4 & M6). split; [exact Mv|]. split; [exact Mg|]. exists ar1.
          split; [rewrite (assoc_update_other g g1 _ _ Hne); exact M3|]. split; [exact M4|].
          intros i n Hi Hf. destruct (M6 i n Hi Hf) as [G1 G2]. split; [exact G1|].
          assert (Hci : cell_of (abase g1 + i)) by (exists g1, i; split; [exact Hg1|]; split; [rewrite <- M4; exact Hi | reflexivity]).
          destruct (Hcell _ Hci) as (Hin & _).
          rewrite Hm; [exact G2 | exact (proj1 (in_mem_range _ Hin))|].
          intros Heq. destruct (Hcinj g1 g i ix Hg1 Hga ltac:(rewrite <- M4; exact Hi) ltac:(rewrite <- N4; exact Hix) Heq) as [He _]. exact (Hne (eq_sym He)).
  Qed.

  Lemma O_facts k : 0 <= k < og -> in_mem (sp + k) = true /\ ~ P (sp + k) /\ sp + k <> 1 /\ ~ Tm (sp + k) /\ scratch (sp + k) /\ 0 <= sp + k.
  Proof.
    intros Hk. assert (Ho : O (sp + k)) by (unfold O; lia). destruct (HO _ Ho) as (A & B & D & E).
    repeat split; try assumption; [right; left; exact Ho | exact (proj1 (in_mem_range _ A))].
  Qed.

  (* ---- procedure calls *)
  Notation cargs' := (cargs venv pool size nslots aenv off0).
  Notation carg' := (carg venv pool size nslots aenv off0).

  (* actual i of vs sits in the outgoing word sp + k + i *)
  (* an actual and the word that carries it: an integer, or a global array by the address of its cells *)
  Definition arg_ok (v : value) (w : Z) : Prop :=
    (exists z, v = Vint z /\ in_int z = true /\ w = z mod W) \/ (exists g, v = Varr g /\ garr g = true /\ w = abase g).
  Definition args_stored (vs : list value) (k : Z) (m : WMap.t) : Prop :=
    forall i v, nth_error vs i = Some v -> arg_ok v (rd m (sp + k + Z.of_nat i)).

  (* what the callee must do, seen from the caller: entered at its entry label with the return address in areg and
     the actuals stored (from sp+1 for a procedure, from sp+2 for a function), it comes back to that address with the
     caller's relation restored (for the state XSem's invoke yields), having changed only what the caller regards as
     scratch (outgoing area, free stack) or the words of variables in scope; a function's result is in the outgoing
     word sp+1 *)
  Definition koff (pi : pframe) : Z := if pf_isfunc pi then 2 else 1.
  Definition ret_ok (isf : bool) (st : state) (r : res value) (m : WMap.t) (pos nxt a b : Z) (inp : inputs) : Prop :=
    match r with
    | Ret v st' => exists outs a' b' m',
        runs inp (mk pos a b 0 m) outs (adv inp st') (mk nxt a' b' 0 m') /\
        Rel st' m' /\ post st st' outs /\ frame_only m m' /\
        (isf = true -> exists z, v = Vint z /\ in_int z = true /\ rd m' (sp + 1) = z mod W)
    | Halt c st' => exists outs, exits inp (mk pos a b 0 m) outs (adv inp st') (c mod W) /\ hpost st st' outs
    | Fail _ => True
    end.
  Definition call_spec (f : nat) : Prop :=
    forall p pi vs st m link b inp,
      pinfo p = Some pi ->
      Rel st m -> console inp = input st -> args_stored vs (koff pi) m -> Z.of_nat (List.length vs) + koff pi <= og -> 0 <= link < W ->
      ret_ok (pf_isfunc pi) st (invoke (exec f ge) ge (pf_isfunc pi) p vs st) m (lab (pf_entry pi)) link link b inp.

  Lemma ret_ok_start isf st st0 r m pos nxt a b inp : same_store st st0 ->
    ret_ok isf st0 r m pos nxt a b inp -> ret_ok isf st r m pos nxt a b inp.
  Proof.
    intros Hs. destruct r as [v st'|c st'|u]; cbn [ret_ok]; trivial.
    - intros (o & a' & b' & m' & H1 & H2 & H3 & H4). exists o, a', b', m'. exact (conj H1 (conj H2 (conj (post_start _ _ _ _ Hs H3) H4))).
    - intros (o & H1 & H2). exists o. split; [exact H1|]. destruct Hs as (_ & _ & Ha & Ho & Hi & Hn).
      destruct H2 as (G1 & G2). unfold hpost. split; congruence.
  Qed.
  Lemma ret_ok_after_taus isf st r m m1 pos p1 nxt a b a1 b1 inp :
    taus inp (mk pos a b 0 m) (mk p1 a1 b1 0 m1) -> frame_only m m1 ->
    ret_ok isf st r m1 p1 nxt a1 b1 inp -> ret_ok isf st r m pos nxt a b inp.
  Proof.
    intros Ht Hf. destruct r as [v st'|c st'|u]; cbn [ret_ok]; trivial.
    - intros (o & a' & b' & m' & H1 & H2 & H3 & H4 & H5). exists o, a', b', m'.
      split; [eapply taus_runs; eassumption|]. split; [exact H2|]. split; [exact H3|]. split; [exact (frame_only_trans _ _ _ Hf H4) | exact H5].
    - intros (o & H1 & H2). exists o. split; [eapply taus_exits; eassumption | exact H2].
  Qed.

  Lemma carg_cases e n : (exists a l, e = EVar a /\ aenv a = Some l /\ carg' e n = Some (gen_var RA l, n)) \/ carg' e n = cge' e n.
  Proof.
    destruct e; try (right; reflexivity). unfold carg. destruct (aenv x) as [l|] eqn:E; [|right; reflexivity].
    left. exists x, l. repeat split. exact E.
  Qed.
  Lemma carg_pure e n r : carg' e n = Some r -> pure e = true.
  Proof.
    destruct (carg_cases e n) as [(a & l & -> & _ & _)|Heq]; [reflexivity|]. rewrite Heq. apply cge_pure.
  Qed.
  Lemma cargs_pure : forall args k n r, cargs' args k n = Some r -> forall e, In e args -> pure e = true.
  Proof.
    induction args as [|e0 r0 IH]; intros k n r Hc e Hin; [destruct Hin|]. cbn [cargs] in Hc.
    destruct (carg' e0 n) as [[c n1]|] eqn:E1; [|discriminate]. cbn [obind] in Hc.
    destruct (cargs' r0 (k + 1) n1) as [[cr n2]|] eqn:E2; [|discriminate].
    destruct Hin as [<-|Hin]; [eapply carg_pure; exact E1 | eapply IH; eassumption].
  Qed.

  (* the address of an array's cells into areg *)
  Lemma run_load_a l m p q a b inp :
    code_at Cm lab p (gen_var RA l) q -> Cm m -> rd m 1 = sp -> in_mem (waddr sp l) = true -> q < W ->
    exists b', taus inp (mk p a b 0 m) (mk q (rd m (waddr sp l)) b' 0 m).
  Proof.
    intros Hc HC H1 Hin Hq. destruct l as [w|k]; cbn [gen_var ldm waddr] in *.
    - one_instr Hc p1 Hi1. subst p1. exists b. exact (exec_instr Cm lab m p q (LDAM w) a b inp eq_refl Hi1 HC Hin Hq).
    - one_instr Hc p1 Hi1. one_instr Hc p2 Hi2. subst p2. pose proof (instr_at_le _ _ _ _ _ Hi2) as L2.
      pose proof (exec_instr Cm lab m p p1 (LDAM 1) a b inp eq_refl Hi1 HC eq_refl ltac:(lia)) as T1.
      cbn [sem fst snd] in T1. rewrite H1 in T1.
      assert (R2 : readable (LDAI k) sp b) by (cbn [readable]; rewrite (in_mem_wrap _ Hin); exact Hin).
      pose proof (exec_instr Cm lab m p1 q (LDAI k) sp b inp eq_refl Hi2 HC R2 Hq) as T2.
      cbn [sem fst snd] in T2. rewrite (in_mem_wrap _ Hin) in T2. exists b. eapply taus_trans; eassumption.
  Qed.

  (* one actual: its value (an integer, or the address of an array's cells) into areg *)
  Lemma run_arg e n c n1 f st v s m :
    carg' e n = Some (c, n1) -> eval f ge e st = Ret v s -> Rel st m ->
    same_store st s /\
    exists w, arg_ok v w /\
      forall pos nxt a b inp, code_at Cm lab pos c nxt -> 0 <= pos -> nxt < W ->
      exists b' m', taus inp (mk pos a b 0 m) (mk nxt w b' 0 m') /\ Rel st m' /\
                    (forall x, 0 <= x -> ~ Tm x -> rd m' x = rd m x).
  Proof.
    intros Hc He HR. destruct (carg_cases e n) as [(a0 & l & -> & Hal & Hcg)|Heq].
    - (* the name of an array *)
      rewrite Hcg in Hc. inversion Hc; subst c n1.
      pose proof HR as (HC & H1 & [_ [HA1 HA2]] & _). destruct (HA1 a0 l Hal) as (g & Hres & Hg & Hw & _).
      destruct (Hawd a0 l Hal) as (Win & _).
      apply eval_var in He. unfold read_var in He. unfold resolves in Hres.
      assert (Hv : v = Varr g /\ s = st).
      { destruct Hres as [Hr|(K1 & K2 & K3 & ->)].
        - rewrite Hr in He. inversion He. split; reflexivity.
        - destruct (HA2 a0 Hg) as (K4 & K5 & _). rewrite K1, K2, K4, K5 in He.
          destruct (assoc a0 (garrs st)); [inversion He; split; reflexivity | exfalso; apply K3; reflexivity]. }
      destruct Hv as [-> ->]. split; [apply same_store_refl|].
      exists (abase g). split; [right; exists g; repeat split; exact Hg|].
      intros pos nxt a b inp Hca Hp Hn. destruct (run_load_a l m pos nxt a b inp Hca HC H1 Win Hn) as (b' & T).
      rewrite Hw in T. exists b', m. split; [exact T|]. split; [exact HR | intros; reflexivity].
    - rewrite Heq in Hc. destruct (run_expr e n c n1 f st v s m Hc He HR) as [Hss (z & -> & Hz & Hrun)].
      split; [exact Hss|]. exists (z mod W). split; [left; exists z; repeat split; exact Hz | exact Hrun].
  Qed.

  Lemma run_args : forall args k n c n1 f st L s m,
    cargs' args k n = Some (c, n1) -> evals f ge args st = Ret L s -> Rel st m ->
    0 <= k -> k + Z.of_nat (List.length args) <= og ->
    same_store st s /\
    forall pos nxt a b inp, code_at Cm lab pos c nxt -> 0 <= pos -> nxt < W ->
    exists a' b' m', taus inp (mk pos a b 0 m) (mk nxt a' b' 0 m') /\ Rel st m' /\
      (forall x, 0 <= x -> ~ Tm x -> ~ (sp + k <= x < sp + k + Z.of_nat (List.length args)) -> rd m' x = rd m x) /\
      args_stored (map fst L) k m'.
  Proof.
    induction args as [|e r IH]; intros k n c n1 f st L s m Hc He HR Hk Hlen; cbn [cargs] in Hc.
    - inversion Hc; subst c n1. destruct (evals_nil _ _ _ _ _ He) as [-> ->]. split; [apply same_store_refl|].
      intros pos nxt a b inp Hca Hp Hn. cbn [code_at] in Hca. subst nxt.
      exists a, b, m. split; [apply taus_refl|]. split; [exact HR|]. split; [intros; reflexivity|].
      intros i v Hi. destruct i; discriminate.
    - destruct (carg' e n) as [[c1 n2]|] eqn:E1; [|discriminate]. cbn [obind] in Hc.
      destruct (cargs' r (k + 1) n2) as [[cr n3]|] eqn:E2; [|discriminate]. cbn [obind] in Hc. inversion Hc; subst c n1.
      destruct (evals_cons _ _ _ _ _ _ _ He) as (f1 & v & sl & L' & -> & Ee & Er & ->).
      cbn [List.length] in Hlen. rewrite Nat2Z.inj_succ in Hlen.
      assert (HR1 : Rel (set_cur st eff0) m) by (eapply Rel_same; [apply same_store_set_cur | exact HR]).
      destruct (run_arg e n c1 n2 f1 _ v sl m E1 Ee HR1) as [Hss (w & Hw & Hrun)].
      assert (S2 : same_store st (set_cur sl (eff_union (cur st) (cur sl)))).
      { eapply same_store_trans; [apply (same_store_set_cur st eff0)|]. eapply same_store_trans; [exact Hss | apply same_store_set_cur]. }
      destruct (O_facts k ltac:(lia)) as (Oin & OnP & On1 & OnT & Os & Opos).
      split.
      + eapply same_store_trans; [exact S2|].
        exact (proj1 (IH (k + 1) n2 cr n3 f1 _ L' s (wr m (sp + k) 0) E2 Er
                         (Rel_wr_scratch _ _ _ _ Os Opos (Rel_same _ _ _ S2 HR)) ltac:(lia) ltac:(lia))).
      + intros pos nxt a b inp Hca Hp Hn.
        apply code_at_app in Hca. destruct Hca as (p1 & Hc1 & Hca).
        assert (Hsp : exists p2, code_at Cm lab p1 [LDBM 1; STAI k] p2 /\ code_at Cm lab p2 cr nxt).
        { apply (code_at_app Cm lab [LDBM 1; STAI k]). exact Hca. }
        clear Hca. destruct Hsp as (p2 & Hc2 & Hc3).
        pose proof (code_at_le _ _ _ _ _ Hc1) as L1. pose proof (code_at_le _ _ _ _ _ Hc2) as L2. pose proof (code_at_le _ _ _ _ _ Hc3) as L3.
        destruct (Hrun pos p1 a b inp Hc1 Hp ltac:(lia)) as (b1 & m1 & T1 & HRm1 & Hk1).
        pose proof (run_store_sp k m1 p1 p2 w b1 inp Hc2 (proj1 HRm1) (proj1 (proj2 HRm1)) Oin ltac:(lia)) as T2.
        set (m2 := wr m1 (sp + k) w) in *.
        assert (HR2 : Rel (set_cur sl (eff_union (cur st) (cur sl))) m2).
        { apply Rel_wr_scratch; [exact Os | exact Opos|]. eapply Rel_same; [|exact HRm1]. eapply same_store_trans; [exact Hss | apply same_store_set_cur]. }
        destruct (IH (k + 1) n2 cr n3 f1 _ L' s m2 E2 Er HR2 ltac:(lia) ltac:(lia)) as [Hs3 Hrun3].
        destruct (Hrun3 p2 nxt w sp inp Hc3 ltac:(lia) Hn) as (a3 & b3 & m3 & T3 & HR3 & Hk3 & Hst3).
        exists a3, b3, m3. split; [eapply taus_trans; [exact T1|]; eapply taus_trans; [exact T2 | exact T3]|].
        split; [eapply Rel_same; [apply same_store_sym; exact S2 | exact HR3]|].
        split.
        * intros x Hx HnT Hnr. cbn [List.length] in Hnr. rewrite Nat2Z.inj_succ in Hnr. rewrite Hk3; [|exact Hx | exact HnT | lia].
          unfold m2. rewrite rd_wr_other; [|exact Opos | exact Hx | lia]. apply Hk1; assumption.
        * intros i v0 Hi. destruct i as [|j]; cbn [map fst nth_error] in Hi.
          -- inversion Hi; subst v0. rewrite Z.add_0_r. rewrite Hk3; [|exact Opos | exact OnT | lia]. unfold m2. rewrite rd_wr_same. exact Hw.
          -- pose proof (Hst3 j v0 Hi) as Hrd. replace (sp + k + Z.of_nat (S j)) with (sp + (k + 1) + Z.of_nat j) by lia. exact Hrd.
  Qed.

  (* ---- calls: the actuals, branch and link, and what the callee's specification gives at the link address *)
  Lemma call_is_proc g pi st0 m : pinfo g = Some pi -> Rel st0 m -> call_target ge g st0 = TProc \/ call_target ge g st0 = TBad.
  Proof.
    intros Epi (_ & _ & _ & (_ & Hnv) & _). unfold call_target. rewrite (Hnv g pi Epi), (Hcallt g pi Epi).
    destruct (assoc g (f_vars (top st0))); [right | left]; reflexivity.
  Qed.

  Lemma run_call F : (forall f', (f' < F)%nat -> call_spec f') ->
    forall g pi args n c n1 f0 st0 m pos nxt a b inp, (f0 < F)%nat ->
    pinfo g = Some pi -> Z.of_nat (List.length args) + koff pi <= og ->
    cargs' args (koff pi) n = Some (c, n1) -> Rel st0 m -> console inp = input st0 ->
    code_at Cm lab pos (c ++ [LDAP n1; BR (pf_entry pi); LABEL n1]) nxt -> 0 <= pos -> nxt < W ->
    ret_ok (pf_isfunc pi) st0
      (bind (operands (evals f0 ge) args st0) (fun vs s1 => invoke (exec f0 ge) ge (pf_isfunc pi) g vs s1)) m pos nxt a b inp.
  Proof.
    intros Hcall g pi args n c n1 f0 st0 m pos nxt a b inp Hf Epi Eog Ec HR0 Hcon Hc Hp Hn.
    assert (Hk0 : 1 <= koff pi <= 2) by (unfold koff; destruct (pf_isfunc pi); lia).
    apply code_at_app in Hc. destruct Hc as (p1 & Hc1 & Hc). one_instr Hc p2 Hi2. one_instr Hc p3 Hi3. one_instr Hc p4 Hi4. subst p4.
    cbn [instr_at] in Hi4. destruct Hi4 as [E4 Ll]. subst p3.
    pose proof (code_at_le _ _ _ _ _ Hc1) as L1. pose proof (instr_at_le _ _ _ _ _ Hi2) as L2. pose proof (instr_at_le _ _ _ _ _ Hi3) as L3.
    destruct (operands (evals f0 ge) args st0) as [vs s1|hc hs|u] eqn:Eo; cbn [bind rcase]; [| |exact I].
    2:{ exfalso. unfold operands in Eo. apply bind_halt in Eo. destruct Eo as [Eo|(L & s1 & _ & Eo)].
        - refine (evals_no_halt ge args _ f0 st0 hc hs Eo). intros e0 Hin. exact (pure_no_halt ge e0 (cargs_pure args _ n _ Ec e0 Hin)).
        - destruct (conflicts (map snd L)); discriminate. }
    apply operands_ret in Eo. destruct Eo as (L & Eo & ->).
    destruct (run_args args (koff pi) n c n1 f0 st0 L s1 m Ec Eo HR0 ltac:(lia) ltac:(lia)) as [Hss Hrun].
    destruct (Hrun pos p1 a b inp Hc1 Hp ltac:(lia)) as (a1 & b1 & m1 & T1 & HR1 & Hk1 & Hst).
    pose proof (Rel_same _ _ _ Hss HR1) as HR1'.
    assert (Hlen : List.length (map fst L) = List.length args).
    { clear - Eo. revert f0 st0 L s1 Eo. induction args as [|e r IHa]; intros f0 st0 L s1 Eo.
      - destruct (evals_nil _ _ _ _ _ Eo) as [-> _]. reflexivity.
      - destruct (evals_cons _ _ _ _ _ _ _ Eo) as (f1 & v & sl & L' & -> & _ & Er & ->). cbn [map List.length]. f_equal. eapply IHa. exact Er. }
    pose proof (exec_ldap Cm lab m1 p1 p2 n1 a1 b1 inp Hi2 (proj1 HR1) ltac:(lia) ltac:(lia)) as T2. rewrite Ll in T2.
    pose proof (exec_br Cm lab m1 p2 nxt (pf_entry pi) nxt b1 inp Hi3 (proj1 HR1) Hn (Hentry g pi Epi)) as T3.
    assert (Hf1 : frame_only m m1).
    { intros x Hx Hns _. apply Hk1; [exact Hx | intros Ht; apply Hns; left; exact Ht|].
      intros Hr. apply Hns. right. left. unfold O. lia. }
    pose proof (Hcall f0 Hf g pi (map fst L) s1 m1 nxt b1 inp Epi HR1' ltac:(rewrite (same_store_input _ _ Hss); exact Hcon) Hst ltac:(rewrite Hlen; lia) ltac:(lia)) as Hcs1.
    apply (ret_ok_start _ st0 s1); [exact Hss|].
    eapply ret_ok_after_taus; [eapply (taus_trans inp _ _ _ T1 (taus_trans inp _ _ _ T2 T3)) | exact Hf1 | exact Hcs1].
  Qed.

  Lemma signed_word z : in_int z = true -> signed (z mod W) = z.
  Proof.
    intros H. unfold in_int, min_int, max_int in H. apply andb_prop in H. destruct H as [H1 H2]. apply Z.leb_le in H1. apply Z.leb_le in H2.
    unfold signed, negative. destruct (Z_lt_dec z 0) as [Hn|Hn].
    - replace (z mod W) with (z + W) by (symmetry; rewrite <- (Z_mod_plus_full z 1 W); apply Z.mod_small; unfold W; lia).
      destruct (2147483648 <=? z + W) eqn:E; [lia|]. apply Z.leb_gt in E. unfold W in E. lia.
    - rewrite Z.mod_small by (unfold W; lia). destruct (2147483648 <=? z) eqn:E; [apply Z.leb_le in E; lia | reflexivity].
  Qed.
  Lemma byte_in_int x : in_int (x mod 256) = true.
  Proof. pose proof (Z.mod_pos_bound x 256 ltac:(lia)). unfold in_int, min_int, max_int. apply andb_true_intro. split; apply Z.leb_le; lia. Qed.

  Lemma cgx_cases e n : (exists g args, e = ECall g args) \/ (exists st, e = ESys 2 [st]) \/ cgx' e n = cge' e n.
  Proof.
    destruct e as [| | | | |g args|sn args| |]; try (right; right; reflexivity).
    - left. eexists. eexists. reflexivity.
    - destruct sn as [|[p|[p|p|]|]|p]; try (right; right; reflexivity).
      destruct args as [|st [|x r]]; [right; right; reflexivity | right; left; exists st; reflexivity | right; right; reflexivity].
  Qed.

  (* the value of a right-hand side: what XSem's eval answers, the code does, leaving the value in areg *)
  Definition rhs_ok (st : state) (r : res value) (m : WMap.t) (pos nxt a b : Z) (inp : inputs) : Prop :=
    match r with
    | Ret v s => exists outs z b' m', v = Vint z /\ in_int z = true /\
        runs inp (mk pos a b 0 m) outs (adv inp s) (mk nxt (z mod W) b' 0 m') /\ Rel s m' /\ post st s outs /\ frame_only m m'
    | Halt c0 s => exists outs, exits inp (mk pos a b 0 m) outs (adv inp s) (c0 mod W) /\ hpost st s outs
    | Fail _ => True
    end.

  Lemma run_cgx F : (forall f', (f' < F)%nat -> call_spec f') ->
    forall e n c n1 f st m pos nxt a b inp, (f <= F)%nat ->
    cgx' e n = Some (c, n1) -> Rel st m -> console inp = input st -> code_at Cm lab pos c nxt -> 0 <= pos -> nxt < W ->
    rhs_ok st (eval f ge e st) m pos nxt a b inp.
  Proof.
    intros Hcall e n c n1 f st m pos nxt a b inp Hf Hcg HR Hcon Hc Hp Hn.
    destruct (cgx_cases e n) as [(g & args & ->)|[(se & ->)|Heq]].
    - (* a function call *)
      cbn [cgx] in Hcg. destruct (pinfo g) as [pi|] eqn:Epi; [|discriminate]. cbn [obind] in Hcg.
      destruct (pf_isfunc pi) eqn:Eisf; [|discriminate].
      destruct (Z.of_nat (List.length args) + 2 <=? og) eqn:Eog; [|discriminate]. apply Z.leb_le in Eog.
      assert (Hko : koff pi = 2) by (unfold koff; rewrite Eisf; reflexivity).
      destruct (cargs' args 2 n) as [[cc n2]|] eqn:Ec; [|discriminate]. cbn [obind] in Hcg. inversion Hcg; subst c n1.
      assert (Hsplit : exists p1, code_at Cm lab pos (cc ++ [LDAP n2; BR (pf_entry pi); LABEL n2]) p1 /\ code_at Cm lab p1 [LDAM 1; LDAI 1] nxt).
      { apply (code_at_app Cm lab (cc ++ [LDAP n2; BR (pf_entry pi); LABEL n2]) [LDAM 1; LDAI 1]). rewrite <- app_assoc. exact Hc. }
      clear Hc. destruct Hsplit as (p1 & Hc1 & Hc2).
      one_instr Hc2 p2 Hi2. one_instr Hc2 p3 Hi3. subst p3.
      pose proof (code_at_le _ _ _ _ _ Hc1) as L1. pose proof (instr_at_le _ _ _ _ _ Hi2) as L2. pose proof (instr_at_le _ _ _ _ _ Hi3) as L3.
      destruct f as [|f1]; [exact I|].
      change (eval (S f1) ge (ECall g args) st) with (eval_body (eval f1 ge) (evals f1 ge) (exec f1 ge) ge (ECall g args) st).
      cbn [eval_body]. destruct (call_is_proc g pi st m Epi HR) as [-> | ->]; [|exact I].
      rewrite <- Hko in Ec, Eog.
      pose proof (run_call F Hcall g pi args n cc n2 f1 st m pos p1 a b inp ltac:(lia) Epi ltac:(lia) Ec HR Hcon Hc1 Hp ltac:(lia)) as R.
      rewrite Eisf in R.
      destruct (bind (operands (evals f1 ge) args st) (fun vs s1 => invoke (exec f1 ge) ge true g vs s1)) as [v s|hc hs|u];
        cbn [ret_ok rhs_ok] in *; [| exact R | exact I].
      destruct R as (outs & a1 & b1 & m1 & R1 & HR1 & P1 & F1 & Hv). destruct (Hv eq_refl) as (z & -> & Hz & Hrd).
      pose proof HR1 as (HC1 & H11 & _).
      pose proof (exec_instr Cm lab m1 p1 p2 (LDAM 1) a1 b1 (adv inp s) eq_refl Hi2 HC1 eq_refl ltac:(lia)) as T2.
      cbn [sem fst snd] in T2. rewrite H11 in T2.
      destruct (O_facts 1 ltac:(lia)) as (Oin1 & _).
      assert (R3 : readable (LDAI 1) sp b1) by (cbn [readable]; rewrite (in_mem_wrap _ Oin1); exact Oin1).
      pose proof (exec_instr Cm lab m1 p2 nxt (LDAI 1) sp b1 (adv inp s) eq_refl Hi3 HC1 R3 Hn) as T3.
      cbn [sem fst snd] in T3. rewrite (in_mem_wrap _ Oin1), Hrd in T3.
      exists outs, z, b1, m1. split; [reflexivity|]. split; [exact Hz|]. split; [|exact (conj HR1 (conj P1 F1))].
      eapply runs_taus; [exact R1|]. eapply taus_trans; [exact T2 | exact T3].
    - (* get: the stream to the outgoing word sp+2, LDAC 2; SVC, the byte from the outgoing word sp+1 *)
      cbn [cgx] in Hcg. destruct (3 <=? og) eqn:Eog; [|discriminate]. apply Z.leb_le in Eog.
      destruct (cge' se n) as [[cc n2]|] eqn:Ec; [|discriminate]. cbn [obind] in Hcg. inversion Hcg; subst c n1.
      apply code_at_app in Hc. destruct Hc as (p1 & Hc1 & Hc).
      assert (Hc12 : exists p3, code_at Cm lab p1 [LDBM 1; STAI 2] p3 /\ code_at Cm lab p3 [LDAC 2; SVC; LDAM 1; LDAI 1] nxt).
      { apply (code_at_app Cm lab [LDBM 1; STAI 2] [LDAC 2; SVC; LDAM 1; LDAI 1]). exact Hc. }
      destruct Hc12 as (p3 & Hc2 & Hc3). one_instr Hc3 p4 Hi4. one_instr Hc3 p5 Hi5. one_instr Hc3 p6 Hi6. one_instr Hc3 p7 Hi7. subst p7.
      pose proof (code_at_le _ _ _ _ _ Hc1) as L1. pose proof (code_at_le _ _ _ _ _ Hc2) as L2.
      pose proof (instr_at_le _ _ _ _ _ Hi4) as L4. pose proof (instr_at_le _ _ _ _ _ Hi5) as L5.
      pose proof (instr_at_le _ _ _ _ _ Hi6) as L6. pose proof (instr_at_le _ _ _ _ _ Hi7) as L7.
      destruct f as [|f1]; [exact I|].
      change (eval (S f1) ge (ESys 2 [se]) st) with (eval_body (eval f1 ge) (evals f1 ge) (exec f1 ge) ge (ESys 2 [se]) st).
      cbn [eval_body].
      destruct (operands (evals f1 ge) [se] st) as [vs s1|hc hs|u] eqn:Eo; cbn [bind rcase]; [| |exact I].
      2:{ exfalso. unfold operands in Eo. apply bind_halt in Eo. destruct Eo as [Eo|(L & s1 & _ & Eo)].
          - refine (evals_no_halt ge [se] _ f1 st hc hs Eo). intros e0 [<-|[]]. exact (pure_no_halt ge se (cge_pure _ _ _ Ec)).
          - destruct (conflicts (map snd L)); discriminate. }
      apply operands_ret in Eo. destruct Eo as (L & Eo & ->).
      destruct (evals_one _ _ _ _ _ _ Eo) as (f2 & v & st1 & s1' & S0 & Ee & HL & S1). rewrite HL.
      destruct (run_expr se n cc n2 f2 st1 v s1' m Ec Ee (Rel_same _ _ _ S0 HR)) as [Hss (z & -> & Hz & Hrun)].
      destruct (Hrun pos p1 a b inp Hc1 Hp ltac:(lia)) as (b1 & m1 & T1 & HR1 & Hk1).
      assert (Sall : same_store st s1) by (eapply same_store_trans; [exact S0|]; eapply same_store_trans; [exact Hss | exact S1]).
      cbn [do_sys int_of]. destruct (z <? 256) eqn:Ez; [|exact I]. apply Z.ltb_lt in Ez.
      destruct (O_facts 2 ltac:(lia)) as (Oin2 & OnP2 & On12 & OnT2 & Os2 & Opos2).
      destruct (O_facts 1 ltac:(lia)) as (Oin1 & OnP1 & On11 & OnT1 & Os1 & Opos1).
      pose proof (run_store_sp 2 m1 p1 p3 (z mod W) b1 inp Hc2 (proj1 HR1) (proj1 (proj2 HR1)) Oin2 ltac:(lia)) as T2.
      set (m2 := wr m1 (sp + 2) (z mod W)) in *.
      assert (HR2 : Rel st1 m2) by (apply Rel_wr_scratch; [exact Os2 | exact Opos2 | exact HR1]).
      pose proof HR2 as (HC2 & H12 & _).
      pose proof (exec_instr Cm lab m2 p3 p4 (LDAC 2) (z mod W) sp inp eq_refl Hi4 HC2 I ltac:(lia)) as T3.
      cbn [sem fst snd] in T3. change (2 mod W) with 2 in T3.
      assert (Hi2' : in_mem (wrap (rd m2 1 + 2)) = true) by (rewrite H12, (in_mem_wrap _ Oin2); exact Oin2).
      assert (Hi1' : in_mem (wrap (rd m2 1 + 1)) = true) by (rewrite H12, (in_mem_wrap _ Oin1); exact Oin1).
      assert (Hst : rd m2 (sp + 2) = z mod W) by (unfold m2; apply rd_wr_same).
      assert (Hcs : is_console (rd m2 (wrap (rd m2 1 + 2))) = true).
      { rewrite H12, (in_mem_wrap _ Oin2), Hst. unfold is_console. rewrite (signed_word z Hz). apply Z.ltb_lt. exact Ez. }
      pose proof (exec_svc_get Cm lab m2 p4 p5 sp inp Hi5 HC2 ltac:(lia) Hi2' Hi1' Hcs) as T4.
      rewrite H12, (in_mem_wrap _ Oin2), (in_mem_wrap _ Oin1), Hst in T4.
      set (bt := console_byte inp) in *.
      set (m3 := wr m2 (sp + 1) bt) in *.
      assert (HR3 : Rel st1 m3) by (apply Rel_wr_scratch; [exact Os1 | exact Opos1 | exact HR2]).
      pose proof HR3 as (HC3 & H13 & _).
      pose proof (exec_instr Cm lab m3 p5 p6 (LDAM 1) 2 sp (console_next inp) eq_refl Hi6 HC3 eq_refl ltac:(lia)) as T5.
      cbn [sem fst snd] in T5. rewrite H13 in T5.
      assert (R6 : readable (LDAI 1) sp sp) by (cbn [readable]; rewrite (in_mem_wrap _ Oin1); exact Oin1).
      pose proof (exec_instr Cm lab m3 p6 nxt (LDAI 1) sp sp (console_next inp) eq_refl Hi7 HC3 R6 Hn) as T6.
      cbn [sem fst snd] in T6. rewrite (in_mem_wrap _ Oin1) in T6. unfold m3 in T6 at 2. rewrite rd_wr_same in T6.
      assert (Hci : console inp = input s1) by (rewrite (same_store_input _ _ Sall); exact Hcon).
      assert (Hfo : frame_only m m3).
      { eapply frame_only_trans; [apply frame_only_T; exact Hk1|].
        eapply frame_only_trans; [apply (frame_only_wr_scratch m1 (sp + 2) (z mod W) Os2 Opos2)|].
        apply (frame_only_wr_scratch m2 (sp + 1) bt Os1 Opos1). }
      assert (Hrun3 : forall s', console_next inp = adv inp s' ->
                runs inp (mk pos a b 0 m) [Read (z mod W) bt] (adv inp s') (mk nxt bt sp 0 m3)).
      { intros s' Hs'. rewrite <- Hs'. eapply taus_runs; [exact T1|]. eapply taus_runs; [exact T2|]. eapply taus_runs; [exact T3|].
        eapply runs_taus; [exact T4|]. eapply taus_trans; [exact T5 | exact T6]. }
      assert (Hbt : bt = (match input s1 with [] => 255 | bb :: _ => bb mod 256 end)).
      { unfold bt, console_byte. rewrite Hci. destruct (input s1); reflexivity. }
      assert (Hbm : bt mod W = bt).
      { rewrite Hbt. destruct (input s1) as [|bb r]; [reflexivity|]. pose proof (Z.mod_pos_bound bb 256 ltac:(lia)). apply Z.mod_small. unfold W. lia. }
      destruct Sall as (Sg & Sk & Sa & So & Si & Sn).
      destruct (input s1) as [|bb r] eqn:Ein; cbn [rhs_ok].
      + exists [Read (z mod W) bt], 255, sp, m3. split; [reflexivity|]. split; [reflexivity|].
        split; [replace (255 mod W) with bt by (rewrite Hbt; reflexivity); apply Hrun3; unfold console_next, adv; rewrite Hci; cbn; rewrite ?Ein; reflexivity|].
        split; [apply (Rel_eqv s1); [reflexivity | reflexivity | reflexivity | eapply Rel_same; [eapply same_store_trans; [exact Hss | exact S1] | exact HR3]]|].
        split; [|exact Hfo]. unfold post, top. cbn. rewrite ?Sk, ?So, ?Sn, ?Ein, <- ?Si. cbn [List.length]. repeat split; lia.
      + exists [Read (z mod W) bt], (bb mod 256), sp, m3. split; [reflexivity|]. split; [apply byte_in_int|].
        split; [replace ((bb mod 256) mod W) with bt by (rewrite <- Hbm, Hbt; reflexivity); apply Hrun3; unfold console_next, adv; rewrite Hci; cbn; rewrite ?Ein; reflexivity|].
        split; [apply (Rel_eqv s1); [reflexivity | reflexivity | reflexivity | eapply Rel_same; [eapply same_store_trans; [exact Hss | exact S1] | exact HR3]]|].
        split; [|exact Hfo]. unfold post, top. cbn. rewrite ?Sk, ?So, ?Sn, ?Ein, <- ?Si. cbn [List.length]. repeat split; lia.
    - (* an expression of the fragment *)
      rewrite Heq in Hcg.
      destruct (eval f ge e st) as [v s1|hc hs|u] eqn:Ee; cbn [rhs_ok]; [| |exact I].
      2:{ exfalso. exact (pure_no_halt ge e (cge_pure _ _ _ Hcg) _ _ _ _ Ee). }
      destruct (run_expr e n c n1 f st v s1 m Hcg Ee HR) as [Hss (z & -> & Hz & Hrun)].
      destruct (Hrun pos nxt a b inp Hc Hp Hn) as (b1 & m1 & T1 & HR1 & Hk1).
      exists [], z, b1, m1. split; [reflexivity|]. split; [exact Hz|]. split; [exact (taus_adv _ _ _ _ (con_same _ _ _ Hcon Hss) T1)|].
      split; [eapply Rel_same; eassumption|]. split; [apply post_same; exact Hss | apply frame_only_T; exact Hk1].
  Qed.


  (* ---- calls and get on the left spine of an expression *)
  Notation cgl' := (cgl pinfo venv pool size nslots aenv off0 og).

  Lemma rhs_ok_start st st0 r m pos nxt a b inp : same_store st st0 ->
    rhs_ok st0 r m pos nxt a b inp -> rhs_ok st r m pos nxt a b inp.
  Proof.
    intros Hs. destruct r as [v s|c s|u]; cbn [rhs_ok]; trivial.
    - intros (o & z & b' & m' & H0 & H0' & H1 & H2 & H3 & H4). exists o, z, b', m'.
      exact (conj H0 (conj H0' (conj H1 (conj H2 (conj (post_start _ _ _ _ Hs H3) H4))))).
    - intros (o & H1 & H2). exists o. split; [exact H1|]. destruct Hs as (_ & _ & Ha & Ho & Hi & Hn).
      destruct H2 as (G1 & G2). unfold hpost. split; congruence.
  Qed.
  Lemma post_end a b c o : post a b o -> same_store b c -> post a c o.
  Proof. intros H S. pose proof (post_trans _ _ _ _ _ H (post_same _ _ S)) as Q. rewrite app_nil_r in Q. exact Q. Qed.

  Lemma cgl_pure e n : pure e = true -> cgl' e n = cge' e n.
  Proof. destruct e; cbn [cgl pure]; intros H; try rewrite H; try discriminate; reflexivity. Qed.

  Lemma run_simple_b e n c n1 f st v s m :
    cg venv pool size nslots aenv e RB n off0 = Some (c, n1) -> eval f ge e st = Ret v s -> Rel st m ->
    same_store st s /\
    exists z, v = Vint z /\ in_int z = true /\
      forall pos nxt a b inp, code_at Cm lab pos c nxt -> 0 <= pos -> nxt < W ->
      taus inp (mk pos a b 0 m) (mk nxt a (z mod W) 0 m).
  Proof.
    intros Hc He (A & B & [D D'] & E).
    assert (Hglob : forall x a, venv x = Some (LGlobal a) -> in_mem a = true /\ ~ Tm a).
    { intros x a Hx. destruct (Hvar x _ Hx) as (H1 & H2 & _). cbn [addr_of] in *. split; [exact H1|]. intros Ht. apply H2. left. exact Ht. }
    assert (Hframe : forall x k, venv x = Some (LFrame k) -> in_mem (sp + k) = true /\ ~ Tm (sp + k)).
    { intros x k Hx. destruct (Hvar x _ Hx) as (H1 & H2 & _). cbn [addr_of] in *. split; [exact H1|]. intros Ht. apply H2. left. exact Ht. }
    assert (Harr : forall a l, aenv a = Some l -> in_mem (waddr sp l) = true /\ ~ Tm (waddr sp l)).
    { intros a l Hal. destruct (Hawd a l Hal) as (H1 & H2 & _). split; [exact H1|]. intros Ht. apply H2. left. exact Ht. }
    exact (expr_runs_b venv pool size nslots aenv ge P m0 lab sp off0 m A B HT_mem HT_P HT_1 Hpool Hglob Hframe Harr
                       e n off0 c n1 Hc ltac:(lia) f st v s He D (arrs_arrays st m D')).
  Qed.

  (* br true; LDAC 0; BR end; true: LDAC 1; end:   leaves 1 when the branch is taken, 0 otherwise *)
  Lemma run_btail (br : label -> instr) (taken : Z -> bool) n m pos nxt a b inp :
    (forall l p q a' b', instr_at Cm lab p q (br l) -> Cm m -> q < W -> 0 <= lab l < W ->
        taus inp (mk p a' b' 0 m) (mk (if taken a' then lab l else q) a' b' 0 m)) ->
    Cm m -> code_at Cm lab pos (bool_tail br n) nxt -> 0 <= pos -> nxt < W ->
    taus inp (mk pos a b 0 m) (mk nxt (if taken a then 1 else 0) b 0 m).
  Proof.
    intros Hbr HC Hc Hp Hn. unfold bool_tail in Hc.
    one_instr Hc p1 Hi1. one_instr Hc p2 Hi2. one_instr Hc p3 Hi3. one_instr Hc p4 Hi4. one_instr Hc p5 Hi5. one_instr Hc p6 Hi6.
    subst p6. cbn [instr_at] in Hi4, Hi6. destruct Hi4 as [E4 Ln]. destruct Hi6 as [E6 Le]. subst p4 p5.
    pose proof (instr_at_le _ _ _ _ _ Hi2) as L2. pose proof (instr_at_le _ _ _ _ _ Hi3) as L3.
    pose proof (instr_at_le _ _ _ _ _ Hi5) as L5.
    assert (L1 : pos <= p1).
    { assert (Hne : forall l, br l <> LABEL l -> True) by trivial. destruct (br n) eqn:Eb; cbn [instr_at] in Hi1; lia. }
    pose proof (Hbr n pos p1 a b Hi1 HC ltac:(lia) ltac:(lia)) as T1.
    destruct (taken a).
    - eapply taus_trans; [exact T1|]. rewrite Ln.
      pose proof (exec_instr Cm lab m p3 nxt (LDAC 1) a b inp eq_refl Hi5 HC I Hn) as T5.
      cbn [sem fst snd] in T5. change (1 mod W) with 1 in T5. exact T5.
    - eapply taus_trans; [exact T1|].
      pose proof (exec_instr Cm lab m p1 p2 (LDAC 0) a b inp eq_refl Hi2 HC I ltac:(lia)) as T2.
      cbn [sem fst snd] in T2. change (0 mod W) with 0 in T2.
      eapply taus_trans; [exact T2|].
      pose proof (exec_br Cm lab m p2 p3 (n + 1) 0 b inp Hi3 HC ltac:(lia) ltac:(lia)) as T3. rewrite Le in T3. exact T3.
  Qed.
  Lemma run_btail_brz n m pos nxt a b inp : Cm m -> code_at Cm lab pos (bool_tail BRZ n) nxt -> 0 <= pos -> nxt < W ->
    taus inp (mk pos a b 0 m) (mk nxt (if a =? 0 then 1 else 0) b 0 m).
  Proof.
    intros HC Hc Hp Hn. apply (run_btail BRZ (fun x => x =? 0) n m pos nxt a b inp); try assumption.
    intros l p q a' b' Hi HCm Hq Hl. exact (exec_brz Cm lab m p q l a' b' inp Hi HCm Hq Hl).
  Qed.
  Lemma run_btail_brn n m pos nxt a b inp : Cm m -> code_at Cm lab pos (bool_tail BRN n) nxt -> 0 <= pos -> nxt < W ->
    taus inp (mk pos a b 0 m) (mk nxt (if negative a then 1 else 0) b 0 m).
  Proof.
    intros HC Hc Hp Hn. apply (run_btail BRN negative n m pos nxt a b inp); try assumption.
    intros l p q a' b' Hi HCm Hq Hl. exact (exec_brn Cm lab m p q l a' b' inp Hi HCm Hq Hl).
  Qed.

  Lemma int_bounds z : in_int z = true -> -2147483648 <= z <= 2147483647.
  Proof. unfold in_int, min_int, max_int. intros H. apply andb_prop in H. destruct H as [H1 H2]. apply Z.leb_le in H1. apply Z.leb_le in H2. lia. Qed.
  Lemma w_add x y : wrap (x mod W + y mod W) = (x + y) mod W.
  Proof. unfold wrap. rewrite <- Zplus_mod. reflexivity. Qed.
  Lemma w_sub x y : wrap (x mod W - y mod W) = (x - y) mod W.
  Proof. unfold wrap. rewrite <- Zminus_mod. reflexivity. Qed.
  Lemma w_zero z : in_int z = true -> (z mod W =? 0) = (z =? 0).
  Proof.
    intros H. apply int_bounds in H. unfold W. destruct (z =? 0) eqn:E.
    - apply Z.eqb_eq in E. subst z. reflexivity.
    - apply Z.eqb_neq in E. apply Z.eqb_neq. intros Hm. apply Z.mod_divide in Hm; [|lia]. destruct Hm as [q Hq]. lia.
  Qed.
  Lemma w_neg z : in_int z = true -> negative (z mod W) = (z <? 0).
  Proof.
    intros H. apply int_bounds in H. unfold negative, W. destruct (z <? 0) eqn:E.
    - apply Z.ltb_lt in E. apply Z.leb_le. replace (z mod 4294967296) with (z + 4294967296); [lia|].
      symmetry. rewrite <- (Z_mod_plus_full z 1 4294967296). apply Z.mod_small. lia.
    - apply Z.ltb_ge in E. apply Z.leb_gt. rewrite Z.mod_small by lia. lia.
  Qed.
  Lemma w_eq x y : in_int x = true -> in_int y = true -> ((x - y) mod W =? 0) = (x =? y).
  Proof.
    intros Hx Hy. apply int_bounds in Hx. apply int_bounds in Hy. unfold W. destruct (x =? y) eqn:E.
    - apply Z.eqb_eq in E. subst y. rewrite Z.sub_diag. reflexivity.
    - apply Z.eqb_neq in E. apply Z.eqb_neq. intros Hm. apply Z.mod_divide in Hm; [|lia]. destruct Hm as [q Hq]. lia.
  Qed.
  Lemma simple_pure e : simple e = true -> pure e = true.
  Proof. destruct e; cbn; intros H; try discriminate; reflexivity. Qed.

  (* the two operands: the left one (calls on its left spine) into areg, the simple right one loadable into breg *)
  Definition opnds_ok (st : state) (r : res (list value)) (rr : expr) (cr : list instr) (m : WMap.t) (pos p1 a b : Z) (inp : inputs) : Prop :=
    match r with
    | Ret vs s1 => exists outs x y b1 m1, vs = [Vint x; Vint y] /\ in_int x = true /\ in_int y = true /\
        runs inp (mk pos a b 0 m) outs (adv inp s1) (mk p1 (x mod W) b1 0 m1) /\ Rel s1 m1 /\ post st s1 outs /\ frame_only m m1 /\
        (forall p2 a' b', code_at Cm lab p1 cr p2 -> 0 <= p1 -> p2 < W ->
           taus (adv inp s1) (mk p1 a' b' 0 m1) (mk p2 a' (y mod W) 0 m1)) /\
        (is_zero rr = true -> y = 0)
    | Halt c s1 => exists outs, exits inp (mk pos a b 0 m) outs (adv inp s1) (c mod W) /\ hpost st s1 outs
    | Fail _ => True
    end.

  Lemma run_left l rr n1 cr n2 f st m pos p1 a b inp :
    (forall f0, (f0 < f)%nat -> forall st0, same_store st st0 -> rhs_ok st0 (eval f0 ge l st0) m pos p1 a b inp) ->
    simple rr = true -> cg venv pool size nslots aenv rr RB n1 off0 = Some (cr, n2) ->
    opnds_ok st (operands (evals f ge) [l; rr] st) rr cr m pos p1 a b inp.
  Proof.
    intros IHl Hsr Ecr.
    destruct (operands (evals f ge) [l; rr] st) as [vs s1|hc hs|u] eqn:Eo; cbn [opnds_ok]; [| |exact I].
    - destruct (operands_left_ret _ _ _ _ _ _ _ Eo) as (f1 & vl & sl & f2 & vr & st2 & sr & -> & El & S2 & E2 & S3 & ->).
      pose proof (IHl f1 ltac:(lia) (set_cur st eff0) (same_store_set_cur st eff0)) as R. rewrite El in R. cbn [rhs_ok] in R.
      destruct R as (outs & x & b1 & m1 & -> & Hx & R1 & HR1 & P1 & F1).
      destruct (run_simple_b rr n1 cr n2 f2 st2 vr sr m1 Ecr E2 (Rel_same _ _ _ S2 HR1)) as [Hss2 (y & -> & Hy & Hrun)].
      assert (Sl : same_store sl s1) by (eapply same_store_trans; [exact S2|]; eapply same_store_trans; [exact Hss2 | exact S3]).
      exists outs, x, y, b1, m1. split; [reflexivity|]. split; [exact Hx|]. split; [exact Hy|].
      rewrite (adv_eq inp sl s1 (same_store_input _ _ Sl)).
      split; [exact R1|]. split; [exact (Rel_same _ _ _ Sl HR1)|].
      split; [exact (post_end _ _ _ _ (post_start _ _ _ _ (same_store_set_cur st eff0) P1) Sl)|]. split; [exact F1|]. split.
      + intros p2 a' b' Hc2 Hp1 Hp2. exact (Hrun p1 p2 a' b' (adv inp sl) Hc2 Hp1 Hp2).
      + intros Hz. exact (is_zero_eval ge rr f2 st2 y sr Hz E2).
    - destruct (operands_left_halt _ _ _ _ _ _ _ (simple_pure rr Hsr) Eo) as (f1 & -> & El).
      pose proof (IHl f1 ltac:(lia) (set_cur st eff0) (same_store_set_cur st eff0)) as R. rewrite El in R. cbn [rhs_ok] in R.
      destruct R as (outs & Ex & (G1 & G2)). exists outs. split; [exact Ex|]. cbn [out_rev ncons input set_cur] in G1, G2. exact (conj G1 G2).
  Qed.


  Lemma zero_cg rr n : is_zero rr = true -> exists cr, cg venv pool size nslots aenv rr RB n off0 = Some (cr, n).
  Proof.
    unfold is_zero. destruct rr; cbn [lit_of]; try discriminate; intros H; apply Z.eqb_eq in H; cbn [cg lit_of obind]; rewrite H;
      cbn; eexists; reflexivity.
  Qed.

  (* left operand; simple right operand into breg; ADD or SUB *)
  Definition arith_ok (wop : Z -> Z -> Z) (st : state) (r : res (list value)) (m : WMap.t) (pos nxt a b : Z) (inp : inputs) : Prop :=
    match r with
    | Ret vs s1 => exists outs x y b1 m1, vs = [Vint x; Vint y] /\ in_int x = true /\ in_int y = true /\
        runs inp (mk pos a b 0 m) outs (adv inp s1) (mk nxt (wop x y mod W) b1 0 m1) /\ Rel s1 m1 /\ post st s1 outs /\ frame_only m m1
    | Halt c s1 => exists outs, exits inp (mk pos a b 0 m) outs (adv inp s1) (c mod W) /\ hpost st s1 outs
    | Fail _ => True
    end.
  Lemma run_arith opi wop l rr cl n1 cr n2 f st m pos nxt a b inp :
    (opi = ADD /\ wop = Z.add) \/ (opi = SUB /\ wop = Z.sub) ->
    (forall p1, code_at Cm lab pos cl p1 -> p1 < W ->
       forall f0, (f0 < f)%nat -> forall st0, same_store st st0 -> rhs_ok st0 (eval f0 ge l st0) m pos p1 a b inp) ->
    simple rr = true -> cg venv pool size nslots aenv rr RB n1 off0 = Some (cr, n2) ->
    code_at Cm lab pos (cl ++ cr ++ [opi]) nxt -> 0 <= pos -> nxt < W ->
    arith_ok wop st (operands (evals f ge) [l; rr] st) m pos nxt a b inp.
  Proof.
    intros Hop IHl Hsr Ecr Hc Hp Hn.
    apply code_at_app in Hc. destruct Hc as (p1 & Hc1 & Hc). apply code_at_app in Hc. destruct Hc as (p2 & Hc2 & Hc3).
    one_instr Hc3 p3 Hi3. subst p3.
    pose proof (code_at_le _ _ _ _ _ Hc1) as L1. pose proof (code_at_le _ _ _ _ _ Hc2) as L2.
    assert (L3 : p2 <= nxt) by (destruct Hop as [[-> _]|[-> _]]; exact (instr_at_le _ _ _ _ _ Hi3)).
    pose proof (run_left l rr n1 cr n2 f st m pos p1 a b inp (IHl p1 Hc1 ltac:(lia)) Hsr Ecr) as R.
    destruct (operands (evals f ge) [l; rr] st) as [vs s1|hc hs|u]; cbn [opnds_ok arith_ok] in *; [| exact R | exact I].
    destruct R as (outs & x & y & b1 & m1 & -> & Hx & Hy & R1 & HR1 & P1 & F1 & Hrun & _).
    pose proof (Hrun p2 (x mod W) b1 Hc2 ltac:(lia) ltac:(lia)) as T2.
    exists outs, x, y, (y mod W), m1. split; [reflexivity|]. split; [exact Hx|]. split; [exact Hy|].
    split; [|exact (conj HR1 (conj P1 F1))].
    eapply runs_taus; [exact R1|]. eapply taus_trans; [exact T2|].
    destruct Hop as [[-> ->]|[-> ->]].
    - pose proof (exec_instr Cm lab m1 p2 nxt ADD (x mod W) (y mod W) (adv inp s1) eq_refl Hi3 (proj1 HR1) I Hn) as T3.
      cbn [sem fst snd] in T3. rewrite w_add in T3. exact T3.
    - pose proof (exec_instr Cm lab m1 p2 nxt SUB (x mod W) (y mod W) (adv inp s1) eq_refl Hi3 (proj1 HR1) I Hn) as T3.
      cbn [sem fst snd] in T3. rewrite w_sub in T3. exact T3.
  Qed.

  Lemma of_bool_int t : in_int (of_bool t) = true. Proof. destruct t; reflexivity. Qed.
  Lemma of_bool_mod t : of_bool t mod W = if t then 1 else 0. Proof. destruct t; reflexivity. Qed.

  Lemma run_cgl F : (forall f', (f' < F)%nat -> call_spec f') ->
    forall e n c n1 f st m pos nxt a b inp, (f <= F)%nat ->
    cgl' e n = Some (c, n1) -> Rel st m -> console inp = input st -> code_at Cm lab pos c nxt -> 0 <= pos -> nxt < W ->
    rhs_ok st (eval f ge e st) m pos nxt a b inp.
  Proof.
    intros Hcall. induction e as [n0|b0|bs|x|ar i IHi|g args|sn args|u e0 IHe|o l IHl rr IHr];
      intros n c n1 f st m pos nxt a b inp Hf Hcg HR Hcon Hc Hp Hn; cbn [cgl pure] in Hcg;
      try (match goal with |- rhs_ok _ (eval _ _ ?e0 _) _ _ _ _ _ _ =>
             exact (run_cgx F Hcall e0 n c n1 f st m pos nxt a b inp Hf Hcg HR Hcon Hc Hp Hn) end).
    - (* subscript *)
      destruct (pure i); exact (run_cgx F Hcall (ESub ar i) n c n1 f st m pos nxt a b inp Hf Hcg HR Hcon Hc Hp Hn).
    - (* unary *)
      destruct (pure e0) eqn:Ep; [exact (run_cgx F Hcall (EUn u e0) n c n1 f st m pos nxt a b inp Hf Hcg HR Hcon Hc Hp Hn)|].
      destruct u; [exact (run_cgx F Hcall (EUn Neg e0) n c n1 f st m pos nxt a b inp Hf Hcg HR Hcon Hc Hp Hn)|].
      (* ~ e0 *)
      destruct (cgl' e0 (n + 2)) as [[c0 n2]|] eqn:E0; [|discriminate]. cbn [obind] in Hcg. inversion Hcg; subst c n1.
      apply code_at_app in Hc. destruct Hc as (p1 & Hc1 & Hc2).
      pose proof (code_at_le _ _ _ _ _ Hc1) as L1. pose proof (code_at_le _ _ _ _ _ Hc2) as L2.
      destruct f as [|f1]; [exact I|].
      change (eval (S f1) ge (EUn Not e0) st) with (eval_body (eval f1 ge) (evals f1 ge) (exec f1 ge) ge (EUn Not e0) st).
      cbn [eval_body].
      pose proof (IHe (n + 2) c0 n2 f1 st m pos p1 a b inp ltac:(lia) E0 HR Hcon Hc1 Hp ltac:(lia)) as R.
      destruct (eval f1 ge e0 st) as [v s1|hc hs|u]; cbn [bind rcase rhs_ok] in *; [| exact R | exact I].
      destruct R as (outs & z & b1 & m1 & -> & Hz & R1 & HR1 & P1 & F1).
      pose proof (run_btail_brz n m1 p1 nxt (z mod W) b1 (adv inp s1) (proj1 HR1) Hc2 ltac:(lia) Hn) as T2.
      rewrite (w_zero z Hz) in T2.
      unfold bool_of, int_of. destruct (z =? 0) eqn:Z0; [|destruct (z =? 1) eqn:Z1; [|exact I]]; cbn [rhs_ok negb of_bool].
      + exists outs, 1, b1, m1. split; [reflexivity|]. split; [reflexivity|]. split; [|exact (conj HR1 (conj P1 F1))].
        eapply runs_taus; [exact R1 | exact T2].
      + exists outs, 0, b1, m1. split; [reflexivity|]. split; [reflexivity|]. split; [|exact (conj HR1 (conj P1 F1))].
        eapply runs_taus; [exact R1 | exact T2].
    - (* binary *)
      destruct (pure l && pure rr) eqn:Ep; [exact (run_cgx F Hcall (EBin o l rr) n c n1 f st m pos nxt a b inp Hf Hcg HR Hcon Hc Hp Hn)|].
      destruct (simple rr) eqn:Esr; [|discriminate].
      assert (IHl' : forall cl nl, cgl' l n = Some (cl, nl) -> forall p1, code_at Cm lab pos cl p1 -> p1 < W ->
                forall f0, (f0 < f)%nat -> forall st0, same_store st st0 -> rhs_ok st0 (eval f0 ge l st0) m pos p1 a b inp).
      { intros cl nl El p1 Hc1 Hp1 f0 Hf0 st0 Hs0.
        exact (IHl n cl nl f0 st0 m pos p1 a b inp ltac:(lia) El (Rel_same _ _ _ Hs0 HR) (con_same _ _ _ Hcon Hs0) Hc1 Hp Hp1). }
      destruct f as [|f1]; [exact I|].
      assert (IHl1 : forall cl nl, cgl' l n = Some (cl, nl) -> forall p1, code_at Cm lab pos cl p1 -> p1 < W ->
                forall f0, (f0 < f1)%nat -> forall st0, same_store st st0 -> rhs_ok st0 (eval f0 ge l st0) m pos p1 a b inp).
      { intros cl nl El p1 Hc1 Hp1 f0 Hf0. exact (IHl' cl nl El p1 Hc1 Hp1 f0 ltac:(lia)). }
      clear IHl IHr IHl'.
      destruct o; try discriminate.
      + (* + *)
        destruct (cgl' l n) as [[cl nl]|] eqn:El; [|discriminate]. cbn [obind] in Hcg.
        destruct (cg venv pool size nslots aenv rr RB nl off0) as [[cr n2]|] eqn:Ecr; [|discriminate]. cbn [obind] in Hcg.
        inversion Hcg; subst c n1.
        change (eval (S f1) ge (EBin Plus l rr) st) with (eval_body (eval f1 ge) (evals f1 ge) (exec f1 ge) ge (EBin Plus l rr) st).
        cbn [eval_body].
        pose proof (run_arith ADD Z.add l rr cl nl cr n2 f1 st m pos nxt a b inp (or_introl (conj eq_refl eq_refl)) (IHl1 cl nl eq_refl) Esr Ecr Hc Hp Hn) as R.
        destruct (operands (evals f1 ge) [l; rr] st) as [vs s1|hc hs|u]; cbn [bind rcase arith_ok rhs_ok] in *; [| exact R | exact I].
        destruct R as (outs & x & y & b1 & m1 & -> & Hx & Hy & R1 & HR1 & P1 & F1). cbn [int_of binop_ans].
        destruct (in_int (x + y)) eqn:Ez; [|exact I]. cbn [rhs_ok].
        exists outs, (x + y), b1, m1. split; [reflexivity|]. split; [exact Ez|]. exact (conj R1 (conj HR1 (conj P1 F1))).
      + (* - *)
        destruct (cgl' l n) as [[cl nl]|] eqn:El; [|discriminate]. cbn [obind] in Hcg.
        destruct (cg venv pool size nslots aenv rr RB nl off0) as [[cr n2]|] eqn:Ecr; [|discriminate]. cbn [obind] in Hcg.
        inversion Hcg; subst c n1.
        change (eval (S f1) ge (EBin Minus l rr) st) with (eval_body (eval f1 ge) (evals f1 ge) (exec f1 ge) ge (EBin Minus l rr) st).
        cbn [eval_body].
        pose proof (run_arith SUB Z.sub l rr cl nl cr n2 f1 st m pos nxt a b inp (or_intror (conj eq_refl eq_refl)) (IHl1 cl nl eq_refl) Esr Ecr Hc Hp Hn) as R.
        destruct (operands (evals f1 ge) [l; rr] st) as [vs s1|hc hs|u]; cbn [bind rcase arith_ok rhs_ok] in *; [| exact R | exact I].
        destruct R as (outs & x & y & b1 & m1 & -> & Hx & Hy & R1 & HR1 & P1 & F1). cbn [int_of binop_ans].
        destruct (in_int (x - y)) eqn:Ez; [|exact I]. cbn [rhs_ok].
        exists outs, (x - y), b1, m1. split; [reflexivity|]. split; [exact Ez|]. exact (conj R1 (conj HR1 (conj P1 F1))).
      + (* = *)
        change (eval (S f1) ge (EBin Eq l rr) st) with (eval_body (eval f1 ge) (evals f1 ge) (exec f1 ge) ge (EBin Eq l rr) st).
        cbn [eval_body].
        destruct (is_zero rr) eqn:Zr.
        * destruct (cgl' l n) as [[cl nl]|] eqn:El; [|discriminate]. cbn [obind] in Hcg. inversion Hcg; subst c n1.
          apply code_at_app in Hc. destruct Hc as (p1 & Hc1 & Hc2).
          pose proof (code_at_le _ _ _ _ _ Hc1) as L1. pose proof (code_at_le _ _ _ _ _ Hc2) as L2.
          destruct (zero_cg rr nl Zr) as (cr & Ecr).
          pose proof (run_left l rr nl cr nl f1 st m pos p1 a b inp (IHl1 cl nl eq_refl p1 Hc1 ltac:(lia)) Esr Ecr) as R.
          destruct (operands (evals f1 ge) [l; rr] st) as [vs s1|hc hs|u]; cbn [bind rcase opnds_ok rhs_ok] in *; [| exact R | exact I].
          destruct R as (outs & x & y & b1 & m1 & -> & Hx & Hy & R1 & HR1 & P1 & F1 & _ & Hy0). rewrite (Hy0 Zr). cbn [int_of binop_ans rhs_ok].
          pose proof (run_btail_brz nl m1 p1 nxt (x mod W) b1 (adv inp s1) (proj1 HR1) Hc2 ltac:(lia) Hn) as T2. rewrite (w_zero x Hx) in T2.
          exists outs, (of_bool (x =? 0)), b1, m1. split; [reflexivity|]. split; [apply of_bool_int|]. rewrite of_bool_mod.
          split; [|exact (conj HR1 (conj P1 F1))]. eapply runs_taus; [exact R1 | exact T2].
        * destruct (cgl' l n) as [[cl nl]|] eqn:El; [|discriminate]. cbn [obind] in Hcg.
          destruct (cg venv pool size nslots aenv rr RB nl off0) as [[cr n2]|] eqn:Ecr; [|discriminate]. cbn [obind] in Hcg.
          inversion Hcg; subst c n1.
          apply code_at_app in Hc. destruct Hc as (p1 & Hc1 & Hc2).
          pose proof (code_at_le _ _ _ _ _ Hc1) as L1. pose proof (code_at_le _ _ _ _ _ Hc2) as L2.
          pose proof (run_arith SUB Z.sub l rr cl nl cr n2 f1 st m pos p1 a b inp (or_intror (conj eq_refl eq_refl)) (IHl1 cl nl eq_refl) Esr Ecr Hc1 Hp ltac:(lia)) as R.
          destruct (operands (evals f1 ge) [l; rr] st) as [vs s1|hc hs|u]; cbn [bind rcase arith_ok rhs_ok] in *; [| exact R | exact I].
          destruct R as (outs & x & y & b1 & m1 & -> & Hx & Hy & R1 & HR1 & P1 & F1). cbn [int_of binop_ans rhs_ok].
          pose proof (run_btail_brz n2 m1 p1 nxt ((x - y) mod W) b1 (adv inp s1) (proj1 HR1) Hc2 ltac:(lia) Hn) as T2. rewrite (w_eq x y Hx Hy) in T2.
          exists outs, (of_bool (x =? y)), b1, m1. split; [reflexivity|]. split; [apply of_bool_int|]. rewrite of_bool_mod.
          split; [|exact (conj HR1 (conj P1 F1))]. eapply runs_taus; [exact R1 | exact T2].
      + (* < *)
        change (eval (S f1) ge (EBin Ls l rr) st) with (eval_body (eval f1 ge) (evals f1 ge) (exec f1 ge) ge (EBin Ls l rr) st).
        cbn [eval_body].
        destruct (is_zero rr) eqn:Zr.
        * destruct (cgl' l n) as [[cl nl]|] eqn:El; [|discriminate]. cbn [obind] in Hcg. inversion Hcg; subst c n1.
          apply code_at_app in Hc. destruct Hc as (p1 & Hc1 & Hc2).
          pose proof (code_at_le _ _ _ _ _ Hc1) as L1. pose proof (code_at_le _ _ _ _ _ Hc2) as L2.
          destruct (zero_cg rr nl Zr) as (cr & Ecr).
          pose proof (run_left l rr nl cr nl f1 st m pos p1 a b inp (IHl1 cl nl eq_refl p1 Hc1 ltac:(lia)) Esr Ecr) as R.
          destruct (operands (evals f1 ge) [l; rr] st) as [vs s1|hc hs|u]; cbn [bind rcase opnds_ok rhs_ok] in *; [| exact R | exact I].
          destruct R as (outs & x & y & b1 & m1 & -> & Hx & Hy & R1 & HR1 & P1 & F1 & _ & Hy0). rewrite (Hy0 Zr). cbn [int_of binop_ans].
          destruct (in_int (x - 0) && in_int (0 - x)) eqn:Ed; [|exact I]. cbn [rhs_ok].
          pose proof (run_btail_brn nl m1 p1 nxt (x mod W) b1 (adv inp s1) (proj1 HR1) Hc2 ltac:(lia) Hn) as T2. rewrite (w_neg x Hx) in T2.
          exists outs, (of_bool (x <? 0)), b1, m1. split; [reflexivity|]. split; [apply of_bool_int|]. rewrite of_bool_mod.
          split; [|exact (conj HR1 (conj P1 F1))]. eapply runs_taus; [exact R1 | exact T2].
        * destruct (cgl' l n) as [[cl nl]|] eqn:El; [|discriminate]. cbn [obind] in Hcg.
          destruct (cg venv pool size nslots aenv rr RB nl off0) as [[cr n2]|] eqn:Ecr; [|discriminate]. cbn [obind] in Hcg.
          inversion Hcg; subst c n1.
          apply code_at_app in Hc. destruct Hc as (p1 & Hc1 & Hc2).
          pose proof (code_at_le _ _ _ _ _ Hc1) as L1. pose proof (code_at_le _ _ _ _ _ Hc2) as L2.
          pose proof (run_arith SUB Z.sub l rr cl nl cr n2 f1 st m pos p1 a b inp (or_intror (conj eq_refl eq_refl)) (IHl1 cl nl eq_refl) Esr Ecr Hc1 Hp ltac:(lia)) as R.
          destruct (operands (evals f1 ge) [l; rr] st) as [vs s1|hc hs|u]; cbn [bind rcase arith_ok rhs_ok] in *; [| exact R | exact I].
          destruct R as (outs & x & y & b1 & m1 & -> & Hx & Hy & R1 & HR1 & P1 & F1). cbn [int_of binop_ans].
          destruct (in_int (x - y) && in_int (y - x)) eqn:Ed; [|exact I]. cbn [rhs_ok].
          apply andb_prop in Ed. destruct Ed as [Ed _].
          pose proof (run_btail_brn n2 m1 p1 nxt ((x - y) mod W) b1 (adv inp s1) (proj1 HR1) Hc2 ltac:(lia) Hn) as T2. rewrite (w_neg (x - y) Ed) in T2.
          exists outs, (of_bool (x <? y)), b1, m1. split; [reflexivity|]. split; [apply of_bool_int|]. rewrite of_bool_mod.
          replace (x <? y) with (x - y <? 0) by (destruct (x - y <? 0) eqn:E1; [apply Z.ltb_lt in E1; symmetry; apply Z.ltb_lt; lia | apply Z.ltb_ge in E1; symmetry; apply Z.ltb_ge; lia]).
          split; [|exact (conj HR1 (conj P1 F1))]. eapply runs_taus; [exact R1 | exact T2].
  Qed.


  (* ---- a procedure call whose first actual has a call on its left spine *)
  Notation cargs1' := (cargs1 pinfo venv pool size nslots aenv off0 og).

  Lemma ret_ok_after isf st st1 r m m1 pos p1 nxt a b a1 b1 inp o1 :
    runs inp (mk pos a b 0 m) o1 (adv inp st1) (mk p1 a1 b1 0 m1) -> post st st1 o1 -> frame_only m m1 ->
    ret_ok isf st1 r m1 p1 nxt a1 b1 (adv inp st1) -> ret_ok isf st r m pos nxt a b inp.
  Proof.
    intros Hr Hp Hfo. destruct r as [v st'|c st'|u]; cbn [ret_ok]; trivial.
    - intros (o & a' & b' & m' & H1 & H2 & H3 & H4 & H5). exists (o1 ++ o), a', b', m'. change (adv (adv inp st1) st') with (adv inp st') in H1.
      exact (conj (runs_trans _ _ _ _ _ _ _ _ Hr H1) (conj H2 (conj (post_trans _ _ _ _ _ Hp H3) (conj (frame_only_trans _ _ _ Hfo H4) H5)))).
    - intros (o & H1 & H2). exists (o1 ++ o). change (adv (adv inp st1) st') with (adv inp st') in H1.
      exact (conj (runs_exits _ _ _ _ _ _ _ _ Hr H1) (post_hpost_trans _ _ _ _ _ Hp H2)).
  Qed.

  Lemma evals_len : forall args f st L s, evals f ge args st = Ret L s -> List.length (map fst L) = List.length args.
  Proof.
    induction args as [|e r IHa]; intros f st L s Eo.
    - destruct (evals_nil _ _ _ _ _ Eo) as [-> _]. reflexivity.
    - destruct (evals_cons _ _ _ _ _ _ _ Eo) as (f1 & v & sl & L' & -> & _ & Er & ->). cbn [map List.length]. f_equal. eapply IHa. exact Er.
  Qed.

  Lemma run_call1 F : (forall f', (f' < F)%nat -> call_spec f') ->
    forall g pi args n c n1 f0 st0 m pos nxt a b inp, (f0 < F)%nat ->
    pinfo g = Some pi -> Z.of_nat (List.length args) + koff pi <= og ->
    cargs1' args (koff pi) n = Some (c, n1) -> Rel st0 m -> console inp = input st0 ->
    code_at Cm lab pos (c ++ [LDAP n1; BR (pf_entry pi); LABEL n1]) nxt -> 0 <= pos -> nxt < W ->
    ret_ok (pf_isfunc pi) st0
      (bind (operands (evals f0 ge) args st0) (fun vs s1 => invoke (exec f0 ge) ge (pf_isfunc pi) g vs s1)) m pos nxt a b inp.
  Proof.
    intros Hcall g pi args n c n1 f0 st0 m pos nxt a b inp Hf Epi Eog Ec HR0 Hcon Hc Hp Hn.
    unfold cargs1 in Ec. destruct args as [|e r]; [exact (run_call F Hcall g pi [] n c n1 f0 st0 m pos nxt a b inp Hf Epi Eog Ec HR0 Hcon Hc Hp Hn)|].
    destruct (pure e) eqn:Epe; [exact (run_call F Hcall g pi (e :: r) n c n1 f0 st0 m pos nxt a b inp Hf Epi Eog Ec HR0 Hcon Hc Hp Hn)|].
    destruct (forallb simple r && ((0 <=? off0) && (off0 <? nslots))) eqn:Econd; [|discriminate].
    apply andb_prop in Econd. destruct Econd as [Esr Eoff]. apply andb_prop in Eoff. destruct Eoff as [Eo1 Eo2].
    apply Z.leb_le in Eo1. apply Z.ltb_lt in Eo2.
    assert (Hpr : forall x, In x r -> pure x = true).
    { intros x Hx. rewrite forallb_forall in Esr. exact (simple_pure x (Esr x Hx)). }
    destruct (cgl' e n) as [[ce n2]|] eqn:Ece; [|discriminate]. cbn [obind] in Ec.
    destruct (cargs' r (koff pi + 1) n2) as [[cr n3]|] eqn:Ecr; [|discriminate]. cbn [obind] in Ec. inversion Ec; subst c n1. clear Ec.
    assert (Hk0 : 1 <= koff pi <= 2) by (unfold koff; destruct (pf_isfunc pi); lia).
    cbn [List.length] in Eog. rewrite Nat2Z.inj_succ in Eog.
    (* the code *)
    apply code_at_app in Hc. destruct Hc as (q0 & Hcargs & Hc).
    apply code_at_app in Hcargs. destruct Hcargs as (p1 & Hc1 & Hcr0).
    assert (Hs1 : exists p2, code_at Cm lab p1 [LDBM 1; STAI (size - 1 - off0)] p2 /\
                   code_at Cm lab p2 ([LDAM 1; LDAI (size - 1 - off0); LDBM 1; STAI (koff pi)] ++ cr) q0).
    { apply (code_at_app Cm lab [LDBM 1; STAI (size - 1 - off0)]). exact Hcr0. }
    clear Hcr0. destruct Hs1 as (p2 & Hc2 & Hcr0).
    assert (Hs2 : exists p3, code_at Cm lab p2 [LDAM 1; LDAI (size - 1 - off0)] p3 /\ code_at Cm lab p3 ([LDBM 1; STAI (koff pi)] ++ cr) q0).
    { apply (code_at_app Cm lab [LDAM 1; LDAI (size - 1 - off0)] ([LDBM 1; STAI (koff pi)] ++ cr)). exact Hcr0. }
    clear Hcr0. destruct Hs2 as (p3 & Hc3 & Hcr0).
    assert (Hs3 : exists p4, code_at Cm lab p3 [LDBM 1; STAI (koff pi)] p4 /\ code_at Cm lab p4 cr q0).
    { apply (code_at_app Cm lab [LDBM 1; STAI (koff pi)] cr). exact Hcr0. }
    clear Hcr0. destruct Hs3 as (p4 & Hc4 & Hc5).
    one_instr Hc3 p31 Hi31. one_instr Hc3 p32 Hi32. subst p32.
    one_instr Hc q1 Hi2. one_instr Hc q2 Hi3. one_instr Hc q3 Hi4. subst q3. cbn [instr_at] in Hi4. destruct Hi4 as [E4 Ll]. subst q2.
    pose proof (code_at_le _ _ _ _ _ Hc1) as L1. pose proof (code_at_le _ _ _ _ _ Hc2) as L2. pose proof (instr_at_le _ _ _ _ _ Hi31) as L31.
    pose proof (instr_at_le _ _ _ _ _ Hi32) as L32. pose proof (code_at_le _ _ _ _ _ Hc4) as L4. pose proof (code_at_le _ _ _ _ _ Hc5) as L5.
    pose proof (instr_at_le _ _ _ _ _ Hi2) as M2. pose proof (instr_at_le _ _ _ _ _ Hi3) as M3.
    destruct (operands (evals f0 ge) (e :: r) st0) as [vs s1|hc hs|u] eqn:Eo; cbn [bind rcase]; [| |exact I].
    2:{ (* the first actual exits *)
        destruct (operands_first_halt _ _ _ _ _ _ _ Hpr Eo) as (f1 & -> & El).
        pose proof (run_cgl F Hcall e n ce n2 f1 (set_cur st0 eff0) m pos p1 a b inp ltac:(lia) Ece
                      (Rel_same _ _ _ (same_store_set_cur st0 eff0) HR0) Hcon Hc1 Hp ltac:(lia)) as R.
        rewrite El in R. cbn [rhs_ok ret_ok] in *. destruct R as (outs & Ex & (G1 & G2)). exists outs. split; [exact Ex|].
        cbn [out_rev ncons input set_cur] in G1, G2. exact (conj G1 G2). }
    apply operands_ret in Eo. destruct Eo as (L & Eo & ->).
    destruct (evals_cons _ _ _ _ _ _ _ Eo) as (f1 & v & sl & L' & -> & El & Er & ->).
    pose proof (run_cgl F Hcall e n ce n2 f1 (set_cur st0 eff0) m pos p1 a b inp ltac:(lia) Ece
                  (Rel_same _ _ _ (same_store_set_cur st0 eff0) HR0) Hcon Hc1 Hp ltac:(lia)) as R.
    rewrite El in R. cbn [rhs_ok] in R. destruct R as (outs & z & b1 & m1 & -> & Hz & R1 & HR1 & P1 & F1).
    (* the value goes to the first temporary and from there to its outgoing word *)
    assert (Hslot : in_mem (sp + (size - 1 - off0)) = true /\ Tm (sp + (size - 1 - off0))).
    { destruct HT_mem as [G1 G2]. unfold T, tlo, fb in *. split; [|lia]. unfold in_mem. apply andb_true_intro.
      split; [apply Z.leb_le | apply Z.ltb_lt]; lia. }
    destruct Hslot as [Sin ST].
    pose proof (run_store_sp (size - 1 - off0) m1 p1 p2 (z mod W) b1 (adv inp sl) Hc2 (proj1 HR1) (proj1 (proj2 HR1)) Sin ltac:(lia)) as T2.
    set (m2 := wr m1 (sp + (size - 1 - off0)) (z mod W)) in *.
    assert (HR2 : Rel sl m2) by (apply Rel_wr_scratch; [left; exact ST | exact (proj1 (in_mem_range _ Sin)) | exact HR1]).
    pose proof HR2 as (HC2 & H12 & _).
    pose proof (exec_instr Cm lab m2 p2 p31 (LDAM 1) (z mod W) sp (adv inp sl) eq_refl Hi31 HC2 eq_refl ltac:(lia)) as T3.
    cbn [sem fst snd] in T3. rewrite H12 in T3.
    assert (R32 : readable (LDAI (size - 1 - off0)) sp sp) by (cbn [readable]; rewrite (in_mem_wrap _ Sin); exact Sin).
    pose proof (exec_instr Cm lab m2 p31 p3 (LDAI (size - 1 - off0)) sp sp (adv inp sl) eq_refl Hi32 HC2 R32 ltac:(lia)) as T4.
    cbn [sem fst snd] in T4. rewrite (in_mem_wrap _ Sin) in T4. unfold m2 in T4 at 2. rewrite rd_wr_same in T4.
    destruct (O_facts (koff pi) ltac:(lia)) as (Oin & OnP & On1 & OnT & Os & Opos).
    pose proof (run_store_sp (koff pi) m2 p3 p4 (z mod W) sp (adv inp sl) Hc4 HC2 H12 Oin ltac:(lia)) as T5.
    set (m3 := wr m2 (sp + koff pi) (z mod W)) in *.
    assert (HR3 : Rel sl m3) by (apply Rel_wr_scratch; [exact Os | exact Opos | exact HR2]).
    (* the simple actuals *)
    set (sl' := set_cur sl (eff_union (cur st0) (cur sl))) in *.
    assert (Sl : same_store sl sl') by apply same_store_set_cur.
    destruct (run_args r (koff pi + 1) n2 cr n3 f1 sl' L' s1 m3 Ecr Er (Rel_same _ _ _ Sl HR3) ltac:(lia) ltac:(lia)) as [Hss Hrun].
    destruct (Hrun p4 q0 (z mod W) sp (adv inp sl) Hc5 ltac:(lia) ltac:(lia)) as (a4 & b4 & m4 & T6 & HR4 & Hk4 & Hst4).
    assert (Sall : same_store sl s1) by (eapply same_store_trans; [exact Sl | exact Hss]).
    pose proof (Rel_same _ _ _ Hss HR4) as HR4'.
    assert (Hst : args_stored (map fst ((Vint z, cur sl) :: L')) (koff pi) m4).
    { intros i v0 Hi. destruct i as [|j]; cbn [map fst nth_error] in Hi.
      - inversion Hi; subst v0. rewrite Z.add_0_r. rewrite Hk4; [|exact Opos | exact OnT | lia]. unfold m3. rewrite rd_wr_same.
        left. exists z. repeat split. exact Hz.
      - pose proof (Hst4 j v0 Hi) as Hrd. replace (sp + koff pi + Z.of_nat (S j)) with (sp + (koff pi + 1) + Z.of_nat j) by lia. exact Hrd. }
    pose proof (evals_len r f1 sl' L' s1 Er) as Hlen.
    pose proof (exec_ldap Cm lab m4 q0 q1 n3 a4 b4 (adv inp sl) Hi2 (proj1 HR4) ltac:(lia) ltac:(lia)) as T7. rewrite Ll in T7.
    pose proof (exec_br Cm lab m4 q1 nxt (pf_entry pi) nxt b4 (adv inp sl) Hi3 (proj1 HR4) Hn (Hentry g pi Epi)) as T8.
    assert (Hinp : adv inp sl = adv inp s1) by (symmetry; apply adv_eq; exact (same_store_input _ _ Sall)).
    pose proof (Hcall (S f1) Hf g pi (map fst ((Vint z, cur sl) :: L')) s1 m4 nxt b4 (adv inp s1) Epi HR4' eq_refl Hst
                  ltac:(cbn [map List.length]; rewrite Hlen; lia) ltac:(lia)) as Hcs1.
    assert (Hfo : frame_only m m4).
    { eapply frame_only_trans; [exact F1|].
      eapply frame_only_trans; [apply (frame_only_wr_scratch m1 _ (z mod W) (or_introl ST) (proj1 (in_mem_range _ Sin)))|].
      eapply frame_only_trans; [apply (frame_only_wr_scratch m2 _ (z mod W) Os Opos)|].
      intros x Hx Hns _. apply Hk4; [exact Hx | intros Ht; apply Hns; left; exact Ht|].
      intros Hr. apply Hns. right. left. unfold O. lia. }
    eapply (ret_ok_after (pf_isfunc pi) st0 s1 _ m m4 pos (lab (pf_entry pi)) nxt a b nxt b4 inp outs); [| | exact Hfo |].
    - rewrite <- Hinp. eapply runs_taus; [exact R1|]. eapply taus_trans; [exact T2|]. eapply taus_trans; [exact T3|].
      eapply taus_trans; [exact T4|]. eapply taus_trans; [exact T5|]. eapply taus_trans; [exact T6|]. eapply taus_trans; [exact T7 | exact T8].
    - exact (post_end _ _ _ _ (post_start _ _ _ _ (same_store_set_cur st0 eff0) P1) Sall).
    - exact Hcs1.
  Qed.

  (* ---- the theorem *)
  Theorem stmt_correct_calls : forall f, (forall f', (f' < f)%nat -> call_spec f') -> stmt_ok f.
  Proof.
    induction f as [f IH0] using lt_wf_ind. intros Hcall s n code n' st Hcs m pos nxt a b inp HR Hcon Hc Hp Hn Hex.
    destruct f as [|f0]; [exact I|].
    assert (IH : forall f1, (f1 < S f0)%nat -> stmt_ok f1).
    { intros f1 Hf1. apply IH0; [exact Hf1|]. intros f' Hf'. apply Hcall. lia. }
    clear IH0.
    change (exec (S f0) ge s st) with (exec_body (eval f0 ge) (evals f0 ge) (exec f0 ge) (execs f0 ge) ge s st).
    unfold exec_body, tick. destruct (budget st <=? 0); [exact I|].
    change (set_budget st (budget st - 1)) with (ticked st).
    apply (result_ok_start st (ticked st)); [apply same_store_ticked|].
    assert (HR0 : Rel (ticked st) m) by (eapply Rel_same; [apply same_store_ticked | exact HR]).
    change (console inp = input (ticked st)) in Hcon.
    set (st0 := ticked st) in *. clearbody st0. clear HR.
    pose proof Hcs as Hcs0.
    destruct s as [| |e|c t e|c bd|ss|x e|x i e|g args|sn args]; cbn [cs] in Hcs; try discriminate.
    - (* skip *)
      inversion Hcs; subst code n'. cbn [code_at] in Hc. subst nxt.
      exists [], a, b, m. exact (conj (taus_adv _ _ _ _ Hcon (taus_refl _ _)) (conj HR0 (conj (post_refl st0) (frame_only_refl m)))).
    - (* stop *)
      inversion Hcs; subst code n'. destruct HR0 as (HC & H1 & _).
      one_instr Hc p1 Hi1. one_instr Hc p2 Hi2. one_instr Hc p3 Hi3. one_instr Hc p4 Hi4. subst p4.
      pose proof (instr_at_le _ _ _ _ _ Hi2) as L2. pose proof (instr_at_le _ _ _ _ _ Hi3) as L3. pose proof (instr_at_le _ _ _ _ _ Hi4) as L4.
      destruct Hstop as (Sin & SnP & Sn1).
      pose proof (exec_instr Cm lab m pos p1 (LDBM 1) a b inp eq_refl Hi1 HC eq_refl ltac:(lia)) as T1. cbn [sem fst snd] in T1. rewrite H1 in T1.
      pose proof (exec_instr Cm lab m p1 p2 (LDAC 0) a sp inp eq_refl Hi2 HC I ltac:(lia)) as T2. cbn [sem fst snd] in T2. change (0 mod W) with 0 in T2.
      assert (R3 : readable (STAI 2) 0 sp) by (cbn [readable]; rewrite (in_mem_wrap _ Sin); exact Sin).
      pose proof (exec_instr Cm lab m p2 p3 (STAI 2) 0 sp inp eq_refl Hi3 HC R3 ltac:(lia)) as T3. cbn [sem fst snd] in T3. rewrite (in_mem_wrap _ Sin) in T3.
      set (m2 := wr m (sp + 2) 0) in *.
      assert (HC2 : Cm m2) by (apply Cm_wr; [exact HC | exact (proj1 (in_mem_range _ Sin)) | exact SnP]).
      assert (H12 : rd m2 1 = sp) by (unfold m2; rewrite rd_wr_other; [exact H1 | exact (proj1 (in_mem_range _ Sin)) | lia | exact Sn1]).
      assert (Hin2 : in_mem (wrap (rd m2 1 + 2)) = true) by (rewrite H12, (in_mem_wrap _ Sin); exact Sin).
      pose proof (exec_svc_exit Cm lab m2 p3 nxt sp inp Hi4 HC2 Hin2) as T4.
      rewrite H12, (in_mem_wrap _ Sin) in T4. unfold m2 in T4 at 2. rewrite rd_wr_same in T4.
      exists []. split; [|apply post_hpost, post_refl]. change (0 mod W) with 0. rewrite (adv_id _ _ Hcon).
      eapply taus_exits; [exact T1|]. eapply taus_exits; [exact T2|]. eapply taus_exits; [exact T3|]. exact T4.
    - (* return e *)
      destruct (cgl' e n) as [[c n1]|] eqn:Ec; [|discriminate]. cbn [obind] in Hcs. inversion Hcs; subst code n'.
      apply code_at_app in Hc. destruct Hc as (p1 & Hc1 & Hc2). one_instr Hc2 p2 Hi2. subst p2.
      pose proof (code_at_le _ _ _ _ _ Hc1) as L1. pose proof (instr_at_le _ _ _ _ _ Hi2) as L2.
      pose proof (run_cgl (S f0) Hcall e n c n1 f0 st0 m pos p1 a b inp ltac:(lia) Ec HR0 Hcon Hc1 Hp ltac:(lia)) as R.
      destruct (eval f0 ge e st0) as [v s1|hc hs|u]; cbn [bind rcase rhs_ok result_ok] in *; [| exact R | exact I].
      destruct R as (outs & z & b1 & m1 & -> & Hz & R1 & HR1 & P1 & F1).
      exists outs, z, b1, m1. split; [reflexivity|]. split; [exact Hz|]. split; [|exact (conj HR1 (conj P1 F1))].
      eapply runs_taus; [exact R1|]. destruct HR1 as (HC1 & _).
      exact (exec_br Cm lab m1 p1 nxt exitl (z mod W) b1 (adv inp s1) Hi2 HC1 Hn Hex).
    - (* if *)
      destruct (is_skip t && is_skip e) eqn:Ebb.
      + (* both branches are skip: no code *)
        destruct (pure c) eqn:Epc; [|discriminate]. inversion Hcs; subst code n'. cbn [code_at] in Hc. subst nxt.
        apply andb_prop in Ebb. destruct Ebb as [Et Ee]. destruct t; try discriminate. destruct e; try discriminate.
        destruct (eval f0 ge c st0) as [v s1|hc hs|u] eqn:Ece; cbn [bind rcase]; [| |exact I].
        2:{ exfalso. exact (pure_no_halt ge c Epc _ _ _ _ Ece). }
        pose proof (eval_pure ge c Epc _ _ _ _ Ece) as Hss.
        unfold bool_of, int_of. destruct v as [|z| |]; try exact I.
        assert (Hsk : forall fl, match fl with true | false => exec f0 ge SSkip s1 end = exec f0 ge SSkip s1) by (intros []; reflexivity).
        assert (Hskip : result_ok st0 (exec f0 ge SSkip s1) m pos pos a b inp).
        { apply (result_ok_start st0 s1); [exact Hss|].
         exact (IH f0 ltac:(lia) SSkip n [] n s1 eq_refl m pos pos a b inp (Rel_same _ _ _ Hss HR0) (con_same _ _ _ Hcon Hss) eq_refl Hp Hn Hex). }
        destruct (z =? 0); [exact Hskip|]. destruct (z =? 1); [exact Hskip | exact I].
      + destruct (is_skip e) eqn:Ese.
        * (* no else branch:  c; BRZ end; t; end: *)
          destruct (cgl' c (n + 1)) as [[cc n1]|] eqn:Ecc; [|discriminate]. cbn [obind] in Hcs.
          destruct (cs' t n1) as [[ct n2]|] eqn:Ect; [|discriminate]. cbn [obind] in Hcs. inversion Hcs; subst code n'.
          apply code_at_app in Hc. destruct Hc as (p1 & Hc1 & Hc). cbn [app] in Hc. one_instr Hc p2 Hi2.
          apply code_at_app in Hc. destruct Hc as (p3 & Hc3 & Hc). one_instr Hc p4 Hi4. subst p4.
          cbn [instr_at] in Hi4. destruct Hi4 as [E4 Ln]. subst p3.
          pose proof (code_at_le _ _ _ _ _ Hc1) as L1. pose proof (code_at_le _ _ _ _ _ Hc3) as L3. pose proof (instr_at_le _ _ _ _ _ Hi2) as L2.
          destruct e; try discriminate.
          pose proof (run_cgl (S f0) Hcall c (n + 1) cc n1 f0 st0 m pos p1 a b inp ltac:(lia) Ecc HR0 Hcon Hc1 Hp ltac:(lia)) as R.
          destruct (eval f0 ge c st0) as [v s1|hc hs|u]; cbn [bind rcase rhs_ok result_ok] in *; [| exact R | exact I].
          destruct R as (outs & z & b1 & m1 & -> & Hz & R1 & HR1' & P1 & F1). pose proof HR1' as (HC1 & _).
          pose proof (exec_brz Cm lab m1 p1 p2 n (z mod W) b1 (adv inp s1) Hi2 HC1 ltac:(lia) ltac:(lia)) as T2.
          unfold bool_of, int_of. destruct (z =? 0) eqn:E0; [|destruct (z =? 1) eqn:E1; [|exact I]].
          -- (* false: to the end label *)
             apply Z.eqb_eq in E0. subst z. change (0 mod W =? 0) with true in T2. cbv iota in T2. rewrite Ln in T2.
             eapply result_ok_after; [eapply runs_taus; [exact R1 | exact T2] | exact P1 | exact F1|].
             exact (IH f0 ltac:(lia) SSkip n [] n s1 eq_refl m1 nxt nxt (0 mod W) b1 (adv inp s1) HR1' eq_refl eq_refl ltac:(lia) Hn Hex).
          -- apply Z.eqb_eq in E1. subst z. change (1 mod W =? 0) with false in T2. cbv iota in T2.
             eapply result_ok_after; [eapply runs_taus; [exact R1 | exact T2] | exact P1 | exact F1|].
             exact (IH f0 ltac:(lia) t n1 ct n2 s1 Ect m1 p2 nxt (1 mod W) b1 (adv inp s1) HR1' eq_refl Hc3 ltac:(lia) Hn Hex).
        * destruct (is_skip t) eqn:Est.
          -- (* no then branch:  c; BRZ else; BR end; else: e; end: *)
             destruct (cgl' c (n + 2)) as [[cc n1]|] eqn:Ecc; [|discriminate]. cbn [obind] in Hcs.
             destruct (cs' e n1) as [[ce n2]|] eqn:Ece'; [|discriminate]. cbn [obind] in Hcs. inversion Hcs; subst code n'.
             apply code_at_app in Hc. destruct Hc as (p1 & Hc1 & Hc). cbn [app] in Hc.
             one_instr Hc p2 Hi2. one_instr Hc p3 Hi3. one_instr Hc p4 Hi4.
             apply code_at_app in Hc. destruct Hc as (p5 & Hc5 & Hc). one_instr Hc p6 Hi6. subst p6.
             cbn [instr_at] in Hi4, Hi6. destruct Hi4 as [E4 Lf]. destruct Hi6 as [E6 Le]. subst p4 p5.
             pose proof (code_at_le _ _ _ _ _ Hc1) as L1. pose proof (code_at_le _ _ _ _ _ Hc5) as L5.
             pose proof (instr_at_le _ _ _ _ _ Hi2) as L2. pose proof (instr_at_le _ _ _ _ _ Hi3) as L3.
             destruct t; try discriminate.
             pose proof (run_cgl (S f0) Hcall c (n + 2) cc n1 f0 st0 m pos p1 a b inp ltac:(lia) Ecc HR0 Hcon Hc1 Hp ltac:(lia)) as R.
             destruct (eval f0 ge c st0) as [v s1|hc hs|u]; cbn [bind rcase rhs_ok result_ok] in *; [| exact R | exact I].
             destruct R as (outs & z & b1 & m1 & -> & Hz & R1 & HR1' & P1 & F1). pose proof HR1' as (HC1 & _).
             pose proof (exec_brz Cm lab m1 p1 p2 n (z mod W) b1 (adv inp s1) Hi2 HC1 ltac:(lia) ltac:(lia)) as T2.
             unfold bool_of, int_of. destruct (z =? 0) eqn:E0; [|destruct (z =? 1) eqn:E1; [|exact I]].
             ++ apply Z.eqb_eq in E0. subst z. change (0 mod W =? 0) with true in T2. cbv iota in T2. rewrite Lf in T2.
                eapply result_ok_after; [eapply runs_taus; [exact R1 | exact T2] | exact P1 | exact F1|].
                exact (IH f0 ltac:(lia) e n1 ce n2 s1 Ece' m1 p3 nxt (0 mod W) b1 (adv inp s1) HR1' eq_refl Hc5 ltac:(lia) Hn Hex).
             ++ apply Z.eqb_eq in E1. subst z. change (1 mod W =? 0) with false in T2. cbv iota in T2.
                pose proof (exec_br Cm lab m1 p2 p3 (n + 1) (1 mod W) b1 (adv inp s1) Hi3 HC1 ltac:(lia) ltac:(lia)) as T3. rewrite Le in T3.
                eapply result_ok_after; [eapply runs_taus; [exact R1 | exact (taus_trans _ _ _ _ T2 T3)] | exact P1 | exact F1|].
                exact (IH f0 ltac:(lia) SSkip n [] n s1 eq_refl m1 nxt nxt (1 mod W) b1 (adv inp s1) HR1' eq_refl eq_refl ltac:(lia) Hn Hex).
          -- (* both branches:  c; BRZ else; t; BR end; else: e; end: *)
             destruct (cgl' c (n + 2)) as [[cc n1]|] eqn:Ecc; [|discriminate]. cbn [obind] in Hcs.
             destruct (cs' t n1) as [[ct n2]|] eqn:Ect; [|discriminate]. cbn [obind] in Hcs.
             destruct (cs' e n2) as [[ce n3]|] eqn:Ece'; [|discriminate]. cbn [obind] in Hcs. inversion Hcs; subst code n'.
             apply code_at_app in Hc. destruct Hc as (p1 & Hc1 & Hc). cbn [app] in Hc. one_instr Hc p2 Hi2.
             apply code_at_app in Hc. destruct Hc as (p3 & Hc3 & Hc). cbn [app] in Hc. one_instr Hc p4 Hi4. one_instr Hc p5 Hi5.
             apply code_at_app in Hc. destruct Hc as (p6 & Hc6 & Hc). one_instr Hc p7 Hi7. subst p7.
             cbn [instr_at] in Hi5, Hi7. destruct Hi5 as [E5 Lf]. destruct Hi7 as [E7 Le]. subst p5 p6.
             pose proof (code_at_le _ _ _ _ _ Hc1) as L1. pose proof (code_at_le _ _ _ _ _ Hc3) as L3. pose proof (code_at_le _ _ _ _ _ Hc6) as L6.
             pose proof (instr_at_le _ _ _ _ _ Hi2) as L2. pose proof (instr_at_le _ _ _ _ _ Hi4) as L4.
             pose proof (run_cgl (S f0) Hcall c (n + 2) cc n1 f0 st0 m pos p1 a b inp ltac:(lia) Ecc HR0 Hcon Hc1 Hp ltac:(lia)) as R.
             destruct (eval f0 ge c st0) as [v s1|hc hs|u]; cbn [bind rcase rhs_ok result_ok] in *; [| exact R | exact I].
             destruct R as (outs & z & b1 & m1 & -> & Hz & R1 & HR1' & P1 & F1). pose proof HR1' as (HC1 & _).
             pose proof (exec_brz Cm lab m1 p1 p2 n (z mod W) b1 (adv inp s1) Hi2 HC1 ltac:(lia) ltac:(lia)) as T2.
             unfold bool_of, int_of. destruct (z =? 0) eqn:E0; [|destruct (z =? 1) eqn:E1; [|exact I]].
             ++ apply Z.eqb_eq in E0. subst z. change (0 mod W =? 0) with true in T2. cbv iota in T2. rewrite Lf in T2.
                eapply result_ok_after; [eapply runs_taus; [exact R1 | exact T2] | exact P1 | exact F1|].
                exact (IH f0 ltac:(lia) e n2 ce n3 s1 Ece' m1 p4 nxt (0 mod W) b1 (adv inp s1) HR1' eq_refl Hc6 ltac:(lia) Hn Hex).
             ++ apply Z.eqb_eq in E1. subst z. change (1 mod W =? 0) with false in T2. cbv iota in T2.
                eapply result_ok_after; [eapply runs_taus; [exact R1 | exact T2] | exact P1 | exact F1|].
                (* the then branch, then BR end *)
                pose proof (IH f0 ltac:(lia) t n1 ct n2 s1 Ect m1 p2 p3 (1 mod W) b1 (adv inp s1) HR1' eq_refl Hc3 ltac:(lia) ltac:(lia) Hex) as Ht.
                destruct (exec f0 ge t s1) as [[|rv] st2|hc st2|u]; cbn [result_ok] in Ht |- *; [| exact Ht | exact Ht | exact I].
                destruct Ht as (o & a2 & b2 & m2 & R2 & HR2 & P2 & F2).
                exists o, a2, b2, m2. split; [|exact (conj HR2 (conj P2 F2))].
                destruct HR2 as (HC2 & _).
                pose proof (exec_br Cm lab m2 p3 p4 (n + 1) a2 b2 (adv inp st2) Hi4 HC2 ltac:(lia) ltac:(lia)) as T4. rewrite Le in T4.
                eapply runs_taus; eassumption.
    - (* while:  begin: c; BRZ end; body; BR begin; end: *)
      destruct (cgl' c (n + 2)) as [[cc n1]|] eqn:Ecc; [|discriminate]. cbn [obind] in Hcs.
      destruct (cs' bd n1) as [[cb n2]|] eqn:Ecb; [|discriminate]. cbn [obind] in Hcs. inversion Hcs; subst code n'.
      pose proof Hc as Hc0.
      cbn [app] in Hc. one_instr Hc p0 Hi0. cbn [instr_at] in Hi0. destruct Hi0 as [E0 Lb]. subst p0.
      apply code_at_app in Hc. destruct Hc as (p1 & Hc1 & Hc). cbn [app] in Hc. one_instr Hc p2 Hi2.
      apply code_at_app in Hc. destruct Hc as (p3 & Hc3 & Hc). one_instr Hc p4 Hi4. one_instr Hc p5 Hi5. subst p5.
      cbn [instr_at] in Hi5. destruct Hi5 as [E5 Le]. subst p4.
      pose proof (code_at_le _ _ _ _ _ Hc1) as L1. pose proof (code_at_le _ _ _ _ _ Hc3) as L3.
      pose proof (instr_at_le _ _ _ _ _ Hi2) as L2. pose proof (instr_at_le _ _ _ _ _ Hi4) as L4.
      pose proof (run_cgl (S f0) Hcall c (n + 2) cc n1 f0 st0 m pos p1 a b inp ltac:(lia) Ecc HR0 Hcon Hc1 Hp ltac:(lia)) as R.
      destruct (eval f0 ge c st0) as [v s1|hc hs|u]; cbn [bind rcase rhs_ok result_ok] in *; [| exact R | exact I].
      destruct R as (outs & z & b1 & m1 & -> & Hz & R1 & HR1' & P1 & F1). pose proof HR1' as (HC1 & _).
      pose proof (exec_brz Cm lab m1 p1 p2 (n + 1) (z mod W) b1 (adv inp s1) Hi2 HC1 ltac:(lia) ltac:(lia)) as T2.
      unfold bool_of, int_of. destruct (z =? 0) eqn:E0; [|destruct (z =? 1) eqn:E1; [|exact I]].
      + (* the condition is false: leave the loop *)
        apply Z.eqb_eq in E0. subst z. change (0 mod W =? 0) with true in T2. cbv iota in T2. rewrite Le in T2.
        exists outs, (0 mod W), b1, m1. split; [eapply runs_taus; [exact R1 | exact T2]|]. split; [exact HR1'|]. split; [exact P1 | exact F1].
      + (* one iteration, then the loop again *)
        apply Z.eqb_eq in E1. subst z. change (1 mod W =? 0) with false in T2. cbv iota in T2.
        eapply result_ok_after; [eapply runs_taus; [exact R1 | exact T2] | exact P1 | exact F1|].
        pose proof (IH f0 ltac:(lia) bd n1 cb n2 s1 Ecb m1 p2 p3 (1 mod W) b1 (adv inp s1) HR1' eq_refl Hc3 ltac:(lia) ltac:(lia) Hex) as Hb.
        destruct (exec f0 ge bd s1) as [[|rv] st2|hc st2|u]; cbn [bind rcase]; cbn [result_ok] in Hb; [| exact Hb | exact Hb | exact I].
        destruct Hb as (o & a2 & b2 & m2 & R2 & HR2 & P2 & F2).
        eapply result_ok_after; [|exact P2 | exact F2|].
        * destruct HR2 as (HC2 & _).
          pose proof (exec_br Cm lab m2 p3 nxt n a2 b2 (adv inp st2) Hi4 HC2 ltac:(lia) ltac:(lia)) as T4. rewrite Lb in T4.
          eapply runs_taus; eassumption.
        * exact (IH f0 ltac:(lia) (SWhile c bd) n _ n2 st2 Hcs0 m2 pos nxt a2 b2 (adv inp st2) HR2 eq_refl Hc0 Hp Hn Hex).
    - (* sequence *)
      rewrite cs_seq in Hcs0.
      exact (seq_ok (S f0) IH ss f0 ltac:(lia) n code n' st0 Hcs0 m pos nxt a b inp HR0 Hcon Hc Hp Hn Hex).
    - (* assignment *)
      destruct (venv x) as [l|] eqn:Ex; [|discriminate]. cbn [obind] in Hcs.
      destruct (cgl' e n) as [[c n1]|] eqn:Ec; [|discriminate]. cbn [obind] in Hcs. inversion Hcs; subst code n'.
      apply code_at_app in Hc. destruct Hc as (p1 & Hc1 & Hc2).
      pose proof (code_at_le _ _ _ _ _ Hc1) as L1. pose proof (code_at_le _ _ _ _ _ Hc2) as L2.
      pose proof (run_cgl (S f0) Hcall e n c n1 f0 st0 m pos p1 a b inp ltac:(lia) Ec HR0 Hcon Hc1 Hp ltac:(lia)) as R.
      destruct (eval f0 ge e st0) as [v s1|hc hs|u]; cbn [bind rcase rhs_ok result_ok] in *; [| exact R | exact I].
      destruct R as (outs & z & b1 & m1 & -> & Hz & R1 & HR1' & P1 & F1).
      pose proof HR1' as (HC1 & H11 & _).
      destruct (run_store_var l x m1 p1 nxt (z mod W) b1 (adv inp s1) Ex Hc2 HC1 H11 Hn) as (b2 & T2).
      destruct (Hvar x l Ex) as (Hin & _).
      destruct (assign_ok x l z s1 m1 (wr m1 (addr_of l) (z mod W)) Ex Hz HR1') as (st' & Has & HR' & Hpost & Hinp').
      { apply rd_wr_same. }
      { intros y Hy Hne. apply rd_wr_other; [exact (proj1 (in_mem_range _ Hin)) | exact Hy | intros Heq; exact (Hne (eq_sym Heq))]. }
      cbn [int_of]. rewrite Has. cbn [result_ok].
      exists outs, (z mod W), b2, (wr m1 (addr_of l) (z mod W)). split; [|split; [|split]].
      + rewrite (adv_eq inp _ _ Hinp'). eapply runs_taus; eassumption.
      + exact HR'.
      + pose proof (post_trans _ _ _ _ _ P1 Hpost) as Q. rewrite app_nil_r in Q. exact Q.
      + eapply frame_only_trans; [exact F1 | eapply frame_only_wr_var; exact Ex].
    - (* assignment to an array element:  index; base; ADD; save the address; value; reload the address; STAI 0 *)
      destruct (aenv x) as [la|] eqn:Ea; [|discriminate]. cbn [obind] in Hcs.
      destruct ((0 <=? off0) && (off0 <? nslots)) eqn:Eoff; [|discriminate].
      apply andb_prop in Eoff. destruct Eoff as [Eo1 Eo2]. apply Z.leb_le in Eo1. apply Z.ltb_lt in Eo2.
      destruct (cge' i n) as [[ci n1]|] eqn:Eci; [|discriminate]. cbn [obind] in Hcs.
      destruct (cg venv pool size nslots aenv e RA n1 (off0 + 1)) as [[ce n2]|] eqn:Ece; [|discriminate]. cbn [obind] in Hcs.
      inversion Hcs; subst code n'.
      apply code_at_app in Hc. destruct Hc as (p1 & Hc1 & Hc). apply code_at_app in Hc. destruct Hc as (p2 & Hc2 & Hc).
      assert (Hsplit : exists p3, code_at Cm lab p2 [ADD; LDBM 1; STAI (size - 1 - off0)] p3 /\
                                  code_at Cm lab p3 (ce ++ [LDBM 1; LDBI (size - 1 - off0); STAI 0]) nxt).
      { apply (code_at_app Cm lab [ADD; LDBM 1; STAI (size - 1 - off0)]). exact Hc. }
      clear Hc. destruct Hsplit as (p3 & Hc3 & Hc). apply code_at_app in Hc. destruct Hc as (p4 & Hc4 & Hc5).
      assert (Hsp3 : exists q1, code_at Cm lab p2 [ADD] q1 /\ code_at Cm lab q1 [LDBM 1; STAI (size - 1 - off0)] p3).
      { apply (code_at_app Cm lab [ADD] [LDBM 1; STAI (size - 1 - off0)]). exact Hc3. }
      clear Hc3. destruct Hsp3 as (q1 & Hc30 & Hc3). one_instr Hc30 q1' Hi31. subst q1'.
      one_instr Hc5 q2 Hi51. one_instr Hc5 q3 Hi52. one_instr Hc5 q4 Hi53. subst q4.
      pose proof (code_at_le _ _ _ _ _ Hc1) as L1. pose proof (code_at_le _ _ _ _ _ Hc2) as L2. pose proof (instr_at_le _ _ _ _ _ Hi31) as L31.
      pose proof (code_at_le _ _ _ _ _ Hc3) as L3. pose proof (code_at_le _ _ _ _ _ Hc4) as L4.
      pose proof (instr_at_le _ _ _ _ _ Hi51) as L51. pose proof (instr_at_le _ _ _ _ _ Hi52) as L52. pose proof (instr_at_le _ _ _ _ _ Hi53) as L53.
      (* the array *)
      pose proof HR0 as (_ & _ & [_ [HA0 HB0]] & _).
      destruct (HA0 x la Ea) as (g & Hres0 & Hg & N5 & _).
      destruct (HB0 g Hg) as (_ & _ & ar & N3 & N4 & N6).
      rewrite (resolves_array ge st0 x g Hres0). cbn [bind rcase].
      assert (Hpi : pure i = true) by (eapply cg_pure; exact Eci).
      assert (Hpe : pure e = true) by (eapply cg_pure; exact Ece).
      destruct (operands (evals f0 ge) [i; e] st0) as [vs s1|hc hs|u] eqn:Eo; cbn [bind rcase]; [| |exact I].
      2:{ exfalso. unfold operands in Eo. apply bind_halt in Eo. destruct Eo as [Eo|(L & s1 & _ & Eo)].
          - refine (evals_no_halt ge [i; e] _ f0 st0 hc hs Eo). intros e0 [<-|[<-|[]]];
              [exact (pure_no_halt ge i Hpi) | exact (pure_no_halt ge e Hpe)].
          - destruct (conflicts (map snd L)); discriminate. }
      apply operands_ret in Eo. destruct Eo as (L & Eo & ->).
      destruct (evals_two _ _ _ _ _ _ _ Eo) as (f1 & f2 & vl & st1 & sl & vr & st2 & sr & S0 & E1 & S1 & E2 & HL & S2). rewrite HL.
      (* the index *)
      destruct (run_expr i n ci n1 f1 st1 vl sl m Eci E1 (Rel_same _ _ _ S0 HR0)) as [Hss1 (ix & -> & Hix & Hrun1)].
      destruct (Hrun1 pos p1 a b inp Hc1 Hp ltac:(lia)) as (b1 & m1 & T1 & HR1 & Hk1).
      (* the value (known to XSem before the store, so the spec side first) *)
      assert (HR12 : forall mm, Rel st1 mm -> Rel st2 mm) by (intros mm Hm; eapply Rel_same; [|exact Hm]; eapply same_store_trans; [exact Hss1 | exact S1]).
      cbn [int_of].
      (* the machine: base, ADD, save *)
      destruct (Hawd x la Ea) as (Win & _).
      pose proof HR1 as (HC1 & H11 & [_ [HA1 _]] & _).
      destruct (HA1 x la Ea) as (g1 & Hres1 & _ & Hb1 & _).
      assert (g1 = g).
      { pose proof (resolves_array ge _ _ _ (resolves_same _ _ _ _ S0 Hres0)) as E0. pose proof (resolves_array ge _ _ _ Hres1) as E1'.
        rewrite E0 in E1'. inversion E1'. reflexivity. }
      subst g1.
      pose proof (run_load_b la m1 p1 p2 (ix mod W) b1 inp Hc2 HC1 H11 Win ltac:(lia)) as T2. rewrite Hb1 in T2.
      pose proof (exec_instr Cm lab m1 p2 q1 ADD (ix mod W) (abase g) inp eq_refl Hi31 HC1 I ltac:(lia)) as T3. cbn [sem fst snd] in T3.
      assert (Hslot : in_mem (sp + (size - 1 - off0)) = true /\ Tm (sp + (size - 1 - off0))).
      { destruct HT_mem as [G1 G2]. unfold T, tlo, fb in *. split; [|lia]. unfold in_mem. apply andb_true_intro.
        split; [apply Z.leb_le | apply Z.ltb_lt]; lia. }
      destruct Hslot as [Sin ST].
      set (addr := wrap (ix mod W + abase g)) in *.
      pose proof (run_store_sp (size - 1 - off0) m1 q1 p3 addr (abase g) inp Hc3 HC1 H11 Sin ltac:(lia)) as T4.
      set (m2 := wr m1 (sp + (size - 1 - off0)) addr) in *.
      assert (HR2 : Rel st2 m2).
      { apply Rel_wr_scratch; [left; exact ST | exact (proj1 (in_mem_range _ Sin)) | exact (HR12 m1 HR1)]. }
      (* the value *)
      destruct (run_expr_off (off0 + 1) e n1 ce n2 f2 st2 vr sr m2 ltac:(lia) Ece E2 HR2) as [Hss2 (v & -> & Hv & Hrun2)].
      destruct (Hrun2 p3 p4 addr sp inp Hc4 ltac:(lia) ltac:(lia)) as (b3 & m3 & T5 & HR3 & Hk3).
      cbn [int_of].
      (* XSem writes the element *)
      assert (Hg1 : garrs s1 = garrs st0).
      { destruct S0 as (_ & _ & A0 & _). destruct Hss1 as (_ & _ & A1 & _). destruct S1 as (_ & _ & A2 & _).
        destruct Hss2 as (_ & _ & A3 & _). destruct S2 as (_ & _ & A4 & _). congruence. }
      unfold write_elem. rewrite Hg1, N3.
      destruct ((0 <=? ix) && (ix <? alen ar)) eqn:Eb; [|exact I].
      apply andb_prop in Eb. destruct Eb as [Eb1 Eb2]. apply Z.leb_le in Eb1. apply Z.ltb_lt in Eb2.
      (* the address *)
      assert (Hc : cell_of (abase g + ix)) by (exists g, ix; split; [exact Hg|]; split; [lia | reflexivity]).
      destruct (Hcell _ Hc) as (Cin & Cns & CnP & Cn1 & Cnv).
      assert (Haddr : addr = abase g + ix).
      { unfold addr. assert (Hixw : ix mod W = ix).
        { apply Z.mod_small. pose proof (in_mem_range _ Cin) as R1.
          assert (Hc0 : cell_of (abase g + 0)) by (exists g, 0; split; [exact Hg|]; split; [lia | reflexivity]).
          destruct (Hcell _ Hc0) as (Cin0 & _). pose proof (in_mem_range _ Cin0) as R0. unfold MEMW, W in *. lia. }
        rewrite Hixw. replace (ix + abase g) with (abase g + ix) by lia. exact (in_mem_wrap _ Cin). }
      (* reload the address, store *)
      pose proof HR3 as (HC3 & H13 & _).
      pose proof (exec_instr Cm lab m3 p4 q2 (LDBM 1) (v mod W) b3 inp eq_refl Hi51 HC3 eq_refl ltac:(lia)) as T6.
      cbn [sem fst snd] in T6. rewrite H13 in T6.
      assert (R7 : readable (LDBI (size - 1 - off0)) (v mod W) sp) by (cbn [readable]; rewrite (in_mem_wrap _ Sin); exact Sin).
      pose proof (exec_instr Cm lab m3 q2 q3 (LDBI (size - 1 - off0)) (v mod W) sp inp eq_refl Hi52 HC3 R7 ltac:(lia)) as T7.
      cbn [sem fst snd] in T7. rewrite (in_mem_wrap _ Sin) in T7.
      assert (Hsl : rd m3 (sp + (size - 1 - off0)) = addr).
      { rewrite (Hk3 _ (proj1 (in_mem_range _ Sin))); [unfold m2; apply rd_wr_same|]. unfold tlo, fb. lia. }
      rewrite Hsl, Haddr in T7.
      assert (Hw0 : wrap (abase g + ix + 0) = abase g + ix) by (rewrite Z.add_0_r; exact (in_mem_wrap _ Cin)).
      assert (R8 : readable (STAI 0) (v mod W) (abase g + ix)) by (cbn [readable]; rewrite Hw0; exact Cin).
      pose proof (exec_instr Cm lab m3 q3 nxt (STAI 0) (v mod W) (abase g + ix) inp eq_refl Hi53 HC3 R8 Hn) as T8.
      cbn [sem fst snd] in T8. rewrite Hw0 in T8.
      set (m4 := wr m3 (abase g + ix) (v mod W)) in *.
      cbn [result_ok].
      exists [], (v mod W), (abase g + ix), m4. split; [|split; [|split]].
      + assert (Sall : same_store st0 s1) by (eapply same_store_trans; [exact S0|]; eapply same_store_trans; [exact Hss1|]; eapply same_store_trans; [exact S1|]; eapply same_store_trans; [exact Hss2 | exact S2]).
        apply taus_adv; [exact (con_same _ _ _ Hcon Sall)|].
        eapply taus_trans; [exact T1|]. eapply taus_trans; [exact T2|]. eapply taus_trans; [exact T3|].
        eapply taus_trans; [exact T4|]. eapply taus_trans; [exact T5|]. eapply taus_trans; [exact T6|].
        eapply taus_trans; [exact T7 | exact T8].
      + assert (HRs : Rel s1 m3) by (eapply Rel_same; [|exact HR3]; eapply same_store_trans; [exact Hss2 | exact S2]).
        rewrite <- Hg1 in N3. rewrite <- Hg1.
        apply (asub_ok g ix v s1 m3 m4 ar Hg Hv HRs N3 ltac:(lia)); [unfold m4; apply rd_wr_same|].
        intros y Hy Hne. unfold m4. apply rd_wr_other; [exact (proj1 (in_mem_range _ Cin)) | exact Hy | congruence].
      + destruct S0 as (_ & K0 & _ & B0 & C0 & D0). destruct Hss1 as (_ & K1 & _ & B1 & C1 & D1).
        destruct S1 as (_ & K2 & _ & B2 & C2 & D2). destruct Hss2 as (_ & K3 & _ & B3 & C3 & D3).
        destruct S2 as (_ & K4 & _ & B4 & C4 & D4).
        assert (Hstk : stk s1 = stk st0) by congruence.
        unfold post, top. cbn. rewrite Hstk. repeat split; congruence.
      + eapply frame_only_trans; [apply frame_only_T; exact Hk1|].
        eapply frame_only_trans; [apply (frame_only_wr_scratch m1 _ addr (or_introl ST) (proj1 (in_mem_range _ Sin)))|].
        eapply frame_only_trans.
        * intros y Hy Hns _. apply Hk3; [exact Hy|]. intros Hr. apply Hns. left. unfold T. unfold tlo, fb in *. lia.
        * intros y Hy _ Hnv. unfold m4. apply rd_wr_other; [exact (proj1 (in_mem_range _ Cin)) | exact Hy|].
          intros Heq. apply Hnv. right. rewrite <- Heq. exact Hc.
    - (* procedure call:  actuals; LDAP link; BR entry; link: *)
      destruct (pinfo g) as [pi|] eqn:Epi; [|discriminate]. cbn [obind] in Hcs.
      destruct (pf_isfunc pi) eqn:Eisf; [discriminate|].
      destruct (Z.of_nat (List.length args) + 1 <=? og) eqn:Eog; [|discriminate]. apply Z.leb_le in Eog.
      assert (Hko : koff pi = 1) by (unfold koff; rewrite Eisf; reflexivity).
      destruct (cargs1' args 1 n) as [[c n1]|] eqn:Ec; [|discriminate]. cbn [obind] in Hcs. inversion Hcs; subst code n'.
      destruct (call_is_proc g pi st0 m Epi HR0) as [-> | ->]; [|exact I].
      rewrite <- Hko in Ec, Eog.
      pose proof (run_call1 (S f0) Hcall g pi args n c n1 f0 st0 m pos nxt a b inp ltac:(lia) Epi ltac:(lia) Ec HR0 Hcon Hc Hp Hn) as R.
      rewrite Eisf in R.
      destruct (operands (evals f0 ge) args st0) as [vs s1|hc hs|u]; cbn [bind rcase] in *; [| exact R | exact I].
      destruct (invoke (exec f0 ge) ge false g vs s1) as [rv st2|hc st2|u]; cbn [bind rcase result_ok ret_ok] in *; [| exact R | exact I].
      destruct R as (o & a2 & b2 & m2 & R2 & HR2 & P2 & F2 & _).
      exists o, a2, b2, m2. exact (conj R2 (conj HR2 (conj P2 F2))).
    - (* system calls as statements *)
      destruct sn as [|sp1|sp1]; [|destruct sp1; try discriminate|discriminate].
      + (* exit: 0(e) *)
        destruct args as [|e [|? ?]]; try discriminate.
        destruct (3 <=? og) eqn:Eog; [|discriminate]. apply Z.leb_le in Eog.
        destruct (cge' e n) as [[c n1]|] eqn:Ec; [|discriminate]. cbn [obind] in Hcs. inversion Hcs; subst code n'.
        apply code_at_app in Hc. destruct Hc as (p1 & Hc1 & Hc).
        assert (Hc12 : exists p3, code_at Cm lab p1 [LDBM 1; STAI 2] p3 /\ code_at Cm lab p3 [LDAC 0; SVC; LDAM 1; LDAI 1] nxt).
        { apply (code_at_app Cm lab [LDBM 1; STAI 2] [LDAC 0; SVC; LDAM 1; LDAI 1]). exact Hc. }
        destruct Hc12 as (p3 & Hc2 & Hc3). one_instr Hc3 p4 Hi4. one_instr Hc3 p5 Hi5.
        pose proof (code_at_le _ _ _ _ _ Hc1) as L1. pose proof (code_at_le _ _ _ _ _ Hc2) as L2.
        pose proof (instr_at_le _ _ _ _ _ Hi4) as L4. pose proof (instr_at_le _ _ _ _ _ Hi5) as L5.
        one_instr Hc3 p6 Hi6. one_instr Hc3 p7 Hi7. subst p7.
        pose proof (instr_at_le _ _ _ _ _ Hi6) as L6. pose proof (instr_at_le _ _ _ _ _ Hi7) as L7.
        destruct (operands (evals f0 ge) [e] st0) as [vs s1|hc hs|u] eqn:Eo; cbn [bind rcase]; [| |exact I].
        2:{ exfalso. unfold operands in Eo. apply bind_halt in Eo. destruct Eo as [Eo|(L & s1 & _ & Eo)].
            - refine (evals_no_halt ge [e] _ f0 st0 hc hs Eo). intros e0 [<-|[]]. exact (pure_no_halt ge e (cge_pure _ _ _ Ec)).
            - destruct (conflicts (map snd L)); discriminate. }
        apply operands_ret in Eo. destruct Eo as (L & Eo & ->).
        destruct (evals_one _ _ _ _ _ _ Eo) as (f1 & v & st1 & s1' & S0 & Ee & HL & S1). rewrite HL.
        destruct (run_expr e n c n1 f1 st1 v s1' m Ec Ee (Rel_same _ _ _ S0 HR0)) as [Hss (z & -> & Hz & Hrun)].
        destruct (Hrun pos p1 a b inp Hc1 Hp ltac:(lia)) as (b1 & m1 & T1 & HR1 & Hk1).
        destruct HR1 as (HC1 & H11 & _).
        destruct (O_facts 2 ltac:(lia)) as (Oin & OnP & On1 & _ & _ & Opos).
        pose proof (run_store_sp 2 m1 p1 p3 (z mod W) b1 inp Hc2 HC1 H11 Oin ltac:(lia)) as T2.
        set (m2 := wr m1 (sp + 2) (z mod W)) in *.
        assert (HC2 : Cm m2) by (apply Cm_wr; assumption).
        assert (H12 : rd m2 1 = sp) by (unfold m2; rewrite rd_wr_other; [exact H11 | exact Opos | lia | exact On1]).
        pose proof (exec_instr Cm lab m2 p3 p4 (LDAC 0) (z mod W) sp inp eq_refl Hi4 HC2 I ltac:(lia)) as T3.
        cbn [sem fst snd] in T3. change (0 mod W) with 0 in T3.
        assert (Hin2 : in_mem (wrap (rd m2 1 + 2)) = true) by (rewrite H12, (in_mem_wrap _ Oin); exact Oin).
        pose proof (exec_svc_exit Cm lab m2 p4 p5 sp inp Hi5 HC2 Hin2) as T4.
        rewrite H12, (in_mem_wrap _ Oin) in T4. unfold m2 in T4 at 2. rewrite rd_wr_same in T4.
        cbn [do_sys int_of bind rcase result_ok].
        assert (Sall : same_store st0 s1) by (eapply same_store_trans; [exact S0|]; eapply same_store_trans; [exact Hss | exact S1]).
        exists []. split.
        * rewrite (adv_id _ _ (con_same _ _ _ Hcon Sall)). eapply taus_exits; [exact T1|]. eapply taus_exits; [exact T2|]. eapply taus_exits; [exact T3|]. exact T4.
        * apply post_hpost, post_same. exact Sall.
      + (* put: 1(e, stream) *)
        destruct args as [|e [|es [|? ?]]]; try discriminate.
        destruct (4 <=? og) eqn:Eog; [|discriminate]. apply Z.leb_le in Eog.
        destruct (pure e) eqn:Epe.
        2:{ (* the byte has a call on its left spine *)
          destruct (simple es && ((0 <=? off0) && (off0 <? nslots))) eqn:Econd; [|discriminate].
          apply andb_prop in Econd. destruct Econd as [Esr Eoff]. apply andb_prop in Eoff. destruct Eoff as [Eo1 Eo2].
          apply Z.leb_le in Eo1. apply Z.ltb_lt in Eo2.
          destruct (cgl' e n) as [[c1 n1]|] eqn:Ec1; [|discriminate]. cbn [obind] in Hcs.
          destruct (cge' es n1) as [[c2 n2]|] eqn:Ec2; [|discriminate]. cbn [obind] in Hcs. inversion Hcs; subst code n'.
          apply code_at_app in Hc. destruct Hc as (p1 & Hc1 & Hc).
          assert (Hs1 : exists p2, code_at Cm lab p1 [LDBM 1; STAI (size - 1 - off0)] p2 /\
                     code_at Cm lab p2 ([LDAM 1; LDAI (size - 1 - off0); LDBM 1; STAI 2] ++ c2 ++ [LDBM 1; STAI 3; LDAC 1; SVC; LDAM 1; LDAI 1]) nxt).
          { apply (code_at_app Cm lab [LDBM 1; STAI (size - 1 - off0)]). exact Hc. }
          clear Hc. destruct Hs1 as (p2 & Hc2 & Hc).
          assert (Hs2 : exists p3, code_at Cm lab p2 [LDAM 1; LDAI (size - 1 - off0)] p3 /\
                     code_at Cm lab p3 ([LDBM 1; STAI 2] ++ c2 ++ [LDBM 1; STAI 3; LDAC 1; SVC; LDAM 1; LDAI 1]) nxt).
          { apply (code_at_app Cm lab [LDAM 1; LDAI (size - 1 - off0)] ([LDBM 1; STAI 2] ++ c2 ++ [LDBM 1; STAI 3; LDAC 1; SVC; LDAM 1; LDAI 1])). exact Hc. }
          clear Hc. destruct Hs2 as (p3 & Hc3 & Hc).
          assert (Hs3 : exists p4, code_at Cm lab p3 [LDBM 1; STAI 2] p4 /\ code_at Cm lab p4 (c2 ++ [LDBM 1; STAI 3; LDAC 1; SVC; LDAM 1; LDAI 1]) nxt).
          { apply (code_at_app Cm lab [LDBM 1; STAI 2]). exact Hc. }
          clear Hc. destruct Hs3 as (p4 & Hc4 & Hc). apply code_at_app in Hc. destruct Hc as (p5 & Hc5 & Hc).
          assert (Hs4 : exists p6, code_at Cm lab p5 [LDBM 1; STAI 3] p6 /\ code_at Cm lab p6 [LDAC 1; SVC; LDAM 1; LDAI 1] nxt).
          { apply (code_at_app Cm lab [LDBM 1; STAI 3] [LDAC 1; SVC; LDAM 1; LDAI 1]). exact Hc. }
          clear Hc. destruct Hs4 as (p6 & Hc6 & Hc7).
          one_instr Hc3 p31 Hi31. one_instr Hc3 p32 Hi32. subst p32.
          one_instr Hc7 q5 Hi5. one_instr Hc7 q6 Hi6. one_instr Hc7 q7 Hi7. one_instr Hc7 q8 Hi8. subst q8.
          pose proof (code_at_le _ _ _ _ _ Hc1) as L1. pose proof (code_at_le _ _ _ _ _ Hc2) as L2. pose proof (instr_at_le _ _ _ _ _ Hi31) as L31.
          pose proof (instr_at_le _ _ _ _ _ Hi32) as L32. pose proof (code_at_le _ _ _ _ _ Hc4) as L4. pose proof (code_at_le _ _ _ _ _ Hc5) as L5.
          pose proof (code_at_le _ _ _ _ _ Hc6) as L6. pose proof (instr_at_le _ _ _ _ _ Hi5) as M5. pose proof (instr_at_le _ _ _ _ _ Hi6) as M6.
          pose proof (instr_at_le _ _ _ _ _ Hi7) as M7. pose proof (instr_at_le _ _ _ _ _ Hi8) as M8.
          destruct (operands (evals f0 ge) [e; es] st0) as [vs s1|hc hs|u] eqn:Eo; cbn [bind rcase]; [| |exact I].
          2:{ destruct (operands_left_halt _ _ _ _ _ _ _ (simple_pure es Esr) Eo) as (f1 & -> & El).
              pose proof (run_cgl (S (S f1)) Hcall e n c1 n1 f1 (set_cur st0 eff0) m pos p1 a b inp ltac:(lia) Ec1
                            (Rel_same _ _ _ (same_store_set_cur st0 eff0) HR0) Hcon Hc1 Hp ltac:(lia)) as R.
              rewrite El in R. cbn [rhs_ok result_ok] in *. destruct R as (outs & Ex & (G1 & G2)). exists outs. split; [exact Ex|].
              cbn [out_rev ncons input set_cur] in G1, G2. exact (conj G1 G2). }
          destruct (operands_left_ret _ _ _ _ _ _ _ Eo) as (f1 & vl & sl & f2 & vr & st2 & sr & -> & El & S2 & E2 & S3 & ->).
          pose proof (run_cgl (S (S f1)) Hcall e n c1 n1 f1 (set_cur st0 eff0) m pos p1 a b inp ltac:(lia) Ec1
                        (Rel_same _ _ _ (same_store_set_cur st0 eff0) HR0) Hcon Hc1 Hp ltac:(lia)) as R.
          rewrite El in R. cbn [rhs_ok] in R. destruct R as (outs & x & b1 & m1 & -> & Hx & R1 & HR1 & P1 & F1).
          assert (Hslot : in_mem (sp + (size - 1 - off0)) = true /\ Tm (sp + (size - 1 - off0))).
          { destruct HT_mem as [G1 G2]. unfold T, tlo, fb in *. split; [|lia]. unfold in_mem. apply andb_true_intro.
            split; [apply Z.leb_le | apply Z.ltb_lt]; lia. }
          destruct Hslot as [Sin ST].
          pose proof (run_store_sp (size - 1 - off0) m1 p1 p2 (x mod W) b1 (adv inp sl) Hc2 (proj1 HR1) (proj1 (proj2 HR1)) Sin ltac:(lia)) as T2.
          set (m2 := wr m1 (sp + (size - 1 - off0)) (x mod W)) in *.
          assert (HR2 : Rel sl m2) by (apply Rel_wr_scratch; [left; exact ST | exact (proj1 (in_mem_range _ Sin)) | exact HR1]).
          pose proof HR2 as (HC2 & H12 & _).
          pose proof (exec_instr Cm lab m2 p2 p31 (LDAM 1) (x mod W) sp (adv inp sl) eq_refl Hi31 HC2 eq_refl ltac:(lia)) as T3.
          cbn [sem fst snd] in T3. rewrite H12 in T3.
          assert (R32 : readable (LDAI (size - 1 - off0)) sp sp) by (cbn [readable]; rewrite (in_mem_wrap _ Sin); exact Sin).
          pose proof (exec_instr Cm lab m2 p31 p3 (LDAI (size - 1 - off0)) sp sp (adv inp sl) eq_refl Hi32 HC2 R32 ltac:(lia)) as T4.
          cbn [sem fst snd] in T4. rewrite (in_mem_wrap _ Sin) in T4. unfold m2 in T4 at 2. rewrite rd_wr_same in T4.
          destruct (O_facts 2 ltac:(lia)) as (Oin2 & OnP2 & On12 & OnT2 & Os2 & Opos2).
          destruct (O_facts 3 ltac:(lia)) as (Oin3 & OnP3 & On13 & OnT3 & Os3 & Opos3).
          destruct (O_facts 1 ltac:(lia)) as (Oin1 & _).
          pose proof (run_store_sp 2 m2 p3 p4 (x mod W) sp (adv inp sl) Hc4 HC2 H12 Oin2 ltac:(lia)) as T5.
          set (m3 := wr m2 (sp + 2) (x mod W)) in *.
          assert (HR3 : Rel st2 m3).
          { apply Rel_wr_scratch; [exact Os2 | exact Opos2|]. eapply Rel_same; [exact S2 | exact HR2]. }
          (* the stream *)
          destruct (run_expr es n1 c2 n2 f2 st2 vr sr m3 Ec2 E2 HR3) as [Hss2 (y & -> & Hy & Hrun2)].
          destruct (Hrun2 p4 p5 (x mod W) sp (adv inp sl) Hc5 ltac:(lia) ltac:(lia)) as (b5 & m5 & T6 & HR5 & Hk5).
          pose proof (run_store_sp 3 m5 p5 p6 (y mod W) b5 (adv inp sl) Hc6 (proj1 HR5) (proj1 (proj2 HR5)) Oin3 ltac:(lia)) as T7.
          set (m6 := wr m5 (sp + 3) (y mod W)) in *.
          assert (HR6 : Rel st2 m6) by (apply Rel_wr_scratch; [exact Os3 | exact Opos3 | exact HR5]).
          destruct HR6 as (HC6 & H16 & HV6 & HS6).
          assert (Hb : rd m6 (sp + 2) = x mod W).
          { unfold m6. rewrite rd_wr_other; [|exact Opos3 | exact Opos2 | lia]. rewrite (Hk5 _ Opos2 OnT2). unfold m3. apply rd_wr_same. }
          assert (Hs : rd m6 (sp + 3) = y mod W) by (unfold m6; apply rd_wr_same).
          pose proof (exec_instr Cm lab m6 p6 q5 (LDAC 1) (y mod W) sp (adv inp sl) eq_refl Hi5 HC6 I ltac:(lia)) as T8.
          cbn [sem fst snd] in T8. change (1 mod W) with 1 in T8.
          assert (Hi2' : in_mem (wrap (rd m6 1 + 2)) = true) by (rewrite H16, (in_mem_wrap _ Oin2); exact Oin2).
          assert (Hi3' : in_mem (wrap (rd m6 1 + 3)) = true) by (rewrite H16, (in_mem_wrap _ Oin3); exact Oin3).
          pose proof (exec_svc_put Cm lab m6 q5 q6 sp (adv inp sl) Hi6 HC6 ltac:(lia) Hi2' Hi3') as T9.
          rewrite H16, (in_mem_wrap _ Oin2), (in_mem_wrap _ Oin3), Hb, Hs, mod_256 in T9.
          pose proof (exec_instr Cm lab m6 q6 q7 (LDAM 1) 1 sp (adv inp sl) eq_refl Hi7 HC6 eq_refl ltac:(lia)) as T10.
          cbn [sem fst snd] in T10. rewrite H16 in T10.
          assert (R11 : readable (LDAI 1) sp sp) by (cbn [readable]; rewrite (in_mem_wrap _ Oin1); exact Oin1).
          pose proof (exec_instr Cm lab m6 q7 nxt (LDAI 1) sp sp (adv inp sl) eq_refl Hi8 HC6 R11 Hn) as T11.
          cbn [sem fst snd] in T11.
          assert (Sall : same_store sl s1) by (eapply same_store_trans; [exact S2|]; eapply same_store_trans; [exact Hss2 | exact S3]).
          cbn [do_sys int_of bind rcase result_ok].
          exists (outs ++ [Write (x mod 256) (y mod 4294967296)]), (rd m6 (wrap (sp + 1))), sp, m6. split; [|split; [|split]].
          - change 4294967296 with W.
            replace (adv inp (emit (y mod W) (x mod 256) s1)) with (adv inp sl) by (apply adv_eq; symmetry; exact (same_store_input _ _ Sall)).
            eapply runs_trans; [exact R1|].
            eapply taus_runs; [exact T2|]. eapply taus_runs; [exact T3|]. eapply taus_runs; [exact T4|]. eapply taus_runs; [exact T5|].
            eapply taus_runs; [exact T6|]. eapply taus_runs; [exact T7|]. eapply taus_runs; [exact T8|].
            eapply runs_taus; [exact T9|]. eapply taus_trans; [exact T10 | exact T11].
          - apply (Rel_eqv sr).
            + cbn. exact (proj1 S3).
            + cbn. exact (proj1 (proj2 S3)).
            + cbn. exact (proj1 (proj2 (proj2 S3))).
            + eapply Rel_same; [exact Hss2|]. exact (conj HC6 (conj H16 (conj HV6 HS6))).
          - eapply post_trans; [exact (post_end _ _ _ _ (post_start _ _ _ _ (same_store_set_cur st0 eff0) P1) Sall)|].
            unfold post, top. cbn. repeat split.
          - eapply frame_only_trans; [exact F1|].
            eapply frame_only_trans; [apply (frame_only_wr_scratch m1 _ (x mod W) (or_introl ST) (proj1 (in_mem_range _ Sin)))|].
            eapply frame_only_trans; [apply (frame_only_wr_scratch m2 (sp + 2) (x mod W) Os2 Opos2)|].
            eapply frame_only_trans; [apply frame_only_T; exact Hk5|].
            apply (frame_only_wr_scratch m5 (sp + 3) (y mod W) Os3 Opos3). }
        destruct (cge' e n) as [[c1 n1]|] eqn:Ec1; [|discriminate]. cbn [obind] in Hcs.
        destruct (cge' es n1) as [[c2 n2]|] eqn:Ec2; [|discriminate]. cbn [obind] in Hcs. inversion Hcs; subst code n'.
        apply code_at_app in Hc. destruct Hc as (p1 & Hc1 & Hc).
        assert (Hs1 : exists p2, code_at Cm lab p1 [LDBM 1; STAI 2] p2 /\ code_at Cm lab p2 (c2 ++ [LDBM 1; STAI 3; LDAC 1; SVC; LDAM 1; LDAI 1]) nxt).
        { apply (code_at_app Cm lab [LDBM 1; STAI 2]). exact Hc. }
        clear Hc. destruct Hs1 as (p2 & Hc2 & Hc). apply code_at_app in Hc. destruct Hc as (p3 & Hc3 & Hc).
        assert (Hs2 : exists p4, code_at Cm lab p3 [LDBM 1; STAI 3] p4 /\ code_at Cm lab p4 [LDAC 1; SVC; LDAM 1; LDAI 1] nxt).
        { apply (code_at_app Cm lab [LDBM 1; STAI 3] [LDAC 1; SVC; LDAM 1; LDAI 1]). exact Hc. }
        clear Hc. destruct Hs2 as (p4 & Hc4 & Hc5). one_instr Hc5 p5 Hi5. one_instr Hc5 p6 Hi6. one_instr Hc5 p7 Hi7. one_instr Hc5 p8 Hi8. subst p8.
        pose proof (code_at_le _ _ _ _ _ Hc1) as L1. pose proof (code_at_le _ _ _ _ _ Hc2) as L2. pose proof (code_at_le _ _ _ _ _ Hc3) as L3.
        pose proof (code_at_le _ _ _ _ _ Hc4) as L4. pose proof (instr_at_le _ _ _ _ _ Hi5) as L5. pose proof (instr_at_le _ _ _ _ _ Hi6) as L6.
        pose proof (instr_at_le _ _ _ _ _ Hi7) as L7. pose proof (instr_at_le _ _ _ _ _ Hi8) as L8.
        destruct (operands (evals f0 ge) [e; es] st0) as [vs s1|hc hs|u] eqn:Eo; cbn [bind rcase]; [| |exact I].
        2:{ exfalso. unfold operands in Eo. apply bind_halt in Eo. destruct Eo as [Eo|(L & s1 & _ & Eo)].
            - refine (evals_no_halt ge [e; es] _ f0 st0 hc hs Eo). intros e0 [<-|[<-|[]]];
                [exact (pure_no_halt ge e (cge_pure _ _ _ Ec1)) | exact (pure_no_halt ge es (cge_pure _ _ _ Ec2))].
            - destruct (conflicts (map snd L)); discriminate. }
        apply operands_ret in Eo. destruct Eo as (L & Eo & ->).
        destruct (evals_two _ _ _ _ _ _ _ Eo) as (f1 & f2 & vl & st1 & sl & vr & st2 & sr & S0 & E1 & S1 & E2 & HL & S2). rewrite HL.
        (* the byte *)
        destruct (run_expr e n c1 n1 f1 st1 vl sl m Ec1 E1 (Rel_same _ _ _ S0 HR0)) as [Hss1 (x & -> & Hx & Hrun1)].
        destruct (Hrun1 pos p1 a b inp Hc1 Hp ltac:(lia)) as (b1 & m1 & T1 & HR1 & Hk1).
        destruct (O_facts 2 ltac:(lia)) as (Oin2 & OnP2 & On12 & OnT2 & Os2 & Opos2).
        destruct (O_facts 3 ltac:(lia)) as (Oin3 & OnP3 & On13 & OnT3 & Os3 & Opos3).
        destruct (O_facts 1 ltac:(lia)) as (Oin1 & _).
        pose proof (run_store_sp 2 m1 p1 p2 (x mod W) b1 inp Hc2 (proj1 HR1) (proj1 (proj2 HR1)) Oin2 ltac:(lia)) as T2.
        set (m2 := wr m1 (sp + 2) (x mod W)) in *.
        assert (HR2 : Rel st2 m2).
        { apply Rel_wr_scratch; [exact Os2 | exact Opos2|]. eapply Rel_same; [|exact HR1].
          eapply same_store_trans; [exact Hss1 | exact S1]. }
        (* the stream *)
        destruct (run_expr es n1 c2 n2 f2 st2 vr sr m2 Ec2 E2 HR2) as [Hss2 (y & -> & Hy & Hrun2)].
        destruct (Hrun2 p2 p3 (x mod W) sp inp Hc3 ltac:(lia) ltac:(lia)) as (b3 & m3 & T3 & HR3 & Hk3).
        pose proof (run_store_sp 3 m3 p3 p4 (y mod W) b3 inp Hc4 (proj1 HR3) (proj1 (proj2 HR3)) Oin3 ltac:(lia)) as T4.
        set (m4 := wr m3 (sp + 3) (y mod W)) in *.
        assert (HR4 : Rel st2 m4) by (apply Rel_wr_scratch; [exact Os3 | exact Opos3 | exact HR3]).
        destruct HR4 as (HC4 & H14 & HV4 & HS4).
        assert (Hb : rd m4 (sp + 2) = x mod W).
        { unfold m4. rewrite rd_wr_other; [|exact Opos3 | exact Opos2 | lia]. rewrite (Hk3 _ Opos2 OnT2). unfold m2. apply rd_wr_same. }
        assert (Hs : rd m4 (sp + 3) = y mod W) by (unfold m4; apply rd_wr_same).
        pose proof (exec_instr Cm lab m4 p4 p5 (LDAC 1) (y mod W) sp inp eq_refl Hi5 HC4 I ltac:(lia)) as T5.
        cbn [sem fst snd] in T5. change (1 mod W) with 1 in T5.
        assert (Hi2' : in_mem (wrap (rd m4 1 + 2)) = true) by (rewrite H14, (in_mem_wrap _ Oin2); exact Oin2).
        assert (Hi3' : in_mem (wrap (rd m4 1 + 3)) = true) by (rewrite H14, (in_mem_wrap _ Oin3); exact Oin3).
        pose proof (exec_svc_put Cm lab m4 p5 p6 sp inp Hi6 HC4 ltac:(lia) Hi2' Hi3') as T6.
        rewrite H14, (in_mem_wrap _ Oin2), (in_mem_wrap _ Oin3), Hb, Hs, mod_256 in T6.
        pose proof (exec_instr Cm lab m4 p6 p7 (LDAM 1) 1 sp inp eq_refl Hi7 HC4 eq_refl ltac:(lia)) as T7.
        cbn [sem fst snd] in T7. rewrite H14 in T7.
        assert (R8 : readable (LDAI 1) sp sp) by (cbn [readable]; rewrite (in_mem_wrap _ Oin1); exact Oin1).
        pose proof (exec_instr Cm lab m4 p7 nxt (LDAI 1) sp sp inp eq_refl Hi8 HC4 R8 Hn) as T8.
        cbn [sem fst snd] in T8.
        cbn [do_sys int_of bind rcase result_ok].
        assert (Sall : same_store st0 s1) by (eapply same_store_trans; [exact S0|]; eapply same_store_trans; [exact Hss1|]; eapply same_store_trans; [exact S1|]; eapply same_store_trans; [exact Hss2 | exact S2]).
        exists [Write (x mod 256) (y mod 4294967296)], (rd m4 (wrap (sp + 1))), sp, m4. split; [|split; [|split]].
        * change 4294967296 with W.
          replace (adv inp (emit (y mod W) (x mod 256) s1)) with inp by (symmetry; apply adv_id; exact (con_same _ _ _ Hcon Sall)).
          eapply taus_runs; [exact T1|]. eapply taus_runs; [exact T2|]. eapply taus_runs; [exact T3|].
          eapply taus_runs; [exact T4|]. eapply taus_runs; [exact T5|].
          eapply runs_taus; [exact T6|]. eapply taus_trans; [exact T7 | exact T8].
        * apply (Rel_eqv sr).
          -- cbn. exact (proj1 S2).
          -- cbn. exact (proj1 (proj2 S2)).
          -- cbn. exact (proj1 (proj2 (proj2 S2))).
          -- eapply Rel_same; [exact Hss2|]. exact (conj HC4 (conj H14 (conj HV4 HS4))).
        * destruct S0 as (_ & K0 & A0 & B0 & C0 & D0). destruct Hss1 as (_ & K1 & A1 & B1 & C1 & D1).
          destruct S1 as (_ & K2 & A2 & B2 & C2 & D2). destruct Hss2 as (_ & K3 & A3 & B3 & C3 & D3).
          destruct S2 as (_ & K4 & A4 & B4 & C4 & D4).
          assert (Hstk : stk s1 = stk st0) by congruence.
          unfold post, top. cbn. rewrite Hstk. repeat split; congruence.
        * eapply frame_only_trans; [apply frame_only_T; exact Hk1|].
          eapply frame_only_trans; [apply (frame_only_wr_scratch m1 (sp + 2) (x mod W) Os2 Opos2)|].
          eapply frame_only_trans; [apply frame_only_T; exact Hk3|].
          apply (frame_only_wr_scratch m3 (sp + 3) (y mod W) Os3 Opos3).
  Qed.

  (* what stmt_ok says, spelled out for a statement that terminates normally *)
  Corollary stmt_normal : forall f, stmt_ok f ->
    forall s n code n' st st', cs' s n = Some (code, n') ->
    exec f ge s st = Ret Normal st' ->
    forall m pos nxt a b inp, Rel st m -> console inp = input st -> code_at Cm lab pos code nxt ->
    0 <= pos -> nxt < W -> 0 <= lab exitl < W ->
    exists outs a' b' m',
      runs inp (mk pos a b 0 m) outs (adv inp st') (mk nxt a' b' 0 m') /\ Rel st' m' /\ post st st' outs /\ frame_only m m'.
  Proof.
    intros f H s n code n' st st' Hcs He m pos nxt a b inp HR Hcon Hc Hp Hn Hx.
    pose proof (H s n code n' st Hcs m pos nxt a b inp HR Hcon Hc Hp Hn Hx) as R. rewrite He in R. exact R.
  Qed.

  (* C08 at statement granularity: when the code of a statement has run to its end, the stack pointer word holds
     what it held, no protected word (code, constant pool) has changed, and every other change lies in the
     procedure's temporaries, its outgoing area, or the word of a variable in scope (a global's DATA word or a
     local / formal frame word). *)
  Corollary frame_discipline : forall f, stmt_ok f ->
    forall s n code n' st st', cs' s n = Some (code, n') ->
    exec f ge s st = Ret Normal st' ->
    forall m pos nxt a b inp, Rel st m -> console inp = input st -> code_at Cm lab pos code nxt ->
    0 <= pos -> nxt < W -> 0 <= lab exitl < W ->
    exists evs a' b' m',
      runs inp (mk pos a b 0 m) evs (adv inp st') (mk nxt a' b' 0 m') /\
      rd m' 1 = rd m 1 /\
      (forall x, 0 <= x -> P x -> rd m' x = rd m x) /\
      (forall x, 0 <= x -> ~ scratch x -> ~ var_word x -> rd m' x = rd m x).
  Proof.
    intros f H s n code n' st st' Hcs He m pos nxt a b inp HR Hcon Hc Hp Hn Hx.
    destruct (stmt_normal f H s n code n' st st' Hcs He m pos nxt a b inp HR Hcon Hc Hp Hn Hx) as (o & a' & b' & m' & R & HR' & _ & F).
    exists o, a', b', m'. split; [exact R|].
    destruct HR as (C0 & S0 & _). destruct HR' as (C1 & S1 & _).
    split; [congruence|]. split.
    - intros x Hx0 HP. rewrite (C1 x Hx0 HP), (C0 x Hx0 HP). reflexivity.
    - exact F.
  Qed.
End Correct.

(* ---------------------------------------------------------------- the statement theorem for bodies without calls:
   no procedure can be called (pinfo is empty), no free stack is needed *)
Definition no_procs : string -> option pframe := fun _ => None.
Definition no_free : Z -> Prop := fun _ => False.
Definition any_depth : nat -> Prop := fun _ => True.

Theorem stmt_correct :
  forall (venv aenv : string -> option loc) (garr : string -> bool) (abase alen_of : string -> Z) (pool : Z -> option Z)
         (size nslots off0 og : Z) (exitl : label) (ge : genv) (P : Z -> Prop) (m0 : WMap.t) (lab : label -> Z) (sp : Z),
    0 <= tlo size nslots sp /\ fb size sp - off0 < MEMW ->
    (forall a, T size nslots sp off0 a -> ~ P a) ->
    ~ T size nslots sp off0 1 ->
    (forall a, O og sp a -> in_mem a = true /\ ~ P a /\ a <> 1 /\ ~ T size nslots sp off0 a) ->
    in_mem (sp + 2) = true /\ ~ P (sp + 2) /\ sp + 2 <> 1 ->
    (forall v a, pool v = Some a -> P a /\ in_mem a = true /\ rd m0 a = v mod W) ->
    (forall x l, venv x = Some l ->
       in_mem (addr_of sp l) = true /\ ~ scratch no_free size nslots off0 og sp (addr_of sp l) /\ ~ P (addr_of sp l) /\ addr_of sp l <> 1) ->
    (forall x y lx ly, venv x = Some lx -> venv y = Some ly -> x <> y -> addr_of sp lx <> addr_of sp ly) ->
    (forall a l, aenv a = Some l ->
       in_mem (waddr sp l) = true /\ ~ scratch no_free size nslots off0 og sp (waddr sp l) /\ ~ P (waddr sp l) /\ waddr sp l <> 1 /\
       ~ cell_of garr abase alen_of (waddr sp l) /\ (forall x lx, venv x = Some lx -> addr_of sp lx <> waddr sp l)) ->
    (forall c, cell_of garr abase alen_of c ->
       in_mem c = true /\ ~ scratch no_free size nslots off0 og sp c /\ ~ P c /\ c <> 1 /\ (forall x lx, venv x = Some lx -> addr_of sp lx <> c)) ->
    (forall g g' i i', garr g = true -> garr g' = true -> 0 <= i < alen_of g -> 0 <= i' < alen_of g' ->
       abase g + i = abase g' + i' -> g = g' /\ i = i') ->
    forall f, stmt_ok no_procs no_free any_depth venv aenv garr abase alen_of pool size nslots off0 og exitl ge P m0 lab sp f.
Proof.
  intros venv aenv garr abase alen_of pool size nslots off0 og exitl ge P m0 lab sp H1 H2 H3 H4 H5 H6 H7 H8 H9 H10 H11 f.
  apply stmt_correct_calls; try assumption.
  - intros a [].
  - intros p pi Hp. discriminate Hp.
  - intros p pi Hp. discriminate Hp.
  - intros f' _ p pi vs st m link b inp Hp. discriminate Hp.
Qed.
