(* Vexp.v -- deep embedding of width-annotated RTL expressions (the target of tools/vl2coq.py), their
   evaluation, a verified normaliser and a sound syntactic equality test.  A generated design is a *value*
   of type [design]; theorems about generated designs are closed boolean computations ([vm_compute]) lifted
   through [norm_sound] / [veqb_sound], so they do not depend on the shape of the generated terms. *)
From Coq Require Import ZArith Lia Bool List String Ascii.
Import ListNotations.
Local Open Scope Z_scope.

Inductive vexp :=
| C (n : Z)                                   (* literal *)
| V (name : string) (w : Z)                   (* w-bit signal / register / input: its value mod 2^w *)
| X (k : nat)                                 (* k-th don't-care constant ('x' in the source): an uninterpreted input *)
| Trunc (w : Z) (a : vexp)
| Add (w : Z) (a b : vexp) | Sub (w : Z) (a b : vexp) | Mul (w : Z) (a b : vexp)
| Sel (lsb w : Z) (a : vexp)                  (* a[lsb +: w], constant lsb *)
| Shl (w : Z) (a b : vexp) | Shr (w : Z) (a b : vexp)
| Or (a b : vexp) | And (a b : vexp) | Xor (a b : vexp) | Not (w : Z) (a : vexp)
| Eq (a b : vexp) | Ltu (a b : vexp) | Gts (w : Z) (a b : vexp)
| Cond (c a b : vexp)
| ArrSel (m : string) (w : Z) (a : vexp).     (* word a of the unpacked array m, w-bit elements *)

Record env := { var : string -> Z; xs : nat -> Z; arr : string -> Z -> Z }.
Definition signed (w a : Z) := if a <? 2^(w-1) then a else a - 2^w.
Definition b2z (b : bool) : Z := if b then 1 else 0.

Fixpoint eval (e : env) (x : vexp) : Z :=
  match x with
  | C n => n
  | V s w => var e s mod 2^w
  | X k => xs e k
  | Trunc w a => eval e a mod 2^w
  | Add w a b => (eval e a + eval e b) mod 2^w
  | Sub w a b => (eval e a - eval e b) mod 2^w
  | Mul w a b => (eval e a * eval e b) mod 2^w
  | Sel l w a => (eval e a / 2^l) mod 2^w
  | Shl w a b => (eval e a * 2^(eval e b)) mod 2^w
  | Shr w a b => (eval e a / 2^(eval e b)) mod 2^w
  | Or a b => Z.lor (eval e a) (eval e b)
  | And a b => Z.land (eval e a) (eval e b)
  | Xor a b => Z.lxor (eval e a) (eval e b)
  | Not w a => (2^w - 1 - eval e a) mod 2^w
  | Eq a b => b2z (eval e a =? eval e b)
  | Ltu a b => b2z (eval e a <? eval e b)
  | Gts w a b => b2z (signed w (eval e b) <? signed w (eval e a))
  | Cond c a b => if eval e c =? 0 then eval e b else eval e a
  | ArrSel m w a => arr e m (eval e a) mod 2^w
  end.

(* a generated design: combinational outputs, next-state functions of the registers, cut wires (signals the
   translator was asked not to inline: [V name] in the other expressions, defined here, in dependency order)
   and the clocked memory writes (array, enable, address, data), in program order *)
Record design := {
  outputs : list (string * vexp);
  next : list (string * vexp);
  wires : list (string * vexp);
  mem_writes : list (string * (vexp * (vexp * vexp)));
  clocking : list (string * list string);      (* register / array -> sorted sensitivity list of its clocked block *)
  nx : nat }.

(* evaluation of the entries of a design *)
Definition evalp (e : env) (p : string * vexp) : string * Z := (fst p, eval e (snd p)).
Definition evalw (e : env) (p : string * (vexp * (vexp * vexp))) : string * (Z * (Z * Z)) :=
  (fst p, (eval e (fst (snd p)), (eval e (fst (snd (snd p))), eval e (snd (snd (snd p)))))).

(* ------------------------------------------------------------------ syntactic equality *)
Fixpoint veqb (x y : vexp) : bool :=
  match x, y with
  | C n, C m => n =? m
  | V a w, V b w' => String.eqb a b && (w =? w')
  | X n, X m => Nat.eqb n m
  | Trunc w a, Trunc w' a' | Not w a, Not w' a' => (w =? w') && veqb a a'
  | Add w a b, Add w' a' b' | Sub w a b, Sub w' a' b' | Mul w a b, Mul w' a' b'
  | Shl w a b, Shl w' a' b' | Shr w a b, Shr w' a' b' | Gts w a b, Gts w' a' b' => (w =? w') && veqb a a' && veqb b b'
  | Sel l w a, Sel l' w' a' => (l =? l') && (w =? w') && veqb a a'
  | Or a b, Or a' b' | And a b, And a' b' | Xor a b, Xor a' b' | Eq a b, Eq a' b' | Ltu a b, Ltu a' b' => veqb a a' && veqb b b'
  | Cond c a b, Cond c' a' b' => veqb c c' && veqb a a' && veqb b b'
  | ArrSel m w a, ArrSel m' w' a' => String.eqb m m' && (w =? w') && veqb a a'
  | _, _ => false
  end.

Lemma veqb_sound x : forall y, veqb x y = true -> x = y.
Proof.
  induction x; destruct y; simpl; try discriminate; intros H;
  repeat match goal with H : _ && _ = true |- _ => apply andb_prop in H; destruct H end;
  repeat match goal with
  | H : (_ =? _) = true |- _ => apply Z.eqb_eq in H; subst
  | H : String.eqb _ _ = true |- _ => apply String.eqb_eq in H; subst
  | H : Nat.eqb _ _ = true |- _ => apply Nat.eqb_eq in H; subst
  | IH : forall y, veqb ?x y = true -> ?x = y, H : veqb ?x _ = true |- _ => apply IH in H; subst
  end; reflexivity.
Qed.

Lemma veqb_refl x : veqb x x = true.
Proof.
  induction x; simpl; rewrite ?Z.eqb_refl, ?String.eqb_refl, ?Nat.eqb_refl, ?IHx, ?IHx1, ?IHx2, ?IHx3; reflexivity.
Qed.

(* ------------------------------------------------------------------ an arbitrary total order, used only to put the
   operands of commutative operators in a canonical order (soundness needs commutativity only) *)
Definition zs_of_string (s : string) : list Z := map (fun c => Z.of_N (N_of_ascii c)) (list_ascii_of_string s).
Fixpoint ser (x : vexp) : list Z :=
  match x with
  | C n => [0; n]
  | V s w => 1 :: w :: Z.of_nat (List.length (zs_of_string s)) :: zs_of_string s
  | X k => [2; Z.of_nat k]
  | Trunc w a => 3 :: w :: ser a
  | Add w a b => 4 :: w :: ser a ++ ser b
  | Sub w a b => 5 :: w :: ser a ++ ser b
  | Mul w a b => 6 :: w :: ser a ++ ser b
  | Sel l w a => 7 :: l :: w :: ser a
  | Shl w a b => 8 :: w :: ser a ++ ser b
  | Shr w a b => 9 :: w :: ser a ++ ser b
  | Or a b => 10 :: ser a ++ ser b
  | And a b => 11 :: ser a ++ ser b
  | Xor a b => 12 :: ser a ++ ser b
  | Not w a => 13 :: w :: ser a
  | Eq a b => 14 :: ser a ++ ser b
  | Ltu a b => 15 :: ser a ++ ser b
  | Gts w a b => 16 :: w :: ser a ++ ser b
  | Cond c a b => 17 :: ser c ++ ser a ++ ser b
  | ArrSel m w a => 18 :: w :: Z.of_nat (List.length (zs_of_string m)) :: zs_of_string m ++ ser a
  end.
Fixpoint lle (a b : list Z) : bool :=
  match a, b with
  | [], _ => true
  | _ :: _, [] => false
  | x :: r, y :: s => if x <? y then true else if y <? x then false else lle r s
  end.
Definition vle (a b : vexp) : bool := lle (ser a) (ser b).
Definition comm (mk : vexp -> vexp -> vexp) (a b : vexp) : vexp := if vle a b then mk a b else mk b a.

(* ------------------------------------------------------------------ smart constructors *)
Definition isC (x : vexp) : option Z := match x with C n => Some n | _ => None end.
Definition un (f : Z -> Z) (mk : vexp -> vexp) (a : vexp) := match isC a with Some n => C (f n) | None => mk a end.
Definition bin (f : Z -> Z -> Z) (mk : vexp -> vexp -> vexp) (a b : vexp) :=
  match isC a, isC b with Some n, Some m => C (f n m) | _, _ => mk a b end.

(* verified upper bound on the width of a value: wub x = Some u -> 0 <= eval e x < 2^u *)
Fixpoint wub (x : vexp) : option Z :=
  match x with
  | C n => if 0 <=? n then Some (Z.log2 n + 1) else None
  | V _ w | Trunc w _ | Add w _ _ | Sub w _ _ | Mul w _ _ | Shl w _ _ | Shr w _ _ | Sel _ w _ | Not w _ | ArrSel _ w _ =>
      if 0 <=? w then Some w else None
  | Eq _ _ | Ltu _ _ | Gts _ _ _ => Some 1
  | Cond _ a b | Or a b | Xor a b => match wub a, wub b with Some u, Some v => Some (Z.max u v) | _, _ => None end
  | And a b => match wub a, wub b with Some u, Some v => Some (Z.min u v) | _, _ => None end
  | X _ => None
  end.

Definition mkTrunc (w : Z) (a : vexp) : vexp :=
  match wub a with
  | Some u => if u <=? w then a else un (fun n => n mod 2^w) (Trunc w) a
  | None => un (fun n => n mod 2^w) (Trunc w) a
  end.
Definition is_bit (x : vexp) : bool := match wub x with Some u => u <=? 1 | None => false end.
Definition is_lit (n : Z) (x : vexp) : bool := match x with C m => m =? n | _ => false end.
Definition mkOr (a b : vexp) : vexp :=
  if is_lit 0 a then b else if is_lit 0 b then a
  else if is_bit a && is_lit 1 b then C 1 else if is_lit 1 a && is_bit b then C 1
  else bin Z.lor (comm Or) a b.
Definition mkAnd (a b : vexp) : vexp :=
  if is_lit 0 a then C 0 else if is_lit 0 b then C 0 else bin Z.land (comm And) a b.
Definition mkXor (a b : vexp) : vexp :=
  if is_lit 0 a then b else if is_lit 0 b then a else bin Z.lxor (comm Xor) a b.
Definition mkCond (c a b : vexp) : vexp :=
  match isC c with
  | Some n => if n =? 0 then b else a
  | None => if veqb a b then a else Cond c a b
  end.
Definition mkAdd (w : Z) (a b : vexp) : vexp := bin (fun n m => (n + m) mod 2^w) (comm (Add w)) a b.
Definition mkMul (w : Z) (a b : vexp) : vexp := bin (fun n m => (n * m) mod 2^w) (comm (Mul w)) a b.
Definition mkEq (a b : vexp) : vexp := bin (fun n m => b2z (n =? m)) (comm Eq) a b.

Fixpoint norm (s : string -> option Z) (x : vexp) : vexp :=
  match x with
  | C n => C n
  | X n => X n
  | V v w => match s v with Some n => C (n mod 2^w) | None => V v w end
  | Trunc w a => mkTrunc w (norm s a)
  | Add w a b => mkAdd w (norm s a) (norm s b)
  | Sub w a b => bin (fun n m => (n - m) mod 2^w) (Sub w) (norm s a) (norm s b)
  | Mul w a b => mkMul w (norm s a) (norm s b)
  | Sel l w a => un (fun n => (n / 2^l) mod 2^w) (Sel l w) (norm s a)
  | Shl w a b => bin (fun n m => (n * 2^m) mod 2^w) (Shl w) (norm s a) (norm s b)
  | Shr w a b => bin (fun n m => (n / 2^m) mod 2^w) (Shr w) (norm s a) (norm s b)
  | Or a b => mkOr (norm s a) (norm s b)
  | And a b => mkAnd (norm s a) (norm s b)
  | Xor a b => mkXor (norm s a) (norm s b)
  | Not w a => un (fun n => (2^w - 1 - n) mod 2^w) (Not w) (norm s a)
  | Eq a b => mkEq (norm s a) (norm s b)
  | Ltu a b => bin (fun n m => b2z (n <? m)) Ltu (norm s a) (norm s b)
  | Gts w a b => bin (fun n m => b2z (signed w m <? signed w n)) (Gts w) (norm s a) (norm s b)
  | Cond c a b => mkCond (norm s c) (norm s a) (norm s b)
  | ArrSel m w a => ArrSel m w (norm s a)
  end.

Definition agrees (e : env) (s : string -> option Z) := forall v n, s v = Some n -> var e v = n.

(* ------------------------------------------------------------------ soundness *)
Lemma isC_eval e x n : isC x = Some n -> eval e x = n.
Proof. destruct x; simpl; congruence. Qed.
Lemma un_sound e f mk a : (forall a', eval e (mk a') = f (eval e a')) -> eval e (un f mk a) = f (eval e a).
Proof. intros H. unfold un. destruct (isC a) eqn:E; [rewrite (isC_eval e _ _ E); reflexivity | apply H]. Qed.
Lemma bin_sound e f mk a b : (forall a' b', eval e (mk a' b') = f (eval e a') (eval e b')) ->
  eval e (bin f mk a b) = f (eval e a) (eval e b).
Proof.
  intros H. unfold bin. destruct (isC a) eqn:Ea, (isC b) eqn:Eb; try apply H.
  rewrite (isC_eval e _ _ Ea), (isC_eval e _ _ Eb); reflexivity.
Qed.
Lemma comm_sound e f mk : (forall a b, f a b = f b a) -> (forall a' b', eval e (mk a' b') = f (eval e a') (eval e b')) ->
  forall a b, eval e (comm mk a b) = f (eval e a) (eval e b).
Proof. intros Hc H a b. unfold comm. destruct (vle a b); rewrite H; auto. Qed.
Lemma is_lit_eval e n x : is_lit n x = true -> eval e x = n.
Proof. destruct x; simpl; try discriminate. intros H. apply Z.eqb_eq in H. exact H. Qed.

Lemma pow2_nonneg_of_bound u x : 0 <= x < 2^u -> 0 <= u.
Proof. intros H. destruct (Z.lt_ge_cases u 0); [rewrite (Z.pow_neg_r 2 u) in H by lia; lia | lia]. Qed.
Lemma bound_log2 x u : 0 <= x < 2^u -> x = 0 \/ Z.log2 x < u.
Proof.
  intros H. destruct (Z.eq_dec x 0); [left; assumption | right].
  pose proof (pow2_nonneg_of_bound _ _ H). apply Z.log2_lt_pow2; lia.
Qed.
Lemma log2_bound x u : 0 <= x -> 0 <= u -> (x = 0 \/ Z.log2 x < u) -> x < 2^u.
Proof.
  intros Hx Hu [->|H]; [apply Z.pow_pos_nonneg; lia|].
  destruct (Z.eq_dec x 0) as [->|]; [apply Z.pow_pos_nonneg; lia|]. apply Z.log2_lt_pow2; lia.
Qed.
Lemma lor_bound a b u v : 0 <= a < 2^u -> 0 <= b < 2^v -> 0 <= Z.lor a b < 2^(Z.max u v).
Proof.
  intros Ha Hb. pose proof (pow2_nonneg_of_bound _ _ Ha). pose proof (pow2_nonneg_of_bound _ _ Hb).
  split; [apply Z.lor_nonneg; lia|]. apply log2_bound; [apply Z.lor_nonneg; lia | lia |].
  destruct (Z.eq_dec (Z.lor a b) 0); [left; assumption | right].
  rewrite Z.log2_lor by lia. pose proof (Z.log2_nonneg a). pose proof (Z.log2_nonneg b).
  destruct (bound_log2 _ _ Ha) as [->|], (bound_log2 _ _ Hb) as [->|];
    rewrite ?Z.lor_0_l, ?Z.lor_0_r in *; try congruence; simpl Z.log2 in *; lia.
Qed.
Lemma lxor_bound a b u v : 0 <= a < 2^u -> 0 <= b < 2^v -> 0 <= Z.lxor a b < 2^(Z.max u v).
Proof.
  intros Ha Hb. pose proof (pow2_nonneg_of_bound _ _ Ha). pose proof (pow2_nonneg_of_bound _ _ Hb).
  split; [apply Z.lxor_nonneg; lia|]. apply log2_bound; [apply Z.lxor_nonneg; lia | lia |].
  destruct (Z.eq_dec (Z.lxor a b) 0); [left; assumption | right].
  pose proof (Z.log2_lxor a b ltac:(lia) ltac:(lia)). pose proof (Z.log2_nonneg a). pose proof (Z.log2_nonneg b).
  destruct (bound_log2 _ _ Ha) as [->|], (bound_log2 _ _ Hb) as [->|];
    rewrite ?Z.lxor_0_l, ?Z.lxor_0_r in *; try congruence; simpl Z.log2 in *; lia.
Qed.
Lemma land_bound a b u v : 0 <= a < 2^u -> 0 <= b < 2^v -> 0 <= Z.land a b < 2^(Z.min u v).
Proof.
  intros Ha Hb. pose proof (pow2_nonneg_of_bound _ _ Ha). pose proof (pow2_nonneg_of_bound _ _ Hb).
  split; [apply Z.land_nonneg; lia|]. apply log2_bound; [apply Z.land_nonneg; lia | lia |].
  destruct (Z.eq_dec (Z.land a b) 0); [left; assumption | right].
  pose proof (Z.log2_land a b ltac:(lia) ltac:(lia)). pose proof (Z.log2_nonneg a). pose proof (Z.log2_nonneg b).
  destruct (bound_log2 _ _ Ha) as [->|], (bound_log2 _ _ Hb) as [->|];
    rewrite ?Z.land_0_l, ?Z.land_0_r in *; try congruence; simpl Z.log2 in *; lia.
Qed.

Lemma wub_sound e x : forall u, wub x = Some u -> 0 <= eval e x < 2^u.
Proof.
  induction x; cbn [wub eval]; intros u H; try discriminate;
  try (destruct (0 <=? w) eqn:E; [|discriminate]; injection H as <-; apply Z.mod_pos_bound; apply Z.pow_pos_nonneg; lia).
  - destruct (0 <=? n) eqn:E; [|discriminate]. injection H as <-. apply Z.leb_le in E.
    destruct (Z.eq_dec n 0) as [->|]; [simpl; lia|]. split; [lia|]. apply Z.log2_spec. lia.
  - destruct (wub x1) eqn:E1; [|discriminate]. destruct (wub x2) eqn:E2; [|discriminate]. injection H as <-.
    apply lor_bound; auto.
  - destruct (wub x1) eqn:E1; [|discriminate]. destruct (wub x2) eqn:E2; [|discriminate]. injection H as <-.
    apply land_bound; auto.
  - destruct (wub x1) eqn:E1; [|discriminate]. destruct (wub x2) eqn:E2; [|discriminate]. injection H as <-.
    apply lxor_bound; auto.
  - injection H as <-. destruct (_ =? _); simpl; lia.
  - injection H as <-. destruct (_ <? _); simpl; lia.
  - injection H as <-. destruct (_ <? _); simpl; lia.
  - destruct (wub x2) eqn:E2; [|discriminate]. destruct (wub x3) eqn:E3; [|discriminate]. injection H as <-.
    specialize (IHx2 _ eq_refl). specialize (IHx3 _ eq_refl).
    pose proof (pow2_nonneg_of_bound _ _ IHx2). pose proof (pow2_nonneg_of_bound _ _ IHx3).
    assert (2^z <= 2^(Z.max z z0)) by (apply Z.pow_le_mono_r; lia).
    assert (2^z0 <= 2^(Z.max z z0)) by (apply Z.pow_le_mono_r; lia).
    destruct (_ =? 0); lia.
Qed.

Lemma mkTrunc_sound e w a : eval e (mkTrunc w a) = eval e a mod 2^w.
Proof.
  assert (G: eval e (un (fun n => n mod 2^w) (Trunc w) a) = eval e a mod 2^w) by (apply un_sound; reflexivity).
  unfold mkTrunc. destruct (wub a) eqn:E; [|exact G]. destruct (z <=? w) eqn:L; [|exact G].
  apply Z.leb_le in L. pose proof (wub_sound e a z E) as H. pose proof (pow2_nonneg_of_bound _ _ H).
  assert (2^z <= 2^w) by (apply Z.pow_le_mono_r; lia).
  symmetry. apply Z.mod_small. lia.
Qed.

Lemma is_bit_eval e x : is_bit x = true -> eval e x = 0 \/ eval e x = 1.
Proof.
  unfold is_bit. destruct (wub x) eqn:E; [|discriminate]. intros L. apply Z.leb_le in L.
  pose proof (wub_sound e x z E) as H. pose proof (pow2_nonneg_of_bound _ _ H).
  assert (2^z <= 2^1) by (apply Z.pow_le_mono_r; lia). change (2^1) with 2 in *. lia.
Qed.

Lemma mkOr_sound e a b : eval e (mkOr a b) = Z.lor (eval e a) (eval e b).
Proof.
  unfold mkOr.
  destruct (is_lit 0 a) eqn:A0; [rewrite (is_lit_eval e _ _ A0); reflexivity|].
  destruct (is_lit 0 b) eqn:B0; [rewrite (is_lit_eval e _ _ B0), Z.lor_0_r; reflexivity|].
  destruct (is_bit a && is_lit 1 b) eqn:E1.
  { apply andb_prop in E1. destruct E1 as [Ha Hb]. rewrite (is_lit_eval e _ _ Hb).
    destruct (is_bit_eval e _ Ha) as [-> | ->]; reflexivity. }
  destruct (is_lit 1 a && is_bit b) eqn:E2.
  { apply andb_prop in E2. destruct E2 as [Ha Hb]. rewrite (is_lit_eval e _ _ Ha).
    destruct (is_bit_eval e _ Hb) as [-> | ->]; reflexivity. }
  apply bin_sound. apply (comm_sound e Z.lor Or Z.lor_comm). reflexivity.
Qed.
Lemma mkAnd_sound e a b : eval e (mkAnd a b) = Z.land (eval e a) (eval e b).
Proof.
  unfold mkAnd.
  destruct (is_lit 0 a) eqn:A0; [rewrite (is_lit_eval e _ _ A0); reflexivity|].
  destruct (is_lit 0 b) eqn:B0; [rewrite (is_lit_eval e _ _ B0), Z.land_0_r; reflexivity|].
  apply bin_sound. apply (comm_sound e Z.land And Z.land_comm). reflexivity.
Qed.
Lemma mkXor_sound e a b : eval e (mkXor a b) = Z.lxor (eval e a) (eval e b).
Proof.
  unfold mkXor.
  destruct (is_lit 0 a) eqn:A0; [rewrite (is_lit_eval e _ _ A0); reflexivity|].
  destruct (is_lit 0 b) eqn:B0; [rewrite (is_lit_eval e _ _ B0), Z.lxor_0_r; reflexivity|].
  apply bin_sound. apply (comm_sound e Z.lxor Xor Z.lxor_comm). reflexivity.
Qed.
Lemma mkCond_sound e c a b : eval e (mkCond c a b) = if eval e c =? 0 then eval e b else eval e a.
Proof.
  unfold mkCond. destruct (isC c) eqn:E.
  - rewrite (isC_eval e _ _ E). destruct (z =? 0); reflexivity.
  - destruct (veqb a b) eqn:Q; [|reflexivity]. apply veqb_sound in Q. subst b. destruct (_ =? 0); reflexivity.
Qed.
Lemma mkAdd_sound e w a b : eval e (mkAdd w a b) = (eval e a + eval e b) mod 2^w.
Proof.
  unfold mkAdd. apply (bin_sound e (fun n m => (n + m) mod 2^w)).
  apply (comm_sound e (fun n m => (n + m) mod 2^w) (Add w)); [intros; f_equal; lia | reflexivity].
Qed.
Lemma mkMul_sound e w a b : eval e (mkMul w a b) = (eval e a * eval e b) mod 2^w.
Proof.
  unfold mkMul. apply (bin_sound e (fun n m => (n * m) mod 2^w)).
  apply (comm_sound e (fun n m => (n * m) mod 2^w) (Mul w)); [intros; f_equal; lia | reflexivity].
Qed.
Lemma mkEq_sound e a b : eval e (mkEq a b) = b2z (eval e a =? eval e b).
Proof.
  unfold mkEq. apply (bin_sound e (fun n m => b2z (n =? m))).
  apply (comm_sound e (fun n m => b2z (n =? m)) Eq); [intros; rewrite Z.eqb_sym; reflexivity | reflexivity].
Qed.

Theorem norm_sound e s x : agrees e s -> eval e (norm s x) = eval e x.
Proof.
  intros H. induction x; cbn [norm eval]; try reflexivity.
  - destruct (s name) eqn:E; cbn [eval]; [rewrite (H _ _ E); reflexivity | reflexivity].
  - rewrite mkTrunc_sound. rewrite ?IHx, ?IHx1, ?IHx2, ?IHx3; reflexivity.
  - rewrite mkAdd_sound. rewrite ?IHx, ?IHx1, ?IHx2, ?IHx3; reflexivity.
  - rewrite bin_sound by reflexivity. cbv beta. rewrite ?IHx, ?IHx1, ?IHx2, ?IHx3; reflexivity.
  - rewrite mkMul_sound. rewrite ?IHx, ?IHx1, ?IHx2, ?IHx3; reflexivity.
  - rewrite un_sound by reflexivity. cbv beta. rewrite ?IHx, ?IHx1, ?IHx2, ?IHx3; reflexivity.
  - rewrite bin_sound by reflexivity. cbv beta. rewrite ?IHx, ?IHx1, ?IHx2, ?IHx3; reflexivity.
  - rewrite bin_sound by reflexivity. cbv beta. rewrite ?IHx, ?IHx1, ?IHx2, ?IHx3; reflexivity.
  - rewrite mkOr_sound. rewrite ?IHx, ?IHx1, ?IHx2, ?IHx3; reflexivity.
  - rewrite mkAnd_sound. rewrite ?IHx, ?IHx1, ?IHx2, ?IHx3; reflexivity.
  - rewrite mkXor_sound. rewrite ?IHx, ?IHx1, ?IHx2, ?IHx3; reflexivity.
  - rewrite un_sound by reflexivity. cbv beta. rewrite ?IHx, ?IHx1, ?IHx2, ?IHx3; reflexivity.
  - rewrite mkEq_sound. rewrite ?IHx, ?IHx1, ?IHx2, ?IHx3; reflexivity.
  - rewrite bin_sound by reflexivity. cbv beta. rewrite ?IHx, ?IHx1, ?IHx2, ?IHx3; reflexivity.
  - rewrite bin_sound by reflexivity. cbv beta. rewrite ?IHx, ?IHx1, ?IHx2, ?IHx3; reflexivity.
  - rewrite mkCond_sound. rewrite ?IHx, ?IHx1, ?IHx2, ?IHx3; reflexivity.
  - rewrite ?IHx, ?IHx1, ?IHx2, ?IHx3; reflexivity.
Qed.
