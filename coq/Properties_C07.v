(* Properties_C07.v -- compile-time evaluation agrees with run-time evaluation.
   Model: XConstProp.v (xcmp.hpp ConstProp, OptimiseExpr, genConst; tied to the working tree by tools/c07.py).
   Specs: XSem.v (the X definition; eval_const is its evaluator of constant expressions, used here with an arbitrary
   environment of run-time values so that every non-constant leaf is a variable), Isa.v (the machine).
   Scope: the agreement theorems are stated for the pure fragment of expressions (no calls, input/output, array
   reads); the statement against the full interpreter is C07_fold_agrees_full (Definition, not proved).
   Both arithmetics of the folding are covered (`cp_arith E`: C int with overflow = UB, or wrap through unsigned);
   XConstProp.repo_arith names the one the working tree's source has now. *)
From Coq Require Import ZArith String List Bool.
From HexVerif Require Import WMap Isa AsmLayout AsmSpecProofs AsmEncodeProofs.
From HexVerif Require Import XAst XSem XConstProp XConstPropProofs XConstPropDeclProofs XFrontPreserve XFrontPreserveProofs.
From HexVerif Require XCodegenDemo.
Import ListNotations.
Local Open Scope Z_scope.

(* PARTIAL (suffix _partial on theorems 1 and 2): both are stated for the PURE fragment of expressions only -- the
   hypothesis `XSem.eval_const lk e = inr v` / `meval true lk e = inr v` can hold only for expressions built from
   literals, true/false, names, unary and binary operators (eval_const answers `Unsupported` for calls, system calls,
   array subscripts and strings).  MISSING: expressions that contain calls, input/output or array reads, and the state
   and effects of the full interpreter XSem.eval; the statement that would cover them is C07_fold_agrees_full below
   (a Definition, NOT proved; it can hold only up to the order in which footprints are recorded, because OptimiseExpr
   swaps the operands of > and <=).  For those expressions the evidence is the paired-program oracle of tools/c07.py
   (calls with side effects, array subscripts and conditions are generated there), not a theorem. *)
(* 1. folding + val propagation + rewriting preserve the X value of every defined pure expression, constant sub-trees
      anywhere; the folding hits no undefined behaviour of C; a node annotated constant carries exactly the value *)
Theorem C07_fold_agrees_partial : forall (E : cpenv) (lk : string -> option Z) (e : expr) (v : Z),
  env_ok E lk -> XSem.eval_const lk e = inr v ->
  exists ae, cp_expr E e = COk ae /\ (forall c, const_of ae = Some c -> c = v) /\
             XSem.eval_const lk (erase ae) = inr v /\ XSem.eval_const lk (erase (opt_expr ae)) = inr v.
Proof. exact fold_agrees_xsem. Qed.
Print Assumptions C07_fold_agrees_partial.

(* 2. the same with results that wrap around (meval true: + - unary minus in two's complement): agreement for all
      32-bit leaves -- or, only when the compiler folds on C int, signed overflow inside the compiler *)
Theorem C07_fold_agrees_wrap_partial : forall (E : cpenv) (lk : string -> option Z) (e : expr) (v : Z),
  env_ok E lk -> meval true lk e = inr v ->
  match cp_expr E e with
  | COk ae => (forall c, const_of ae = Some c -> c = v) /\ meval true lk (erase ae) = inr v /\ meval true lk (erase (opt_expr ae)) = inr v
  | CUB SignedOverflow => cp_arith E = ArithInt
  | _ => False
  end.
Proof. exact fold_agrees_wrap. Qed.
Print Assumptions C07_fold_agrees_wrap_partial.

Theorem C07_meval_is_xsem : forall lk e, meval false lk e = XSem.eval_const lk e.
Proof. exact meval_false. Qed.
Print Assumptions C07_meval_is_xsem.

(* 3. each rewrite of OptimiseExpr has the value of the operator it replaces: defined for the same operands, with
      the same value, for ALL 32-bit operands (INT_MIN included), in both evaluators *)
Theorem C07_rewrite_agrees : forall (w : bool) (lk : string -> option Z) (l r : expr) (v : Z),
  (meval w lk (EBin Ne l r) = inr v <-> meval w lk (EUn Not (EBin Eq l r)) = inr v) /\
  (meval w lk (EBin Ge l r) = inr v <-> meval w lk (EUn Not (EBin Ls l r)) = inr v) /\
  (meval w lk (EBin Gr l r) = inr v <-> meval w lk (EBin Ls r l) = inr v) /\
  (meval w lk (EBin Le l r) = inr v <-> meval w lk (EUn Not (EBin Ls r l)) = inr v) /\
  (meval w lk (EUn Neg l) = inr v <-> meval w lk (EBin Minus (ENum 0) l) = inr v).
Proof. exact rewrite_agrees. Qed.
Print Assumptions C07_rewrite_agrees.

Theorem C07_rewrite_values : forall (w : bool) (a b : Z),
  bin_ans w Ne a b = match bin_ans w Eq a b with inr z => un_ans w Not z | inl u => inl u end /\
  bin_ans w Ge a b = match bin_ans w Ls a b with inr z => un_ans w Not z | inl u => inl u end /\
  bin_ans w Gr a b = bin_ans w Ls b a /\
  bin_ans w Le a b = match bin_ans w Ls b a with inr z => un_ans w Not z | inl u => inl u end /\
  un_ans w Neg a = bin_ans w Minus 0 a.
Proof. exact rewrite_values. Qed.
Print Assumptions C07_rewrite_values.

(* 4. genConst: -65536 < v < 65536 gives LDAC v / LDBC v, anything else LDAM / LDBM of the pool word holding v; the
      bytes hexasm emits for that instruction (C04), executed by Isa.step from a clear operand register, leave
      v mod 2^32 in the requested register and change nothing else *)
Theorem C07_const_materialise :
  (forall r v img s inp,
     gen_const_imm v = true ->
     at_bytes img (pc s) (emit_instr (imm_opc r) v (enc_size v)) -> oreg s = 0 -> 0 <= pc s -> pc s + enc_size v <= W ->
     holds (mem s) img (pc s) (pc s + enc_size v) ->
     gen_const r v = LoadImm (imm_opc r) v /\
     exists s1 s', Isa.run (Z.to_nat (enc_size v - 1)) s inp [] = ([], inp, s1, Cut) /\ Isa.step s1 inp = Isa.Ok (s', inp, Tau) /\
       get_reg r s' = v mod W /\ other_reg r s' = other_reg r s /\ mem s' = mem s /\ oreg s' = 0 /\ pc s' = wrap (pc s + enc_size v)) /\
  (forall r v a img s inp,
     gen_const_imm v = false -> int_range a -> in_mem (a mod W) = true -> rd (mem s) (a mod W) = v mod W ->
     at_bytes img (pc s) (emit_instr (mem_opc r) a (enc_size a)) -> oreg s = 0 -> 0 <= pc s -> pc s + enc_size a <= W ->
     holds (mem s) img (pc s) (pc s + enc_size a) ->
     gen_const r v = LoadPool (mem_opc r) v /\
     exists s1 s', Isa.run (Z.to_nat (enc_size a - 1)) s inp [] = ([], inp, s1, Cut) /\ Isa.step s1 inp = Isa.Ok (s', inp, Tau) /\
       get_reg r s' = v mod W /\ other_reg r s' = other_reg r s /\ mem s' = mem s /\ oreg s' = 0 /\ pc s' = wrap (pc s + enc_size a)).
Proof. split; [exact const_materialise_imm | exact const_materialise_pool]. Qed.
Print Assumptions C07_const_materialise.

(* 5. the run-time code of an ordering test (SUB, then BRN on the sign of the 32-bit difference) gives the X truth value
      whenever the operand difference stays in range *)
Theorem C07_runtime_relational : forall a b,
  in_int a = true -> in_int b = true -> in_int (a - b) = true -> rt_less a b = (a <? b).
Proof. exact runtime_relational. Qed.
Print Assumptions C07_runtime_relational.

(* 6. REFUTED for ordering operators whose operand difference leaves the 32-bit range: the folded value follows the
      mathematical order, the run-time code the sign of the wrapped difference: (-2) < 2147483647 folds to 1 in
      either arithmetic and computes 0 at run time; XSem excludes it (CmpDiffOverflow), C07's quantifier does not *)
Theorem C07_relational_fold_refuted :
  exists a b, in_int a = true /\ in_int b = true /\
    (forall m, fold_bin m Ls a b = COk 1) /\ rt_less a b = false /\ XSem.binop_ans Ls a b = inl CmpDiffOverflow.
Proof. exact relational_fold_refuted. Qed.
Print Assumptions C07_relational_fold_refuted.

(* 7. REFUTED "folding hits no undefined behaviour" for the C int arithmetic as soon as results may wrap:
      2147483647 + 1 is signed overflow in ConstProp (the wrap-through-unsigned arithmetic folds it to -2147483648);
      and even a program the X definition gives a meaning (false and ((2147483647 + 1) = 0)) runs into it *)
Theorem C07_fold_int_overflow_refuted :
  (exists e v, meval true (fun _ => None) e = inr v /\
     cp_expr (cp_env_of ArithInt [] []) e = CUB SignedOverflow /\
     (exists ae, cp_expr (cp_env_of ArithWrap [] []) e = COk ae /\ const_of ae = Some v)) /\
  (exists e, XSem.eval 10 ge0 e st0 = Ret (Vint 0) st0 /\ cp_expr (cp_env_of ArithInt [] []) e = CUB SignedOverflow).
Proof. split; [exact fold_int_overflow | exact fold_int_overflow_defined_program]. Qed.
Print Assumptions C07_fold_int_overflow_refuted.

(* Theorems 8 and 9 are about DECLARATIONS (val values, array lengths): these are constant expressions by the X
   definition itself (XSem.init_globals / XSem.local_decls evaluate them with eval_const), so nothing is left out
   for them; they are not `_partial`.  What they deliver for expressions in statement bodies is only the environment
   hypotheses env_ok / all_vals of the two _partial theorems above, i.e. again the pure fragment. *)
(* 8. propagation of val names.  Global declarations: where the X definition (XSem.init_globals) gives the vals values,
      ConstProp gives every ValDecl the same value (array lengths fold as well), and afterwards every constant name
      resolves through the symbol table to that value: the environment hypotheses of theorems 1 and 2 hold. *)
Theorem C07_val_propagation_globals : forall m p vals vars arrs,
  XSem.wf_program p = None -> (forall q, In q (procs p) -> pname q <> ""%string) ->
  XSem.init_globals (globals p) [] [] [] = inr (vals, vars, arrs) ->
  exists gs vv, cp_decls m (create_symbols p) ""%string (globals p) 0 [] = COk (gs, nvals (globals p), vv) /\
    env_ok {| cp_arith := m; cp_syms := create_symbols p; cp_scope := ""%string; cp_vals := vv |} (fun y => XSem.assoc y vals) /\
    all_vals {| cp_arith := m; cp_syms := create_symbols p; cp_scope := ""%string; cp_vals := vv |} (fun y => XSem.assoc y vals) /\
    globals_visible p vals (nvals (globals p)) vv.
Proof. exact val_propagation_globals_visible. Qed.
Print Assumptions C07_val_propagation_globals.

(* 9. the same inside procedures, in the order ConstProp visits them: a procedure's own declarations (formals, local
      variables, local vals) hide the globals of the same names exactly as in XSem.local_decls; `thread` is the sequence
      of declaration lists cp_procs goes through, and its k-th result is the environment of the k-th body *)
Theorem C07_val_propagation_procs : forall m p gvals (lv : proc -> list (string * Z)),
  XSem.wf_program p = None -> (forall h, In h (procs p) -> pname h <> ""%string) ->
  (forall q, In q (procs p) -> exists lvars, XSem.local_decls (locals q) (pnames q) gvals [] [] = inr (lvars, lv q)) ->
  forall ps pre vv, procs p = pre ++ ps -> globals_visible p gvals (nvals (globals p) + nlocvals pre) vv ->
  exists envs, thread m (create_symbols p) ps (nvals (globals p) + nlocvals pre) vv = COk envs /\
    Forall2 (fun q v' =>
               env_ok {| cp_arith := m; cp_syms := create_symbols p; cp_scope := pname q; cp_vals := v' |} (lk_local (pnames q) gvals (lv q)) /\
               all_vals {| cp_arith := m; cp_syms := create_symbols p; cp_scope := pname q; cp_vals := v' |} (lk_local (pnames q) gvals (lv q)))
            ps envs.
Proof. exact val_propagation_procs. Qed.
Print Assumptions C07_val_propagation_procs.

Theorem C07_cp_procs_thread : forall m st ps n vv aps, cp_procs m st ps n vv = COk aps ->
  exists envs, thread m st ps n vv = COk envs /\
    Forall2 (fun qa v' => cp_stmt {| cp_arith := m; cp_syms := st; cp_scope := pname (fst qa); cp_vals := v' |} (body (fst qa)) = COk (a_body (snd qa)))
            (combine ps aps) envs /\ length aps = length ps.
Proof. exact cp_procs_thread. Qed.
Print Assumptions C07_cp_procs_thread.

(* 10. SIMULATION of expressions WITH calls, system calls and array reads, of statements and of procedure bodies (the
       part the _partial theorems 1 and 2 leave out).  ge / ge' are the interpreter's global environments of the source
       and of the program XConstProp.front makes of it: same constants, and a procedure table in which every procedure
       q corresponds to q' = the passes applied to q (proc_ok: same kind, body q' = TS (cp_stmt E (body q)), entering q
       and q' builds the same frame, whose names resolve as the compiler's environment E says -- frame_inv).  Then for
       every fuel f, every expression / expression list / statement / statement list whose passes succeed
       (cp_expr E e = COk ae ...) and that is swap_safe, evaluated from states equal up to the order of footprints:
       if the source evaluation at fuel f is not a failure, the transformed one at any fuel >= 4 f gives the same value /
       control flow in an equivalent state (sim = "ok r -> res_eq R r r'").
       PARTIAL: excluded by swap_safe (XFrontPreserve.v header): `>` / `<=` whose RIGHT operand contains a call (or is a
       string literal) while the left one is not a literal-like constant; the call spelled 4294967295(..).
       The procedure-table hypothesis is discharged for whole programs in
       theorem 12 (program_PT). *)
Theorem C07_front_simulation_partial : forall ge ge' : genv, g_vals ge' = g_vals ge ->
  (forall f q, find_proc f (g_procs ge) = Some q -> exists q' E, find_proc f (g_procs ge') = Some q' /\ proc_ok ge ge' q q' E) ->
  forall f, SE ge ge' f /\ SEs ge ge' f /\ SX ge ge' f /\ SXs ge ge' f /\ SWAP ge ge' f.
Proof. exact sim_all. Qed.
Print Assumptions C07_front_simulation_partial.

(* 11. (iii) THE DECLARATION PART: the global declarations of the transformed program initialise exactly the same
       constants, variables and arrays (XSem.init_globals); the same for a procedure's local declarations is
       local_decls_replay (XFrontPreserveProofs.v), used in theorem 12. *)
Theorem C07_front_globals_same : forall m p ap R, XSem.wf_program p = None -> names_ok p = true ->
  constprop_program_with m p = COk ap ->
  XSem.init_globals (globals p) [] [] [] = inr R ->
  XSem.init_globals (globals (erase_program (opt_program ap))) [] [] [] = inr R.
Proof. exact front_globals_same. Qed.
Print Assumptions C07_front_globals_same.

(* 12. WHOLE PROGRAMS: the front-end passes preserve the meaning of programs.  If XConstProp.front p = COk p', then every
       behaviour (outputs, input consumed, exit value) that XSem gives the source program p at fuel f is the behaviour of
       the transformed program p' at fuel 4 f (same step budget, same depth bound); hence, for XSem.run, every behaviour
       reached within a quarter of the default fuel.  This is the direction C01 needs: C01_program_partial is stated for
       the output of XConstProp.front.
       PARTIAL, hypotheses (both decidable, computed by vm_compute in the Examples below):
         names_ok p          no procedure has the empty name (the parser cannot produce one);
         front_swap_safe p   the annotated program is swap_safe (exclusions (1)-(2) in the header of XFrontPreserve.v:
                             `>` / `<=` whose RIGHT operand contains a call or system call (or is a string literal)
                             while the left operand is not a literal-like constant; the call spelled 4294967295(..)).
                             `f(x) > y`, `a[g()] <= n` ... are covered (the right operand is call-free: what the left
                             one changes is in its write footprint -- wsound_all -- and the right one depends only on
                             what it reads -- rsound_all); `y > f(x)` is not, and cannot be under XSem's rule for an
                             operand that leaves the program (see the header of XFrontPreserve.v).
                             Covered since: constant comparisons that OptimiseExpr rewrites
                             after folding (3 ~= 4, k >= 2 with val k ...), and unary minus of a non-constant operand
                             (-x -> 0 - x; by the framing lemma frame_all: an evaluation started with an extra footprint
                             recorded only adds that footprint to its final state).
       Ill-defined source programs are outside the statement by `= Behaviour b` (XSem answers Undef for the
       relational-difference overflow of the known finding, for order-dependent operands, for wrap-around ...). *)
Theorem C07_front_preserves_partial : forall p p' f steps depth inp b,
  front p = COk p' -> names_ok p = true -> front_swap_safe p = true ->
  XSem.run_fuel f steps depth p inp = Behaviour b -> XSem.run_fuel (f * 4) steps depth p' inp = Behaviour b.
Proof. exact front_preserves_partial. Qed.
Print Assumptions C07_front_preserves_partial.

Theorem C07_front_preserves_run_partial : forall p p' f inp b,
  front p = COk p' -> names_ok p = true -> front_swap_safe p = true -> (f * 4 <= XSem.default_fuel)%nat ->
  XSem.run_fuel f XSem.default_steps XSem.default_depth p inp = Behaviour b -> XSem.run p' inp = Behaviour b.
Proof. exact front_preserves_run. Qed.
Print Assumptions C07_front_preserves_run_partial.

(* the full statement against the effect-tracking interpreter XSem.eval -- not proved *)
Definition C07_fold_agrees_full : Prop := fold_agrees_full.

(* ---------------------------------------------------------------- non-vacuity *)
(* what the working tree's source says now about the arithmetic of folding / about non-constant vals *)
Example C07_repo_arith_now : repo_arith = ArithWrap. Proof. reflexivity. Qed.
Example C07_repo_nonconst_val_now : repo_rejects_nonconst_val = true. Proof. reflexivity. Qed.

(* a + (k + 2) with val k = 3, a = 5 at run time: the constant subtree on the right is folded to 5 *)
Example C07_ex_env : env_ok (ex_env repo_arith) ex_lk. Proof. exact (ex_env_ok repo_arith). Qed.
Example C07_ex_fold :
  front_expr (ex_env repo_arith) (EBin Plus (EVar "a") (EBin Plus (EVar "k") (ENum 2))) = COk (EBin Plus (EVar "a") (ENum 5))
  /\ XSem.eval_const ex_lk (EBin Plus (EVar "a") (EBin Plus (EVar "k") (ENum 2))) = inr 10
  /\ XSem.eval_const ex_lk (EBin Plus (EVar "a") (ENum 5)) = inr 10.
Proof. repeat split. Qed.
(* a constant `~=` is folded, then rewritten into fresh non-constant nodes; `a >= k` becomes ~(a < 3); -a becomes 0 - a *)
Example C07_ex_rewrite :
  front_expr (ex_env repo_arith) (EBin Ne (ENum 3) (ENum 4)) = COk (EUn Not (EBin Eq (ENum 3) (ENum 4)))
  /\ front_expr (ex_env repo_arith) (EBin Ge (EVar "a") (EVar "k")) = COk (EUn Not (EBin Ls (EVar "a") (ENum 3)))
  /\ front_expr (ex_env repo_arith) (EUn Neg (EVar "a")) = COk (EBin Minus (ENum 0) (EVar "a"))
  /\ front_expr (ex_env repo_arith) (EUn Neg (EVar "k")) = COk (ENum 4294967293).
Proof. repeat split. Qed.
(* INT_MIN as a val: -m overflows a C int, wraps to INT_MIN through unsigned; XSem: undefined (ArithOverflow) *)
Example C07_ex_neg_int_min :
  cp_expr (ex_env ArithInt) (EUn Neg (EVar "m")) = CUB SignedOverflow
  /\ front_expr (ex_env ArithWrap) (EUn Neg (EVar "m")) = COk (ENum 2147483648)
  /\ meval true ex_lk (EUn Neg (EVar "m")) = inr (-2147483648)
  /\ XSem.eval_const ex_lk (EUn Neg (EVar "m")) = inl ArithOverflow.
Proof. repeat split. Qed.
(* the immediate / pool split *)
Example C07_ex_gen_const :
  gen_const RA 65535 = LoadImm 3 65535 /\ gen_const RB (-65535) = LoadImm 4 (-65535)
  /\ gen_const RA 65536 = LoadPool 0 65536 /\ gen_const RB (-65536) = LoadPool 1 (-65536)
  /\ gen_const RA (-2147483648) = LoadPool 0 (-2147483648).
Proof. repeat split. Qed.
(* the run-time ordering test on the witness of C07_relational_fold_refuted, and on an in-range pair *)
Example C07_ex_rt_less : rt_less (-2) 2147483647 = false /\ rt_less (-2) 2147483646 = true /\ rt_less 3 4 = true /\ rt_less 4 3 = false.
Proof. repeat split. Qed.
(* val propagation on a program: globals `val a = 5; val b = a + 1; var g`, and in main `val a = 7; val c = a + b`
   (the local a hides the global one): ValDecl values 5, 6, 7, 13; the body's `c + g` keeps g and loads 13 *)
Definition C07_ex_prog : program :=
  {| globals := [DVal "a" (ENum 5); DVal "b" (EBin Plus (EVar "a") (ENum 1)); DVar "g"];
     procs := [{| is_func := false; pname := "main"; formals := [];
                  locals := [DVal "a" (ENum 7); DVal "c" (EBin Plus (EVar "a") (EVar "b"))];
                  body := SSys 0 [EBin Plus (EVar "c") (EVar "g")] |}] |}.
Example C07_ex_val_propagation :
  XSem.wf_program C07_ex_prog = None
  /\ XSem.init_globals (globals C07_ex_prog) [] [] [] = inr ([("b"%string, 6); ("a"%string, 5)], [("g"%string, Vundef)], [])
  /\ (exists lvars, XSem.local_decls [DVal "a" (ENum 7); DVal "c" (EBin Plus (EVar "a") (EVar "b"))] ["a"%string; "c"%string]
                      [("b"%string, 6); ("a"%string, 5)] [] [] = inr (lvars, [("c"%string, 13); ("a"%string, 7)]))
  /\ thread repo_arith (create_symbols C07_ex_prog) (procs C07_ex_prog) 2 [(1%nat, 6); (0%nat, 5)]
     = COk [[(3%nat, 13); (2%nat, 7); (1%nat, 6); (0%nat, 5)]]
  /\ (exists q, front C07_ex_prog = COk q /\
        map body (procs q) = [SSys 0 [EBin Plus (ENum 13) (EVar "g")]]).
Proof.
  split; [reflexivity|]. split; [reflexivity|]. split; [eexists; reflexivity|]. split; [reflexivity|].
  eexists. split; reflexivity.
Qed.

(* the hypotheses of theorem 12 hold for non-trivial programs: the val-propagation example above and C01's demo source
   (recursion, a function used as `return f(..)` and as `x := f(..)`, array reads and writes, put through a val) *)
Example C07_ex_front_preserves_hyps :
  names_ok C07_ex_prog = true /\ front_swap_safe C07_ex_prog = true /\
  names_ok XCodegenDemo.demo_src = true /\ front_swap_safe XCodegenDemo.demo_src = true /\
  (exists q, front XCodegenDemo.demo_src = COk q).
Proof. repeat split. eexists. vm_compute. reflexivity. Qed.

(* which operand swaps front_swap_safe lets through: a function f that writes the global g, called on the LEFT of > / <=
   with a call-free right operand (a variable, an expression) is inside theorem 12; the same call on the RIGHT of a
   variable is outside; on the right of a literal it is inside *)
Definition C07_ex_swap_prog (c : expr) : program :=
  {| globals := [DVar "g"];
     procs := [{| is_func := true; pname := "f"; formals := [FVal "x"]; locals := [];
                  body := SSeq [SAssign "g" (EVar "x"); SReturn (EVar "x")] |};
               {| is_func := false; pname := "main"; formals := []; locals := [DVar "y"];
                  body := SSeq [SAssign "y" (ENum 3); SIf c (SSys 0 [ENum 1]) SSkip] |}] |}.
Example C07_ex_swap_shapes :
  XSem.wf_program (C07_ex_swap_prog (EBin Gr (ECall "f" [ENum 2]) (EVar "y"))) = None /\
  front_swap_safe (C07_ex_swap_prog (EBin Gr (ECall "f" [ENum 2]) (EVar "y"))) = true /\
  front_swap_safe (C07_ex_swap_prog (EBin Le (ECall "f" [ENum 2]) (EBin Plus (EVar "y") (ENum 1)))) = true /\
  front_swap_safe (C07_ex_swap_prog (EBin Gr (EVar "y") (ECall "f" [ENum 2]))) = false /\
  front_swap_safe (C07_ex_swap_prog (EBin Gr (ENum 4) (ECall "f" [ENum 2]))) = true.
Proof. vm_compute. repeat split. Qed.
