open Ascii
open AsmModel
open BinInt
open BinNums
open Datatypes
open List
open String
open WMap

(** val nn_loop : nat -> coq_Z -> coq_Z -> coq_Z **)

let rec nn_loop fuel m n =
  match fuel with
  | O -> n
  | S f ->
    if Z.leb (Zpos (Coq_xO (Coq_xO (Coq_xO (Coq_xO Coq_xH))))) m
    then nn_loop f
           (Z.div m (Zpos (Coq_xO (Coq_xO (Coq_xO (Coq_xO Coq_xH))))))
           (Z.add n (Zpos Coq_xH))
    else n

(** val num_nibbles : coq_Z -> coq_Z **)

let num_nibbles v =
  if Z.eqb v Z0
  then Zpos Coq_xH
  else if (&&) (Z.ltb v Z0)
            (Z.ltb (Z.abs v) (Zpos (Coq_xO (Coq_xO (Coq_xO (Coq_xO
              Coq_xH))))))
       then Zpos (Coq_xO Coq_xH)
       else nn_loop (S (S (S (S (S (S (S (S O)))))))) (Z.abs v) (Zpos Coq_xH)

(** val enc_size : coq_Z -> coq_Z **)

let enc_size v =
  if (&&) (Z.ltb v Z0) (Z.eqb (num_nibbles v) (Zpos Coq_xH))
  then Zpos (Coq_xO Coq_xH)
  else num_nibbles v

(** val instr_len_go : nat -> coq_Z -> coq_Z -> coq_Z **)

let rec instr_len_go fuel d len =
  match fuel with
  | O -> len
  | S f ->
    if Z.ltb len (num_nibbles (Z.sub d len))
    then instr_len_go f d (Z.add len (Zpos Coq_xH))
    else len

(** val instr_len : coq_Z -> coq_Z -> coq_Z **)

let instr_len label_value byte_offset =
  instr_len_go (S (S (S (S (S (S (S (S O))))))))
    (Z.sub label_value byte_offset) (Zpos Coq_xH)

type dst = { d_off : coq_Z; d_val : coq_Z; d_len : coq_Z }

(** val dst0 : dst **)

let dst0 =
  { d_off = Z0; d_val = Z0; d_len = Z0 }

(** val dst_eqb : dst -> dst -> bool **)

let dst_eqb a b =
  (&&) ((&&) (Z.eqb a.d_off b.d_off) (Z.eqb a.d_val b.d_val))
    (Z.eqb a.d_len b.d_len)

type item = { it_d : directive; it_tgt : coq_Z option; it_st : dst }

(** val dsize : directive -> dst -> coq_Z **)

let dsize d st =
  match d with
  | DData _ -> Zpos (Coq_xO (Coq_xO Coq_xH))
  | DLabel (_, _) -> Z0
  | DImm (_, v) -> enc_size v
  | DRef (_, _, _) ->
    if Z.ltb Z0 st.d_len then st.d_len else enc_size st.d_val
  | DOpr _ -> Zpos Coq_xH
  | DPadding n -> n

(** val dvalue : directive -> dst -> coq_Z **)

let dvalue d st =
  match d with
  | DData v -> v
  | DImm (_, v) -> v
  | DOpr t0 -> (match opr_opc t0 with
                | Some c -> c
                | None -> Z0)
  | DPadding _ -> Z0
  | _ -> st.d_val

(** val is_label : directive -> bool **)

let is_label = function
| DLabel (_, _) -> true
| _ -> false

(** val is_data : directive -> bool **)

let is_data = function
| DData _ -> true
| _ -> false

(** val labels_then_data : item list -> bool **)

let rec labels_then_data = function
| [] -> false
| it :: r ->
  (match it.it_d with
   | DData _ -> true
   | DLabel (_, _) -> labels_then_data r
   | _ -> false)

(** val label_before_data : item list -> bool **)

let label_before_data l = match l with
| [] -> false
| it :: _ -> (&&) (is_label it.it_d) (labels_then_data l)

(** val align4 : coq_Z -> coq_Z **)

let align4 bo =
  if Z.eqb (Z.modulo bo (Zpos (Coq_xO (Coq_xO Coq_xH)))) Z0
  then bo
  else Z.add bo
         (Z.sub (Zpos (Coq_xO (Coq_xO Coq_xH)))
           (Z.modulo bo (Zpos (Coq_xO (Coq_xO Coq_xH)))))

(** val last_label :
    string -> directive list -> coq_Z -> coq_Z option -> coq_Z option **)

let rec last_label name l idx acc =
  match l with
  | [] -> acc
  | d :: r ->
    (match d with
     | DLabel (_, n) ->
       last_label name r (Z.add idx (Zpos Coq_xH))
         (if eqb n name then Some idx else acc)
     | _ -> last_label name r (Z.add idx (Zpos Coq_xH)) acc)

(** val mk_item : directive list -> directive -> item **)

let mk_item prog d =
  { it_d = d; it_tgt =
    (match d with
     | DRef (_, name, _) -> last_label name prog Z0 None
     | _ -> None); it_st = dst0 }

type pass_result =
| PassOk of item list * t * coq_Z * bool
| PassErr of diag

(** val pass_go :
    item list -> item list -> t -> coq_Z -> bool -> coq_Z -> pass_result **)

let rec pass_go done0 todo lv bo changed idx =
  match todo with
  | [] -> PassOk ((rev_append done0 []), lv, bo, changed)
  | it :: rest ->
    let d = it.it_d in
    let st = it.it_st in
    let bo1 =
      if (||) (is_data d) (label_before_data todo) then align4 bo else bo
    in
    let continue = fun st' lv' ->
      pass_go ({ it_d = d; it_tgt = it.it_tgt; it_st = st' } :: done0) rest
        lv' (Z.add bo1 (dsize d st')) ((||) changed (negb (dst_eqb st st')))
        (Z.add idx (Zpos Coq_xH))
    in
    (match d with
     | DLabel (_, _) ->
       continue { d_off = bo1; d_val = bo1; d_len = st.d_len } (wr lv idx bo1)
     | DRef (_, name, rel) ->
       (match it.it_tgt with
        | Some k ->
          let v = rd lv k in
          if rel
          then let len = instr_len v bo1 in
               continue { d_off = bo1; d_val = (Z.sub (Z.sub v bo1) len);
                 d_len = len } lv
          else if negb (Z.eqb (Z.modulo v (Zpos (Coq_xO (Coq_xO Coq_xH)))) Z0)
               then PassErr (EUnaligned (Z.to_nat idx))
               else continue { d_off = bo1; d_val =
                      (Z.div v (Zpos (Coq_xO (Coq_xO Coq_xH)))); d_len = Z0 }
                      lv
        | None -> PassErr (EUnknownLabel ((Z.to_nat idx), name)))
     | _ -> continue { d_off = bo1; d_val = st.d_val; d_len = st.d_len } lv)

(** val pass : item list -> t -> pass_result **)

let pass items lv =
  pass_go [] items lv Z0 false Z0

(** val resolve_loop :
    nat -> coq_Z -> coq_Z -> item list -> t -> item list outcome **)

let rec resolve_loop fuel passes maxp items lv =
  match fuel with
  | O -> OutOfFuel
  | S f ->
    if Z.ltb maxp passes
    then Reject ENotConverged
    else (match pass items lv with
          | PassOk (items', lv', _, changed) ->
            if changed
            then resolve_loop f (Z.add passes (Zpos Coq_xH)) maxp items' lv'
            else Ok items'
          | PassErr e -> Reject e)

(** val max_passes : coq_Z -> coq_Z **)

let max_passes n =
  Z.add (Z.mul (Zpos (Coq_xO (Coq_xO (Coq_xO Coq_xH)))) n) (Zpos (Coq_xO
    (Coq_xO (Coq_xO Coq_xH))))

(** val resolve : directive list -> item list outcome **)

let resolve prog =
  let n = Z.of_nat (length prog) in
  resolve_loop (Z.to_nat (Z.add (max_passes n) (Zpos (Coq_xI Coq_xH)))) Z0
    (max_passes n) (map (mk_item prog) prog) zero

(** val program_size_go : item list -> coq_Z -> coq_Z **)

let rec program_size_go items acc =
  match items with
  | [] -> acc
  | it :: r ->
    program_size_go r (Z.add it.it_st.d_off (dsize it.it_d it.it_st))

(** val program_size : item list -> coq_Z **)

let program_size items =
  program_size_go items Z0

type layout = { l_items : item list; l_size : coq_Z }

(** val codegen : directive list -> layout outcome **)

let codegen prog =
  match resolve prog with
  | Ok items ->
    let sz = program_size items in
    let pad = Z.modulo (Z.opp sz) (Zpos (Coq_xO (Coq_xO Coq_xH))) in
    Ok { l_items =
    (app items ({ it_d = (DPadding pad); it_tgt = None; it_st = dst0 } :: []));
    l_size = (Z.add sz pad) }
  | Reject d -> Reject d
  | UB w -> UB w
  | OutOfFuel -> OutOfFuel

(** val byte : coq_Z -> coq_Z **)

let byte x =
  Z.modulo x (Zpos (Coq_xO (Coq_xO (Coq_xO (Coq_xO (Coq_xO (Coq_xO (Coq_xO
    (Coq_xO Coq_xH)))))))))

(** val nib : coq_Z -> coq_Z -> coq_Z **)

let nib v i =
  Z.modulo
    (Z.div v (Z.pow (Zpos (Coq_xO (Coq_xO (Coq_xO (Coq_xO Coq_xH))))) i))
    (Zpos (Coq_xO (Coq_xO (Coq_xO (Coq_xO Coq_xH)))))

(** val coq_PFIX : coq_Z **)

let coq_PFIX =
  Zpos (Coq_xO (Coq_xI (Coq_xI Coq_xH)))

(** val coq_NFIX : coq_Z **)

let coq_NFIX =
  Zpos (Coq_xI (Coq_xI (Coq_xI Coq_xH)))

(** val mid_prefixes : coq_Z -> nat -> coq_Z list **)

let rec mid_prefixes v i = match i with
| O -> []
| S j ->
  (Z.add (Z.mul coq_PFIX (Zpos (Coq_xO (Coq_xO (Coq_xO (Coq_xO Coq_xH))))))
    (nib v (Z.of_nat i))) :: (mid_prefixes v j)

(** val emit_instr : coq_Z -> coq_Z -> coq_Z -> coq_Z list **)

let emit_instr opc v size =
  app
    (if Z.ltb (Zpos Coq_xH) size
     then (Z.add
            (Z.mul (if Z.ltb v Z0 then coq_NFIX else coq_PFIX) (Zpos (Coq_xO
              (Coq_xO (Coq_xO (Coq_xO Coq_xH))))))
            (nib v (Z.sub size (Zpos Coq_xH)))) :: []
     else [])
    (app (mid_prefixes v (Z.to_nat (Z.sub size (Zpos (Coq_xO Coq_xH)))))
      ((byte
         (Z.add
           (Z.mul
             (Z.modulo opc (Zpos (Coq_xO (Coq_xO (Coq_xO (Coq_xO Coq_xH))))))
             (Zpos (Coq_xO (Coq_xO (Coq_xO (Coq_xO Coq_xH)))))) (nib v Z0))) :: []))

(** val le32 : coq_Z -> coq_Z list **)

let le32 v =
  let u = Z.modulo v coq_W32 in
  (Z.modulo u (Zpos (Coq_xO (Coq_xO (Coq_xO (Coq_xO (Coq_xO (Coq_xO (Coq_xO
    (Coq_xO Coq_xH)))))))))) :: ((Z.modulo
                                   (Z.div u (Zpos (Coq_xO (Coq_xO (Coq_xO
                                     (Coq_xO (Coq_xO (Coq_xO (Coq_xO (Coq_xO
                                     Coq_xH)))))))))) (Zpos (Coq_xO (Coq_xO
                                   (Coq_xO (Coq_xO (Coq_xO (Coq_xO (Coq_xO
                                   (Coq_xO Coq_xH)))))))))) :: ((Z.modulo
                                                                  (Z.div u
                                                                    (Zpos
                                                                    (Coq_xO
                                                                    (Coq_xO
                                                                    (Coq_xO
                                                                    (Coq_xO
                                                                    (Coq_xO
                                                                    (Coq_xO
                                                                    (Coq_xO
                                                                    (Coq_xO
                                                                    (Coq_xO
                                                                    (Coq_xO
                                                                    (Coq_xO
                                                                    (Coq_xO
                                                                    (Coq_xO
                                                                    (Coq_xO
                                                                    (Coq_xO
                                                                    (Coq_xO
                                                                    Coq_xH))))))))))))))))))
                                                                  (Zpos
                                                                  (Coq_xO
                                                                  (Coq_xO
                                                                  (Coq_xO
                                                                  (Coq_xO
                                                                  (Coq_xO
                                                                  (Coq_xO
                                                                  (Coq_xO
                                                                  (Coq_xO
                                                                  Coq_xH)))))))))) :: (
  (Z.modulo
    (Z.div u (Zpos (Coq_xO (Coq_xO (Coq_xO (Coq_xO (Coq_xO (Coq_xO (Coq_xO
      (Coq_xO (Coq_xO (Coq_xO (Coq_xO (Coq_xO (Coq_xO (Coq_xO (Coq_xO (Coq_xO
      (Coq_xO (Coq_xO (Coq_xO (Coq_xO (Coq_xO (Coq_xO (Coq_xO (Coq_xO
      Coq_xH)))))))))))))))))))))))))) (Zpos (Coq_xO (Coq_xO (Coq_xO (Coq_xO
    (Coq_xO (Coq_xO (Coq_xO (Coq_xO Coq_xH)))))))))) :: [])))

(** val zeros : coq_Z -> coq_Z list **)

let zeros n =
  repeat Z0 (Z.to_nat n)

(** val pad_to4 : coq_Z -> coq_Z **)

let pad_to4 bo =
  if Z.eqb (Z.modulo bo (Zpos (Coq_xO (Coq_xO Coq_xH)))) Z0
  then Z0
  else Z.sub (Zpos (Coq_xO (Coq_xO Coq_xH)))
         (Z.modulo bo (Zpos (Coq_xO (Coq_xO Coq_xH))))

(** val dir_opc : directive -> coq_Z **)

let dir_opc = function
| DImm (t0, _) -> (match token_opc t0 with
                   | Some c -> c
                   | None -> Z0)
| DRef (t0, _, _) -> (match token_opc t0 with
                      | Some c -> c
                      | None -> Z0)
| DOpr _ -> Zpos (Coq_xI (Coq_xO (Coq_xI Coq_xH)))
| _ -> Z0

(** val emit_go : item list -> coq_Z -> coq_Z list * (string * coq_Z) list **)

let rec emit_go l bo =
  match l with
  | [] -> ([], [])
  | it :: rest ->
    let d = it.it_d in
    let st = it.it_st in
    let pre = if label_before_data l then pad_to4 bo else Z0 in
    let bo0 = Z.add bo pre in
    let size = dsize d st in
    (match d with
     | DData v ->
       let p = pad_to4 bo0 in
       let (bs, syms) =
         emit_go rest (Z.add (Z.add bo0 p) (Zpos (Coq_xO (Coq_xO Coq_xH))))
       in
       ((app (zeros p) (app (le32 v) bs)), syms)
     | DLabel (k, name) ->
       (match k with
        | LId ->
          let (bs, syms) = emit_go rest bo0 in ((app (zeros pre) bs), syms)
        | _ ->
          let (bs, syms) = emit_go rest bo0 in
          ((app (zeros pre) bs), ((name, bo0) :: syms)))
     | DPadding n ->
       let (bs, syms) = emit_go rest bo0 in ((app (zeros n) bs), syms)
     | _ ->
       if Z.ltb Z0 size
       then let (bs, syms) = emit_go rest (Z.add bo0 size) in
            ((app (emit_instr (dir_opc d) (dvalue d st) size) bs), syms)
       else emit_go rest bo0)

(** val bytes_of_string : string -> coq_Z list **)

let rec bytes_of_string = function
| EmptyString -> []
| String (c, r) -> (Z.of_nat (nat_of_ascii c)) :: (bytes_of_string r)

(** val sym_entries : (string * coq_Z) list -> coq_Z -> coq_Z list **)

let rec sym_entries syms i =
  match syms with
  | [] -> []
  | p :: r ->
    let (_, off) = p in
    app (le32 i) (app (le32 off) (sym_entries r (Z.add i (Zpos Coq_xH))))

(** val emit_bin :
    layout -> (coq_Z list * coq_Z list) * (string * coq_Z) list **)

let emit_bin l =
  let (img, syms) = emit_go l.l_items Z0 in
  let n = Z.of_nat (length syms) in
  let strs = flat_map (fun p -> app (bytes_of_string (fst p)) (Z0 :: [])) syms
  in
  (((app (le32 (Z.div l.l_size (Zpos (Coq_xO (Coq_xO Coq_xH)))))
      (app img (app (le32 n) (app strs (app (le32 n) (sym_entries syms Z0)))))),
  img), syms)

(** val dec_go : nat -> coq_Z -> string -> string **)

let rec dec_go fuel n acc =
  match fuel with
  | O -> acc
  | S f ->
    let acc' = String
      ((ascii_of_nat
         (Z.to_nat
           (Z.add (Zpos (Coq_xO (Coq_xO (Coq_xO (Coq_xO (Coq_xI Coq_xH))))))
             (Z.modulo n (Zpos (Coq_xO (Coq_xI (Coq_xO Coq_xH)))))))), acc)
    in
    if Z.ltb n (Zpos (Coq_xO (Coq_xI (Coq_xO Coq_xH))))
    then acc'
    else dec_go f (Z.div n (Zpos (Coq_xO (Coq_xI (Coq_xO Coq_xH))))) acc'

(** val dec : coq_Z -> string **)

let dec n =
  if Z.ltb n Z0
  then String ((Ascii (true, false, true, true, false, true, false, false)),
         (dec_go (S (S (S (S (S (S (S (S (S (S (S (S (S (S (S (S (S (S (S (S
           (S (S (S (S (S O))))))))))))))))))))))))) (Z.opp n) EmptyString))
  else dec_go (S (S (S (S (S (S (S (S (S (S (S (S (S (S (S (S (S (S (S (S (S
         (S (S (S (S O))))))))))))))))))))))))) n EmptyString

(** val dir_text : directive -> dst -> bool -> string **)

let dir_text d st assembled =
  match d with
  | DData v ->
    append (String ((Ascii (false, false, true, false, false, false, true,
      false)), (String ((Ascii (true, false, false, false, false, false,
      true, false)), (String ((Ascii (false, false, true, false, true, false,
      true, false)), (String ((Ascii (true, false, false, false, false,
      false, true, false)), (String ((Ascii (false, false, false, false,
      false, true, false, false)), EmptyString)))))))))) (dec v)
  | DLabel (k, n) ->
    (match k with
     | LId -> n
     | LFunc ->
       append (String ((Ascii (false, true, true, false, false, false, true,
         false)), (String ((Ascii (true, false, true, false, true, false,
         true, false)), (String ((Ascii (false, true, true, true, false,
         false, true, false)), (String ((Ascii (true, true, false, false,
         false, false, true, false)), (String ((Ascii (false, false, false,
         false, false, true, false, false)), EmptyString)))))))))) n
     | LProc ->
       append (String ((Ascii (false, false, false, false, true, false, true,
         false)), (String ((Ascii (false, true, false, false, true, false,
         true, false)), (String ((Ascii (true, true, true, true, false,
         false, true, false)), (String ((Ascii (true, true, false, false,
         false, false, true, false)), (String ((Ascii (false, false, false,
         false, false, true, false, false)), EmptyString)))))))))) n)
  | DImm (t0, v) ->
    append (token_str t0)
      (append (String ((Ascii (false, false, false, false, false, true,
        false, false)), EmptyString)) (dec v))
  | DRef (t0, n, _) ->
    append (token_str t0)
      (append (String ((Ascii (false, false, false, false, false, true,
        false, false)), EmptyString))
        (append n
          (if assembled
           then append (String ((Ascii (false, false, false, false, false,
                  true, false, false)), (String ((Ascii (false, false, false,
                  true, false, true, false, false)), EmptyString))))
                  (append (dec st.d_val) (String ((Ascii (true, false, false,
                    true, false, true, false, false)), EmptyString)))
           else EmptyString)))
  | DOpr t0 ->
    append (String ((Ascii (true, true, true, true, false, false, true,
      false)), (String ((Ascii (false, false, false, false, true, false,
      true, false)), (String ((Ascii (false, true, false, false, true, false,
      true, false)), (String ((Ascii (false, false, false, false, false,
      true, false, false)), EmptyString)))))))) (token_str t0)
  | DPadding n ->
    append (String ((Ascii (false, false, false, false, true, false, true,
      false)), (String ((Ascii (true, false, false, false, false, false,
      true, false)), (String ((Ascii (false, false, true, false, false,
      false, true, false)), (String ((Ascii (false, false, true, false,
      false, false, true, false)), (String ((Ascii (true, false, false, true,
      false, false, true, false)), (String ((Ascii (false, true, true, true,
      false, false, true, false)), (String ((Ascii (true, true, true, false,
      false, false, true, false)), (String ((Ascii (false, false, false,
      false, false, true, false, false)), EmptyString)))))))))))))))) 
      (dec n)

(** val listing : layout -> ((coq_Z * string) * coq_Z) list **)

let listing l =
  map (fun it ->
    let d = it.it_d in
    let st = it.it_st in
    ((st.d_off,
    (dir_text d st (negb (match d with
                          | DPadding _ -> true
                          | _ -> false)))), (dsize d st))) l.l_items

(** val listing_total : layout -> coq_Z **)

let listing_total l =
  fold_left (fun a it -> Z.add a (dsize it.it_d it.it_st)) l.l_items Z0

type asm_out = { ao_file : coq_Z list; ao_image : coq_Z list;
                 ao_syms : (string * coq_Z) list;
                 ao_listing : ((coq_Z * string) * coq_Z) list;
                 ao_total : coq_Z; ao_layout : layout;
                 ao_locs : (coq_Z * coq_Z) list }

(** val assemble_directives :
    directive list -> (coq_Z * coq_Z) list -> asm_out outcome **)

let assemble_directives prog locs =
  match codegen prog with
  | Ok l ->
    let (p, syms) = emit_bin l in
    let (file, img) = p in
    Ok { ao_file = file; ao_image = img; ao_syms = syms; ao_listing =
    (listing l); ao_total = (listing_total l); ao_layout = l; ao_locs = locs }
  | Reject d -> Reject d
  | UB w -> UB w
  | OutOfFuel -> OutOfFuel

(** val assemble : coq_Z list -> asm_out outcome **)

let assemble src =
  match parse (lex src) with
  | Ok ldirs -> assemble_directives (map snd ldirs) (map fst ldirs)
  | Reject d -> Reject d
  | UB w -> UB w
  | OutOfFuel -> OutOfFuel

(** val diag_location :
    diag -> (coq_Z * coq_Z) list -> (coq_Z * coq_Z) option **)

let diag_location d locs =
  match d with
  | EUnexpected (l, c, _) -> Some (l, c)
  | EUnrecognised (l, c, _) -> Some (l, c)
  | EInvalidOpr (l, c, _) -> Some (l, c)
  | EUnknownLabel (i, _) -> nth_error locs i
  | EUnaligned i -> nth_error locs i
  | ENotConverged -> None
