(* SimModel.v -- hand-written model of hexsim.hpp (class Processor) and hexsimio.hpp.
   Mirrors run()'s loop body and syscall() line by line.  uint32_t values are Z in [0,2^32) with
   explicit reduction; an out-of-range std::array index is the outcome SUB (undefined behaviour).
   No proofs here (see SimProofs.v). Tied to the C++ by tools/c02 (correspondence through the HEX_VERIF hook). *)
From Coq Require Import ZArith List String Bool.
From HexVerif Require Import WMap Isa.
Import ListNotations.
Local Open Scope Z_scope.

Record sim := {
  s_pc : Z; s_areg : Z; s_breg : Z; s_oreg : Z;       (* uint32_t pc, areg, breg, oreg *)
  s_mem : WMap.t;                                      (* std::array<uint32_t, 200000> memory *)
  s_running : bool;                                    (* bool running *)
  s_exit : Z;                                          (* int exitCode *)
  s_cycles : Z                                         (* size_t cycles *)
}.

Inductive sim_result (A : Type) :=
| SOk (a : A)
| SThrow (msg : string)          (* std::runtime_error thrown out of run() *)
| SUB (what : string).           (* C++ undefined behaviour: out-of-range array index *)
Arguments SOk {A}. Arguments SThrow {A}. Arguments SUB {A}.

Definition u32 (x : Z) : Z := x mod 4294967296.
Definition to_int (x : Z) : Z := if 2147483648 <=? x then x - 4294967296 else x.   (* uint32_t -> int (gcc: modular) *)
Definition MEMORY_SIZE_WORDS : Z := 200000.

(* memory[i] with i an unsigned index *)
Definition idx_ok (i : Z) : bool := (0 <=? i) && (i <? MEMORY_SIZE_WORDS).

(* instr = (memory[pc >> 2] >> ((pc & 0x3) << 3)) & 0xFF *)
Definition sim_fetch (s : sim) : Z :=
  Z.land (Z.shiftr (rd (s_mem s) (Z.shiftr (s_pc s) 2)) (Z.shiftl (Z.land (s_pc s) 3) 3)) 255.

(* HexSimIO::input / output seen as the ISA's event alphabet.  `stream` arrives as int. *)
Definition io_is_console (stream_word : Z) : bool := to_int stream_word <? 256.          (* if (stream < 256) *)
Definition io_index (stream_word : Z) : Z := Z.land (Z.shiftr (to_int stream_word) 8) 7.   (* (stream >> 8) & 7 *)
Definition io_input (inp : inputs) (stream_word : Z) : Z * inputs :=
  if io_is_console stream_word then
    let '(b, r) := next_byte (console inp) in (b, {| console := r; files := files inp |})
  else
    let f := io_index stream_word in
    let '(b, r) := next_byte (files inp f) in
    (b, {| console := console inp; files := fun g => if g =? f then r else files inp g |}).

Definition with_regs (s : sim) (pc a b o : Z) : sim :=
  {| s_pc := pc; s_areg := a; s_breg := b; s_oreg := o; s_mem := s_mem s;
     s_running := s_running s; s_exit := s_exit s; s_cycles := s_cycles s + 1 |}.
Definition with_mem (s : sim) (m : WMap.t) : sim :=
  {| s_pc := s_pc s; s_areg := s_areg s; s_breg := s_breg s; s_oreg := s_oreg s; s_mem := m;
     s_running := s_running s; s_exit := s_exit s; s_cycles := s_cycles s |}.
Definition stopped (s : sim) (code : Z) : sim :=
  {| s_pc := s_pc s; s_areg := s_areg s; s_breg := s_breg s; s_oreg := s_oreg s; s_mem := s_mem s;
     s_running := false; s_exit := code; s_cycles := s_cycles s |}.

(* One iteration of the while loop in Processor::run(), tracing off. *)
Definition step (s : sim) (inp : inputs) : sim_result (sim * inputs * event) :=
  if negb (idx_ok (Z.shiftr (s_pc s) 2)) then SUB "memory[pc >> 2]" else
  let instr := sim_fetch s in
  let pc := u32 (s_pc s + 1) in                                 (* pc = pc + 1 *)
  let oreg := Z.lor (s_oreg s) (Z.land instr 15) in             (* oreg = oreg | (instr & 0xF) *)
  let opc := Z.land (Z.shiftr instr 4) 15 in                    (* (instr >> 4) & 0xF *)
  let areg := s_areg s in let breg := s_breg s in
  let ok s' := SOk (s', inp, Tau) in
  let ld i k := if idx_ok i then k (rd (s_mem s) i) else SUB "memory[] read" in
  let st i v k := if idx_ok i then k (wr (s_mem s) i v) else SUB "memory[] write" in
  match opc with
  | 0 => ld oreg (fun v => ok (with_regs s pc v breg 0))
  | 1 => ld oreg (fun v => ok (with_regs s pc areg v 0))
  | 2 => st oreg areg (fun m => ok (with_mem (with_regs s pc areg breg 0) m))
  | 3 => ok (with_regs s pc oreg breg 0)
  | 4 => ok (with_regs s pc areg oreg 0)
  | 5 => ok (with_regs s pc (u32 (pc + oreg)) breg 0)
  | 6 => ld (u32 (areg + oreg)) (fun v => ok (with_regs s pc v breg 0))
  | 7 => ld (u32 (breg + oreg)) (fun v => ok (with_regs s pc areg v 0))
  | 8 => st (u32 (breg + oreg)) areg (fun m => ok (with_mem (with_regs s pc areg breg 0) m))
  | 9 => ok (with_regs s (u32 (pc + oreg)) areg breg 0)
  | 10 => ok (with_regs s (if areg =? 0 then u32 (pc + oreg) else pc) areg breg 0)
  | 11 => ok (with_regs s (if to_int areg <? 0 then u32 (pc + oreg) else pc) areg breg 0)
  | 14 => ok (with_regs s pc areg breg (u32 (Z.shiftl oreg 4)))
  | 15 => ok (with_regs s pc areg breg (Z.lor 4294967040 (u32 (Z.shiftl oreg 4))))
  | 13 =>
      match oreg with
      | 0 => ok (with_regs s breg areg breg 0)
      | 1 => ok (with_regs s pc (u32 (areg + breg)) breg 0)
      | 2 => ok (with_regs s pc (u32 (areg - breg)) breg 0)
      | 3 =>
          (* syscall(): unsigned spWordIndex = memory[1]; switch (areg) *)
          ld 1 (fun sp =>
          let s1 := with_regs s pc areg breg 0 in
          match areg with
          | 0 => ld (u32 (sp + 2)) (fun c => SOk (stopped s1 (to_int c), inp, Exit c))
          | 1 => ld (u32 (sp + 2)) (fun v => ld (u32 (sp + 3)) (fun stream =>
                   SOk (s1, inp, Write (Z.land v 255) stream)))      (* char value = memory[sp+2] *)
          | 2 => ld (u32 (sp + 2)) (fun stream =>
                   let '(b, inp') := io_input inp stream in
                   st (u32 (sp + 1)) (Z.land b 255) (fun m =>         (* value & 0xFF; EOF -> 255 *)
                   SOk (with_mem s1 m, inp', Read stream (Z.land b 255))))
          | _ => SThrow "invalid syscall"
          end)
      | _ => SThrow "invalid OPR"
      end
  | _ => SThrow "invalid instruction"
  end.

(* Processor::run(): while (running && (maxCycles > 0 ? cycles <= maxCycles : true)) *)
Definition guard (max_cycles : Z) (s : sim) : bool :=
  s_running s && (if 0 <? max_cycles then s_cycles s <=? max_cycles else true).

Inductive run_end := Returned (exit_code : Z) | Threw (msg : string) | Ub (what : string) | NoFuel.
Fixpoint run (n : nat) (max_cycles : Z) (s : sim) (inp : inputs) (evs : list event)
  : list event * inputs * sim * run_end :=
  if negb (guard max_cycles s) then (rev evs, inp, s, Returned (s_exit s)) else
  match n with
  | O => (rev evs, inp, s, NoFuel)
  | S k => match step s inp with
           | SThrow m => (rev evs, inp, s, Threw m)
           | SUB w => (rev evs, inp, s, Ub w)
           | SOk (s', inp', Tau) => run k max_cycles s' inp' evs
           | SOk (s', inp', e) => run k max_cycles s' inp' (e :: evs)
           end
  end.

(* The constructor + load(): registers clear, image words at 0.  `background` is what the
   un-initialised std::array held before (the C++ has no initialiser for `memory` on the pinned tree;
   after fix it is zero) and exit0 the initial exitCode. *)
Definition init (background : Z -> Z) (exit0 : Z) (ws : list Z) : sim :=
  {| s_pc := 0; s_areg := 0; s_breg := 0; s_oreg := 0; s_mem := load_words (WMap.empty background) 0 ws;
     s_running := true; s_exit := exit0; s_cycles := 0 |}.

Definition arch_of (s : sim) : arch :=
  {| pc := s_pc s; areg := s_areg s; breg := s_breg s; oreg := s_oreg s; mem := s_mem s |}.

(* ------------------------------------------------------------------ tracing (-t) *)
(* trace(instr, instrEnum) runs after `pc = pc + 1; oreg = oreg | (instr & 0xF)` and before the instruction executes;
   it prints, and for the load forms it reads memory[...] at the address the instruction is about to read. *)
Definition trace_addrs (s : sim) : list Z :=
  let instr := sim_fetch s in
  let oreg := Z.lor (s_oreg s) (Z.land instr 15) in
  match Z.land (Z.shiftr instr 4) 15 with
  | 0 | 1 => [oreg]                                   (* memory[oreg] *)
  | 6 => [u32 (s_areg s + oreg)]                      (* memory[areg+oreg] *)
  | 7 => [u32 (s_breg s + oreg)]                      (* memory[breg+oreg] *)
  | _ => []
  end.
(* traceSyscall() runs after syscall(): unsigned spWordIndex = memory[1]; then per call the argument words *)
Definition is_svc (s : sim) : bool :=
  let instr := sim_fetch s in
  (Z.land (Z.shiftr instr 4) 15 =? 13) && (Z.lor (s_oreg s) (Z.land instr 15) =? 3).
Definition trace_syscall_addrs (s s' : sim) : list Z :=
  let sp := rd (s_mem s') 1 in
  match s_areg s with
  | 0 => [1; u32 (sp + 2)]
  | 1 => [1; u32 (sp + 2); u32 (sp + 3)]
  | 2 => [1; u32 (sp + 1)]
  | _ => []
  end.
(* one loop iteration with tracing on: the extra reads are undefined behaviour if out of range; nothing else changes *)
Definition step_traced (s : sim) (inp : inputs) : sim_result (sim * inputs * event) :=
  if negb (idx_ok (Z.shiftr (s_pc s) 2)) then SUB "memory[pc >> 2]" else
  if negb (forallb idx_ok (trace_addrs s)) then SUB "trace: memory[] read" else
  match step s inp with
  | SOk (s', inp', ev) =>
      if is_svc s && negb (forallb idx_ok (trace_syscall_addrs s s')) then SUB "traceSyscall: memory[] read"
      else SOk (s', inp', ev)
  | r => r
  end.

(* the repaired constructor + load(): memory{} and exitCode(0) *)
Definition cpp_init (ws : list Z) : sim := init (fun _ => 0) 0 ws.

(* Processor::run() with tracing on *)
Fixpoint run_traced (n : nat) (max_cycles : Z) (s : sim) (inp : inputs) (evs : list event)
  : list event * inputs * sim * run_end :=
  if negb (guard max_cycles s) then (rev evs, inp, s, Returned (s_exit s)) else
  match n with
  | O => (rev evs, inp, s, NoFuel)
  | S k => match step_traced s inp with
           | SThrow m => (rev evs, inp, s, Threw m)
           | SUB w => (rev evs, inp, s, Ub w)
           | SOk (s', inp', Tau) => run_traced k max_cycles s' inp' evs
           | SOk (s', inp', e) => run_traced k max_cycles s' inp' (e :: evs)
           end
  end.

(* ------------------------------------------------------------------ debug symbols and the trace prefix (C15) *)
(* debugInfo: (name, byte offset) in file order; debugInfoMap: name -> offset (a later duplicate overwrites) *)
Definition symtab := list (string * Z).

(* lookupSymbol(): linear scan assuming ascending offsets *)
Fixpoint lookup_scan (tab : symtab) (pc : Z) : option string :=
  match tab with
  | [] => None
  | (n, o) :: r =>
      match r with
      | [] => if o <=? pc then Some n else None                      (* i == size-1 && lastPC >= second *)
      | (_, o2) :: _ => if (o <=? pc) && (pc <? o2) then Some n else lookup_scan r pc
      end
  end.
Definition lookup_symbol (tab : symtab) (pc : Z) : option string :=
  match tab with
  | [] => None
  | (_, o0) :: _ => if pc <? o0 then None else lookup_scan tab pc
  end.
Fixpoint map_offset (tab : symtab) (name : string) (acc : Z) : Z :=
  match tab with
  | [] => acc
  | (n, o) :: r => map_offset r name (if String.eqb n name then o else acc)
  end.
(* the "symbol+offset" column *)
Definition trace_symbol (tab : symtab) (pc : Z) : option (string * Z) :=
  match lookup_symbol tab pc with
  | Some n => Some (n, pc - map_offset tab n 0)
  | None => None
  end.
(* the five leading columns of a trace line, printed before the instruction executes:
   cycles, lastPC, symbol+offset, mnemonic (as opcode number), instr & 0xF *)
Definition trace_prefix (tab : symtab) (s : sim) : Z * Z * option (string * Z) * Z * Z :=
  let instr := sim_fetch s in
  (s_cycles s, s_pc s, trace_symbol tab (s_pc s), Z.land (Z.shiftr instr 4) 15, Z.land instr 15).
