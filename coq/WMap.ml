open BinInt
open BinNums
open FMapPositive

type t = { cells : coq_Z PositiveMap.t; bg : (coq_Z -> coq_Z) }

(** val key : coq_Z -> positive **)

let key a =
  Z.to_pos (Z.add a (Zpos Coq_xH))

(** val rd : t -> coq_Z -> coq_Z **)

let rd m a =
  match PositiveMap.find (key a) m.cells with
  | Some v -> v
  | None -> m.bg a

(** val wr : t -> coq_Z -> coq_Z -> t **)

let wr m a v =
  { cells = (PositiveMap.add (key a) v m.cells); bg = m.bg }

(** val empty : (coq_Z -> coq_Z) -> t **)

let empty f =
  { cells = PositiveMap.empty; bg = f }

(** val zero : t **)

let zero =
  empty (fun _ -> Z0)

(** val load_words : t -> coq_Z -> coq_Z list -> t **)

let rec load_words m a = function
| [] -> m
| w :: r -> load_words (wr m a w) (Z.add a (Zpos Coq_xH)) r
