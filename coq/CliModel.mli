open Ascii
open BinInt
open BinNums
open Datatypes
open List
open String

type bytes = coq_Z list

type fs = string -> bytes option

val fs_set : fs -> string -> bytes -> fs

type result = { status : coq_Z; diagnostic : bool; files : fs; out : bytes }

val starts_with_dash : string -> bool

type mode =
| MBinary
| MTokens
| MListing

type args = { a_mode : mode; a_file : string option; a_out : string option;
              a_trace : bool; a_tokens : bool; a_instrs : bool }

type parsed =
| PArgs of args
| PHelp
| PError

val set_file : args -> string -> args

val set_out : args -> string option -> args

val set_mode : args -> mode -> args

val set_flags : args -> bool -> bool -> args

val is_any : string -> string list -> bool

val hexasm_args : string list -> args -> parsed

val args0 : string -> args

val ok : fs -> result

val fail : fs -> result

val helped : fs -> result

val hexasm_main : (bytes -> bytes option) -> string list -> fs -> result

val xcmp_args : string list -> args -> parsed

val xcmp_main : (bytes -> bytes option) -> string list -> fs -> result

type sim_parsed =
| SArgs of string option * bool * bool
| SHelp
| SError

val hexsim_args : string list -> string option -> bool -> bool -> sim_parsed

val host_status : coq_Z -> coq_Z

val hexsim_main :
  (bytes -> bytes -> (coq_Z * bytes) option) -> string list -> bytes -> fs ->
  result

type run_parsed =
| RArgs of string option * bool
| RHelp
| RError

val xrun_args : string list -> string option -> bool -> run_parsed

val xrun_main :
  (bytes -> bytes option) -> (bytes -> bytes -> (coq_Z * bytes) option) ->
  string list -> bytes -> fs -> result
