open Datatypes

module Nat =
 struct
  (** val leb : nat -> nat -> bool **)

  let rec leb n m =
    match n with
    | O -> true
    | S n' -> (match m with
               | O -> false
               | S m' -> leb n' m')
 end
