(* XSem.v -- THE SPEC of the X language (docs/PDFs/xhexnotes.pdf, "The X Language") as a total, fuelled
   big-step interpreter over XAst.  No proofs, nothing that models the compiler.

   Values are 32-bit signed integers; a variable or array element that was never assigned is `Vundef`
   and reading it is undefined.  Global variables, global arrays, one frame per call (value and array
   formals, local var/val), recursion, `and`/`or` with the definition's short-circuit results, relational
   operators by the mathematical order, string literals as packed read-only arrays (length byte first,
   four bytes per word, little endian), system calls 0/1/2 = exit/put/get written `n(args)` with a
   literal or val-named number, `stop` = exit 0, return from main = exit 0, `return e` leaves a procedure.

   The outcome is `Behaviour (outputs, consumed, exit)` or `Undef reason`.  "Well-defined program x
   input" (properties C01, C07, C08, C15) means `run p inp = Behaviour _`.

   Evaluation order.  X leaves open the order in which the two operands of a (non-logical) binary
   operator, the actuals of a call, and the subscript/right-hand side of `a[i] := e` are evaluated.  The
   interpreter evaluates them left to right, records for each operand the set of global variables/arrays
   it read and wrote and whether it performed input/output (its footprint), and answers
   `Undef OrderDependent` whenever two sibling operands have conflicting footprints (one writes what the
   other reads or writes, or both do I/O), or when an operand terminates the program while a sibling
   did I/O or is not a literal.  By Bernstein's conditions every order then gives the same state, values
   and output, so a `Behaviour` answer does not depend on the order chosen.  (Conservative: some programs
   whose orders happen to agree are classified Undef; they are then simply outside the quantifier.)

   Typing.  The definition requires the operands of and/or/not and the condition of if/while to be
   `true` (1) or `false` (0), the operands of arithmetic and relational operators to be integers, and a
   subscripted name to be an array; anything else is `Undef (Unsupported _)`.  Likewise: procedure/function
   formals, a `val` whose expression is not constant, assignment to a non-variable, a function called as
   a statement or a procedure called in an expression (`WrongKindOfCall`), a system call with fewer
   actuals than exit/put/get read (`MissingActual`), a function path that ends without `return`
   (`NoReturn`), duplicate names in one scope, input from a file stream, `put` used for its value. *)
From Coq Require Import ZArith String List Bool FMapPositive.
From HexVerif Require Import XAst.
Import ListNotations.
Local Open Scope string_scope.
Local Open Scope Z_scope.

Inductive undef :=
| UnassignedRead (x : string) | SubscriptRange (a : string) (i : Z)
| ArithOverflow | CmpDiffOverflow | OrderDependent | NoReturn | WrongKindOfCall (f : string)
| MissingActual | Unsupported (what : string) | DepthExceeded | FuelExhausted.
Record behaviour := { outputs : list (Z * Z) (* (stream, byte) in order *);
                      consumed : nat (* bytes of console input *); exit_value : Z }.
Inductive outcome := Behaviour (b : behaviour) | Undef (u : undef).

(* ---------------------------------------------------------------- integers *)
Definition min_int : Z := -2147483648.
Definition max_int : Z := 2147483647.
Definition in_int (z : Z) : bool := (min_int <=? z) && (z <=? max_int).
Definition signed32 (n : Z) : Z :=
  let m := n mod 4294967296 in if 2147483648 <=? m then m - 4294967296 else m.
Definition of_bool (b : bool) : Z := if b then 1 else 0.

(* the ten binary operators on integers (and/or are handled by the evaluator: short circuit) *)
Definition binop_ans (o : binop) (a b : Z) : undef + Z :=
  let rel (r : bool) := if in_int (a - b) && in_int (b - a) then inr (of_bool r) else inl CmpDiffOverflow in
  match o with
  | Plus => if in_int (a + b) then inr (a + b) else inl ArithOverflow
  | Minus => if in_int (a - b) then inr (a - b) else inl ArithOverflow
  | Eq => inr (of_bool (a =? b))
  | Ne => inr (of_bool (negb (a =? b)))
  | Ls => rel (a <? b)
  | Le => rel (a <=? b)
  | Gr => rel (b <? a)
  | Ge => rel (b <=? a)
  | And | Or => inl (Unsupported "internal: logical operator")
  end.

(* ---------------------------------------------------------------- values, state *)
Inductive value := Vundef | Vint (n : Z) | Varr (a : string) (* a global array *) | Vstr (ws : list Z) (* a string literal *).

Record arr := { alen : Z; acells : PositiveMap.t value }.
Record eff := { e_rd : list string; e_wr : list string; e_io : bool }.
Definition eff0 : eff := {| e_rd := []; e_wr := []; e_io := false |}.

Record frame := { f_vars : list (string * value)   (* formals and local variables *);
                  f_vals : list (string * Z)       (* local constants *);
                  f_depth : nat }.

Record state := { gvars : list (string * value); garrs : list (string * arr);
                  out_rev : list (Z * Z); input : list Z; ncons : nat;
                  budget : Z; cur : eff; stk : list frame }.

Record genv := { g_vals : list (string * Z); g_procs : list proc; g_maxdepth : nat }.

Fixpoint assoc {A : Type} (x : string) (l : list (string * A)) : option A :=
  match l with [] => None | (y, v) :: r => if String.eqb x y then Some v else assoc x r end.
Fixpoint update {A : Type} (x : string) (v : A) (l : list (string * A)) : list (string * A) :=
  match l with [] => [] | (y, w) :: r => if String.eqb x y then (y, v) :: r else (y, w) :: update x v r end.
Fixpoint mem_str (x : string) (l : list string) : bool :=
  match l with [] => false | y :: r => String.eqb x y || mem_str x r end.
Definition add_str (x : string) (l : list string) : list string := if mem_str x l then l else x :: l.
Fixpoint union_str (a b : list string) : list string :=
  match a with [] => b | x :: r => add_str x (union_str r b) end.
Fixpoint inter_str (a b : list string) : bool :=
  match a with [] => false | x :: r => mem_str x b || inter_str r b end.
Fixpoint has_dup (l : list string) : bool :=
  match l with [] => false | x :: r => mem_str x r || has_dup r end.

Definition eff_union (a b : eff) : eff :=
  {| e_rd := union_str (e_rd a) (e_rd b); e_wr := union_str (e_wr a) (e_wr b); e_io := e_io a || e_io b |}.
(* Bernstein: two sibling operands commute unless one writes what the other touches or both do I/O *)
Definition conflict (a b : eff) : bool :=
  inter_str (e_wr a) (e_rd b) || inter_str (e_wr a) (e_wr b) || inter_str (e_wr b) (e_rd a) || (e_io a && e_io b).
Fixpoint conflict_any (a : eff) (l : list eff) : bool :=
  match l with [] => false | b :: r => conflict a b || conflict_any a r end.
Fixpoint conflicts (l : list eff) : bool :=
  match l with [] => false | a :: r => conflict_any a r || conflicts r end.

Definition set_gvars (s : state) (g : list (string * value)) : state :=
  {| gvars := g; garrs := garrs s; out_rev := out_rev s; input := input s; ncons := ncons s; budget := budget s; cur := cur s; stk := stk s |}.
Definition set_garrs (s : state) (g : list (string * arr)) : state :=
  {| gvars := gvars s; garrs := g; out_rev := out_rev s; input := input s; ncons := ncons s; budget := budget s; cur := cur s; stk := stk s |}.
Definition set_cur (s : state) (c : eff) : state :=
  {| gvars := gvars s; garrs := garrs s; out_rev := out_rev s; input := input s; ncons := ncons s; budget := budget s; cur := c; stk := stk s |}.
Definition set_stk (s : state) (k : list frame) : state :=
  {| gvars := gvars s; garrs := garrs s; out_rev := out_rev s; input := input s; ncons := ncons s; budget := budget s; cur := cur s; stk := k |}.
Definition set_budget (s : state) (b : Z) : state :=
  {| gvars := gvars s; garrs := garrs s; out_rev := out_rev s; input := input s; ncons := ncons s; budget := b; cur := cur s; stk := stk s |}.
Definition note_rd (x : string) (s : state) : state :=
  set_cur s {| e_rd := add_str x (e_rd (cur s)); e_wr := e_wr (cur s); e_io := e_io (cur s) |}.
Definition note_wr (x : string) (s : state) : state :=
  set_cur s {| e_rd := e_rd (cur s); e_wr := add_str x (e_wr (cur s)); e_io := e_io (cur s) |}.
Definition note_io (s : state) : state :=
  set_cur s {| e_rd := e_rd (cur s); e_wr := e_wr (cur s); e_io := true |}.
Definition emit (stream byte : Z) (s : state) : state :=
  note_io {| gvars := gvars s; garrs := garrs s; out_rev := (stream, byte) :: out_rev s; input := input s; ncons := ncons s; budget := budget s; cur := cur s; stk := stk s |}.
Definition consume (rest : list Z) (s : state) : state :=
  note_io {| gvars := gvars s; garrs := garrs s; out_rev := out_rev s; input := rest; ncons := S (ncons s); budget := budget s; cur := cur s; stk := stk s |}.

(* ---------------------------------------------------------------- results *)
Inductive res (A : Type) := Ret (a : A) (s : state) | Halt (code : Z) (s : state) | Fail (u : undef).
Arguments Ret {A}. Arguments Halt {A}. Arguments Fail {A}.

Definition rcase {A B : Type} (r : res A) (kr : A -> state -> res B) (kh : Z -> state -> res B) : res B :=
  match r with Ret a s => kr a s | Halt c s => kh c s | Fail u => Fail u end.
Definition bind {A B : Type} (r : res A) (k : A -> state -> res B) : res B :=
  rcase r k (fun c s => Halt c s).

(* run m with an empty footprint; return its footprint and fold it into the enclosing one *)
Definition with_eff {A : Type} (m : state -> res A) (s : state) : res (A * eff) :=
  rcase (m (set_cur s eff0))
        (fun a s' => Ret (a, cur s') (set_cur s' (eff_union (cur s) (cur s'))))
        (fun c s' => Halt c s').

Definition tick {B : Type} (s : state) (k : state -> res B) : res B :=
  if budget s <=? 0 then Fail FuelExhausted else k (set_budget s (budget s - 1)).

Definition int_of {B : Type} (v : value) (k : Z -> res B) : res B :=
  match v with
  | Vint n => k n
  | Vundef => Fail (Unsupported "use of a value-less result")
  | _ => Fail (Unsupported "array used as an integer")
  end.
Definition bool_of {B : Type} (v : value) (k : bool -> res B) : res B :=
  int_of v (fun n => if n =? 0 then k false else if n =? 1 then k true
                     else Fail (Unsupported "truth value is neither true nor false")).

(* ---------------------------------------------------------------- constants, strings *)
Fixpoint eval_const (lk : string -> option Z) (e : expr) : undef + Z :=
  match e with
  | ENum n => inr (signed32 n)
  | EBool b => inr (of_bool b)
  | EVar x => match lk x with Some z => inr z | None => inl (Unsupported "expression is not constant") end
  | EUn Neg a => match eval_const lk a with
                 | inr z => if in_int (0 - z) then inr (0 - z) else inl ArithOverflow
                 | inl u => inl u end
  | EUn Not a => match eval_const lk a with
                 | inr z => if z =? 0 then inr 1 else if z =? 1 then inr 0
                            else inl (Unsupported "truth value is neither true nor false")
                 | inl u => inl u end
  | EBin o l r =>
      match eval_const lk l, eval_const lk r with
      | inr a, inr b =>
          match o with
          | And | Or =>
              if ((a =? 0) || (a =? 1)) && ((b =? 0) || (b =? 1))
              then inr (match o with And => if a =? 0 then 0 else b | _ => if a =? 0 then b else 1 end)
              else inl (Unsupported "truth value is neither true nor false")
          | _ => binop_ans o a b
          end
      | inl u, _ => inl u
      | _, inl u => inl u
      end
  | _ => inl (Unsupported "expression is not constant")
  end.

Fixpoint words_of (bs : list Z) : list Z :=
  match bs with
  | b0 :: b1 :: b2 :: b3 :: r => (b0 + 256 * b1 + 65536 * b2 + 16777216 * b3) :: words_of r
  | [] => []
  | [b0] => [b0]
  | [b0; b1] => [b0 + 256 * b1]
  | [b0; b1; b2] => [b0 + 256 * b1 + 65536 * b2]
  end.
(* the characters of X are ASCII (xhexnotes "Character set"); other bytes in a literal are unsupported *)
Definition is_byte (b : Z) : bool := (0 <=? b) && (b <? 128).
(* "length byte first": byte 0 of the packed string is its length *)
Definition pack_string (bs : list Z) : option (list Z) :=
  if forallb is_byte bs && (Z.of_nat (List.length bs) <? 256)
  then Some (words_of (Z.of_nat (List.length bs) :: bs)) else None.

(* ---------------------------------------------------------------- names *)
Definition top (s : state) : frame :=
  match stk s with fr :: _ => fr | [] => {| f_vars := []; f_vals := []; f_depth := 0 |} end.

Definition read_var (ge : genv) (x : string) (s : state) : res value :=
  match assoc x (f_vars (top s)) with
  | Some Vundef => Fail (UnassignedRead x)
  | Some v => Ret v s
  | None =>
  match assoc x (f_vals (top s)) with
  | Some z => Ret (Vint z) s
  | None =>
  match assoc x (g_vals ge) with
  | Some z => Ret (Vint z) s
  | None =>
  match assoc x (gvars s) with
  | Some Vundef => Fail (UnassignedRead x)
  | Some v => Ret v (note_rd x s)
  | None =>
  match assoc x (garrs s) with
  | Some _ => Ret (Varr x) s
  | None => Fail (Unsupported "unknown name or procedure used as a value")
  end end end end end.

Definition resolve_array (ge : genv) (a : string) (s : state) : res value :=
  match assoc a (f_vars (top s)) with
  | Some (Varr g) => Ret (Varr g) s
  | Some (Vstr ws) => Ret (Vstr ws) s
  | Some Vundef => Fail (UnassignedRead a)
  | Some (Vint _) => Fail (Unsupported "subscript of a non-array")
  | None =>
  match assoc a (f_vals (top s)) with
  | Some _ => Fail (Unsupported "subscript of a non-array")
  | None =>
  match assoc a (garrs s) with
  | Some _ => Ret (Varr a) s
  | None => Fail (Unsupported "subscript of a non-array")
  end end end.

Definition cell (i : Z) : positive := Z.to_pos (i + 1).

Definition read_elem (av : value) (a : string) (i : Z) (s : state) : res value :=
  match av with
  | Varr g =>
      match assoc g (garrs s) with
      | Some ar =>
          if (0 <=? i) && (i <? alen ar) then
            match PositiveMap.find (cell i) (acells ar) with
            | Some (Vint n) => Ret (Vint n) (note_rd g s)
            | _ => Fail (UnassignedRead a)
            end
          else Fail (SubscriptRange a i)
      | None => Fail (Unsupported "unknown array")
      end
  | Vstr ws =>
      if (0 <=? i) && (i <? Z.of_nat (List.length ws))
      then Ret (Vint (signed32 (nth (Z.to_nat i) ws 0))) s
      else Fail (SubscriptRange a i)
  | _ => Fail (Unsupported "subscript of a non-array")
  end.

Inductive flow := Normal | Returned (v : value).

Definition write_elem (av : value) (a : string) (i : Z) (n : Z) (s : state) : res flow :=
  match av with
  | Varr g =>
      match assoc g (garrs s) with
      | Some ar =>
          if (0 <=? i) && (i <? alen ar) then
            Ret Normal (note_wr g (set_garrs s (update g {| alen := alen ar; acells := PositiveMap.add (cell i) (Vint n) (acells ar) |} (garrs s))))
          else Fail (SubscriptRange a i)
      | None => Fail (Unsupported "unknown array")
      end
  | Vstr _ => Fail (Unsupported "assignment into a string literal")
  | _ => Fail (Unsupported "subscript of a non-array")
  end.

Definition assign (ge : genv) (x : string) (n : Z) (s : state) : res flow :=
  match stk s with
  | [] => Fail (Unsupported "internal: no frame")
  | fr :: rest =>
  match assoc x (f_vars fr) with
  | Some (Varr _) | Some (Vstr _) => Fail (Unsupported "assignment to an array formal")
  | Some _ => Ret Normal (set_stk s ({| f_vars := update x (Vint n) (f_vars fr); f_vals := f_vals fr; f_depth := f_depth fr |} :: rest))
  | None =>
  match assoc x (f_vals fr) with
  | Some _ => Fail (Unsupported "assignment to a non-variable")
  | None =>
  match assoc x (g_vals ge) with
  | Some _ => Fail (Unsupported "assignment to a non-variable")
  | None =>
  match assoc x (gvars s) with
  | Some _ => Ret Normal (note_wr x (set_gvars s (update x (Vint n) (gvars s))))
  | None => Fail (Unsupported "assignment to a non-variable")
  end end end end end.

(* what `f(...)` denotes: a system call through a val-named number, or a procedure/function *)
Inductive target := TSys (n : Z) | TProc | TBad.
Definition call_target (ge : genv) (f : string) (s : state) : target :=
  match assoc f (f_vars (top s)) with
  | Some _ => TBad
  | None => match assoc f (f_vals (top s)) with
            | Some n => TSys n
            | None => match assoc f (g_vals ge) with Some n => TSys n | None => TProc end
            end
  end.

Fixpoint find_proc (f : string) (ps : list proc) : option proc :=
  match ps with [] => None | p :: r => if String.eqb f (pname p) then Some p else find_proc f r end.

Definition decl_name (d : decl) : string := match d with DVal x _ => x | DVar x => x | DArray x _ => x end.
Definition formal_name (f : formal) : string := match f with FVal x => x | FArray x => x | FProc x => x | FFunc x => x end.

Fixpoint bind_formals (fs : list formal) (vs : list value) : undef + list (string * value) :=
  match fs, vs with
  | [], [] => inr []
  | FVal x :: fr, Vint n :: vr =>
      match bind_formals fr vr with inr l => inr ((x, Vint n) :: l) | inl u => inl u end
  | FArray x :: fr, Varr g :: vr =>
      match bind_formals fr vr with inr l => inr ((x, Varr g) :: l) | inl u => inl u end
  | FArray x :: fr, Vstr ws :: vr =>
      match bind_formals fr vr with inr l => inr ((x, Vstr ws) :: l) | inl u => inl u end
  | FProc _ :: _, _ => inl (Unsupported "procedure or function formal")
  | FFunc _ :: _, _ => inl (Unsupported "procedure or function formal")
  | _, _ => inl (Unsupported "actuals do not match the formals")
  end.

(* local declarations: every name declared in the procedure hides the global of that name, also for
   the constant expressions of its own val declarations *)
Fixpoint local_decls (ds : list decl) (localnames : list string) (gvals : list (string * Z))
         (vars : list (string * value)) (vals : list (string * Z))
  : undef + (list (string * value) * list (string * Z)) :=
  match ds with
  | [] => inr (vars, vals)
  | DVar x :: r => local_decls r localnames gvals ((x, Vundef) :: vars) vals
  | DVal x e :: r =>
      match eval_const (fun y => if mem_str y localnames then assoc y vals else assoc y gvals) e with
      | inr z => local_decls r localnames gvals vars ((x, z) :: vals)
      | inl u => inl u
      end
  | DArray _ _ :: _ => inl (Unsupported "local array")
  end.

Definition enter (ge : genv) (p : proc) (vs : list value) (s : state) : undef + frame :=
  if Nat.leb (g_maxdepth ge) (f_depth (top s)) then inl DepthExceeded else
  match bind_formals (formals p) vs with
  | inl u => inl u
  | inr fv =>
      match local_decls (locals p) (app (map formal_name (formals p)) (map decl_name (locals p))) (g_vals ge) fv [] with
      | inl u => inl u
      | inr (vars, vals) => inr {| f_vars := vars; f_vals := vals; f_depth := S (f_depth (top s)) |}
      end
  end.

Definition pop (s : state) : state := set_stk s (match stk s with _ :: r => r | [] => [] end).

Definition invoke (ex : stmt -> state -> res flow) (ge : genv) (want_func : bool) (f : string)
           (vs : list value) (s : state) : res value :=
  match find_proc f (g_procs ge) with
  | None => Fail (Unsupported "call of an unknown procedure")
  | Some p =>
      if negb (Bool.eqb (is_func p) want_func) then Fail (WrongKindOfCall f) else
      match enter ge p vs s with
      | inl u => Fail u
      | inr fr =>
          tick s (fun s0 =>
          bind (ex (body p) (set_stk s0 (fr :: stk s0))) (fun fl s2 =>
            match fl with
            | Returned v =>
                if want_func then
                  match v with
                  | Vint n => Ret (Vint n) (pop s2)
                  | _ => Fail (Unsupported "function result is not an integer")
                  end
                else Ret Vundef (pop s2)
            | Normal => if want_func then Fail NoReturn else Ret Vundef (pop s2)
            end))
      end
  end.

(* system calls: 0 = exit(code), 1 = put(byte, stream), 2 = get(stream) *)
Definition do_sys (n : Z) (vs : list value) (as_expr : bool) (s : state) : res value :=
  match n with
  | 0 => match vs with
         | v :: _ => int_of v (fun c => Halt c s)
         | [] => Fail MissingActual
         end
  | 1 => match vs with
         | b :: st :: _ =>
             int_of b (fun bz => int_of st (fun sz =>
               if as_expr then Fail (Unsupported "put used for its value")
               else Ret Vundef (emit (sz mod 4294967296) (bz mod 256) s)))
         | _ => Fail MissingActual
         end
  | 2 => match vs with
         | st :: _ =>
             int_of st (fun sz =>
               if sz <? 256 then
                 match input s with
                 | [] => Ret (Vint 255) (note_io s)            (* end of input reads as byte 255 *)
                 | b :: r => Ret (Vint (b mod 256)) (consume r s)
                 end
               else Fail (Unsupported "input from a file stream"))
         | [] => Fail MissingActual
         end
  | _ => Fail (Unsupported "invalid system call number")
  end.

Definition harmless (e : expr) : bool :=
  match e with ENum _ => true | EBool _ => true | EStr _ => true | _ => false end.

(* ---------------------------------------------------------------- the interpreter, open recursion *)
Definition evals_body (ev : expr -> state -> res value)
                      (evs : list expr -> state -> res (list (value * eff)))
                      (es : list expr) (s : state) : res (list (value * eff)) :=
  match es with
  | [] => Ret [] s
  | e :: r =>
      rcase (with_eff (ev e) s)
        (fun ve s1 =>
           rcase (evs r s1)
             (fun l s2 => Ret (ve :: l) s2)
             (fun c s2 => if e_io (snd ve) then Fail OrderDependent else Halt c s2))
        (fun c s1 => if forallb harmless r then Halt c s1 else Fail OrderDependent)
  end.

(* order-open operands: evaluate, then require pairwise non-conflicting footprints *)
Definition operands (evs : list expr -> state -> res (list (value * eff))) (es : list expr) (s : state)
  : res (list value) :=
  bind (evs es s) (fun l s1 => if conflicts (map snd l) then Fail OrderDependent else Ret (map fst l) s1).

Definition eval_body (ev : expr -> state -> res value)
                     (evs : list expr -> state -> res (list (value * eff)))
                     (ex : stmt -> state -> res flow)
                     (ge : genv) (e : expr) (s : state) : res value :=
  match e with
  | ENum n => Ret (Vint (signed32 n)) s
  | EBool b => Ret (Vint (of_bool b)) s
  | EStr bs => match pack_string bs with
               | Some ws => Ret (Vstr ws) s
               | None => Fail (Unsupported "string literal longer than 255 or with a non-ASCII byte")
               end
  | EVar x => read_var ge x s
  | ESub a i =>
      bind (resolve_array ge a s) (fun av s0 =>
      bind (ev i s0) (fun iv s1 => int_of iv (fun n => read_elem av a n s1)))
  | ECall f args =>
      match call_target ge f s with
      | TSys n => bind (operands evs args s) (fun vs s1 => do_sys n vs true s1)
      | TProc => bind (operands evs args s) (fun vs s1 => invoke ex ge true f vs s1)
      | TBad => Fail (Unsupported "call of a variable or formal")
      end
  | ESys n args => bind (operands evs args s) (fun vs s1 => do_sys n vs true s1)
  | EUn Neg a =>
      bind (ev a s) (fun v s1 => int_of v (fun n =>
        if in_int (0 - n) then Ret (Vint (0 - n)) s1 else Fail ArithOverflow))
  | EUn Not a =>
      bind (ev a s) (fun v s1 => bool_of v (fun b => Ret (Vint (of_bool (negb b))) s1))
  | EBin And l r =>
      bind (ev l s) (fun v s1 => bool_of v (fun b =>
        if b then bind (ev r s1) (fun w s2 => bool_of w (fun c => Ret (Vint (of_bool c)) s2))
        else Ret (Vint 0) s1))
  | EBin Or l r =>
      bind (ev l s) (fun v s1 => bool_of v (fun b =>
        if b then Ret (Vint 1) s1
        else bind (ev r s1) (fun w s2 => bool_of w (fun c => Ret (Vint (of_bool c)) s2))))
  | EBin o l r =>
      bind (operands evs [l; r] s) (fun vs s1 =>
        match vs with
        | [a; b] => int_of a (fun x => int_of b (fun y =>
                      match binop_ans o x y with inr z => Ret (Vint z) s1 | inl u => Fail u end))
        | _ => Fail (Unsupported "internal: operands")
        end)
  end.

Definition exec_body (ev : expr -> state -> res value)
                     (evs : list expr -> state -> res (list (value * eff)))
                     (ex : stmt -> state -> res flow)
                     (exs : list stmt -> state -> res flow)
                     (ge : genv) (st : stmt) (s0 : state) : res flow :=
  tick s0 (fun s =>
  match st with
  | SSkip => Ret Normal s
  | SStop => Halt 0 s
  | SReturn e => bind (ev e s) (fun v s1 => Ret (Returned v) s1)
  | SIf c t e => bind (ev c s) (fun v s1 => bool_of v (fun b => ex (if b then t else e) s1))
  | SWhile c b =>
      bind (ev c s) (fun v s1 => bool_of v (fun t =>
        if t then bind (ex b s1) (fun fl s2 =>
                   match fl with Normal => ex (SWhile c b) s2 | Returned w => Ret (Returned w) s2 end)
        else Ret Normal s1))
  | SSeq ss => exs ss s
  | SAssign x e => bind (ev e s) (fun v s1 => int_of v (fun n => assign ge x n s1))
  | SAssignSub a i e =>
      bind (resolve_array ge a s) (fun av s0 =>
      bind (operands evs [i; e] s0) (fun vs s1 =>
        match vs with
        | [iv; v] => int_of iv (fun n => int_of v (fun w => write_elem av a n w s1))
        | _ => Fail (Unsupported "internal: operands")
        end))
  | SCall f args =>
      match call_target ge f s with
      | TSys n => bind (operands evs args s) (fun vs s1 => bind (do_sys n vs false s1) (fun _ s2 => Ret Normal s2))
      | TProc => bind (operands evs args s) (fun vs s1 => bind (invoke ex ge false f vs s1) (fun _ s2 => Ret Normal s2))
      | TBad => Fail (Unsupported "call of a variable or formal")
      end
  | SSys n args =>
      bind (operands evs args s) (fun vs s1 => bind (do_sys n vs false s1) (fun _ s2 => Ret Normal s2))
  end).

Definition execs_body (ex : stmt -> state -> res flow) (exs : list stmt -> state -> res flow)
                      (ss : list stmt) (s : state) : res flow :=
  match ss with
  | [] => Ret Normal s
  | st :: r => bind (ex st s) (fun fl s1 =>
                 match fl with Normal => exs r s1 | Returned v => Ret (Returned v) s1 end)
  end.

(* fuel bounds the depth of the evaluation (every recursive call, every list element and every loop
   iteration uses one unit); the step budget in the state bounds the length *)
Fixpoint eval (f : nat) (ge : genv) (e : expr) (s : state) {struct f} : res value :=
  match f with
  | O => Fail FuelExhausted
  | S f' => eval_body (eval f' ge) (evals f' ge) (exec f' ge) ge e s
  end
with evals (f : nat) (ge : genv) (es : list expr) (s : state) {struct f} : res (list (value * eff)) :=
  match f with
  | O => Fail FuelExhausted
  | S f' => evals_body (eval f' ge) (evals f' ge) es s
  end
with exec (f : nat) (ge : genv) (st : stmt) (s : state) {struct f} : res flow :=
  match f with
  | O => Fail FuelExhausted
  | S f' => exec_body (eval f' ge) (evals f' ge) (exec f' ge) (execs f' ge) ge st s
  end
with execs (f : nat) (ge : genv) (ss : list stmt) (s : state) {struct f} : res flow :=
  match f with
  | O => Fail FuelExhausted
  | S f' => execs_body (exec f' ge) (execs f' ge) ss s
  end.

(* ---------------------------------------------------------------- whole programs *)
Definition wf_proc (p : proc) : bool :=
  negb (has_dup (app (map formal_name (formals p)) (map decl_name (locals p)))).
Definition wf_program (p : program) : option string :=
  if has_dup (app (map decl_name (globals p)) (map pname (procs p))) then Some "duplicate global name"
  else if forallb wf_proc (procs p) then None else Some "duplicate name in a procedure".

(* global declarations in order: a constant expression may use the vals declared before it *)
Fixpoint init_globals (ds : list decl) (vals : list (string * Z)) (vars : list (string * value))
         (arrs : list (string * arr))
  : undef + (list (string * Z) * list (string * value) * list (string * arr)) :=
  match ds with
  | [] => inr (vals, vars, arrs)
  | DVal x e :: r =>
      match eval_const (fun y => assoc y vals) e with
      | inr z => init_globals r ((x, z) :: vals) vars arrs
      | inl u => inl u
      end
  | DVar x :: r => init_globals r vals ((x, Vundef) :: vars) arrs
  | DArray x e :: r =>
      match eval_const (fun y => assoc y vals) e with
      | inr n => if n <? 0 then inl (Unsupported "negative array length")
                 else init_globals r vals vars ((x, {| alen := n; acells := PositiveMap.empty value |}) :: arrs)
      | inl u => inl u
      end
  end.

Definition finish (s : state) (code : Z) : outcome :=
  Behaviour {| outputs := rev (out_rev s); consumed := ncons s; exit_value := code |}.

Definition run_fuel (fuel : nat) (steps : Z) (maxdepth : nat) (p : program) (inp : list Z) : outcome :=
  match wf_program p with
  | Some msg => Undef (Unsupported msg)
  | None =>
  match init_globals (globals p) [] [] [] with
  | inl u => Undef u
  | inr (vals, vars, arrs) =>
  match find_proc "main" (procs p) with
  | None => Undef (Unsupported "no procedure main")
  | Some m =>
      if is_func m || negb (match formals m with [] => true | _ => false end)
      then Undef (Unsupported "main must be a procedure without formals") else
      let ge := {| g_vals := vals; g_procs := procs p; g_maxdepth := maxdepth |} in
      let s0 := {| gvars := vars; garrs := arrs; out_rev := []; input := inp; ncons := O; budget := steps;
                   cur := eff0; stk := [{| f_vars := []; f_vals := []; f_depth := O |}] |} in
      match invoke (exec fuel ge) ge false "main" [] s0 with
      | Ret _ s => finish s 0
      | Halt c s => finish s c
      | Fail u => Undef u
      end
  end end end.

(* the bounds of "bounded stack depth and run length" in the properties' quantifier *)
Definition default_fuel : nat := Z.to_nat 1000000.
Definition default_steps : Z := 2000000.
Definition default_depth : nat := Z.to_nat 2000.
Definition run (p : program) (inp : list Z) : outcome := run_fuel default_fuel default_steps default_depth p inp.
