(* XConstPropProofs.v -- proofs about the model XConstProp.v (xcmp's ConstProp / OptimiseExpr / genConst) against the
   specs XSem.v (X) and Isa.v (the machine).

   Scope of the agreement theorems: the PURE fragment of expressions (literals, true/false, names, unary and binary
   operators; no calls, no input/output, no array reads), evaluated by XSem.eval_const with the names looked up in an
   arbitrary environment `lk : string -> option Z` of run-time values.  That is the evaluator the X definition itself
   uses for constant expressions; using it with an arbitrary environment makes every non-constant leaf a variable, so
   constant sub-trees sit anywhere inside non-constant ones.  The statement against the full effect-tracking
   interpreter XSem.eval is kept as `fold_agrees_full` (a Definition, not proved here): OptimiseExpr swaps the
   operands of > and <=, so that statement holds only up to the order in which XSem records footprints.

   meval w: w = false is XSem.eval_const verbatim (lemma meval_false); w = true lets + - and unary minus wrap around
   (two's complement, what ADD/SUB of Isa.v compute), so that "results that wrap around" are covered.  Ordering
   operators whose operand difference leaves the 32-bit range are undefined in both (XSem: CmpDiffOverflow) -- there
   the folded value and the run-time code really differ: relational_fold_refuted. *)
From Coq Require Import ZArith String List Bool Lia.
From HexVerif Require Import WMap Isa AsmModel AsmLayout AsmSpec AsmSpecProofs AsmEncodeProofs.
From HexVerif Require Import XAst XSem XConstProp.
Import ListNotations.
Local Open Scope Z_scope.
Ltac Zify.zify_post_hook ::= Z.div_mod_to_equations.

Lemma to_cint_signed32 n : to_cint n = signed32 n.
Proof. reflexivity. Qed.
Lemma in_cint_in_int z : in_cint z = in_int z.
Proof. reflexivity. Qed.

Lemma in_int_iff z : in_int z = true <-> -2147483648 <= z <= 2147483647.
Proof. unfold in_int, min_int, max_int. rewrite andb_true_iff, !Z.leb_le. tauto. Qed.

Lemma signed32_small z : in_int z = true -> signed32 z = z.
Proof.
  intros H. apply in_int_iff in H. unfold signed32.
  destruct (Z_lt_ge_dec z 0).
  - replace (z mod 4294967296) with (z + 4294967296).
    + destruct (2147483648 <=? z + 4294967296) eqn:E; [lia|apply Z.leb_gt in E; lia].
    + symmetry. rewrite <- (Z.mod_add z 1 4294967296) by lia. apply Z.mod_small. lia.
  - rewrite Z.mod_small by lia. destruct (2147483648 <=? z) eqn:E; [apply Z.leb_le in E; lia|reflexivity].
Qed.

Lemma signed32_mod z : signed32 (z mod 4294967296) = signed32 z.
Proof. unfold signed32. rewrite Z.mod_mod by lia. reflexivity. Qed.

Lemma signed32_range z : in_int (signed32 z) = true.
Proof.
  apply in_int_iff. unfold signed32. pose proof (Z.mod_pos_bound z 4294967296 ltac:(lia)).
  destruct (2147483648 <=? z mod 4294967296) eqn:E; [apply Z.leb_le in E|apply Z.leb_gt in E]; lia.
Qed.

Lemma lit_eval lk v : in_int v = true -> eval_const lk (lit v) = inr v.
Proof. intros H. unfold lit. cbn [eval_const]. rewrite signed32_mod, signed32_small by exact H. reflexivity. Qed.

(* ------------------------------------------------------------------ the reference evaluators of pure expressions.
   meval false = XSem.eval_const (the X definition: + - and unary minus are undefined when they leave the 32-bit range);
   meval true  = the same with two's-complement wrap-around for + - and unary minus (what ADD and SUB of the
   machine compute, Isa.v), so that "results that wrap around" are inside the statement. *)
Definition arith_ans (w : bool) (z : Z) : undef + Z :=
  if w then inr (signed32 z) else if in_int z then inr z else inl ArithOverflow.
Definition un_ans (w : bool) (o : unop) (z : Z) : undef + Z :=
  match o with
  | Neg => arith_ans w (0 - z)
  | Not => if z =? 0 then inr 1 else if z =? 1 then inr 0
           else inl (Unsupported "truth value is neither true nor false")
  end.
Definition bin_ans (w : bool) (o : binop) (a b : Z) : undef + Z :=
  match o with
  | And | Or =>
      if ((a =? 0) || (a =? 1)) && ((b =? 0) || (b =? 1))
      then inr (match o with And => if a =? 0 then 0 else b | _ => if a =? 0 then b else 1 end)
      else inl (Unsupported "truth value is neither true nor false")
  | Plus => arith_ans w (a + b)
  | Minus => arith_ans w (a - b)
  | _ => binop_ans o a b
  end.
Fixpoint meval (w : bool) (lk : string -> option Z) (e : expr) : undef + Z :=
  match e with
  | ENum n => inr (signed32 n)
  | EBool b => inr (of_bool b)
  | EVar x => match lk x with Some z => inr z | None => inl (Unsupported "expression is not constant") end
  | EUn o a => match meval w lk a with inr z => un_ans w o z | inl u => inl u end
  | EBin o l r =>
      match meval w lk l, meval w lk r with
      | inr a, inr b => bin_ans w o a b
      | inl u, _ => inl u
      | _, inl u => inl u
      end
  | _ => inl (Unsupported "expression is not constant")
  end.

Lemma meval_false lk e : meval false lk e = eval_const lk e.
Proof.
  induction e; try reflexivity.
  - cbn [meval eval_const]. rewrite IHe. destruct (eval_const lk e); destruct o; reflexivity.
  - cbn [meval eval_const]. rewrite IHe1, IHe2. destruct (eval_const lk e1); destruct (eval_const lk e2); destruct o; reflexivity.
Qed.

(* ------------------------------------------------------------------ one folding step *)
Lemma of_bool_range b : in_int (of_bool b) = true. Proof. destruct b; reflexivity. Qed.

(* folding answers the reference value; on C int it may instead hit signed overflow, only where the reference wraps *)
Definition fold_res (w : bool) (m : arith) (r : cres Z) (v : Z) : Prop :=
  r = COk v \/ (r = CUB SignedOverflow /\ m = ArithInt /\ w = true).

Lemma c_arith_res w m z v : arith_ans w z = inr v -> fold_res w m (c_arith m z) v /\ in_int v = true.
Proof.
  unfold arith_ans, fold_res. destruct w.
  - intros H; inversion H; subst. split; [|apply signed32_range]. destruct m; cbn [c_arith].
    + rewrite in_cint_in_int. destruct (in_int z) eqn:E; [left; rewrite signed32_small by exact E; reflexivity|right; auto].
    + left. reflexivity.
  - destruct (in_int z) eqn:E; [|discriminate]. intros H; inversion H; subst. split; [|exact E]. left.
    destruct m; cbn [c_arith]; [rewrite in_cint_in_int, E; reflexivity|rewrite to_cint_signed32, signed32_small by exact E; reflexivity].
Qed.

Lemma fold_un_res w m o a v : un_ans w o a = inr v -> fold_res w m (fold_un m o a) v /\ in_int v = true.
Proof.
  destruct o; cbn [un_ans fold_un].
  - replace (- a) with (0 - a) by lia. apply c_arith_res.
  - unfold fold_res. destruct (a =? 0); [intros H; inversion H; auto|].
    destruct (a =? 1); [intros H; inversion H; auto|discriminate].
Qed.

Lemma rel_inv (a b : Z) (r : bool) v :
  (if in_int (a - b) && in_int (b - a) then inr (of_bool r) else @inl undef Z CmpDiffOverflow) = inr v -> v = of_bool r.
Proof. destruct (in_int (a - b) && in_int (b - a)); [intros H; inversion H; reflexivity|discriminate]. Qed.

Lemma fold_bin_res w m o a b v : bin_ans w o a b = inr v -> fold_res w m (fold_bin m o a b) v /\ in_int v = true.
Proof.
  destruct o; cbn [bin_ans binop_ans fold_bin]; try apply c_arith_res; unfold fold_res.
  - (* Or *) destruct (Z.eqb_spec a 0); destruct (Z.eqb_spec a 1); destruct (Z.eqb_spec b 0); destruct (Z.eqb_spec b 1);
      cbn; intros H; inversion H; subst; cbn; auto; try lia.
  - (* And *) destruct (Z.eqb_spec a 0); destruct (Z.eqb_spec a 1); destruct (Z.eqb_spec b 0); destruct (Z.eqb_spec b 1);
      cbn; intros H; inversion H; subst; cbn; auto; try lia.
  - intros H; inversion H; subst. split; [left; reflexivity|apply of_bool_range].
  - intros H; inversion H; subst. split; [left; reflexivity|apply of_bool_range].
  - intros H. apply rel_inv in H. subst. split; [left; reflexivity|apply of_bool_range].
  - intros H. apply rel_inv in H. subst. split; [left; reflexivity|apply of_bool_range].
  - intros H. apply rel_inv in H. subst. split; [left; reflexivity|apply of_bool_range].
  - intros H. apply rel_inv in H. subst. split; [left; reflexivity|apply of_bool_range].
Qed.

(* ------------------------------------------------------------------ OptimiseExpr on one node, as a function on expressions *)
Definition rw_bin (o : binop) (l r : expr) : expr :=
  match o with
  | Ne => EUn Not (EBin Eq l r)
  | Ge => EUn Not (EBin Ls l r)
  | Gr => EBin Ls r l
  | Le => EUn Not (EBin Ls r l)
  | _ => EBin o l r
  end.
Definition rw_un (o : unop) (a : expr) : expr :=
  match o with Neg => EBin Minus (ENum 0) a | Not => EUn Not a end.

Lemma not_of_bool w b : un_ans w Not (of_bool b) = inr (of_bool (negb b)).
Proof. destruct b; reflexivity. Qed.

Lemma meval_bin w lk o l r a b : meval w lk l = inr a -> meval w lk r = inr b -> meval w lk (EBin o l r) = bin_ans w o a b.
Proof. intros Hl Hr. cbn [meval]. rewrite Hl, Hr. reflexivity. Qed.
Lemma meval_un w lk o e a : meval w lk e = inr a -> meval w lk (EUn o e) = un_ans w o a.
Proof. intros H. cbn [meval]. rewrite H. reflexivity. Qed.

(* every rewrite has exactly the value (or the undefinedness) of the operator it replaces, for all operand values *)
Lemma rw_bin_eval w lk o l r a b :
  meval w lk l = inr a -> meval w lk r = inr b -> meval w lk (rw_bin o l r) = bin_ans w o a b.
Proof.
  intros Hl Hr. destruct o; cbn [rw_bin]; try (apply meval_bin; assumption);
    cbn [meval]; rewrite Hl, Hr; cbn [bin_ans binop_ans].
  - (* Ne *) apply not_of_bool.
  - (* Le: ~(r < l) *) rewrite (andb_comm (in_int (b - a))). destruct (in_int (a - b) && in_int (b - a)); [|reflexivity].
    rewrite not_of_bool. rewrite Z.leb_antisym. reflexivity.
  - (* Gr: r < l *) rewrite (andb_comm (in_int (b - a))). reflexivity.
  - (* Ge: ~(l < r) *) destruct (in_int (a - b) && in_int (b - a)); [|reflexivity].
    rewrite not_of_bool. rewrite Z.leb_antisym. reflexivity.
Qed.

Lemma rw_un_eval w lk o e a : meval w lk e = inr a -> meval w lk (rw_un o e) = un_ans w o a.
Proof.
  intros H. destruct o; cbn [rw_un].
  - rewrite (meval_bin w lk Minus (ENum 0) e 0 a eq_refl H). reflexivity.
  - apply meval_un. exact H.
Qed.

Lemma erase_opt_bin_none o l r :
  erase (opt_expr (ABin o None l r)) = rw_bin o (erase (opt_expr l)) (erase (opt_expr r)).
Proof. destruct o; reflexivity. Qed.
Lemma erase_opt_un_none o a : erase (opt_expr (AUn o None a)) = rw_un o (erase (opt_expr a)).
Proof. destruct o; reflexivity. Qed.
Lemma erase_opt_bin_some o c l r :
  erase (opt_expr (ABin o (Some c) l r)) = lit c \/ erase (opt_expr (ABin o (Some c) l r)) = rw_bin o (erase l) (erase r).
Proof. destruct o; cbn; auto. Qed.
Lemma erase_opt_un_some o c a : erase (opt_expr (AUn o (Some c) a)) = lit c.
Proof. destruct o; reflexivity. Qed.

Lemma lit_meval w lk v : in_int v = true -> meval w lk (lit v) = inr v.
Proof. intros H. unfold lit. cbn [meval]. rewrite signed32_mod, signed32_small by exact H. reflexivity. Qed.

(* ------------------------------------------------------------------ the environment *)
(* lk gives the run-time value of every name that has one; the compiler's symbol table sees such a name either as
   something that is not a val (variable, formal) or as a val with exactly that value *)
Definition env_ok (E : cpenv) (lk : string -> option Z) : Prop :=
  forall x z, lk x = Some z -> in_int z = true /\ (resolve E x = NNotVal \/ resolve E x = NVal z).

(* every name that has a value is a val (the situation of a val declaration's own expression) *)
Definition all_vals (E : cpenv) (lk : string -> option Z) : Prop := forall x z, lk x = Some z -> resolve E x = NVal z.

(* what folding + rewriting make of an expression whose reference value is v *)
Definition agrees (w : bool) (E : cpenv) (lk : string -> option Z) (e : expr) (v : Z) : Prop :=
  match cp_expr E e with
  | COk ae => (forall c, const_of ae = Some c -> c = v) /\ meval w lk (erase ae) = inr v /\ meval w lk (erase (opt_expr ae)) = inr v /\
              (all_vals E lk -> const_of ae = Some v)
  | CUB SignedOverflow => cp_arith E = ArithInt /\ w = true
  | _ => False
  end.

Theorem fold_agrees_gen w E lk : env_ok E lk -> forall e v, meval w lk e = inr v -> agrees w E lk e v /\ in_int v = true.
Proof.
  intros Henv. unfold agrees.
  induction e; intros v H; try discriminate.
  - (* ENum *) cbn in H. inversion H; subst. cbn. split; [|apply signed32_range].
    split; [intros c Hc; inversion Hc; apply to_cint_signed32|]. repeat split.
  - (* EBool *) cbn in H. inversion H; subst. cbn. split; [|apply of_bool_range].
    split; [intros c Hc; inversion Hc; destruct b; reflexivity|]. repeat split; destruct b; reflexivity.
  - (* EVar *) cbn in H. destruct (lk x) eqn:Ex; [|discriminate]. inversion H; subst z.
    destruct (Henv x v Ex) as [Hr [Hn|Hn]]; cbn [cp_expr]; rewrite Hn; (split; [|exact Hr]).
    + cbn. rewrite Ex. split; [discriminate|]. repeat split. intros Hs. rewrite (Hs x v Ex) in Hn. discriminate.
    + cbn [const_of erase opt_expr]. split; [intros c Hc; inversion Hc; reflexivity|]. rewrite lit_meval by exact Hr. auto.
  - (* EUn *) cbn [meval] in H. destruct (meval w lk e) as [u|a] eqn:Ea; [discriminate|].
    destruct (IHe a eq_refl) as [IH Ha]. destruct (fold_un_res w (cp_arith E) o a v H) as [Hf Hv]. split; [|exact Hv].
    cbn [cp_expr]. destruct (cp_expr E e) as [a'|[|]|]; cbn [cbind]; try exact IH; try contradiction.
    destruct IH as (Hc & He & Ho & Hs).
    destruct (const_of a') as [c|] eqn:Ec.
    + rewrite (Hc c eq_refl). destruct Hf as [Hf|(Hf & Hm & Hw)]; rewrite Hf; cbn [cbind]; [|auto].
      split; [intros c' Hc'; inversion Hc'; reflexivity|].
      rewrite erase_opt_un_some. cbn [erase const_of]. rewrite lit_meval by exact Hv. auto.
    + split; [discriminate|]. rewrite erase_opt_un_none. cbn [erase]. rewrite (meval_un _ _ _ _ _ He). split; [exact H|].
      rewrite (rw_un_eval _ _ _ _ _ Ho). split; [exact H|]. intros Hst. specialize (Hs Hst). discriminate.
  - (* EBin *) cbn [meval] in H.
    destruct (meval w lk e1) as [u|a] eqn:Ea; [discriminate|].
    destruct (meval w lk e2) as [u|b] eqn:Eb; [discriminate|].
    destruct (IHe1 a eq_refl) as [IH1 Ha]. destruct (IHe2 b eq_refl) as [IH2 Hb].
    destruct (fold_bin_res w (cp_arith E) o a b v H) as [Hf Hv]. split; [|exact Hv].
    cbn [cp_expr]. destruct (cp_expr E e1) as [l'|[|]|]; cbn [cbind]; try exact IH1; try contradiction.
    destruct (cp_expr E e2) as [r'|[|]|]; cbn [cbind]; try exact IH2; try contradiction.
    destruct IH1 as (Hcl & Hel & Hol & Hsl). destruct IH2 as (Hcr & Her & Hor & Hsr).
    destruct (const_of l') as [cl|] eqn:Ecl; [destruct (const_of r') as [cr|] eqn:Ecr|].
    + rewrite (Hcl cl eq_refl), (Hcr cr eq_refl).
      destruct Hf as [Hf|(Hf & Hm & Hw)]; rewrite Hf; cbn [cbind]; [|auto].
      split; [intros c' Hc'; inversion Hc'; reflexivity|].
      cbn [erase const_of]. rewrite lit_meval by exact Hv. split; [reflexivity|]. split; [|auto].
      destruct (erase_opt_bin_some o v l' r') as [->| ->]; [apply lit_meval; exact Hv|].
      rewrite (rw_bin_eval _ _ _ _ _ _ _ Hel Her). exact H.
    + split; [discriminate|]. rewrite erase_opt_bin_none. cbn [erase]. rewrite (meval_bin _ _ _ _ _ _ _ Hel Her). split; [exact H|].
      rewrite (rw_bin_eval _ _ _ _ _ _ _ Hol Hor). split; [exact H|]. intros Hst. specialize (Hsr Hst). discriminate.
    + split; [discriminate|]. rewrite erase_opt_bin_none. cbn [erase]. rewrite (meval_bin _ _ _ _ _ _ _ Hel Her). split; [exact H|].
      rewrite (rw_bin_eval _ _ _ _ _ _ _ Hol Hor). split; [exact H|]. intros Hst. specialize (Hsl Hst). discriminate.
Qed.

Definition get_reg (r : reg) (s : arch) : Z := match r with RA => areg s | RB => breg s end.
Definition other_reg (r : reg) (s : arch) : Z := match r with RA => breg s | RB => areg s end.

(* one non-prefix instruction byte with opcode LDAC/LDBC: the register receives oreg | low nibble *)
Lemma step_ldc r s inp :
  in_mem (pc s / 4) = true -> fetch s / 16 = (match r with RA => 3 | RB => 4 end) ->
  exists s', Isa.step s inp = Isa.Ok (s', inp, Tau) /\ get_reg r s' = Z.lor (oreg s) (fetch s mod 16) /\
             other_reg r s' = other_reg r s /\ mem s' = mem s /\ oreg s' = 0 /\ pc s' = wrap (pc s + 1).
Proof.
  intros Hm Hf. unfold Isa.step. rewrite Hm. cbn [negb]. cbv zeta. rewrite Hf.
  destruct r; eexists; (split; [reflexivity|]); cbn; auto.
Qed.

(* LDAM/LDBM from word address a *)
Lemma step_ldm r s inp :
  in_mem (pc s / 4) = true -> fetch s / 16 = (match r with RA => 0 | RB => 1 end) ->
  in_mem (Z.lor (oreg s) (fetch s mod 16)) = true ->
  exists s', Isa.step s inp = Isa.Ok (s', inp, Tau) /\ get_reg r s' = rd (mem s) (Z.lor (oreg s) (fetch s mod 16)) /\
             other_reg r s' = other_reg r s /\ mem s' = mem s /\ oreg s' = 0 /\ pc s' = wrap (pc s + 1).
Proof.
  intros Hm Hf Ha. unfold Isa.step. rewrite Hm. cbn [negb]. cbv zeta. rewrite Hf.
  destruct r; cbv beta iota; rewrite Ha; eexists; (split; [reflexivity|]); cbn; auto.
Qed.

Lemma imm_in_range v : gen_const_imm v = true -> int_range v.
Proof. unfold gen_const_imm, int_range. rewrite andb_true_iff, !Z.ltb_lt. lia. Qed.

(* the bytes hexasm emits for an instruction with an int operand, executed from a clear operand register *)
Lemma exec_encoded opc v img s inp :
  0 <= opc < 14 -> int_range v ->
  at_bytes img (pc s) (emit_instr opc v (enc_size v)) -> oreg s = 0 -> 0 <= pc s -> pc s + enc_size v <= W ->
  holds (mem s) img (pc s) (pc s + enc_size v) ->
  exists s1, Isa.run (Z.to_nat (enc_size v - 1)) s inp [] = ([], inp, s1, Cut) /\
             pc s1 = pc s + enc_size v - 1 /\ areg s1 = areg s /\ breg s1 = breg s /\ mem s1 = mem s /\
             in_mem (pc s1 / 4) = true /\ fetch s1 / 16 = opc /\ Z.lor (oreg s1) (fetch s1 mod 16) = v mod W.
Proof.
  intros Ho Hv Hb Ho0 Hpc Hw Hh.
  assert (Hd : decode img (pc s) = Some (opc, v mod W, pc s + enc_size v)).
  { apply emit_decode; [assumption | apply enc_size_ok; assumption | assumption]. }
  unfold decode in Hd.
  destruct (decode_exec _ _ _ _ _ _ _ Hd s inp eq_refl Ho0 Hpc Hw Hh) as [_ (s1 & Hrun & P1 & P2 & P3 & P4 & P5 & P6 & P7 & P8 & P9)].
  exists s1. replace (pc s + enc_size v - pc s - 1) with (enc_size v - 1) in Hrun by lia.
  repeat split; try assumption.
Qed.

Definition imm_opc (r : reg) : Z := match r with RA => 3 | RB => 4 end.
Definition mem_opc (r : reg) : Z := match r with RA => 0 | RB => 1 end.

(* genConst, immediate side: LDAC v / LDBC v *)
Theorem const_materialise_imm r v img s inp :
  gen_const_imm v = true ->
  at_bytes img (pc s) (emit_instr (imm_opc r) v (enc_size v)) -> oreg s = 0 -> 0 <= pc s -> pc s + enc_size v <= W ->
  holds (mem s) img (pc s) (pc s + enc_size v) ->
  gen_const r v = LoadImm (imm_opc r) v /\
  exists s1 s', Isa.run (Z.to_nat (enc_size v - 1)) s inp [] = ([], inp, s1, Cut) /\ Isa.step s1 inp = Isa.Ok (s', inp, Tau) /\
    get_reg r s' = v mod W /\ other_reg r s' = other_reg r s /\ mem s' = mem s /\ oreg s' = 0 /\ pc s' = wrap (pc s + enc_size v).
Proof.
  intros Hi Hb Ho0 Hpc Hw Hh. split; [unfold gen_const; rewrite Hi; destruct r; reflexivity|].
  assert (Hopc : 0 <= imm_opc r < 14) by (destruct r; cbn; lia).
  destruct (exec_encoded _ v img s inp Hopc (imm_in_range v Hi) Hb Ho0 Hpc Hw Hh) as (s1 & Hrun & P1 & P2 & P3 & P4 & P5 & P6 & P7).
  destruct (step_ldc r s1 inp P5) as (s' & Hs & Q1 & Q2 & Q3 & Q4 & Q5); [destruct r; exact P6|].
  exists s1, s'. repeat split; try assumption.
  - rewrite Q1. exact P7.
  - rewrite Q2. destruct r; cbn; assumption.
  - congruence.
  - rewrite Q5, P1. f_equal. lia.
Qed.

(* genConst, pool side: LDAM/LDBM of the word (address a) that holds v *)
Theorem const_materialise_pool r v a img s inp :
  gen_const_imm v = false -> int_range a -> in_mem (a mod W) = true -> rd (mem s) (a mod W) = v mod W ->
  at_bytes img (pc s) (emit_instr (mem_opc r) a (enc_size a)) -> oreg s = 0 -> 0 <= pc s -> pc s + enc_size a <= W ->
  holds (mem s) img (pc s) (pc s + enc_size a) ->
  gen_const r v = LoadPool (mem_opc r) v /\
  exists s1 s', Isa.run (Z.to_nat (enc_size a - 1)) s inp [] = ([], inp, s1, Cut) /\ Isa.step s1 inp = Isa.Ok (s', inp, Tau) /\
    get_reg r s' = v mod W /\ other_reg r s' = other_reg r s /\ mem s' = mem s /\ oreg s' = 0 /\ pc s' = wrap (pc s + enc_size a).
Proof.
  intros Hi Ha Hin Hrd Hb Ho0 Hpc Hw Hh. split; [unfold gen_const; rewrite Hi; destruct r; reflexivity|].
  assert (Hopc : 0 <= mem_opc r < 14) by (destruct r; cbn; lia).
  destruct (exec_encoded _ a img s inp Hopc Ha Hb Ho0 Hpc Hw Hh) as (s1 & Hrun & P1 & P2 & P3 & P4 & P5 & P6 & P7).
  destruct (step_ldm r s1 inp P5) as (s' & Hs & Q1 & Q2 & Q3 & Q4 & Q5); [destruct r; exact P6|rewrite P7; exact Hin|].
  exists s1, s'. repeat split; try assumption.
  - rewrite Q1, P7, P4. exact Hrd.
  - rewrite Q2. destruct r; cbn; assumption.
  - congruence.
  - rewrite Q5, P1. f_equal. lia.
Qed.

(* ------------------------------------------------------------------ corollaries of fold_agrees_gen *)
(* against the X definition (XSem.eval_const): defined => folding hits no UB (in either arithmetic) and agrees *)
Theorem fold_agrees_xsem E lk e v : env_ok E lk -> eval_const lk e = inr v ->
  exists ae, cp_expr E e = COk ae /\ (forall c, const_of ae = Some c -> c = v) /\
             eval_const lk (erase ae) = inr v /\ eval_const lk (erase (opt_expr ae)) = inr v.
Proof.
  intros Henv H. rewrite <- meval_false in H.
  destruct (fold_agrees_gen false E lk Henv e v H) as [Ha _]. unfold agrees in Ha.
  destruct (cp_expr E e) as [ae|[|]|]; try contradiction; [|destruct Ha; discriminate].
  exists ae. rewrite <- !meval_false. tauto.
Qed.

(* with wrap-around: agreement, or (C int arithmetic only) signed overflow in the compiler *)
Theorem fold_agrees_wrap E lk e v : env_ok E lk -> meval true lk e = inr v ->
  match cp_expr E e with
  | COk ae => (forall c, const_of ae = Some c -> c = v) /\ meval true lk (erase ae) = inr v /\ meval true lk (erase (opt_expr ae)) = inr v
  | CUB SignedOverflow => cp_arith E = ArithInt
  | _ => False
  end.
Proof.
  intros Henv H. destruct (fold_agrees_gen true E lk Henv e v H) as [Ha _]. unfold agrees in Ha.
  destruct (cp_expr E e) as [ae|[|]|]; try contradiction; tauto.
Qed.

Corollary fold_agrees_wrap_repaired E lk e v : cp_arith E = ArithWrap -> env_ok E lk -> meval true lk e = inr v ->
  exists ae, cp_expr E e = COk ae /\ meval true lk (erase (opt_expr ae)) = inr v.
Proof.
  intros Hm Henv H. pose proof (fold_agrees_wrap E lk e v Henv H) as Ha.
  destruct (cp_expr E e) as [ae|[|]|]; try contradiction; [exists ae; tauto|congruence].
Qed.

(* ------------------------------------------------------------------ the rewrites, for all 32-bit operands *)
Definition int32 (z : Z) : Prop := in_int z = true.

Theorem rewrite_agrees w lk l r v :
  (meval w lk (EBin Ne l r) = inr v <-> meval w lk (EUn Not (EBin Eq l r)) = inr v) /\
  (meval w lk (EBin Ge l r) = inr v <-> meval w lk (EUn Not (EBin Ls l r)) = inr v) /\
  (meval w lk (EBin Gr l r) = inr v <-> meval w lk (EBin Ls r l) = inr v) /\
  (meval w lk (EBin Le l r) = inr v <-> meval w lk (EUn Not (EBin Ls r l)) = inr v) /\
  (meval w lk (EUn Neg l) = inr v <-> meval w lk (EBin Minus (ENum 0) l) = inr v).
Proof.
  assert (B : forall o, meval w lk (EBin o l r) = inr v <-> meval w lk (rw_bin o l r) = inr v).
  { intros o. destruct (meval w lk l) as [u|a] eqn:El; destruct (meval w lk r) as [u'|b] eqn:Er.
    - split; intros H; exfalso; [cbn [meval] in H; rewrite El in H; discriminate|].
      destruct o; cbn [rw_bin meval] in H; rewrite ?El, ?Er in H; discriminate.
    - split; intros H; exfalso; [cbn [meval] in H; rewrite El in H; discriminate|].
      destruct o; cbn [rw_bin meval] in H; rewrite ?El, ?Er in H; discriminate.
    - split; intros H; exfalso; [cbn [meval] in H; rewrite El, Er in H; discriminate|].
      destruct o; cbn [rw_bin meval] in H; rewrite ?El, ?Er in H; discriminate.
    - rewrite (meval_bin w lk o l r a b El Er), (rw_bin_eval w lk o l r a b El Er). tauto. }
  repeat split; try apply (proj1 (B Ne)); try apply (proj2 (B Ne)); try apply (proj1 (B Ge)); try apply (proj2 (B Ge));
    try apply (proj1 (B Gr)); try apply (proj2 (B Gr)); try apply (proj1 (B Le)); try apply (proj2 (B Le)).
  - intros H. cbn [meval] in *. destruct (meval w lk l); [discriminate|exact H].
  - intros H. cbn [meval] in *. destruct (meval w lk l); [discriminate|exact H].
Qed.

(* value level: the operators themselves, all a b in the 32-bit range (INT_MIN included), defined or not *)
Theorem rewrite_values w a b :
  bin_ans w Ne a b = match bin_ans w Eq a b with inr z => un_ans w Not z | inl u => inl u end /\
  bin_ans w Ge a b = match bin_ans w Ls a b with inr z => un_ans w Not z | inl u => inl u end /\
  bin_ans w Gr a b = bin_ans w Ls b a /\
  bin_ans w Le a b = match bin_ans w Ls b a with inr z => un_ans w Not z | inl u => inl u end /\
  un_ans w Neg a = bin_ans w Minus 0 a.
Proof.
  cbn [bin_ans binop_ans]. repeat split.
  - symmetry. apply (not_of_bool w).
  - destruct (in_int (a - b) && in_int (b - a)); [|reflexivity]. rewrite (not_of_bool w), Z.leb_antisym. reflexivity.
  - rewrite (andb_comm (in_int (b - a))). reflexivity.
  - rewrite (andb_comm (in_int (b - a))). destruct (in_int (a - b) && in_int (b - a)); [|reflexivity].
    rewrite (not_of_bool w), Z.leb_antisym. reflexivity.
Qed.

(* ------------------------------------------------------------------ the run-time code of an ordering test *)
(* ExprCodeGen, Token::LS: LHS - RHS by SUB, then BRN: true iff the 32-bit difference is negative *)
Definition rt_less (a b : Z) : bool := Isa.negative (Isa.wrap (a mod W - b mod W)).

Lemma step_sub s inp : in_mem (pc s / 4) = true -> fetch s = 210 -> oreg s = 0 ->
  Isa.step s inp = Isa.Ok ({| pc := wrap (pc s + 1); areg := wrap (areg s - breg s); breg := breg s; oreg := 0; mem := mem s |}, inp, Tau).
Proof. intros Hm Hf Ho. unfold Isa.step. rewrite Hm, Hf, Ho. reflexivity. Qed.

Lemma step_brn s inp : in_mem (pc s / 4) = true -> fetch s / 16 = 11 ->
  Isa.step s inp = Isa.Ok ({| pc := if negative (areg s) then wrap (wrap (pc s + 1) + Z.lor (oreg s) (fetch s mod 16)) else wrap (pc s + 1);
                              areg := areg s; breg := breg s; oreg := 0; mem := mem s |}, inp, Tau).
Proof. intros Hm Hf. unfold Isa.step. rewrite Hm. cbn [negb]. cbv zeta. rewrite Hf. reflexivity. Qed.


Theorem runtime_relational a b : in_int a = true -> in_int b = true -> in_int (a - b) = true -> rt_less a b = (a <? b).
Proof.
  intros Ha Hb Hd. apply in_int_iff in Ha, Hb, Hd. unfold rt_less, Isa.negative, Isa.wrap, W.
  rewrite <- Zminus_mod. 
  destruct (Z.ltb_spec a b); [apply Z.leb_le|apply Z.leb_gt]; lia.
Qed.

(* the finding: folded `<` follows the mathematical order, the run-time code the sign of the wrapped difference *)
Theorem relational_fold_refuted :
  exists a b, in_int a = true /\ in_int b = true /\
    (forall m, fold_bin m Ls a b = COk 1) /\ rt_less a b = false /\ binop_ans Ls a b = inl CmpDiffOverflow.
Proof. exists (-2), 2147483647. repeat split. Qed.

(* on C int the folding of a wrapping + is undefined behaviour of the compiler (the defect behind fix 13) *)
Theorem fold_int_overflow :
  exists e v, meval true (fun _ => None) e = inr v /\
    cp_expr (cp_env_of ArithInt [] []) e = CUB SignedOverflow /\
    (exists ae, cp_expr (cp_env_of ArithWrap [] []) e = COk ae /\ const_of ae = Some v).
Proof. exists (EBin Plus (ENum 2147483647) (ENum 1)), (-2147483648). repeat split. eexists. split; reflexivity. Qed.

(* even a program that the X definition gives a meaning (the overflowing operand is never evaluated) *)
Definition ge0 : genv := {| g_vals := []; g_procs := []; g_maxdepth := 10 |}.
Definition st0 : state := {| gvars := []; garrs := []; out_rev := []; input := []; ncons := 0; budget := 100; cur := eff0;
                             stk := [{| f_vars := []; f_vals := []; f_depth := 0 |}] |}.
Theorem fold_int_overflow_defined_program :
  exists e, XSem.eval 10 ge0 e st0 = Ret (Vint 0) st0 /\ cp_expr (cp_env_of ArithInt [] []) e = CUB SignedOverflow.
Proof. exists (EBin And (EBool false) (EBin Eq (EBin Plus (ENum 2147483647) (ENum 1)) (ENum 0))). split; reflexivity. Qed.

(* ------------------------------------------------------------------ the full statement (not proved here) *)
(* against the effect-tracking interpreter: same value, same state up to the order in which footprints were recorded
   (OptimiseExpr swaps the operands of > and <=), for every expression -- calls, input/output and array reads
   included -- whose evaluation is defined and whose folding succeeded *)
Definition eff_equiv (a b : eff) : Prop :=
  (forall x, mem_str x (e_rd a) = mem_str x (e_rd b)) /\ (forall x, mem_str x (e_wr a) = mem_str x (e_wr b)) /\ e_io a = e_io b.
Definition state_equiv (s t : state) : Prop :=
  gvars s = gvars t /\ garrs s = garrs t /\ out_rev s = out_rev t /\ input s = input t /\ ncons s = ncons t /\
  budget s = budget t /\ stk s = stk t /\ eff_equiv (cur s) (cur t).
Definition res_equiv {A : Type} (r r' : res A) : Prop :=
  match r, r' with
  | Ret a s, Ret a' s' => a = a' /\ state_equiv s s'
  | Halt c s, Halt c' s' => c = c' /\ state_equiv s s'
  | _, _ => False
  end.
Definition vals_visible (E : cpenv) (ge : genv) (s : state) : Prop :=
  forall x z, resolve E x = NVal z -> read_var ge x s = Ret (Vint z) s.
Definition fold_agrees_full : Prop :=
  forall E ge f e s ae,
    cp_expr E e = COk ae ->
    (forall s', stk s' = stk s -> vals_visible E ge s') ->
    (forall u, eval f ge e s <> Fail u) ->
    exists f', res_equiv (eval f ge e s) (eval f' ge (erase (opt_expr ae)) s).

(* ------------------------------------------------------------------ a concrete environment (non-vacuity) *)
Definition ex_lk (x : string) : option Z :=
  if String.eqb x "a" then Some 5 else if String.eqb x "k" then Some 3 else if String.eqb x "m" then Some (-2147483648) else None.
Definition ex_env (m : arith) : cpenv := cp_env_of m [("k"%string, 3); ("m"%string, -2147483648)] ["a"%string].
Lemma ex_env_ok m : env_ok (ex_env m) ex_lk.
Proof.
  intros x z H. unfold ex_lk in H.
  destruct (String.eqb_spec x "a"); [inversion H; subst; split; [reflexivity|left; reflexivity]|].
  destruct (String.eqb_spec x "k"); [inversion H; subst; split; [reflexivity|right; reflexivity]|].
  destruct (String.eqb_spec x "m"); [inversion H; subst; split; [reflexivity|right; reflexivity]|discriminate].
Qed.

(* the expression of a val declaration: every name with a value is a val, so the whole expression is constant *)
Corollary fold_const_xsem E lk e v : env_ok E lk -> all_vals E lk -> eval_const lk e = inr v ->
  exists ae, cp_expr E e = COk ae /\ const_of ae = Some v.
Proof.
  intros Henv Hall H. rewrite <- meval_false in H.
  destruct (fold_agrees_gen false E lk Henv e v H) as [Ha _]. unfold agrees in Ha.
  destruct (cp_expr E e) as [ae|[|]|]; try contradiction; [|destruct Ha; discriminate].
  exists ae. split; [reflexivity|]. apply Ha. exact Hall.
Qed.
