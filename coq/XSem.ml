open Ascii
open BinInt
open BinNums
open Bool
open Datatypes
open FMapPositive
open List
open PeanoNat
open String
open XAst

type undef =
| UnassignedRead of string
| SubscriptRange of string * coq_Z
| ArithOverflow
| CmpDiffOverflow
| OrderDependent
| NoReturn
| WrongKindOfCall of string
| MissingActual
| Unsupported of string
| DepthExceeded
| FuelExhausted

type behaviour = { outputs : (coq_Z * coq_Z) list; consumed : nat;
                   exit_value : coq_Z }

type outcome =
| Behaviour of behaviour
| Undef of undef

(** val min_int : coq_Z **)

let min_int =
  Zneg (Coq_xO (Coq_xO (Coq_xO (Coq_xO (Coq_xO (Coq_xO (Coq_xO (Coq_xO
    (Coq_xO (Coq_xO (Coq_xO (Coq_xO (Coq_xO (Coq_xO (Coq_xO (Coq_xO (Coq_xO
    (Coq_xO (Coq_xO (Coq_xO (Coq_xO (Coq_xO (Coq_xO (Coq_xO (Coq_xO (Coq_xO
    (Coq_xO (Coq_xO (Coq_xO (Coq_xO (Coq_xO
    Coq_xH)))))))))))))))))))))))))))))))

(** val max_int : coq_Z **)

let max_int =
  Zpos (Coq_xI (Coq_xI (Coq_xI (Coq_xI (Coq_xI (Coq_xI (Coq_xI (Coq_xI
    (Coq_xI (Coq_xI (Coq_xI (Coq_xI (Coq_xI (Coq_xI (Coq_xI (Coq_xI (Coq_xI
    (Coq_xI (Coq_xI (Coq_xI (Coq_xI (Coq_xI (Coq_xI (Coq_xI (Coq_xI (Coq_xI
    (Coq_xI (Coq_xI (Coq_xI (Coq_xI Coq_xH))))))))))))))))))))))))))))))

(** val in_int : coq_Z -> bool **)

let in_int z =
  (&&) (Z.leb min_int z) (Z.leb z max_int)

(** val signed32 : coq_Z -> coq_Z **)

let signed32 n =
  let m =
    Z.modulo n (Zpos (Coq_xO (Coq_xO (Coq_xO (Coq_xO (Coq_xO (Coq_xO (Coq_xO
      (Coq_xO (Coq_xO (Coq_xO (Coq_xO (Coq_xO (Coq_xO (Coq_xO (Coq_xO (Coq_xO
      (Coq_xO (Coq_xO (Coq_xO (Coq_xO (Coq_xO (Coq_xO (Coq_xO (Coq_xO (Coq_xO
      (Coq_xO (Coq_xO (Coq_xO (Coq_xO (Coq_xO (Coq_xO (Coq_xO
      Coq_xH)))))))))))))))))))))))))))))))))
  in
  if Z.leb (Zpos (Coq_xO (Coq_xO (Coq_xO (Coq_xO (Coq_xO (Coq_xO (Coq_xO
       (Coq_xO (Coq_xO (Coq_xO (Coq_xO (Coq_xO (Coq_xO (Coq_xO (Coq_xO
       (Coq_xO (Coq_xO (Coq_xO (Coq_xO (Coq_xO (Coq_xO (Coq_xO (Coq_xO
       (Coq_xO (Coq_xO (Coq_xO (Coq_xO (Coq_xO (Coq_xO (Coq_xO (Coq_xO
       Coq_xH)))))))))))))))))))))))))))))))) m
  then Z.sub m (Zpos (Coq_xO (Coq_xO (Coq_xO (Coq_xO (Coq_xO (Coq_xO (Coq_xO
         (Coq_xO (Coq_xO (Coq_xO (Coq_xO (Coq_xO (Coq_xO (Coq_xO (Coq_xO
         (Coq_xO (Coq_xO (Coq_xO (Coq_xO (Coq_xO (Coq_xO (Coq_xO (Coq_xO
         (Coq_xO (Coq_xO (Coq_xO (Coq_xO (Coq_xO (Coq_xO (Coq_xO (Coq_xO
         (Coq_xO Coq_xH)))))))))))))))))))))))))))))))))
  else m

(** val of_bool : bool -> coq_Z **)

let of_bool = function
| true -> Zpos Coq_xH
| false -> Z0

(** val binop_ans : binop -> coq_Z -> coq_Z -> (undef, coq_Z) sum **)

let binop_ans o a b =
  let rel = fun r ->
    if (&&) (in_int (Z.sub a b)) (in_int (Z.sub b a))
    then Coq_inr (of_bool r)
    else Coq_inl CmpDiffOverflow
  in
  (match o with
   | Plus ->
     if in_int (Z.add a b) then Coq_inr (Z.add a b) else Coq_inl ArithOverflow
   | Minus ->
     if in_int (Z.sub a b) then Coq_inr (Z.sub a b) else Coq_inl ArithOverflow
   | Eq -> Coq_inr (of_bool (Z.eqb a b))
   | Ne -> Coq_inr (of_bool (negb (Z.eqb a b)))
   | Ls -> rel (Z.ltb a b)
   | Le -> rel (Z.leb a b)
   | Gr -> rel (Z.ltb b a)
   | Ge -> rel (Z.leb b a)
   | _ ->
     Coq_inl (Unsupported (String ((Ascii (true, false, false, true, false,
       true, true, false)), (String ((Ascii (false, true, true, true, false,
       true, true, false)), (String ((Ascii (false, false, true, false, true,
       true, true, false)), (String ((Ascii (true, false, true, false, false,
       true, true, false)), (String ((Ascii (false, true, false, false, true,
       true, true, false)), (String ((Ascii (false, true, true, true, false,
       true, true, false)), (String ((Ascii (true, false, false, false,
       false, true, true, false)), (String ((Ascii (false, false, true, true,
       false, true, true, false)), (String ((Ascii (false, true, false, true,
       true, true, false, false)), (String ((Ascii (false, false, false,
       false, false, true, false, false)), (String ((Ascii (false, false,
       true, true, false, true, true, false)), (String ((Ascii (true, true,
       true, true, false, true, true, false)), (String ((Ascii (true, true,
       true, false, false, true, true, false)), (String ((Ascii (true, false,
       false, true, false, true, true, false)), (String ((Ascii (true, true,
       false, false, false, true, true, false)), (String ((Ascii (true,
       false, false, false, false, true, true, false)), (String ((Ascii
       (false, false, true, true, false, true, true, false)), (String ((Ascii
       (false, false, false, false, false, true, false, false)), (String
       ((Ascii (true, true, true, true, false, true, true, false)), (String
       ((Ascii (false, false, false, false, true, true, true, false)),
       (String ((Ascii (true, false, true, false, false, true, true, false)),
       (String ((Ascii (false, true, false, false, true, true, true, false)),
       (String ((Ascii (true, false, false, false, false, true, true,
       false)), (String ((Ascii (false, false, true, false, true, true, true,
       false)), (String ((Ascii (true, true, true, true, false, true, true,
       false)), (String ((Ascii (false, true, false, false, true, true, true,
       false)),
       EmptyString))))))))))))))))))))))))))))))))))))))))))))))))))))))

type value =
| Vundef
| Vint of coq_Z
| Varr of string
| Vstr of coq_Z list

type arr = { alen : coq_Z; acells : value PositiveMap.t }

type eff = { e_rd : string list; e_wr : string list; e_io : bool }

(** val eff0 : eff **)

let eff0 =
  { e_rd = []; e_wr = []; e_io = false }

type frame = { f_vars : (string * value) list;
               f_vals : (string * coq_Z) list; f_depth : nat }

type state = { gvars : (string * value) list; garrs : (string * arr) list;
               out_rev : (coq_Z * coq_Z) list; input : coq_Z list;
               ncons : nat; budget : coq_Z; cur : eff; stk : frame list }

type genv = { g_vals : (string * coq_Z) list; g_procs : proc list;
              g_maxdepth : nat }

(** val assoc : string -> (string * 'a1) list -> 'a1 option **)

let rec assoc x = function
| [] -> None
| p :: r -> let (y, v) = p in if eqb x y then Some v else assoc x r

(** val update :
    string -> 'a1 -> (string * 'a1) list -> (string * 'a1) list **)

let rec update x v = function
| [] -> []
| p :: r ->
  let (y, w) = p in if eqb x y then (y, v) :: r else (y, w) :: (update x v r)

(** val mem_str : string -> string list -> bool **)

let rec mem_str x = function
| [] -> false
| y :: r -> (||) (eqb x y) (mem_str x r)

(** val add_str : string -> string list -> string list **)

let add_str x l =
  if mem_str x l then l else x :: l

(** val union_str : string list -> string list -> string list **)

let rec union_str a b =
  match a with
  | [] -> b
  | x :: r -> add_str x (union_str r b)

(** val inter_str : string list -> string list -> bool **)

let rec inter_str a b =
  match a with
  | [] -> false
  | x :: r -> (||) (mem_str x b) (inter_str r b)

(** val has_dup : string list -> bool **)

let rec has_dup = function
| [] -> false
| x :: r -> (||) (mem_str x r) (has_dup r)

(** val eff_union : eff -> eff -> eff **)

let eff_union a b =
  { e_rd = (union_str a.e_rd b.e_rd); e_wr = (union_str a.e_wr b.e_wr);
    e_io = ((||) a.e_io b.e_io) }

(** val conflict : eff -> eff -> bool **)

let conflict a b =
  (||)
    ((||) ((||) (inter_str a.e_wr b.e_rd) (inter_str a.e_wr b.e_wr))
      (inter_str b.e_wr a.e_rd)) ((&&) a.e_io b.e_io)

(** val conflict_any : eff -> eff list -> bool **)

let rec conflict_any a = function
| [] -> false
| b :: r -> (||) (conflict a b) (conflict_any a r)

(** val conflicts : eff list -> bool **)

let rec conflicts = function
| [] -> false
| a :: r -> (||) (conflict_any a r) (conflicts r)

(** val set_gvars : state -> (string * value) list -> state **)

let set_gvars s g =
  { gvars = g; garrs = s.garrs; out_rev = s.out_rev; input = s.input; ncons =
    s.ncons; budget = s.budget; cur = s.cur; stk = s.stk }

(** val set_garrs : state -> (string * arr) list -> state **)

let set_garrs s g =
  { gvars = s.gvars; garrs = g; out_rev = s.out_rev; input = s.input; ncons =
    s.ncons; budget = s.budget; cur = s.cur; stk = s.stk }

(** val set_cur : state -> eff -> state **)

let set_cur s c =
  { gvars = s.gvars; garrs = s.garrs; out_rev = s.out_rev; input = s.input;
    ncons = s.ncons; budget = s.budget; cur = c; stk = s.stk }

(** val set_stk : state -> frame list -> state **)

let set_stk s k =
  { gvars = s.gvars; garrs = s.garrs; out_rev = s.out_rev; input = s.input;
    ncons = s.ncons; budget = s.budget; cur = s.cur; stk = k }

(** val set_budget : state -> coq_Z -> state **)

let set_budget s b =
  { gvars = s.gvars; garrs = s.garrs; out_rev = s.out_rev; input = s.input;
    ncons = s.ncons; budget = b; cur = s.cur; stk = s.stk }

(** val note_rd : string -> state -> state **)

let note_rd x s =
  set_cur s { e_rd = (add_str x s.cur.e_rd); e_wr = s.cur.e_wr; e_io =
    s.cur.e_io }

(** val note_wr : string -> state -> state **)

let note_wr x s =
  set_cur s { e_rd = s.cur.e_rd; e_wr = (add_str x s.cur.e_wr); e_io =
    s.cur.e_io }

(** val note_io : state -> state **)

let note_io s =
  set_cur s { e_rd = s.cur.e_rd; e_wr = s.cur.e_wr; e_io = true }

(** val emit : coq_Z -> coq_Z -> state -> state **)

let emit stream byte s =
  note_io { gvars = s.gvars; garrs = s.garrs; out_rev = ((stream,
    byte) :: s.out_rev); input = s.input; ncons = s.ncons; budget = s.budget;
    cur = s.cur; stk = s.stk }

(** val consume : coq_Z list -> state -> state **)

let consume rest s =
  note_io { gvars = s.gvars; garrs = s.garrs; out_rev = s.out_rev; input =
    rest; ncons = (S s.ncons); budget = s.budget; cur = s.cur; stk = s.stk }

type 'a res =
| Ret of 'a * state
| Halt of coq_Z * state
| Fail of undef

(** val rcase :
    'a1 res -> ('a1 -> state -> 'a2 res) -> (coq_Z -> state -> 'a2 res) ->
    'a2 res **)

let rcase r kr kh =
  match r with
  | Ret (a, s) -> kr a s
  | Halt (c, s) -> kh c s
  | Fail u -> Fail u

(** val bind : 'a1 res -> ('a1 -> state -> 'a2 res) -> 'a2 res **)

let bind r k =
  rcase r k (fun c s -> Halt (c, s))

(** val with_eff : (state -> 'a1 res) -> state -> ('a1 * eff) res **)

let with_eff m s =
  rcase (m (set_cur s eff0)) (fun a s' -> Ret ((a, s'.cur),
    (set_cur s' (eff_union s.cur s'.cur)))) (fun c s' -> Halt (c, s'))

(** val tick : state -> (state -> 'a1 res) -> 'a1 res **)

let tick s k =
  if Z.leb s.budget Z0
  then Fail FuelExhausted
  else k (set_budget s (Z.sub s.budget (Zpos Coq_xH)))

(** val int_of : value -> (coq_Z -> 'a1 res) -> 'a1 res **)

let int_of v k =
  match v with
  | Vundef ->
    Fail (Unsupported (String ((Ascii (true, false, true, false, true, true,
      true, false)), (String ((Ascii (true, true, false, false, true, true,
      true, false)), (String ((Ascii (true, false, true, false, false, true,
      true, false)), (String ((Ascii (false, false, false, false, false,
      true, false, false)), (String ((Ascii (true, true, true, true, false,
      true, true, false)), (String ((Ascii (false, true, true, false, false,
      true, true, false)), (String ((Ascii (false, false, false, false,
      false, true, false, false)), (String ((Ascii (true, false, false,
      false, false, true, true, false)), (String ((Ascii (false, false,
      false, false, false, true, false, false)), (String ((Ascii (false,
      true, true, false, true, true, true, false)), (String ((Ascii (true,
      false, false, false, false, true, true, false)), (String ((Ascii
      (false, false, true, true, false, true, true, false)), (String ((Ascii
      (true, false, true, false, true, true, true, false)), (String ((Ascii
      (true, false, true, false, false, true, true, false)), (String ((Ascii
      (true, false, true, true, false, true, false, false)), (String ((Ascii
      (false, false, true, true, false, true, true, false)), (String ((Ascii
      (true, false, true, false, false, true, true, false)), (String ((Ascii
      (true, true, false, false, true, true, true, false)), (String ((Ascii
      (true, true, false, false, true, true, true, false)), (String ((Ascii
      (false, false, false, false, false, true, false, false)), (String
      ((Ascii (false, true, false, false, true, true, true, false)), (String
      ((Ascii (true, false, true, false, false, true, true, false)), (String
      ((Ascii (true, true, false, false, true, true, true, false)), (String
      ((Ascii (true, false, true, false, true, true, true, false)), (String
      ((Ascii (false, false, true, true, false, true, true, false)), (String
      ((Ascii (false, false, true, false, true, true, true, false)),
      EmptyString)))))))))))))))))))))))))))))))))))))))))))))))))))))
  | Vint n -> k n
  | _ ->
    Fail (Unsupported (String ((Ascii (true, false, false, false, false,
      true, true, false)), (String ((Ascii (false, true, false, false, true,
      true, true, false)), (String ((Ascii (false, true, false, false, true,
      true, true, false)), (String ((Ascii (true, false, false, false, false,
      true, true, false)), (String ((Ascii (true, false, false, true, true,
      true, true, false)), (String ((Ascii (false, false, false, false,
      false, true, false, false)), (String ((Ascii (true, false, true, false,
      true, true, true, false)), (String ((Ascii (true, true, false, false,
      true, true, true, false)), (String ((Ascii (true, false, true, false,
      false, true, true, false)), (String ((Ascii (false, false, true, false,
      false, true, true, false)), (String ((Ascii (false, false, false,
      false, false, true, false, false)), (String ((Ascii (true, false,
      false, false, false, true, true, false)), (String ((Ascii (true, true,
      false, false, true, true, true, false)), (String ((Ascii (false, false,
      false, false, false, true, false, false)), (String ((Ascii (true,
      false, false, false, false, true, true, false)), (String ((Ascii
      (false, true, true, true, false, true, true, false)), (String ((Ascii
      (false, false, false, false, false, true, false, false)), (String
      ((Ascii (true, false, false, true, false, true, true, false)), (String
      ((Ascii (false, true, true, true, false, true, true, false)), (String
      ((Ascii (false, false, true, false, true, true, true, false)), (String
      ((Ascii (true, false, true, false, false, true, true, false)), (String
      ((Ascii (true, true, true, false, false, true, true, false)), (String
      ((Ascii (true, false, true, false, false, true, true, false)), (String
      ((Ascii (false, true, false, false, true, true, true, false)),
      EmptyString)))))))))))))))))))))))))))))))))))))))))))))))))

(** val bool_of : value -> (bool -> 'a1 res) -> 'a1 res **)

let bool_of v k =
  int_of v (fun n ->
    if Z.eqb n Z0
    then k false
    else if Z.eqb n (Zpos Coq_xH)
         then k true
         else Fail (Unsupported (String ((Ascii (false, false, true, false,
                true, true, true, false)), (String ((Ascii (false, true,
                false, false, true, true, true, false)), (String ((Ascii
                (true, false, true, false, true, true, true, false)), (String
                ((Ascii (false, false, true, false, true, true, true,
                false)), (String ((Ascii (false, false, false, true, false,
                true, true, false)), (String ((Ascii (false, false, false,
                false, false, true, false, false)), (String ((Ascii (false,
                true, true, false, true, true, true, false)), (String ((Ascii
                (true, false, false, false, false, true, true, false)),
                (String ((Ascii (false, false, true, true, false, true, true,
                false)), (String ((Ascii (true, false, true, false, true,
                true, true, false)), (String ((Ascii (true, false, true,
                false, false, true, true, false)), (String ((Ascii (false,
                false, false, false, false, true, false, false)), (String
                ((Ascii (true, false, false, true, false, true, true,
                false)), (String ((Ascii (true, true, false, false, true,
                true, true, false)), (String ((Ascii (false, false, false,
                false, false, true, false, false)), (String ((Ascii (false,
                true, true, true, false, true, true, false)), (String ((Ascii
                (true, false, true, false, false, true, true, false)),
                (String ((Ascii (true, false, false, true, false, true, true,
                false)), (String ((Ascii (false, false, true, false, true,
                true, true, false)), (String ((Ascii (false, false, false,
                true, false, true, true, false)), (String ((Ascii (true,
                false, true, false, false, true, true, false)), (String
                ((Ascii (false, true, false, false, true, true, true,
                false)), (String ((Ascii (false, false, false, false, false,
                true, false, false)), (String ((Ascii (false, false, true,
                false, true, true, true, false)), (String ((Ascii (false,
                true, false, false, true, true, true, false)), (String
                ((Ascii (true, false, true, false, true, true, true, false)),
                (String ((Ascii (true, false, true, false, false, true, true,
                false)), (String ((Ascii (false, false, false, false, false,
                true, false, false)), (String ((Ascii (false, true, true,
                true, false, true, true, false)), (String ((Ascii (true,
                true, true, true, false, true, true, false)), (String ((Ascii
                (false, true, false, false, true, true, true, false)),
                (String ((Ascii (false, false, false, false, false, true,
                false, false)), (String ((Ascii (false, true, true, false,
                false, true, true, false)), (String ((Ascii (true, false,
                false, false, false, true, true, false)), (String ((Ascii
                (false, false, true, true, false, true, true, false)),
                (String ((Ascii (true, true, false, false, true, true, true,
                false)), (String ((Ascii (true, false, true, false, false,
                true, true, false)),
                EmptyString))))))))))))))))))))))))))))))))))))))))))))))))))))))))))))))))))))))))))))

(** val eval_const :
    (string -> coq_Z option) -> expr -> (undef, coq_Z) sum **)

let rec eval_const lk = function
| ENum n -> Coq_inr (signed32 n)
| EBool b -> Coq_inr (of_bool b)
| EVar x ->
  (match lk x with
   | Some z -> Coq_inr z
   | None ->
     Coq_inl (Unsupported (String ((Ascii (true, false, true, false, false,
       true, true, false)), (String ((Ascii (false, false, false, true, true,
       true, true, false)), (String ((Ascii (false, false, false, false,
       true, true, true, false)), (String ((Ascii (false, true, false, false,
       true, true, true, false)), (String ((Ascii (true, false, true, false,
       false, true, true, false)), (String ((Ascii (true, true, false, false,
       true, true, true, false)), (String ((Ascii (true, true, false, false,
       true, true, true, false)), (String ((Ascii (true, false, false, true,
       false, true, true, false)), (String ((Ascii (true, true, true, true,
       false, true, true, false)), (String ((Ascii (false, true, true, true,
       false, true, true, false)), (String ((Ascii (false, false, false,
       false, false, true, false, false)), (String ((Ascii (true, false,
       false, true, false, true, true, false)), (String ((Ascii (true, true,
       false, false, true, true, true, false)), (String ((Ascii (false,
       false, false, false, false, true, false, false)), (String ((Ascii
       (false, true, true, true, false, true, true, false)), (String ((Ascii
       (true, true, true, true, false, true, true, false)), (String ((Ascii
       (false, false, true, false, true, true, true, false)), (String ((Ascii
       (false, false, false, false, false, true, false, false)), (String
       ((Ascii (true, true, false, false, false, true, true, false)), (String
       ((Ascii (true, true, true, true, false, true, true, false)), (String
       ((Ascii (false, true, true, true, false, true, true, false)), (String
       ((Ascii (true, true, false, false, true, true, true, false)), (String
       ((Ascii (false, false, true, false, true, true, true, false)), (String
       ((Ascii (true, false, false, false, false, true, true, false)),
       (String ((Ascii (false, true, true, true, false, true, true, false)),
       (String ((Ascii (false, false, true, false, true, true, true, false)),
       EmptyString))))))))))))))))))))))))))))))))))))))))))))))))))))))
| EUn (o, a) ->
  (match o with
   | Neg ->
     (match eval_const lk a with
      | Coq_inl u -> Coq_inl u
      | Coq_inr z ->
        if in_int (Z.sub Z0 z)
        then Coq_inr (Z.sub Z0 z)
        else Coq_inl ArithOverflow)
   | Not ->
     (match eval_const lk a with
      | Coq_inl u -> Coq_inl u
      | Coq_inr z ->
        if Z.eqb z Z0
        then Coq_inr (Zpos Coq_xH)
        else if Z.eqb z (Zpos Coq_xH)
             then Coq_inr Z0
             else Coq_inl (Unsupported (String ((Ascii (false, false, true,
                    false, true, true, true, false)), (String ((Ascii (false,
                    true, false, false, true, true, true, false)), (String
                    ((Ascii (true, false, true, false, true, true, true,
                    false)), (String ((Ascii (false, false, true, false,
                    true, true, true, false)), (String ((Ascii (false, false,
                    false, true, false, true, true, false)), (String ((Ascii
                    (false, false, false, false, false, true, false, false)),
                    (String ((Ascii (false, true, true, false, true, true,
                    true, false)), (String ((Ascii (true, false, false,
                    false, false, true, true, false)), (String ((Ascii
                    (false, false, true, true, false, true, true, false)),
                    (String ((Ascii (true, false, true, false, true, true,
                    true, false)), (String ((Ascii (true, false, true, false,
                    false, true, true, false)), (String ((Ascii (false,
                    false, false, false, false, true, false, false)), (String
                    ((Ascii (true, false, false, true, false, true, true,
                    false)), (String ((Ascii (true, true, false, false, true,
                    true, true, false)), (String ((Ascii (false, false,
                    false, false, false, true, false, false)), (String
                    ((Ascii (false, true, true, true, false, true, true,
                    false)), (String ((Ascii (true, false, true, false,
                    false, true, true, false)), (String ((Ascii (true, false,
                    false, true, false, true, true, false)), (String ((Ascii
                    (false, false, true, false, true, true, true, false)),
                    (String ((Ascii (false, false, false, true, false, true,
                    true, false)), (String ((Ascii (true, false, true, false,
                    false, true, true, false)), (String ((Ascii (false, true,
                    false, false, true, true, true, false)), (String ((Ascii
                    (false, false, false, false, false, true, false, false)),
                    (String ((Ascii (false, false, true, false, true, true,
                    true, false)), (String ((Ascii (false, true, false,
                    false, true, true, true, false)), (String ((Ascii (true,
                    false, true, false, true, true, true, false)), (String
                    ((Ascii (true, false, true, false, false, true, true,
                    false)), (String ((Ascii (false, false, false, false,
                    false, true, false, false)), (String ((Ascii (false,
                    true, true, true, false, true, true, false)), (String
                    ((Ascii (true, true, true, true, false, true, true,
                    false)), (String ((Ascii (false, true, false, false,
                    true, true, true, false)), (String ((Ascii (false, false,
                    false, false, false, true, false, false)), (String
                    ((Ascii (false, true, true, false, false, true, true,
                    false)), (String ((Ascii (true, false, false, false,
                    false, true, true, false)), (String ((Ascii (false,
                    false, true, true, false, true, true, false)), (String
                    ((Ascii (true, true, false, false, true, true, true,
                    false)), (String ((Ascii (true, false, true, false,
                    false, true, true, false)),
                    EmptyString)))))))))))))))))))))))))))))))))))))))))))))))))))))))))))))))))))))))))))))
| EBin (o, l, r) ->
  (match eval_const lk l with
   | Coq_inl u -> Coq_inl u
   | Coq_inr a ->
     (match eval_const lk r with
      | Coq_inl u -> Coq_inl u
      | Coq_inr b ->
        (match o with
         | Or ->
           if (&&) ((||) (Z.eqb a Z0) (Z.eqb a (Zpos Coq_xH)))
                ((||) (Z.eqb b Z0) (Z.eqb b (Zpos Coq_xH)))
           then Coq_inr
                  (match o with
                   | And -> if Z.eqb a Z0 then Z0 else b
                   | _ -> if Z.eqb a Z0 then b else Zpos Coq_xH)
           else Coq_inl (Unsupported (String ((Ascii (false, false, true,
                  false, true, true, true, false)), (String ((Ascii (false,
                  true, false, false, true, true, true, false)), (String
                  ((Ascii (true, false, true, false, true, true, true,
                  false)), (String ((Ascii (false, false, true, false, true,
                  true, true, false)), (String ((Ascii (false, false, false,
                  true, false, true, true, false)), (String ((Ascii (false,
                  false, false, false, false, true, false, false)), (String
                  ((Ascii (false, true, true, false, true, true, true,
                  false)), (String ((Ascii (true, false, false, false, false,
                  true, true, false)), (String ((Ascii (false, false, true,
                  true, false, true, true, false)), (String ((Ascii (true,
                  false, true, false, true, true, true, false)), (String
                  ((Ascii (true, false, true, false, false, true, true,
                  false)), (String ((Ascii (false, false, false, false,
                  false, true, false, false)), (String ((Ascii (true, false,
                  false, true, false, true, true, false)), (String ((Ascii
                  (true, true, false, false, true, true, true, false)),
                  (String ((Ascii (false, false, false, false, false, true,
                  false, false)), (String ((Ascii (false, true, true, true,
                  false, true, true, false)), (String ((Ascii (true, false,
                  true, false, false, true, true, false)), (String ((Ascii
                  (true, false, false, true, false, true, true, false)),
                  (String ((Ascii (false, false, true, false, true, true,
                  true, false)), (String ((Ascii (false, false, false, true,
                  false, true, true, false)), (String ((Ascii (true, false,
                  true, false, false, true, true, false)), (String ((Ascii
                  (false, true, false, false, true, true, true, false)),
                  (String ((Ascii (false, false, false, false, false, true,
                  false, false)), (String ((Ascii (false, false, true, false,
                  true, true, true, false)), (String ((Ascii (false, true,
                  false, false, true, true, true, false)), (String ((Ascii
                  (true, false, true, false, true, true, true, false)),
                  (String ((Ascii (true, false, true, false, false, true,
                  true, false)), (String ((Ascii (false, false, false, false,
                  false, true, false, false)), (String ((Ascii (false, true,
                  true, true, false, true, true, false)), (String ((Ascii
                  (true, true, true, true, false, true, true, false)),
                  (String ((Ascii (false, true, false, false, true, true,
                  true, false)), (String ((Ascii (false, false, false, false,
                  false, true, false, false)), (String ((Ascii (false, true,
                  true, false, false, true, true, false)), (String ((Ascii
                  (true, false, false, false, false, true, true, false)),
                  (String ((Ascii (false, false, true, true, false, true,
                  true, false)), (String ((Ascii (true, true, false, false,
                  true, true, true, false)), (String ((Ascii (true, false,
                  true, false, false, true, true, false)),
                  EmptyString)))))))))))))))))))))))))))))))))))))))))))))))))))))))))))))))))))))))))))
         | And ->
           if (&&) ((||) (Z.eqb a Z0) (Z.eqb a (Zpos Coq_xH)))
                ((||) (Z.eqb b Z0) (Z.eqb b (Zpos Coq_xH)))
           then Coq_inr
                  (match o with
                   | And -> if Z.eqb a Z0 then Z0 else b
                   | _ -> if Z.eqb a Z0 then b else Zpos Coq_xH)
           else Coq_inl (Unsupported (String ((Ascii (false, false, true,
                  false, true, true, true, false)), (String ((Ascii (false,
                  true, false, false, true, true, true, false)), (String
                  ((Ascii (true, false, true, false, true, true, true,
                  false)), (String ((Ascii (false, false, true, false, true,
                  true, true, false)), (String ((Ascii (false, false, false,
                  true, false, true, true, false)), (String ((Ascii (false,
                  false, false, false, false, true, false, false)), (String
                  ((Ascii (false, true, true, false, true, true, true,
                  false)), (String ((Ascii (true, false, false, false, false,
                  true, true, false)), (String ((Ascii (false, false, true,
                  true, false, true, true, false)), (String ((Ascii (true,
                  false, true, false, true, true, true, false)), (String
                  ((Ascii (true, false, true, false, false, true, true,
                  false)), (String ((Ascii (false, false, false, false,
                  false, true, false, false)), (String ((Ascii (true, false,
                  false, true, false, true, true, false)), (String ((Ascii
                  (true, true, false, false, true, true, true, false)),
                  (String ((Ascii (false, false, false, false, false, true,
                  false, false)), (String ((Ascii (false, true, true, true,
                  false, true, true, false)), (String ((Ascii (true, false,
                  true, false, false, true, true, false)), (String ((Ascii
                  (true, false, false, true, false, true, true, false)),
                  (String ((Ascii (false, false, true, false, true, true,
                  true, false)), (String ((Ascii (false, false, false, true,
                  false, true, true, false)), (String ((Ascii (true, false,
                  true, false, false, true, true, false)), (String ((Ascii
                  (false, true, false, false, true, true, true, false)),
                  (String ((Ascii (false, false, false, false, false, true,
                  false, false)), (String ((Ascii (false, false, true, false,
                  true, true, true, false)), (String ((Ascii (false, true,
                  false, false, true, true, true, false)), (String ((Ascii
                  (true, false, true, false, true, true, true, false)),
                  (String ((Ascii (true, false, true, false, false, true,
                  true, false)), (String ((Ascii (false, false, false, false,
                  false, true, false, false)), (String ((Ascii (false, true,
                  true, true, false, true, true, false)), (String ((Ascii
                  (true, true, true, true, false, true, true, false)),
                  (String ((Ascii (false, true, false, false, true, true,
                  true, false)), (String ((Ascii (false, false, false, false,
                  false, true, false, false)), (String ((Ascii (false, true,
                  true, false, false, true, true, false)), (String ((Ascii
                  (true, false, false, false, false, true, true, false)),
                  (String ((Ascii (false, false, true, true, false, true,
                  true, false)), (String ((Ascii (true, true, false, false,
                  true, true, true, false)), (String ((Ascii (true, false,
                  true, false, false, true, true, false)),
                  EmptyString)))))))))))))))))))))))))))))))))))))))))))))))))))))))))))))))))))))))))))
         | _ -> binop_ans o a b)))
| _ ->
  Coq_inl (Unsupported (String ((Ascii (true, false, true, false, false,
    true, true, false)), (String ((Ascii (false, false, false, true, true,
    true, true, false)), (String ((Ascii (false, false, false, false, true,
    true, true, false)), (String ((Ascii (false, true, false, false, true,
    true, true, false)), (String ((Ascii (true, false, true, false, false,
    true, true, false)), (String ((Ascii (true, true, false, false, true,
    true, true, false)), (String ((Ascii (true, true, false, false, true,
    true, true, false)), (String ((Ascii (true, false, false, true, false,
    true, true, false)), (String ((Ascii (true, true, true, true, false,
    true, true, false)), (String ((Ascii (false, true, true, true, false,
    true, true, false)), (String ((Ascii (false, false, false, false, false,
    true, false, false)), (String ((Ascii (true, false, false, true, false,
    true, true, false)), (String ((Ascii (true, true, false, false, true,
    true, true, false)), (String ((Ascii (false, false, false, false, false,
    true, false, false)), (String ((Ascii (false, true, true, true, false,
    true, true, false)), (String ((Ascii (true, true, true, true, false,
    true, true, false)), (String ((Ascii (false, false, true, false, true,
    true, true, false)), (String ((Ascii (false, false, false, false, false,
    true, false, false)), (String ((Ascii (true, true, false, false, false,
    true, true, false)), (String ((Ascii (true, true, true, true, false,
    true, true, false)), (String ((Ascii (false, true, true, true, false,
    true, true, false)), (String ((Ascii (true, true, false, false, true,
    true, true, false)), (String ((Ascii (false, false, true, false, true,
    true, true, false)), (String ((Ascii (true, false, false, false, false,
    true, true, false)), (String ((Ascii (false, true, true, true, false,
    true, true, false)), (String ((Ascii (false, false, true, false, true,
    true, true, false)),
    EmptyString)))))))))))))))))))))))))))))))))))))))))))))))))))))

(** val words_of : coq_Z list -> coq_Z list **)

let rec words_of = function
| [] -> []
| b0 :: l ->
  (match l with
   | [] -> b0 :: []
   | b1 :: l0 ->
     (match l0 with
      | [] ->
        (Z.add b0
          (Z.mul (Zpos (Coq_xO (Coq_xO (Coq_xO (Coq_xO (Coq_xO (Coq_xO
            (Coq_xO (Coq_xO Coq_xH))))))))) b1)) :: []
      | b2 :: l1 ->
        (match l1 with
         | [] ->
           (Z.add
             (Z.add b0
               (Z.mul (Zpos (Coq_xO (Coq_xO (Coq_xO (Coq_xO (Coq_xO (Coq_xO
                 (Coq_xO (Coq_xO Coq_xH))))))))) b1))
             (Z.mul (Zpos (Coq_xO (Coq_xO (Coq_xO (Coq_xO (Coq_xO (Coq_xO
               (Coq_xO (Coq_xO (Coq_xO (Coq_xO (Coq_xO (Coq_xO (Coq_xO
               (Coq_xO (Coq_xO (Coq_xO Coq_xH))))))))))))))))) b2)) :: []
         | b3 :: r ->
           (Z.add
             (Z.add
               (Z.add b0
                 (Z.mul (Zpos (Coq_xO (Coq_xO (Coq_xO (Coq_xO (Coq_xO (Coq_xO
                   (Coq_xO (Coq_xO Coq_xH))))))))) b1))
               (Z.mul (Zpos (Coq_xO (Coq_xO (Coq_xO (Coq_xO (Coq_xO (Coq_xO
                 (Coq_xO (Coq_xO (Coq_xO (Coq_xO (Coq_xO (Coq_xO (Coq_xO
                 (Coq_xO (Coq_xO (Coq_xO Coq_xH))))))))))))))))) b2))
             (Z.mul (Zpos (Coq_xO (Coq_xO (Coq_xO (Coq_xO (Coq_xO (Coq_xO
               (Coq_xO (Coq_xO (Coq_xO (Coq_xO (Coq_xO (Coq_xO (Coq_xO
               (Coq_xO (Coq_xO (Coq_xO (Coq_xO (Coq_xO (Coq_xO (Coq_xO
               (Coq_xO (Coq_xO (Coq_xO (Coq_xO
               Coq_xH))))))))))))))))))))))))) b3)) :: (words_of r))))

(** val is_byte : coq_Z -> bool **)

let is_byte b =
  (&&) (Z.leb Z0 b)
    (Z.ltb b (Zpos (Coq_xO (Coq_xO (Coq_xO (Coq_xO (Coq_xO (Coq_xO (Coq_xO
      Coq_xH)))))))))

(** val pack_string : coq_Z list -> coq_Z list option **)

let pack_string bs =
  if (&&) (forallb is_byte bs)
       (Z.ltb (Z.of_nat (length bs)) (Zpos (Coq_xO (Coq_xO (Coq_xO (Coq_xO
         (Coq_xO (Coq_xO (Coq_xO (Coq_xO Coq_xH))))))))))
  then Some (words_of ((Z.of_nat (length bs)) :: bs))
  else None

(** val top : state -> frame **)

let top s =
  match s.stk with
  | [] -> { f_vars = []; f_vals = []; f_depth = O }
  | fr :: _ -> fr

(** val read_var : genv -> string -> state -> value res **)

let read_var ge x s =
  match assoc x (top s).f_vars with
  | Some v ->
    (match v with
     | Vundef -> Fail (UnassignedRead x)
     | _ -> Ret (v, s))
  | None ->
    (match assoc x (top s).f_vals with
     | Some z -> Ret ((Vint z), s)
     | None ->
       (match assoc x ge.g_vals with
        | Some z -> Ret ((Vint z), s)
        | None ->
          (match assoc x s.gvars with
           | Some v ->
             (match v with
              | Vundef -> Fail (UnassignedRead x)
              | _ -> Ret (v, (note_rd x s)))
           | None ->
             (match assoc x s.garrs with
              | Some _ -> Ret ((Varr x), s)
              | None ->
                Fail (Unsupported (String ((Ascii (true, false, true, false,
                  true, true, true, false)), (String ((Ascii (false, true,
                  true, true, false, true, true, false)), (String ((Ascii
                  (true, true, false, true, false, true, true, false)),
                  (String ((Ascii (false, true, true, true, false, true,
                  true, false)), (String ((Ascii (true, true, true, true,
                  false, true, true, false)), (String ((Ascii (true, true,
                  true, false, true, true, true, false)), (String ((Ascii
                  (false, true, true, true, false, true, true, false)),
                  (String ((Ascii (false, false, false, false, false, true,
                  false, false)), (String ((Ascii (false, true, true, true,
                  false, true, true, false)), (String ((Ascii (true, false,
                  false, false, false, true, true, false)), (String ((Ascii
                  (true, false, true, true, false, true, true, false)),
                  (String ((Ascii (true, false, true, false, false, true,
                  true, false)), (String ((Ascii (false, false, false, false,
                  false, true, false, false)), (String ((Ascii (true, true,
                  true, true, false, true, true, false)), (String ((Ascii
                  (false, true, false, false, true, true, true, false)),
                  (String ((Ascii (false, false, false, false, false, true,
                  false, false)), (String ((Ascii (false, false, false,
                  false, true, true, true, false)), (String ((Ascii (false,
                  true, false, false, true, true, true, false)), (String
                  ((Ascii (true, true, true, true, false, true, true,
                  false)), (String ((Ascii (true, true, false, false, false,
                  true, true, false)), (String ((Ascii (true, false, true,
                  false, false, true, true, false)), (String ((Ascii (false,
                  false, true, false, false, true, true, false)), (String
                  ((Ascii (true, false, true, false, true, true, true,
                  false)), (String ((Ascii (false, true, false, false, true,
                  true, true, false)), (String ((Ascii (true, false, true,
                  false, false, true, true, false)), (String ((Ascii (false,
                  false, false, false, false, true, false, false)), (String
                  ((Ascii (true, false, true, false, true, true, true,
                  false)), (String ((Ascii (true, true, false, false, true,
                  true, true, false)), (String ((Ascii (true, false, true,
                  false, false, true, true, false)), (String ((Ascii (false,
                  false, true, false, false, true, true, false)), (String
                  ((Ascii (false, false, false, false, false, true, false,
                  false)), (String ((Ascii (true, false, false, false, false,
                  true, true, false)), (String ((Ascii (true, true, false,
                  false, true, true, true, false)), (String ((Ascii (false,
                  false, false, false, false, true, false, false)), (String
                  ((Ascii (true, false, false, false, false, true, true,
                  false)), (String ((Ascii (false, false, false, false,
                  false, true, false, false)), (String ((Ascii (false, true,
                  true, false, true, true, true, false)), (String ((Ascii
                  (true, false, false, false, false, true, true, false)),
                  (String ((Ascii (false, false, true, true, false, true,
                  true, false)), (String ((Ascii (true, false, true, false,
                  true, true, true, false)), (String ((Ascii (true, false,
                  true, false, false, true, true, false)),
                  EmptyString)))))))))))))))))))))))))))))))))))))))))))))))))))))))))))))))))))))))))))))))))))))))

(** val resolve_array : genv -> string -> state -> value res **)

let resolve_array _ a s =
  match assoc a (top s).f_vars with
  | Some v ->
    (match v with
     | Vundef -> Fail (UnassignedRead a)
     | Vint _ ->
       Fail (Unsupported (String ((Ascii (true, true, false, false, true,
         true, true, false)), (String ((Ascii (true, false, true, false,
         true, true, true, false)), (String ((Ascii (false, true, false,
         false, false, true, true, false)), (String ((Ascii (true, true,
         false, false, true, true, true, false)), (String ((Ascii (true,
         true, false, false, false, true, true, false)), (String ((Ascii
         (false, true, false, false, true, true, true, false)), (String
         ((Ascii (true, false, false, true, false, true, true, false)),
         (String ((Ascii (false, false, false, false, true, true, true,
         false)), (String ((Ascii (false, false, true, false, true, true,
         true, false)), (String ((Ascii (false, false, false, false, false,
         true, false, false)), (String ((Ascii (true, true, true, true,
         false, true, true, false)), (String ((Ascii (false, true, true,
         false, false, true, true, false)), (String ((Ascii (false, false,
         false, false, false, true, false, false)), (String ((Ascii (true,
         false, false, false, false, true, true, false)), (String ((Ascii
         (false, false, false, false, false, true, false, false)), (String
         ((Ascii (false, true, true, true, false, true, true, false)),
         (String ((Ascii (true, true, true, true, false, true, true, false)),
         (String ((Ascii (false, true, true, true, false, true, true,
         false)), (String ((Ascii (true, false, true, true, false, true,
         false, false)), (String ((Ascii (true, false, false, false, false,
         true, true, false)), (String ((Ascii (false, true, false, false,
         true, true, true, false)), (String ((Ascii (false, true, false,
         false, true, true, true, false)), (String ((Ascii (true, false,
         false, false, false, true, true, false)), (String ((Ascii (true,
         false, false, true, true, true, true, false)),
         EmptyString)))))))))))))))))))))))))))))))))))))))))))))))))
     | x -> Ret (x, s))
  | None ->
    (match assoc a (top s).f_vals with
     | Some _ ->
       Fail (Unsupported (String ((Ascii (true, true, false, false, true,
         true, true, false)), (String ((Ascii (true, false, true, false,
         true, true, true, false)), (String ((Ascii (false, true, false,
         false, false, true, true, false)), (String ((Ascii (true, true,
         false, false, true, true, true, false)), (String ((Ascii (true,
         true, false, false, false, true, true, false)), (String ((Ascii
         (false, true, false, false, true, true, true, false)), (String
         ((Ascii (true, false, false, true, false, true, true, false)),
         (String ((Ascii (false, false, false, false, true, true, true,
         false)), (String ((Ascii (false, false, true, false, true, true,
         true, false)), (String ((Ascii (false, false, false, false, false,
         true, false, false)), (String ((Ascii (true, true, true, true,
         false, true, true, false)), (String ((Ascii (false, true, true,
         false, false, true, true, false)), (String ((Ascii (false, false,
         false, false, false, true, false, false)), (String ((Ascii (true,
         false, false, false, false, true, true, false)), (String ((Ascii
         (false, false, false, false, false, true, false, false)), (String
         ((Ascii (false, true, true, true, false, true, true, false)),
         (String ((Ascii (true, true, true, true, false, true, true, false)),
         (String ((Ascii (false, true, true, true, false, true, true,
         false)), (String ((Ascii (true, false, true, true, false, true,
         false, false)), (String ((Ascii (true, false, false, false, false,
         true, true, false)), (String ((Ascii (false, true, false, false,
         true, true, true, false)), (String ((Ascii (false, true, false,
         false, true, true, true, false)), (String ((Ascii (true, false,
         false, false, false, true, true, false)), (String ((Ascii (true,
         false, false, true, true, true, true, false)),
         EmptyString)))))))))))))))))))))))))))))))))))))))))))))))))
     | None ->
       (match assoc a s.garrs with
        | Some _ -> Ret ((Varr a), s)
        | None ->
          Fail (Unsupported (String ((Ascii (true, true, false, false, true,
            true, true, false)), (String ((Ascii (true, false, true, false,
            true, true, true, false)), (String ((Ascii (false, true, false,
            false, false, true, true, false)), (String ((Ascii (true, true,
            false, false, true, true, true, false)), (String ((Ascii (true,
            true, false, false, false, true, true, false)), (String ((Ascii
            (false, true, false, false, true, true, true, false)), (String
            ((Ascii (true, false, false, true, false, true, true, false)),
            (String ((Ascii (false, false, false, false, true, true, true,
            false)), (String ((Ascii (false, false, true, false, true, true,
            true, false)), (String ((Ascii (false, false, false, false,
            false, true, false, false)), (String ((Ascii (true, true, true,
            true, false, true, true, false)), (String ((Ascii (false, true,
            true, false, false, true, true, false)), (String ((Ascii (false,
            false, false, false, false, true, false, false)), (String ((Ascii
            (true, false, false, false, false, true, true, false)), (String
            ((Ascii (false, false, false, false, false, true, false, false)),
            (String ((Ascii (false, true, true, true, false, true, true,
            false)), (String ((Ascii (true, true, true, true, false, true,
            true, false)), (String ((Ascii (false, true, true, true, false,
            true, true, false)), (String ((Ascii (true, false, true, true,
            false, true, false, false)), (String ((Ascii (true, false, false,
            false, false, true, true, false)), (String ((Ascii (false, true,
            false, false, true, true, true, false)), (String ((Ascii (false,
            true, false, false, true, true, true, false)), (String ((Ascii
            (true, false, false, false, false, true, true, false)), (String
            ((Ascii (true, false, false, true, true, true, true, false)),
            EmptyString)))))))))))))))))))))))))))))))))))))))))))))))))))

(** val cell : coq_Z -> positive **)

let cell i =
  Z.to_pos (Z.add i (Zpos Coq_xH))

(** val read_elem : value -> string -> coq_Z -> state -> value res **)

let read_elem av a i s =
  match av with
  | Varr g ->
    (match assoc g s.garrs with
     | Some ar ->
       if (&&) (Z.leb Z0 i) (Z.ltb i ar.alen)
       then (match PositiveMap.find (cell i) ar.acells with
             | Some v ->
               (match v with
                | Vint n -> Ret ((Vint n), (note_rd g s))
                | _ -> Fail (UnassignedRead a))
             | None -> Fail (UnassignedRead a))
       else Fail (SubscriptRange (a, i))
     | None ->
       Fail (Unsupported (String ((Ascii (true, false, true, false, true,
         true, true, false)), (String ((Ascii (false, true, true, true,
         false, true, true, false)), (String ((Ascii (true, true, false,
         true, false, true, true, false)), (String ((Ascii (false, true,
         true, true, false, true, true, false)), (String ((Ascii (true, true,
         true, true, false, true, true, false)), (String ((Ascii (true, true,
         true, false, true, true, true, false)), (String ((Ascii (false,
         true, true, true, false, true, true, false)), (String ((Ascii
         (false, false, false, false, false, true, false, false)), (String
         ((Ascii (true, false, false, false, false, true, true, false)),
         (String ((Ascii (false, true, false, false, true, true, true,
         false)), (String ((Ascii (false, true, false, false, true, true,
         true, false)), (String ((Ascii (true, false, false, false, false,
         true, true, false)), (String ((Ascii (true, false, false, true,
         true, true, true, false)), EmptyString))))))))))))))))))))))))))))
  | Vstr ws ->
    if (&&) (Z.leb Z0 i) (Z.ltb i (Z.of_nat (length ws)))
    then Ret ((Vint (signed32 (nth (Z.to_nat i) ws Z0))), s)
    else Fail (SubscriptRange (a, i))
  | _ ->
    Fail (Unsupported (String ((Ascii (true, true, false, false, true, true,
      true, false)), (String ((Ascii (true, false, true, false, true, true,
      true, false)), (String ((Ascii (false, true, false, false, false, true,
      true, false)), (String ((Ascii (true, true, false, false, true, true,
      true, false)), (String ((Ascii (true, true, false, false, false, true,
      true, false)), (String ((Ascii (false, true, false, false, true, true,
      true, false)), (String ((Ascii (true, false, false, true, false, true,
      true, false)), (String ((Ascii (false, false, false, false, true, true,
      true, false)), (String ((Ascii (false, false, true, false, true, true,
      true, false)), (String ((Ascii (false, false, false, false, false,
      true, false, false)), (String ((Ascii (true, true, true, true, false,
      true, true, false)), (String ((Ascii (false, true, true, false, false,
      true, true, false)), (String ((Ascii (false, false, false, false,
      false, true, false, false)), (String ((Ascii (true, false, false,
      false, false, true, true, false)), (String ((Ascii (false, false,
      false, false, false, true, false, false)), (String ((Ascii (false,
      true, true, true, false, true, true, false)), (String ((Ascii (true,
      true, true, true, false, true, true, false)), (String ((Ascii (false,
      true, true, true, false, true, true, false)), (String ((Ascii (true,
      false, true, true, false, true, false, false)), (String ((Ascii (true,
      false, false, false, false, true, true, false)), (String ((Ascii
      (false, true, false, false, true, true, true, false)), (String ((Ascii
      (false, true, false, false, true, true, true, false)), (String ((Ascii
      (true, false, false, false, false, true, true, false)), (String ((Ascii
      (true, false, false, true, true, true, true, false)),
      EmptyString)))))))))))))))))))))))))))))))))))))))))))))))))

type flow =
| Normal
| Returned of value

(** val write_elem :
    value -> string -> coq_Z -> coq_Z -> state -> flow res **)

let write_elem av a i n s =
  match av with
  | Varr g ->
    (match assoc g s.garrs with
     | Some ar ->
       if (&&) (Z.leb Z0 i) (Z.ltb i ar.alen)
       then Ret (Normal,
              (note_wr g
                (set_garrs s
                  (update g { alen = ar.alen; acells =
                    (PositiveMap.add (cell i) (Vint n) ar.acells) } s.garrs))))
       else Fail (SubscriptRange (a, i))
     | None ->
       Fail (Unsupported (String ((Ascii (true, false, true, false, true,
         true, true, false)), (String ((Ascii (false, true, true, true,
         false, true, true, false)), (String ((Ascii (true, true, false,
         true, false, true, true, false)), (String ((Ascii (false, true,
         true, true, false, true, true, false)), (String ((Ascii (true, true,
         true, true, false, true, true, false)), (String ((Ascii (true, true,
         true, false, true, true, true, false)), (String ((Ascii (false,
         true, true, true, false, true, true, false)), (String ((Ascii
         (false, false, false, false, false, true, false, false)), (String
         ((Ascii (true, false, false, false, false, true, true, false)),
         (String ((Ascii (false, true, false, false, true, true, true,
         false)), (String ((Ascii (false, true, false, false, true, true,
         true, false)), (String ((Ascii (true, false, false, false, false,
         true, true, false)), (String ((Ascii (true, false, false, true,
         true, true, true, false)), EmptyString))))))))))))))))))))))))))))
  | Vstr _ ->
    Fail (Unsupported (String ((Ascii (true, false, false, false, false,
      true, true, false)), (String ((Ascii (true, true, false, false, true,
      true, true, false)), (String ((Ascii (true, true, false, false, true,
      true, true, false)), (String ((Ascii (true, false, false, true, false,
      true, true, false)), (String ((Ascii (true, true, true, false, false,
      true, true, false)), (String ((Ascii (false, true, true, true, false,
      true, true, false)), (String ((Ascii (true, false, true, true, false,
      true, true, false)), (String ((Ascii (true, false, true, false, false,
      true, true, false)), (String ((Ascii (false, true, true, true, false,
      true, true, false)), (String ((Ascii (false, false, true, false, true,
      true, true, false)), (String ((Ascii (false, false, false, false,
      false, true, false, false)), (String ((Ascii (true, false, false, true,
      false, true, true, false)), (String ((Ascii (false, true, true, true,
      false, true, true, false)), (String ((Ascii (false, false, true, false,
      true, true, true, false)), (String ((Ascii (true, true, true, true,
      false, true, true, false)), (String ((Ascii (false, false, false,
      false, false, true, false, false)), (String ((Ascii (true, false,
      false, false, false, true, true, false)), (String ((Ascii (false,
      false, false, false, false, true, false, false)), (String ((Ascii
      (true, true, false, false, true, true, true, false)), (String ((Ascii
      (false, false, true, false, true, true, true, false)), (String ((Ascii
      (false, true, false, false, true, true, true, false)), (String ((Ascii
      (true, false, false, true, false, true, true, false)), (String ((Ascii
      (false, true, true, true, false, true, true, false)), (String ((Ascii
      (true, true, true, false, false, true, true, false)), (String ((Ascii
      (false, false, false, false, false, true, false, false)), (String
      ((Ascii (false, false, true, true, false, true, true, false)), (String
      ((Ascii (true, false, false, true, false, true, true, false)), (String
      ((Ascii (false, false, true, false, true, true, true, false)), (String
      ((Ascii (true, false, true, false, false, true, true, false)), (String
      ((Ascii (false, true, false, false, true, true, true, false)), (String
      ((Ascii (true, false, false, false, false, true, true, false)), (String
      ((Ascii (false, false, true, true, false, true, true, false)),
      EmptyString)))))))))))))))))))))))))))))))))))))))))))))))))))))))))))))))))
  | _ ->
    Fail (Unsupported (String ((Ascii (true, true, false, false, true, true,
      true, false)), (String ((Ascii (true, false, true, false, true, true,
      true, false)), (String ((Ascii (false, true, false, false, false, true,
      true, false)), (String ((Ascii (true, true, false, false, true, true,
      true, false)), (String ((Ascii (true, true, false, false, false, true,
      true, false)), (String ((Ascii (false, true, false, false, true, true,
      true, false)), (String ((Ascii (true, false, false, true, false, true,
      true, false)), (String ((Ascii (false, false, false, false, true, true,
      true, false)), (String ((Ascii (false, false, true, false, true, true,
      true, false)), (String ((Ascii (false, false, false, false, false,
      true, false, false)), (String ((Ascii (true, true, true, true, false,
      true, true, false)), (String ((Ascii (false, true, true, false, false,
      true, true, false)), (String ((Ascii (false, false, false, false,
      false, true, false, false)), (String ((Ascii (true, false, false,
      false, false, true, true, false)), (String ((Ascii (false, false,
      false, false, false, true, false, false)), (String ((Ascii (false,
      true, true, true, false, true, true, false)), (String ((Ascii (true,
      true, true, true, false, true, true, false)), (String ((Ascii (false,
      true, true, true, false, true, true, false)), (String ((Ascii (true,
      false, true, true, false, true, false, false)), (String ((Ascii (true,
      false, false, false, false, true, true, false)), (String ((Ascii
      (false, true, false, false, true, true, true, false)), (String ((Ascii
      (false, true, false, false, true, true, true, false)), (String ((Ascii
      (true, false, false, false, false, true, true, false)), (String ((Ascii
      (true, false, false, true, true, true, true, false)),
      EmptyString)))))))))))))))))))))))))))))))))))))))))))))))))

(** val assign : genv -> string -> coq_Z -> state -> flow res **)

let assign ge x n s =
  match s.stk with
  | [] ->
    Fail (Unsupported (String ((Ascii (true, false, false, true, false, true,
      true, false)), (String ((Ascii (false, true, true, true, false, true,
      true, false)), (String ((Ascii (false, false, true, false, true, true,
      true, false)), (String ((Ascii (true, false, true, false, false, true,
      true, false)), (String ((Ascii (false, true, false, false, true, true,
      true, false)), (String ((Ascii (false, true, true, true, false, true,
      true, false)), (String ((Ascii (true, false, false, false, false, true,
      true, false)), (String ((Ascii (false, false, true, true, false, true,
      true, false)), (String ((Ascii (false, true, false, true, true, true,
      false, false)), (String ((Ascii (false, false, false, false, false,
      true, false, false)), (String ((Ascii (false, true, true, true, false,
      true, true, false)), (String ((Ascii (true, true, true, true, false,
      true, true, false)), (String ((Ascii (false, false, false, false,
      false, true, false, false)), (String ((Ascii (false, true, true, false,
      false, true, true, false)), (String ((Ascii (false, true, false, false,
      true, true, true, false)), (String ((Ascii (true, false, false, false,
      false, true, true, false)), (String ((Ascii (true, false, true, true,
      false, true, true, false)), (String ((Ascii (true, false, true, false,
      false, true, true, false)),
      EmptyString)))))))))))))))))))))))))))))))))))))
  | fr :: rest ->
    (match assoc x fr.f_vars with
     | Some v ->
       (match v with
        | Vundef ->
          Ret (Normal,
            (set_stk s ({ f_vars = (update x (Vint n) fr.f_vars); f_vals =
              fr.f_vals; f_depth = fr.f_depth } :: rest)))
        | Vint _ ->
          Ret (Normal,
            (set_stk s ({ f_vars = (update x (Vint n) fr.f_vars); f_vals =
              fr.f_vals; f_depth = fr.f_depth } :: rest)))
        | _ ->
          Fail (Unsupported (String ((Ascii (true, false, false, false,
            false, true, true, false)), (String ((Ascii (true, true, false,
            false, true, true, true, false)), (String ((Ascii (true, true,
            false, false, true, true, true, false)), (String ((Ascii (true,
            false, false, true, false, true, true, false)), (String ((Ascii
            (true, true, true, false, false, true, true, false)), (String
            ((Ascii (false, true, true, true, false, true, true, false)),
            (String ((Ascii (true, false, true, true, false, true, true,
            false)), (String ((Ascii (true, false, true, false, false, true,
            true, false)), (String ((Ascii (false, true, true, true, false,
            true, true, false)), (String ((Ascii (false, false, true, false,
            true, true, true, false)), (String ((Ascii (false, false, false,
            false, false, true, false, false)), (String ((Ascii (false,
            false, true, false, true, true, true, false)), (String ((Ascii
            (true, true, true, true, false, true, true, false)), (String
            ((Ascii (false, false, false, false, false, true, false, false)),
            (String ((Ascii (true, false, false, false, false, true, true,
            false)), (String ((Ascii (false, true, true, true, false, true,
            true, false)), (String ((Ascii (false, false, false, false,
            false, true, false, false)), (String ((Ascii (true, false, false,
            false, false, true, true, false)), (String ((Ascii (false, true,
            false, false, true, true, true, false)), (String ((Ascii (false,
            true, false, false, true, true, true, false)), (String ((Ascii
            (true, false, false, false, false, true, true, false)), (String
            ((Ascii (true, false, false, true, true, true, true, false)),
            (String ((Ascii (false, false, false, false, false, true, false,
            false)), (String ((Ascii (false, true, true, false, false, true,
            true, false)), (String ((Ascii (true, true, true, true, false,
            true, true, false)), (String ((Ascii (false, true, false, false,
            true, true, true, false)), (String ((Ascii (true, false, true,
            true, false, true, true, false)), (String ((Ascii (true, false,
            false, false, false, true, true, false)), (String ((Ascii (false,
            false, true, true, false, true, true, false)),
            EmptyString))))))))))))))))))))))))))))))))))))))))))))))))))))))))))))
     | None ->
       (match assoc x fr.f_vals with
        | Some _ ->
          Fail (Unsupported (String ((Ascii (true, false, false, false,
            false, true, true, false)), (String ((Ascii (true, true, false,
            false, true, true, true, false)), (String ((Ascii (true, true,
            false, false, true, true, true, false)), (String ((Ascii (true,
            false, false, true, false, true, true, false)), (String ((Ascii
            (true, true, true, false, false, true, true, false)), (String
            ((Ascii (false, true, true, true, false, true, true, false)),
            (String ((Ascii (true, false, true, true, false, true, true,
            false)), (String ((Ascii (true, false, true, false, false, true,
            true, false)), (String ((Ascii (false, true, true, true, false,
            true, true, false)), (String ((Ascii (false, false, true, false,
            true, true, true, false)), (String ((Ascii (false, false, false,
            false, false, true, false, false)), (String ((Ascii (false,
            false, true, false, true, true, true, false)), (String ((Ascii
            (true, true, true, true, false, true, true, false)), (String
            ((Ascii (false, false, false, false, false, true, false, false)),
            (String ((Ascii (true, false, false, false, false, true, true,
            false)), (String ((Ascii (false, false, false, false, false,
            true, false, false)), (String ((Ascii (false, true, true, true,
            false, true, true, false)), (String ((Ascii (true, true, true,
            true, false, true, true, false)), (String ((Ascii (false, true,
            true, true, false, true, true, false)), (String ((Ascii (true,
            false, true, true, false, true, false, false)), (String ((Ascii
            (false, true, true, false, true, true, true, false)), (String
            ((Ascii (true, false, false, false, false, true, true, false)),
            (String ((Ascii (false, true, false, false, true, true, true,
            false)), (String ((Ascii (true, false, false, true, false, true,
            true, false)), (String ((Ascii (true, false, false, false, false,
            true, true, false)), (String ((Ascii (false, true, false, false,
            false, true, true, false)), (String ((Ascii (false, false, true,
            true, false, true, true, false)), (String ((Ascii (true, false,
            true, false, false, true, true, false)),
            EmptyString)))))))))))))))))))))))))))))))))))))))))))))))))))))))))
        | None ->
          (match assoc x ge.g_vals with
           | Some _ ->
             Fail (Unsupported (String ((Ascii (true, false, false, false,
               false, true, true, false)), (String ((Ascii (true, true,
               false, false, true, true, true, false)), (String ((Ascii
               (true, true, false, false, true, true, true, false)), (String
               ((Ascii (true, false, false, true, false, true, true, false)),
               (String ((Ascii (true, true, true, false, false, true, true,
               false)), (String ((Ascii (false, true, true, true, false,
               true, true, false)), (String ((Ascii (true, false, true, true,
               false, true, true, false)), (String ((Ascii (true, false,
               true, false, false, true, true, false)), (String ((Ascii
               (false, true, true, true, false, true, true, false)), (String
               ((Ascii (false, false, true, false, true, true, true, false)),
               (String ((Ascii (false, false, false, false, false, true,
               false, false)), (String ((Ascii (false, false, true, false,
               true, true, true, false)), (String ((Ascii (true, true, true,
               true, false, true, true, false)), (String ((Ascii (false,
               false, false, false, false, true, false, false)), (String
               ((Ascii (true, false, false, false, false, true, true,
               false)), (String ((Ascii (false, false, false, false, false,
               true, false, false)), (String ((Ascii (false, true, true,
               true, false, true, true, false)), (String ((Ascii (true, true,
               true, true, false, true, true, false)), (String ((Ascii
               (false, true, true, true, false, true, true, false)), (String
               ((Ascii (true, false, true, true, false, true, false, false)),
               (String ((Ascii (false, true, true, false, true, true, true,
               false)), (String ((Ascii (true, false, false, false, false,
               true, true, false)), (String ((Ascii (false, true, false,
               false, true, true, true, false)), (String ((Ascii (true,
               false, false, true, false, true, true, false)), (String
               ((Ascii (true, false, false, false, false, true, true,
               false)), (String ((Ascii (false, true, false, false, false,
               true, true, false)), (String ((Ascii (false, false, true,
               true, false, true, true, false)), (String ((Ascii (true,
               false, true, false, false, true, true, false)),
               EmptyString)))))))))))))))))))))))))))))))))))))))))))))))))))))))))
           | None ->
             (match assoc x s.gvars with
              | Some _ ->
                Ret (Normal,
                  (note_wr x (set_gvars s (update x (Vint n) s.gvars))))
              | None ->
                Fail (Unsupported (String ((Ascii (true, false, false, false,
                  false, true, true, false)), (String ((Ascii (true, true,
                  false, false, true, true, true, false)), (String ((Ascii
                  (true, true, false, false, true, true, true, false)),
                  (String ((Ascii (true, false, false, true, false, true,
                  true, false)), (String ((Ascii (true, true, true, false,
                  false, true, true, false)), (String ((Ascii (false, true,
                  true, true, false, true, true, false)), (String ((Ascii
                  (true, false, true, true, false, true, true, false)),
                  (String ((Ascii (true, false, true, false, false, true,
                  true, false)), (String ((Ascii (false, true, true, true,
                  false, true, true, false)), (String ((Ascii (false, false,
                  true, false, true, true, true, false)), (String ((Ascii
                  (false, false, false, false, false, true, false, false)),
                  (String ((Ascii (false, false, true, false, true, true,
                  true, false)), (String ((Ascii (true, true, true, true,
                  false, true, true, false)), (String ((Ascii (false, false,
                  false, false, false, true, false, false)), (String ((Ascii
                  (true, false, false, false, false, true, true, false)),
                  (String ((Ascii (false, false, false, false, false, true,
                  false, false)), (String ((Ascii (false, true, true, true,
                  false, true, true, false)), (String ((Ascii (true, true,
                  true, true, false, true, true, false)), (String ((Ascii
                  (false, true, true, true, false, true, true, false)),
                  (String ((Ascii (true, false, true, true, false, true,
                  false, false)), (String ((Ascii (false, true, true, false,
                  true, true, true, false)), (String ((Ascii (true, false,
                  false, false, false, true, true, false)), (String ((Ascii
                  (false, true, false, false, true, true, true, false)),
                  (String ((Ascii (true, false, false, true, false, true,
                  true, false)), (String ((Ascii (true, false, false, false,
                  false, true, true, false)), (String ((Ascii (false, true,
                  false, false, false, true, true, false)), (String ((Ascii
                  (false, false, true, true, false, true, true, false)),
                  (String ((Ascii (true, false, true, false, false, true,
                  true, false)),
                  EmptyString)))))))))))))))))))))))))))))))))))))))))))))))))))))))))))))

type target =
| TSys of coq_Z
| TProc
| TBad

(** val call_target : genv -> string -> state -> target **)

let call_target ge f s =
  match assoc f (top s).f_vars with
  | Some _ -> TBad
  | None ->
    (match assoc f (top s).f_vals with
     | Some n -> TSys n
     | None -> (match assoc f ge.g_vals with
                | Some n -> TSys n
                | None -> TProc))

(** val find_proc : string -> proc list -> proc option **)

let rec find_proc f = function
| [] -> None
| p :: r -> if eqb f p.pname then Some p else find_proc f r

(** val decl_name : decl -> string **)

let decl_name = function
| DVal (x, _) -> x
| DVar x -> x
| DArray (x, _) -> x

(** val formal_name : formal -> string **)

let formal_name = function
| FVal x -> x
| FArray x -> x
| FProc x -> x
| FFunc x -> x

(** val bind_formals :
    formal list -> value list -> (undef, (string * value) list) sum **)

let rec bind_formals fs vs =
  match fs with
  | [] ->
    (match vs with
     | [] -> Coq_inr []
     | _ :: _ ->
       Coq_inl (Unsupported (String ((Ascii (true, false, false, false,
         false, true, true, false)), (String ((Ascii (true, true, false,
         false, false, true, true, false)), (String ((Ascii (false, false,
         true, false, true, true, true, false)), (String ((Ascii (true,
         false, true, false, true, true, true, false)), (String ((Ascii
         (true, false, false, false, false, true, true, false)), (String
         ((Ascii (false, false, true, true, false, true, true, false)),
         (String ((Ascii (true, true, false, false, true, true, true,
         false)), (String ((Ascii (false, false, false, false, false, true,
         false, false)), (String ((Ascii (false, false, true, false, false,
         true, true, false)), (String ((Ascii (true, true, true, true, false,
         true, true, false)), (String ((Ascii (false, false, false, false,
         false, true, false, false)), (String ((Ascii (false, true, true,
         true, false, true, true, false)), (String ((Ascii (true, true, true,
         true, false, true, true, false)), (String ((Ascii (false, false,
         true, false, true, true, true, false)), (String ((Ascii (false,
         false, false, false, false, true, false, false)), (String ((Ascii
         (true, false, true, true, false, true, true, false)), (String
         ((Ascii (true, false, false, false, false, true, true, false)),
         (String ((Ascii (false, false, true, false, true, true, true,
         false)), (String ((Ascii (true, true, false, false, false, true,
         true, false)), (String ((Ascii (false, false, false, true, false,
         true, true, false)), (String ((Ascii (false, false, false, false,
         false, true, false, false)), (String ((Ascii (false, false, true,
         false, true, true, true, false)), (String ((Ascii (false, false,
         false, true, false, true, true, false)), (String ((Ascii (true,
         false, true, false, false, true, true, false)), (String ((Ascii
         (false, false, false, false, false, true, false, false)), (String
         ((Ascii (false, true, true, false, false, true, true, false)),
         (String ((Ascii (true, true, true, true, false, true, true, false)),
         (String ((Ascii (false, true, false, false, true, true, true,
         false)), (String ((Ascii (true, false, true, true, false, true,
         true, false)), (String ((Ascii (true, false, false, false, false,
         true, true, false)), (String ((Ascii (false, false, true, true,
         false, true, true, false)), (String ((Ascii (true, true, false,
         false, true, true, true, false)),
         EmptyString))))))))))))))))))))))))))))))))))))))))))))))))))))))))))))))))))
  | f :: fr ->
    (match f with
     | FVal x ->
       (match vs with
        | [] ->
          Coq_inl (Unsupported (String ((Ascii (true, false, false, false,
            false, true, true, false)), (String ((Ascii (true, true, false,
            false, false, true, true, false)), (String ((Ascii (false, false,
            true, false, true, true, true, false)), (String ((Ascii (true,
            false, true, false, true, true, true, false)), (String ((Ascii
            (true, false, false, false, false, true, true, false)), (String
            ((Ascii (false, false, true, true, false, true, true, false)),
            (String ((Ascii (true, true, false, false, true, true, true,
            false)), (String ((Ascii (false, false, false, false, false,
            true, false, false)), (String ((Ascii (false, false, true, false,
            false, true, true, false)), (String ((Ascii (true, true, true,
            true, false, true, true, false)), (String ((Ascii (false, false,
            false, false, false, true, false, false)), (String ((Ascii
            (false, true, true, true, false, true, true, false)), (String
            ((Ascii (true, true, true, true, false, true, true, false)),
            (String ((Ascii (false, false, true, false, true, true, true,
            false)), (String ((Ascii (false, false, false, false, false,
            true, false, false)), (String ((Ascii (true, false, true, true,
            false, true, true, false)), (String ((Ascii (true, false, false,
            false, false, true, true, false)), (String ((Ascii (false, false,
            true, false, true, true, true, false)), (String ((Ascii (true,
            true, false, false, false, true, true, false)), (String ((Ascii
            (false, false, false, true, false, true, true, false)), (String
            ((Ascii (false, false, false, false, false, true, false, false)),
            (String ((Ascii (false, false, true, false, true, true, true,
            false)), (String ((Ascii (false, false, false, true, false, true,
            true, false)), (String ((Ascii (true, false, true, false, false,
            true, true, false)), (String ((Ascii (false, false, false, false,
            false, true, false, false)), (String ((Ascii (false, true, true,
            false, false, true, true, false)), (String ((Ascii (true, true,
            true, true, false, true, true, false)), (String ((Ascii (false,
            true, false, false, true, true, true, false)), (String ((Ascii
            (true, false, true, true, false, true, true, false)), (String
            ((Ascii (true, false, false, false, false, true, true, false)),
            (String ((Ascii (false, false, true, true, false, true, true,
            false)), (String ((Ascii (true, true, false, false, true, true,
            true, false)),
            EmptyString)))))))))))))))))))))))))))))))))))))))))))))))))))))))))))))))))
        | v :: vr ->
          (match v with
           | Vint n ->
             (match bind_formals fr vr with
              | Coq_inl u -> Coq_inl u
              | Coq_inr l -> Coq_inr ((x, (Vint n)) :: l))
           | _ ->
             Coq_inl (Unsupported (String ((Ascii (true, false, false, false,
               false, true, true, false)), (String ((Ascii (true, true,
               false, false, false, true, true, false)), (String ((Ascii
               (false, false, true, false, true, true, true, false)), (String
               ((Ascii (true, false, true, false, true, true, true, false)),
               (String ((Ascii (true, false, false, false, false, true, true,
               false)), (String ((Ascii (false, false, true, true, false,
               true, true, false)), (String ((Ascii (true, true, false,
               false, true, true, true, false)), (String ((Ascii (false,
               false, false, false, false, true, false, false)), (String
               ((Ascii (false, false, true, false, false, true, true,
               false)), (String ((Ascii (true, true, true, true, false, true,
               true, false)), (String ((Ascii (false, false, false, false,
               false, true, false, false)), (String ((Ascii (false, true,
               true, true, false, true, true, false)), (String ((Ascii (true,
               true, true, true, false, true, true, false)), (String ((Ascii
               (false, false, true, false, true, true, true, false)), (String
               ((Ascii (false, false, false, false, false, true, false,
               false)), (String ((Ascii (true, false, true, true, false,
               true, true, false)), (String ((Ascii (true, false, false,
               false, false, true, true, false)), (String ((Ascii (false,
               false, true, false, true, true, true, false)), (String ((Ascii
               (true, true, false, false, false, true, true, false)), (String
               ((Ascii (false, false, false, true, false, true, true,
               false)), (String ((Ascii (false, false, false, false, false,
               true, false, false)), (String ((Ascii (false, false, true,
               false, true, true, true, false)), (String ((Ascii (false,
               false, false, true, false, true, true, false)), (String
               ((Ascii (true, false, true, false, false, true, true, false)),
               (String ((Ascii (false, false, false, false, false, true,
               false, false)), (String ((Ascii (false, true, true, false,
               false, true, true, false)), (String ((Ascii (true, true, true,
               true, false, true, true, false)), (String ((Ascii (false,
               true, false, false, true, true, true, false)), (String ((Ascii
               (true, false, true, true, false, true, true, false)), (String
               ((Ascii (true, false, false, false, false, true, true,
               false)), (String ((Ascii (false, false, true, true, false,
               true, true, false)), (String ((Ascii (true, true, false,
               false, true, true, true, false)),
               EmptyString)))))))))))))))))))))))))))))))))))))))))))))))))))))))))))))))))))
     | FArray x ->
       (match vs with
        | [] ->
          Coq_inl (Unsupported (String ((Ascii (true, false, false, false,
            false, true, true, false)), (String ((Ascii (true, true, false,
            false, false, true, true, false)), (String ((Ascii (false, false,
            true, false, true, true, true, false)), (String ((Ascii (true,
            false, true, false, true, true, true, false)), (String ((Ascii
            (true, false, false, false, false, true, true, false)), (String
            ((Ascii (false, false, true, true, false, true, true, false)),
            (String ((Ascii (true, true, false, false, true, true, true,
            false)), (String ((Ascii (false, false, false, false, false,
            true, false, false)), (String ((Ascii (false, false, true, false,
            false, true, true, false)), (String ((Ascii (true, true, true,
            true, false, true, true, false)), (String ((Ascii (false, false,
            false, false, false, true, false, false)), (String ((Ascii
            (false, true, true, true, false, true, true, false)), (String
            ((Ascii (true, true, true, true, false, true, true, false)),
            (String ((Ascii (false, false, true, false, true, true, true,
            false)), (String ((Ascii (false, false, false, false, false,
            true, false, false)), (String ((Ascii (true, false, true, true,
            false, true, true, false)), (String ((Ascii (true, false, false,
            false, false, true, true, false)), (String ((Ascii (false, false,
            true, false, true, true, true, false)), (String ((Ascii (true,
            true, false, false, false, true, true, false)), (String ((Ascii
            (false, false, false, true, false, true, true, false)), (String
            ((Ascii (false, false, false, false, false, true, false, false)),
            (String ((Ascii (false, false, true, false, true, true, true,
            false)), (String ((Ascii (false, false, false, true, false, true,
            true, false)), (String ((Ascii (true, false, true, false, false,
            true, true, false)), (String ((Ascii (false, false, false, false,
            false, true, false, false)), (String ((Ascii (false, true, true,
            false, false, true, true, false)), (String ((Ascii (true, true,
            true, true, false, true, true, false)), (String ((Ascii (false,
            true, false, false, true, true, true, false)), (String ((Ascii
            (true, false, true, true, false, true, true, false)), (String
            ((Ascii (true, false, false, false, false, true, true, false)),
            (String ((Ascii (false, false, true, true, false, true, true,
            false)), (String ((Ascii (true, true, false, false, true, true,
            true, false)),
            EmptyString)))))))))))))))))))))))))))))))))))))))))))))))))))))))))))))))))
        | v :: vr ->
          (match v with
           | Vundef ->
             Coq_inl (Unsupported (String ((Ascii (true, false, false, false,
               false, true, true, false)), (String ((Ascii (true, true,
               false, false, false, true, true, false)), (String ((Ascii
               (false, false, true, false, true, true, true, false)), (String
               ((Ascii (true, false, true, false, true, true, true, false)),
               (String ((Ascii (true, false, false, false, false, true, true,
               false)), (String ((Ascii (false, false, true, true, false,
               true, true, false)), (String ((Ascii (true, true, false,
               false, true, true, true, false)), (String ((Ascii (false,
               false, false, false, false, true, false, false)), (String
               ((Ascii (false, false, true, false, false, true, true,
               false)), (String ((Ascii (true, true, true, true, false, true,
               true, false)), (String ((Ascii (false, false, false, false,
               false, true, false, false)), (String ((Ascii (false, true,
               true, true, false, true, true, false)), (String ((Ascii (true,
               true, true, true, false, true, true, false)), (String ((Ascii
               (false, false, true, false, true, true, true, false)), (String
               ((Ascii (false, false, false, false, false, true, false,
               false)), (String ((Ascii (true, false, true, true, false,
               true, true, false)), (String ((Ascii (true, false, false,
               false, false, true, true, false)), (String ((Ascii (false,
               false, true, false, true, true, true, false)), (String ((Ascii
               (true, true, false, false, false, true, true, false)), (String
               ((Ascii (false, false, false, true, false, true, true,
               false)), (String ((Ascii (false, false, false, false, false,
               true, false, false)), (String ((Ascii (false, false, true,
               false, true, true, true, false)), (String ((Ascii (false,
               false, false, true, false, true, true, false)), (String
               ((Ascii (true, false, true, false, false, true, true, false)),
               (String ((Ascii (false, false, false, false, false, true,
               false, false)), (String ((Ascii (false, true, true, false,
               false, true, true, false)), (String ((Ascii (true, true, true,
               true, false, true, true, false)), (String ((Ascii (false,
               true, false, false, true, true, true, false)), (String ((Ascii
               (true, false, true, true, false, true, true, false)), (String
               ((Ascii (true, false, false, false, false, true, true,
               false)), (String ((Ascii (false, false, true, true, false,
               true, true, false)), (String ((Ascii (true, true, false,
               false, true, true, true, false)),
               EmptyString)))))))))))))))))))))))))))))))))))))))))))))))))))))))))))))))))
           | Vint _ ->
             Coq_inl (Unsupported (String ((Ascii (true, false, false, false,
               false, true, true, false)), (String ((Ascii (true, true,
               false, false, false, true, true, false)), (String ((Ascii
               (false, false, true, false, true, true, true, false)), (String
               ((Ascii (true, false, true, false, true, true, true, false)),
               (String ((Ascii (true, false, false, false, false, true, true,
               false)), (String ((Ascii (false, false, true, true, false,
               true, true, false)), (String ((Ascii (true, true, false,
               false, true, true, true, false)), (String ((Ascii (false,
               false, false, false, false, true, false, false)), (String
               ((Ascii (false, false, true, false, false, true, true,
               false)), (String ((Ascii (true, true, true, true, false, true,
               true, false)), (String ((Ascii (false, false, false, false,
               false, true, false, false)), (String ((Ascii (false, true,
               true, true, false, true, true, false)), (String ((Ascii (true,
               true, true, true, false, true, true, false)), (String ((Ascii
               (false, false, true, false, true, true, true, false)), (String
               ((Ascii (false, false, false, false, false, true, false,
               false)), (String ((Ascii (true, false, true, true, false,
               true, true, false)), (String ((Ascii (true, false, false,
               false, false, true, true, false)), (String ((Ascii (false,
               false, true, false, true, true, true, false)), (String ((Ascii
               (true, true, false, false, false, true, true, false)), (String
               ((Ascii (false, false, false, true, false, true, true,
               false)), (String ((Ascii (false, false, false, false, false,
               true, false, false)), (String ((Ascii (false, false, true,
               false, true, true, true, false)), (String ((Ascii (false,
               false, false, true, false, true, true, false)), (String
               ((Ascii (true, false, true, false, false, true, true, false)),
               (String ((Ascii (false, false, false, false, false, true,
               false, false)), (String ((Ascii (false, true, true, false,
               false, true, true, false)), (String ((Ascii (true, true, true,
               true, false, true, true, false)), (String ((Ascii (false,
               true, false, false, true, true, true, false)), (String ((Ascii
               (true, false, true, true, false, true, true, false)), (String
               ((Ascii (true, false, false, false, false, true, true,
               false)), (String ((Ascii (false, false, true, true, false,
               true, true, false)), (String ((Ascii (true, true, false,
               false, true, true, true, false)),
               EmptyString)))))))))))))))))))))))))))))))))))))))))))))))))))))))))))))))))
           | x0 ->
             (match bind_formals fr vr with
              | Coq_inl u -> Coq_inl u
              | Coq_inr l -> Coq_inr ((x, x0) :: l))))
     | _ ->
       Coq_inl (Unsupported (String ((Ascii (false, false, false, false,
         true, true, true, false)), (String ((Ascii (false, true, false,
         false, true, true, true, false)), (String ((Ascii (true, true, true,
         true, false, true, true, false)), (String ((Ascii (true, true,
         false, false, false, true, true, false)), (String ((Ascii (true,
         false, true, false, false, true, true, false)), (String ((Ascii
         (false, false, true, false, false, true, true, false)), (String
         ((Ascii (true, false, true, false, true, true, true, false)),
         (String ((Ascii (false, true, false, false, true, true, true,
         false)), (String ((Ascii (true, false, true, false, false, true,
         true, false)), (String ((Ascii (false, false, false, false, false,
         true, false, false)), (String ((Ascii (true, true, true, true,
         false, true, true, false)), (String ((Ascii (false, true, false,
         false, true, true, true, false)), (String ((Ascii (false, false,
         false, false, false, true, false, false)), (String ((Ascii (false,
         true, true, false, false, true, true, false)), (String ((Ascii
         (true, false, true, false, true, true, true, false)), (String
         ((Ascii (false, true, true, true, false, true, true, false)),
         (String ((Ascii (true, true, false, false, false, true, true,
         false)), (String ((Ascii (false, false, true, false, true, true,
         true, false)), (String ((Ascii (true, false, false, true, false,
         true, true, false)), (String ((Ascii (true, true, true, true, false,
         true, true, false)), (String ((Ascii (false, true, true, true,
         false, true, true, false)), (String ((Ascii (false, false, false,
         false, false, true, false, false)), (String ((Ascii (false, true,
         true, false, false, true, true, false)), (String ((Ascii (true,
         true, true, true, false, true, true, false)), (String ((Ascii
         (false, true, false, false, true, true, true, false)), (String
         ((Ascii (true, false, true, true, false, true, true, false)),
         (String ((Ascii (true, false, false, false, false, true, true,
         false)), (String ((Ascii (false, false, true, true, false, true,
         true, false)),
         EmptyString))))))))))))))))))))))))))))))))))))))))))))))))))))))))))

(** val local_decls :
    decl list -> string list -> (string * coq_Z) list -> (string * value)
    list -> (string * coq_Z) list -> (undef, (string * value)
    list * (string * coq_Z) list) sum **)

let rec local_decls ds localnames gvals vars vals =
  match ds with
  | [] -> Coq_inr (vars, vals)
  | d :: r ->
    (match d with
     | DVal (x, e) ->
       (match eval_const (fun y ->
                if mem_str y localnames then assoc y vals else assoc y gvals)
                e with
        | Coq_inl u -> Coq_inl u
        | Coq_inr z -> local_decls r localnames gvals vars ((x, z) :: vals))
     | DVar x -> local_decls r localnames gvals ((x, Vundef) :: vars) vals
     | DArray (_, _) ->
       Coq_inl (Unsupported (String ((Ascii (false, false, true, true, false,
         true, true, false)), (String ((Ascii (true, true, true, true, false,
         true, true, false)), (String ((Ascii (true, true, false, false,
         false, true, true, false)), (String ((Ascii (true, false, false,
         false, false, true, true, false)), (String ((Ascii (false, false,
         true, true, false, true, true, false)), (String ((Ascii (false,
         false, false, false, false, true, false, false)), (String ((Ascii
         (true, false, false, false, false, true, true, false)), (String
         ((Ascii (false, true, false, false, true, true, true, false)),
         (String ((Ascii (false, true, false, false, true, true, true,
         false)), (String ((Ascii (true, false, false, false, false, true,
         true, false)), (String ((Ascii (true, false, false, true, true,
         true, true, false)), EmptyString))))))))))))))))))))))))

(** val enter : genv -> proc -> value list -> state -> (undef, frame) sum **)

let enter ge p vs s =
  if Nat.leb ge.g_maxdepth (top s).f_depth
  then Coq_inl DepthExceeded
  else (match bind_formals p.formals vs with
        | Coq_inl u -> Coq_inl u
        | Coq_inr fv ->
          (match local_decls p.locals
                   (app (map formal_name p.formals) (map decl_name p.locals))
                   ge.g_vals fv [] with
           | Coq_inl u -> Coq_inl u
           | Coq_inr p0 ->
             let (vars, vals) = p0 in
             Coq_inr { f_vars = vars; f_vals = vals; f_depth = (S
             (top s).f_depth) }))

(** val pop : state -> state **)

let pop s =
  set_stk s (match s.stk with
             | [] -> []
             | _ :: r -> r)

(** val invoke :
    (stmt -> state -> flow res) -> genv -> bool -> string -> value list ->
    state -> value res **)

let invoke ex ge want_func f vs s =
  match find_proc f ge.g_procs with
  | Some p ->
    if negb (Bool.eqb p.is_func want_func)
    then Fail (WrongKindOfCall f)
    else (match enter ge p vs s with
          | Coq_inl u -> Fail u
          | Coq_inr fr ->
            tick s (fun s0 ->
              bind (ex p.body (set_stk s0 (fr :: s0.stk))) (fun fl s2 ->
                match fl with
                | Normal ->
                  if want_func then Fail NoReturn else Ret (Vundef, (pop s2))
                | Returned v ->
                  if want_func
                  then (match v with
                        | Vint n -> Ret ((Vint n), (pop s2))
                        | _ ->
                          Fail (Unsupported (String ((Ascii (false, true,
                            true, false, false, true, true, false)), (String
                            ((Ascii (true, false, true, false, true, true,
                            true, false)), (String ((Ascii (false, true,
                            true, true, false, true, true, false)), (String
                            ((Ascii (true, true, false, false, false, true,
                            true, false)), (String ((Ascii (false, false,
                            true, false, true, true, true, false)), (String
                            ((Ascii (true, false, false, true, false, true,
                            true, false)), (String ((Ascii (true, true, true,
                            true, false, true, true, false)), (String ((Ascii
                            (false, true, true, true, false, true, true,
                            false)), (String ((Ascii (false, false, false,
                            false, false, true, false, false)), (String
                            ((Ascii (false, true, false, false, true, true,
                            true, false)), (String ((Ascii (true, false,
                            true, false, false, true, true, false)), (String
                            ((Ascii (true, true, false, false, true, true,
                            true, false)), (String ((Ascii (true, false,
                            true, false, true, true, true, false)), (String
                            ((Ascii (false, false, true, true, false, true,
                            true, false)), (String ((Ascii (false, false,
                            true, false, true, true, true, false)), (String
                            ((Ascii (false, false, false, false, false, true,
                            false, false)), (String ((Ascii (true, false,
                            false, true, false, true, true, false)), (String
                            ((Ascii (true, true, false, false, true, true,
                            true, false)), (String ((Ascii (false, false,
                            false, false, false, true, false, false)),
                            (String ((Ascii (false, true, true, true, false,
                            true, true, false)), (String ((Ascii (true, true,
                            true, true, false, true, true, false)), (String
                            ((Ascii (false, false, true, false, true, true,
                            true, false)), (String ((Ascii (false, false,
                            false, false, false, true, false, false)),
                            (String ((Ascii (true, false, false, false,
                            false, true, true, false)), (String ((Ascii
                            (false, true, true, true, false, true, true,
                            false)), (String ((Ascii (false, false, false,
                            false, false, true, false, false)), (String
                            ((Ascii (true, false, false, true, false, true,
                            true, false)), (String ((Ascii (false, true,
                            true, true, false, true, true, false)), (String
                            ((Ascii (false, false, true, false, true, true,
                            true, false)), (String ((Ascii (true, false,
                            true, false, false, true, true, false)), (String
                            ((Ascii (true, true, true, false, false, true,
                            true, false)), (String ((Ascii (true, false,
                            true, false, false, true, true, false)), (String
                            ((Ascii (false, true, false, false, true, true,
                            true, false)),
                            EmptyString))))))))))))))))))))))))))))))))))))))))))))))))))))))))))))))))))))
                  else Ret (Vundef, (pop s2)))))
  | None ->
    Fail (Unsupported (String ((Ascii (true, true, false, false, false, true,
      true, false)), (String ((Ascii (true, false, false, false, false, true,
      true, false)), (String ((Ascii (false, false, true, true, false, true,
      true, false)), (String ((Ascii (false, false, true, true, false, true,
      true, false)), (String ((Ascii (false, false, false, false, false,
      true, false, false)), (String ((Ascii (true, true, true, true, false,
      true, true, false)), (String ((Ascii (false, true, true, false, false,
      true, true, false)), (String ((Ascii (false, false, false, false,
      false, true, false, false)), (String ((Ascii (true, false, false,
      false, false, true, true, false)), (String ((Ascii (false, true, true,
      true, false, true, true, false)), (String ((Ascii (false, false, false,
      false, false, true, false, false)), (String ((Ascii (true, false, true,
      false, true, true, true, false)), (String ((Ascii (false, true, true,
      true, false, true, true, false)), (String ((Ascii (true, true, false,
      true, false, true, true, false)), (String ((Ascii (false, true, true,
      true, false, true, true, false)), (String ((Ascii (true, true, true,
      true, false, true, true, false)), (String ((Ascii (true, true, true,
      false, true, true, true, false)), (String ((Ascii (false, true, true,
      true, false, true, true, false)), (String ((Ascii (false, false, false,
      false, false, true, false, false)), (String ((Ascii (false, false,
      false, false, true, true, true, false)), (String ((Ascii (false, true,
      false, false, true, true, true, false)), (String ((Ascii (true, true,
      true, true, false, true, true, false)), (String ((Ascii (true, true,
      false, false, false, true, true, false)), (String ((Ascii (true, false,
      true, false, false, true, true, false)), (String ((Ascii (false, false,
      true, false, false, true, true, false)), (String ((Ascii (true, false,
      true, false, true, true, true, false)), (String ((Ascii (false, true,
      false, false, true, true, true, false)), (String ((Ascii (true, false,
      true, false, false, true, true, false)),
      EmptyString)))))))))))))))))))))))))))))))))))))))))))))))))))))))))

(** val do_sys : coq_Z -> value list -> bool -> state -> value res **)

let do_sys n vs as_expr s =
  match n with
  | Z0 ->
    (match vs with
     | [] -> Fail MissingActual
     | v :: _ -> int_of v (fun c -> Halt (c, s)))
  | Zpos p ->
    (match p with
     | Coq_xI _ ->
       Fail (Unsupported (String ((Ascii (true, false, false, true, false,
         true, true, false)), (String ((Ascii (false, true, true, true,
         false, true, true, false)), (String ((Ascii (false, true, true,
         false, true, true, true, false)), (String ((Ascii (true, false,
         false, false, false, true, true, false)), (String ((Ascii (false,
         false, true, true, false, true, true, false)), (String ((Ascii
         (true, false, false, true, false, true, true, false)), (String
         ((Ascii (false, false, true, false, false, true, true, false)),
         (String ((Ascii (false, false, false, false, false, true, false,
         false)), (String ((Ascii (true, true, false, false, true, true,
         true, false)), (String ((Ascii (true, false, false, true, true,
         true, true, false)), (String ((Ascii (true, true, false, false,
         true, true, true, false)), (String ((Ascii (false, false, true,
         false, true, true, true, false)), (String ((Ascii (true, false,
         true, false, false, true, true, false)), (String ((Ascii (true,
         false, true, true, false, true, true, false)), (String ((Ascii
         (false, false, false, false, false, true, false, false)), (String
         ((Ascii (true, true, false, false, false, true, true, false)),
         (String ((Ascii (true, false, false, false, false, true, true,
         false)), (String ((Ascii (false, false, true, true, false, true,
         true, false)), (String ((Ascii (false, false, true, true, false,
         true, true, false)), (String ((Ascii (false, false, false, false,
         false, true, false, false)), (String ((Ascii (false, true, true,
         true, false, true, true, false)), (String ((Ascii (true, false,
         true, false, true, true, true, false)), (String ((Ascii (true,
         false, true, true, false, true, true, false)), (String ((Ascii
         (false, true, false, false, false, true, true, false)), (String
         ((Ascii (true, false, true, false, false, true, true, false)),
         (String ((Ascii (false, true, false, false, true, true, true,
         false)),
         EmptyString)))))))))))))))))))))))))))))))))))))))))))))))))))))
     | Coq_xO p0 ->
       (match p0 with
        | Coq_xH ->
          (match vs with
           | [] -> Fail MissingActual
           | st :: _ ->
             int_of st (fun sz ->
               if Z.ltb sz (Zpos (Coq_xO (Coq_xO (Coq_xO (Coq_xO (Coq_xO
                    (Coq_xO (Coq_xO (Coq_xO Coq_xH)))))))))
               then (match s.input with
                     | [] ->
                       Ret ((Vint (Zpos (Coq_xI (Coq_xI (Coq_xI (Coq_xI
                         (Coq_xI (Coq_xI (Coq_xI Coq_xH))))))))), (note_io s))
                     | b :: r ->
                       Ret ((Vint
                         (Z.modulo b (Zpos (Coq_xO (Coq_xO (Coq_xO (Coq_xO
                           (Coq_xO (Coq_xO (Coq_xO (Coq_xO Coq_xH))))))))))),
                         (consume r s)))
               else Fail (Unsupported (String ((Ascii (true, false, false,
                      true, false, true, true, false)), (String ((Ascii
                      (false, true, true, true, false, true, true, false)),
                      (String ((Ascii (false, false, false, false, true,
                      true, true, false)), (String ((Ascii (true, false,
                      true, false, true, true, true, false)), (String ((Ascii
                      (false, false, true, false, true, true, true, false)),
                      (String ((Ascii (false, false, false, false, false,
                      true, false, false)), (String ((Ascii (false, true,
                      true, false, false, true, true, false)), (String
                      ((Ascii (false, true, false, false, true, true, true,
                      false)), (String ((Ascii (true, true, true, true,
                      false, true, true, false)), (String ((Ascii (true,
                      false, true, true, false, true, true, false)), (String
                      ((Ascii (false, false, false, false, false, true,
                      false, false)), (String ((Ascii (true, false, false,
                      false, false, true, true, false)), (String ((Ascii
                      (false, false, false, false, false, true, false,
                      false)), (String ((Ascii (false, true, true, false,
                      false, true, true, false)), (String ((Ascii (true,
                      false, false, true, false, true, true, false)), (String
                      ((Ascii (false, false, true, true, false, true, true,
                      false)), (String ((Ascii (true, false, true, false,
                      false, true, true, false)), (String ((Ascii (false,
                      false, false, false, false, true, false, false)),
                      (String ((Ascii (true, true, false, false, true, true,
                      true, false)), (String ((Ascii (false, false, true,
                      false, true, true, true, false)), (String ((Ascii
                      (false, true, false, false, true, true, true, false)),
                      (String ((Ascii (true, false, true, false, false, true,
                      true, false)), (String ((Ascii (true, false, false,
                      false, false, true, true, false)), (String ((Ascii
                      (true, false, true, true, false, true, true, false)),
                      EmptyString)))))))))))))))))))))))))))))))))))))))))))))))))))
        | _ ->
          Fail (Unsupported (String ((Ascii (true, false, false, true, false,
            true, true, false)), (String ((Ascii (false, true, true, true,
            false, true, true, false)), (String ((Ascii (false, true, true,
            false, true, true, true, false)), (String ((Ascii (true, false,
            false, false, false, true, true, false)), (String ((Ascii (false,
            false, true, true, false, true, true, false)), (String ((Ascii
            (true, false, false, true, false, true, true, false)), (String
            ((Ascii (false, false, true, false, false, true, true, false)),
            (String ((Ascii (false, false, false, false, false, true, false,
            false)), (String ((Ascii (true, true, false, false, true, true,
            true, false)), (String ((Ascii (true, false, false, true, true,
            true, true, false)), (String ((Ascii (true, true, false, false,
            true, true, true, false)), (String ((Ascii (false, false, true,
            false, true, true, true, false)), (String ((Ascii (true, false,
            true, false, false, true, true, false)), (String ((Ascii (true,
            false, true, true, false, true, true, false)), (String ((Ascii
            (false, false, false, false, false, true, false, false)), (String
            ((Ascii (true, true, false, false, false, true, true, false)),
            (String ((Ascii (true, false, false, false, false, true, true,
            false)), (String ((Ascii (false, false, true, true, false, true,
            true, false)), (String ((Ascii (false, false, true, true, false,
            true, true, false)), (String ((Ascii (false, false, false, false,
            false, true, false, false)), (String ((Ascii (false, true, true,
            true, false, true, true, false)), (String ((Ascii (true, false,
            true, false, true, true, true, false)), (String ((Ascii (true,
            false, true, true, false, true, true, false)), (String ((Ascii
            (false, true, false, false, false, true, true, false)), (String
            ((Ascii (true, false, true, false, false, true, true, false)),
            (String ((Ascii (false, true, false, false, true, true, true,
            false)),
            EmptyString))))))))))))))))))))))))))))))))))))))))))))))))))))))
     | Coq_xH ->
       (match vs with
        | [] -> Fail MissingActual
        | b :: l ->
          (match l with
           | [] -> Fail MissingActual
           | st :: _ ->
             int_of b (fun bz ->
               int_of st (fun sz ->
                 if as_expr
                 then Fail (Unsupported (String ((Ascii (false, false, false,
                        false, true, true, true, false)), (String ((Ascii
                        (true, false, true, false, true, true, true, false)),
                        (String ((Ascii (false, false, true, false, true,
                        true, true, false)), (String ((Ascii (false, false,
                        false, false, false, true, false, false)), (String
                        ((Ascii (true, false, true, false, true, true, true,
                        false)), (String ((Ascii (true, true, false, false,
                        true, true, true, false)), (String ((Ascii (true,
                        false, true, false, false, true, true, false)),
                        (String ((Ascii (false, false, true, false, false,
                        true, true, false)), (String ((Ascii (false, false,
                        false, false, false, true, false, false)), (String
                        ((Ascii (false, true, true, false, false, true, true,
                        false)), (String ((Ascii (true, true, true, true,
                        false, true, true, false)), (String ((Ascii (false,
                        true, false, false, true, true, true, false)),
                        (String ((Ascii (false, false, false, false, false,
                        true, false, false)), (String ((Ascii (true, false,
                        false, true, false, true, true, false)), (String
                        ((Ascii (false, false, true, false, true, true, true,
                        false)), (String ((Ascii (true, true, false, false,
                        true, true, true, false)), (String ((Ascii (false,
                        false, false, false, false, true, false, false)),
                        (String ((Ascii (false, true, true, false, true,
                        true, true, false)), (String ((Ascii (true, false,
                        false, false, false, true, true, false)), (String
                        ((Ascii (false, false, true, true, false, true, true,
                        false)), (String ((Ascii (true, false, true, false,
                        true, true, true, false)), (String ((Ascii (true,
                        false, true, false, false, true, true, false)),
                        EmptyString)))))))))))))))))))))))))))))))))))))))))))))
                 else Ret (Vundef,
                        (emit
                          (Z.modulo sz (Zpos (Coq_xO (Coq_xO (Coq_xO (Coq_xO
                            (Coq_xO (Coq_xO (Coq_xO (Coq_xO (Coq_xO (Coq_xO
                            (Coq_xO (Coq_xO (Coq_xO (Coq_xO (Coq_xO (Coq_xO
                            (Coq_xO (Coq_xO (Coq_xO (Coq_xO (Coq_xO (Coq_xO
                            (Coq_xO (Coq_xO (Coq_xO (Coq_xO (Coq_xO (Coq_xO
                            (Coq_xO (Coq_xO (Coq_xO (Coq_xO
                            Coq_xH))))))))))))))))))))))))))))))))))
                          (Z.modulo bz (Zpos (Coq_xO (Coq_xO (Coq_xO (Coq_xO
                            (Coq_xO (Coq_xO (Coq_xO (Coq_xO Coq_xH))))))))))
                          s)))))))
  | Zneg _ ->
    Fail (Unsupported (String ((Ascii (true, false, false, true, false, true,
      true, false)), (String ((Ascii (false, true, true, true, false, true,
      true, false)), (String ((Ascii (false, true, true, false, true, true,
      true, false)), (String ((Ascii (true, false, false, false, false, true,
      true, false)), (String ((Ascii (false, false, true, true, false, true,
      true, false)), (String ((Ascii (true, false, false, true, false, true,
      true, false)), (String ((Ascii (false, false, true, false, false, true,
      true, false)), (String ((Ascii (false, false, false, false, false,
      true, false, false)), (String ((Ascii (true, true, false, false, true,
      true, true, false)), (String ((Ascii (true, false, false, true, true,
      true, true, false)), (String ((Ascii (true, true, false, false, true,
      true, true, false)), (String ((Ascii (false, false, true, false, true,
      true, true, false)), (String ((Ascii (true, false, true, false, false,
      true, true, false)), (String ((Ascii (true, false, true, true, false,
      true, true, false)), (String ((Ascii (false, false, false, false,
      false, true, false, false)), (String ((Ascii (true, true, false, false,
      false, true, true, false)), (String ((Ascii (true, false, false, false,
      false, true, true, false)), (String ((Ascii (false, false, true, true,
      false, true, true, false)), (String ((Ascii (false, false, true, true,
      false, true, true, false)), (String ((Ascii (false, false, false,
      false, false, true, false, false)), (String ((Ascii (false, true, true,
      true, false, true, true, false)), (String ((Ascii (true, false, true,
      false, true, true, true, false)), (String ((Ascii (true, false, true,
      true, false, true, true, false)), (String ((Ascii (false, true, false,
      false, false, true, true, false)), (String ((Ascii (true, false, true,
      false, false, true, true, false)), (String ((Ascii (false, true, false,
      false, true, true, true, false)),
      EmptyString)))))))))))))))))))))))))))))))))))))))))))))))))))))

(** val harmless : expr -> bool **)

let harmless = function
| ENum _ -> true
| EBool _ -> true
| EStr _ -> true
| _ -> false

(** val evals_body :
    (expr -> state -> value res) -> (expr list -> state -> (value * eff) list
    res) -> expr list -> state -> (value * eff) list res **)

let evals_body ev evs es s =
  match es with
  | [] -> Ret ([], s)
  | e :: r ->
    rcase (with_eff (ev e) s) (fun ve s1 ->
      rcase (evs r s1) (fun l s2 -> Ret ((ve :: l), s2)) (fun c s2 ->
        if (snd ve).e_io then Fail OrderDependent else Halt (c, s2)))
      (fun c s1 ->
      if forallb harmless r then Halt (c, s1) else Fail OrderDependent)

(** val operands :
    (expr list -> state -> (value * eff) list res) -> expr list -> state ->
    value list res **)

let operands evs es s =
  bind (evs es s) (fun l s1 ->
    if conflicts (map snd l)
    then Fail OrderDependent
    else Ret ((map fst l), s1))

(** val eval_body :
    (expr -> state -> value res) -> (expr list -> state -> (value * eff) list
    res) -> (stmt -> state -> flow res) -> genv -> expr -> state -> value res **)

let eval_body ev evs ex ge e s =
  match e with
  | ENum n -> Ret ((Vint (signed32 n)), s)
  | EBool b -> Ret ((Vint (of_bool b)), s)
  | EStr bs ->
    (match pack_string bs with
     | Some ws -> Ret ((Vstr ws), s)
     | None ->
       Fail (Unsupported (String ((Ascii (true, true, false, false, true,
         true, true, false)), (String ((Ascii (false, false, true, false,
         true, true, true, false)), (String ((Ascii (false, true, false,
         false, true, true, true, false)), (String ((Ascii (true, false,
         false, true, false, true, true, false)), (String ((Ascii (false,
         true, true, true, false, true, true, false)), (String ((Ascii (true,
         true, true, false, false, true, true, false)), (String ((Ascii
         (false, false, false, false, false, true, false, false)), (String
         ((Ascii (false, false, true, true, false, true, true, false)),
         (String ((Ascii (true, false, false, true, false, true, true,
         false)), (String ((Ascii (false, false, true, false, true, true,
         true, false)), (String ((Ascii (true, false, true, false, false,
         true, true, false)), (String ((Ascii (false, true, false, false,
         true, true, true, false)), (String ((Ascii (true, false, false,
         false, false, true, true, false)), (String ((Ascii (false, false,
         true, true, false, true, true, false)), (String ((Ascii (false,
         false, false, false, false, true, false, false)), (String ((Ascii
         (false, false, true, true, false, true, true, false)), (String
         ((Ascii (true, true, true, true, false, true, true, false)), (String
         ((Ascii (false, true, true, true, false, true, true, false)),
         (String ((Ascii (true, true, true, false, false, true, true,
         false)), (String ((Ascii (true, false, true, false, false, true,
         true, false)), (String ((Ascii (false, true, false, false, true,
         true, true, false)), (String ((Ascii (false, false, false, false,
         false, true, false, false)), (String ((Ascii (false, false, true,
         false, true, true, true, false)), (String ((Ascii (false, false,
         false, true, false, true, true, false)), (String ((Ascii (true,
         false, false, false, false, true, true, false)), (String ((Ascii
         (false, true, true, true, false, true, true, false)), (String
         ((Ascii (false, false, false, false, false, true, false, false)),
         (String ((Ascii (false, true, false, false, true, true, false,
         false)), (String ((Ascii (true, false, true, false, true, true,
         false, false)), (String ((Ascii (true, false, true, false, true,
         true, false, false)), (String ((Ascii (false, false, false, false,
         false, true, false, false)), (String ((Ascii (true, true, true,
         true, false, true, true, false)), (String ((Ascii (false, true,
         false, false, true, true, true, false)), (String ((Ascii (false,
         false, false, false, false, true, false, false)), (String ((Ascii
         (true, true, true, false, true, true, true, false)), (String ((Ascii
         (true, false, false, true, false, true, true, false)), (String
         ((Ascii (false, false, true, false, true, true, true, false)),
         (String ((Ascii (false, false, false, true, false, true, true,
         false)), (String ((Ascii (false, false, false, false, false, true,
         false, false)), (String ((Ascii (true, false, false, false, false,
         true, true, false)), (String ((Ascii (false, false, false, false,
         false, true, false, false)), (String ((Ascii (false, true, true,
         true, false, true, true, false)), (String ((Ascii (true, true, true,
         true, false, true, true, false)), (String ((Ascii (false, true,
         true, true, false, true, true, false)), (String ((Ascii (true,
         false, true, true, false, true, false, false)), (String ((Ascii
         (true, false, false, false, false, false, true, false)), (String
         ((Ascii (true, true, false, false, true, false, true, false)),
         (String ((Ascii (true, true, false, false, false, false, true,
         false)), (String ((Ascii (true, false, false, true, false, false,
         true, false)), (String ((Ascii (true, false, false, true, false,
         false, true, false)), (String ((Ascii (false, false, false, false,
         false, true, false, false)), (String ((Ascii (false, true, false,
         false, false, true, true, false)), (String ((Ascii (true, false,
         false, true, true, true, true, false)), (String ((Ascii (false,
         false, true, false, true, true, true, false)), (String ((Ascii
         (true, false, true, false, false, true, true, false)),
         EmptyString))))))))))))))))))))))))))))))))))))))))))))))))))))))))))))))))))))))))))))))))))))))))))))))))))))))))))))))))
  | EVar x -> read_var ge x s
  | ESub (a, i) ->
    bind (resolve_array ge a s) (fun av s0 ->
      bind (ev i s0) (fun iv s1 -> int_of iv (fun n -> read_elem av a n s1)))
  | ECall (f, args) ->
    (match call_target ge f s with
     | TSys n -> bind (operands evs args s) (fun vs s1 -> do_sys n vs true s1)
     | TProc ->
       bind (operands evs args s) (fun vs s1 -> invoke ex ge true f vs s1)
     | TBad ->
       Fail (Unsupported (String ((Ascii (true, true, false, false, false,
         true, true, false)), (String ((Ascii (true, false, false, false,
         false, true, true, false)), (String ((Ascii (false, false, true,
         true, false, true, true, false)), (String ((Ascii (false, false,
         true, true, false, true, true, false)), (String ((Ascii (false,
         false, false, false, false, true, false, false)), (String ((Ascii
         (true, true, true, true, false, true, true, false)), (String ((Ascii
         (false, true, true, false, false, true, true, false)), (String
         ((Ascii (false, false, false, false, false, true, false, false)),
         (String ((Ascii (true, false, false, false, false, true, true,
         false)), (String ((Ascii (false, false, false, false, false, true,
         false, false)), (String ((Ascii (false, true, true, false, true,
         true, true, false)), (String ((Ascii (true, false, false, false,
         false, true, true, false)), (String ((Ascii (false, true, false,
         false, true, true, true, false)), (String ((Ascii (true, false,
         false, true, false, true, true, false)), (String ((Ascii (true,
         false, false, false, false, true, true, false)), (String ((Ascii
         (false, true, false, false, false, true, true, false)), (String
         ((Ascii (false, false, true, true, false, true, true, false)),
         (String ((Ascii (true, false, true, false, false, true, true,
         false)), (String ((Ascii (false, false, false, false, false, true,
         false, false)), (String ((Ascii (true, true, true, true, false,
         true, true, false)), (String ((Ascii (false, true, false, false,
         true, true, true, false)), (String ((Ascii (false, false, false,
         false, false, true, false, false)), (String ((Ascii (false, true,
         true, false, false, true, true, false)), (String ((Ascii (true,
         true, true, true, false, true, true, false)), (String ((Ascii
         (false, true, false, false, true, true, true, false)), (String
         ((Ascii (true, false, true, true, false, true, true, false)),
         (String ((Ascii (true, false, false, false, false, true, true,
         false)), (String ((Ascii (false, false, true, true, false, true,
         true, false)),
         EmptyString))))))))))))))))))))))))))))))))))))))))))))))))))))))))))
  | ESys (n, args) ->
    bind (operands evs args s) (fun vs s1 -> do_sys n vs true s1)
  | EUn (o, a) ->
    (match o with
     | Neg ->
       bind (ev a s) (fun v s1 ->
         int_of v (fun n ->
           if in_int (Z.sub Z0 n)
           then Ret ((Vint (Z.sub Z0 n)), s1)
           else Fail ArithOverflow))
     | Not ->
       bind (ev a s) (fun v s1 ->
         bool_of v (fun b -> Ret ((Vint (of_bool (negb b))), s1))))
  | EBin (o, l, r) ->
    (match o with
     | Plus ->
       bind (operands evs (l :: (r :: [])) s) (fun vs s1 ->
         match vs with
         | [] ->
           Fail (Unsupported (String ((Ascii (true, false, false, true,
             false, true, true, false)), (String ((Ascii (false, true, true,
             true, false, true, true, false)), (String ((Ascii (false, false,
             true, false, true, true, true, false)), (String ((Ascii (true,
             false, true, false, false, true, true, false)), (String ((Ascii
             (false, true, false, false, true, true, true, false)), (String
             ((Ascii (false, true, true, true, false, true, true, false)),
             (String ((Ascii (true, false, false, false, false, true, true,
             false)), (String ((Ascii (false, false, true, true, false, true,
             true, false)), (String ((Ascii (false, true, false, true, true,
             true, false, false)), (String ((Ascii (false, false, false,
             false, false, true, false, false)), (String ((Ascii (true, true,
             true, true, false, true, true, false)), (String ((Ascii (false,
             false, false, false, true, true, true, false)), (String ((Ascii
             (true, false, true, false, false, true, true, false)), (String
             ((Ascii (false, true, false, false, true, true, true, false)),
             (String ((Ascii (true, false, false, false, false, true, true,
             false)), (String ((Ascii (false, true, true, true, false, true,
             true, false)), (String ((Ascii (false, false, true, false,
             false, true, true, false)), (String ((Ascii (true, true, false,
             false, true, true, true, false)),
             EmptyString)))))))))))))))))))))))))))))))))))))
         | a :: l0 ->
           (match l0 with
            | [] ->
              Fail (Unsupported (String ((Ascii (true, false, false, true,
                false, true, true, false)), (String ((Ascii (false, true,
                true, true, false, true, true, false)), (String ((Ascii
                (false, false, true, false, true, true, true, false)),
                (String ((Ascii (true, false, true, false, false, true, true,
                false)), (String ((Ascii (false, true, false, false, true,
                true, true, false)), (String ((Ascii (false, true, true,
                true, false, true, true, false)), (String ((Ascii (true,
                false, false, false, false, true, true, false)), (String
                ((Ascii (false, false, true, true, false, true, true,
                false)), (String ((Ascii (false, true, false, true, true,
                true, false, false)), (String ((Ascii (false, false, false,
                false, false, true, false, false)), (String ((Ascii (true,
                true, true, true, false, true, true, false)), (String ((Ascii
                (false, false, false, false, true, true, true, false)),
                (String ((Ascii (true, false, true, false, false, true, true,
                false)), (String ((Ascii (false, true, false, false, true,
                true, true, false)), (String ((Ascii (true, false, false,
                false, false, true, true, false)), (String ((Ascii (false,
                true, true, true, false, true, true, false)), (String ((Ascii
                (false, false, true, false, false, true, true, false)),
                (String ((Ascii (true, true, false, false, true, true, true,
                false)), EmptyString)))))))))))))))))))))))))))))))))))))
            | b :: l1 ->
              (match l1 with
               | [] ->
                 int_of a (fun x ->
                   int_of b (fun y ->
                     match binop_ans o x y with
                     | Coq_inl u -> Fail u
                     | Coq_inr z -> Ret ((Vint z), s1)))
               | _ :: _ ->
                 Fail (Unsupported (String ((Ascii (true, false, false, true,
                   false, true, true, false)), (String ((Ascii (false, true,
                   true, true, false, true, true, false)), (String ((Ascii
                   (false, false, true, false, true, true, true, false)),
                   (String ((Ascii (true, false, true, false, false, true,
                   true, false)), (String ((Ascii (false, true, false, false,
                   true, true, true, false)), (String ((Ascii (false, true,
                   true, true, false, true, true, false)), (String ((Ascii
                   (true, false, false, false, false, true, true, false)),
                   (String ((Ascii (false, false, true, true, false, true,
                   true, false)), (String ((Ascii (false, true, false, true,
                   true, true, false, false)), (String ((Ascii (false, false,
                   false, false, false, true, false, false)), (String ((Ascii
                   (true, true, true, true, false, true, true, false)),
                   (String ((Ascii (false, false, false, false, true, true,
                   true, false)), (String ((Ascii (true, false, true, false,
                   false, true, true, false)), (String ((Ascii (false, true,
                   false, false, true, true, true, false)), (String ((Ascii
                   (true, false, false, false, false, true, true, false)),
                   (String ((Ascii (false, true, true, true, false, true,
                   true, false)), (String ((Ascii (false, false, true, false,
                   false, true, true, false)), (String ((Ascii (true, true,
                   false, false, true, true, true, false)),
                   EmptyString))))))))))))))))))))))))))))))))))))))))
     | Minus ->
       bind (operands evs (l :: (r :: [])) s) (fun vs s1 ->
         match vs with
         | [] ->
           Fail (Unsupported (String ((Ascii (true, false, false, true,
             false, true, true, false)), (String ((Ascii (false, true, true,
             true, false, true, true, false)), (String ((Ascii (false, false,
             true, false, true, true, true, false)), (String ((Ascii (true,
             false, true, false, false, true, true, false)), (String ((Ascii
             (false, true, false, false, true, true, true, false)), (String
             ((Ascii (false, true, true, true, false, true, true, false)),
             (String ((Ascii (true, false, false, false, false, true, true,
             false)), (String ((Ascii (false, false, true, true, false, true,
             true, false)), (String ((Ascii (false, true, false, true, true,
             true, false, false)), (String ((Ascii (false, false, false,
             false, false, true, false, false)), (String ((Ascii (true, true,
             true, true, false, true, true, false)), (String ((Ascii (false,
             false, false, false, true, true, true, false)), (String ((Ascii
             (true, false, true, false, false, true, true, false)), (String
             ((Ascii (false, true, false, false, true, true, true, false)),
             (String ((Ascii (true, false, false, false, false, true, true,
             false)), (String ((Ascii (false, true, true, true, false, true,
             true, false)), (String ((Ascii (false, false, true, false,
             false, true, true, false)), (String ((Ascii (true, true, false,
             false, true, true, true, false)),
             EmptyString)))))))))))))))))))))))))))))))))))))
         | a :: l0 ->
           (match l0 with
            | [] ->
              Fail (Unsupported (String ((Ascii (true, false, false, true,
                false, true, true, false)), (String ((Ascii (false, true,
                true, true, false, true, true, false)), (String ((Ascii
                (false, false, true, false, true, true, true, false)),
                (String ((Ascii (true, false, true, false, false, true, true,
                false)), (String ((Ascii (false, true, false, false, true,
                true, true, false)), (String ((Ascii (false, true, true,
                true, false, true, true, false)), (String ((Ascii (true,
                false, false, false, false, true, true, false)), (String
                ((Ascii (false, false, true, true, false, true, true,
                false)), (String ((Ascii (false, true, false, true, true,
                true, false, false)), (String ((Ascii (false, false, false,
                false, false, true, false, false)), (String ((Ascii (true,
                true, true, true, false, true, true, false)), (String ((Ascii
                (false, false, false, false, true, true, true, false)),
                (String ((Ascii (true, false, true, false, false, true, true,
                false)), (String ((Ascii (false, true, false, false, true,
                true, true, false)), (String ((Ascii (true, false, false,
                false, false, true, true, false)), (String ((Ascii (false,
                true, true, true, false, true, true, false)), (String ((Ascii
                (false, false, true, false, false, true, true, false)),
                (String ((Ascii (true, true, false, false, true, true, true,
                false)), EmptyString)))))))))))))))))))))))))))))))))))))
            | b :: l1 ->
              (match l1 with
               | [] ->
                 int_of a (fun x ->
                   int_of b (fun y ->
                     match binop_ans o x y with
                     | Coq_inl u -> Fail u
                     | Coq_inr z -> Ret ((Vint z), s1)))
               | _ :: _ ->
                 Fail (Unsupported (String ((Ascii (true, false, false, true,
                   false, true, true, false)), (String ((Ascii (false, true,
                   true, true, false, true, true, false)), (String ((Ascii
                   (false, false, true, false, true, true, true, false)),
                   (String ((Ascii (true, false, true, false, false, true,
                   true, false)), (String ((Ascii (false, true, false, false,
                   true, true, true, false)), (String ((Ascii (false, true,
                   true, true, false, true, true, false)), (String ((Ascii
                   (true, false, false, false, false, true, true, false)),
                   (String ((Ascii (false, false, true, true, false, true,
                   true, false)), (String ((Ascii (false, true, false, true,
                   true, true, false, false)), (String ((Ascii (false, false,
                   false, false, false, true, false, false)), (String ((Ascii
                   (true, true, true, true, false, true, true, false)),
                   (String ((Ascii (false, false, false, false, true, true,
                   true, false)), (String ((Ascii (true, false, true, false,
                   false, true, true, false)), (String ((Ascii (false, true,
                   false, false, true, true, true, false)), (String ((Ascii
                   (true, false, false, false, false, true, true, false)),
                   (String ((Ascii (false, true, true, true, false, true,
                   true, false)), (String ((Ascii (false, false, true, false,
                   false, true, true, false)), (String ((Ascii (true, true,
                   false, false, true, true, true, false)),
                   EmptyString))))))))))))))))))))))))))))))))))))))))
     | Or ->
       bind (ev l s) (fun v s1 ->
         bool_of v (fun b ->
           if b
           then Ret ((Vint (Zpos Coq_xH)), s1)
           else bind (ev r s1) (fun w s2 ->
                  bool_of w (fun c -> Ret ((Vint (of_bool c)), s2)))))
     | And ->
       bind (ev l s) (fun v s1 ->
         bool_of v (fun b ->
           if b
           then bind (ev r s1) (fun w s2 ->
                  bool_of w (fun c -> Ret ((Vint (of_bool c)), s2)))
           else Ret ((Vint Z0), s1)))
     | Eq ->
       bind (operands evs (l :: (r :: [])) s) (fun vs s1 ->
         match vs with
         | [] ->
           Fail (Unsupported (String ((Ascii (true, false, false, true,
             false, true, true, false)), (String ((Ascii (false, true, true,
             true, false, true, true, false)), (String ((Ascii (false, false,
             true, false, true, true, true, false)), (String ((Ascii (true,
             false, true, false, false, true, true, false)), (String ((Ascii
             (false, true, false, false, true, true, true, false)), (String
             ((Ascii (false, true, true, true, false, true, true, false)),
             (String ((Ascii (true, false, false, false, false, true, true,
             false)), (String ((Ascii (false, false, true, true, false, true,
             true, false)), (String ((Ascii (false, true, false, true, true,
             true, false, false)), (String ((Ascii (false, false, false,
             false, false, true, false, false)), (String ((Ascii (true, true,
             true, true, false, true, true, false)), (String ((Ascii (false,
             false, false, false, true, true, true, false)), (String ((Ascii
             (true, false, true, false, false, true, true, false)), (String
             ((Ascii (false, true, false, false, true, true, true, false)),
             (String ((Ascii (true, false, false, false, false, true, true,
             false)), (String ((Ascii (false, true, true, true, false, true,
             true, false)), (String ((Ascii (false, false, true, false,
             false, true, true, false)), (String ((Ascii (true, true, false,
             false, true, true, true, false)),
             EmptyString)))))))))))))))))))))))))))))))))))))
         | a :: l0 ->
           (match l0 with
            | [] ->
              Fail (Unsupported (String ((Ascii (true, false, false, true,
                false, true, true, false)), (String ((Ascii (false, true,
                true, true, false, true, true, false)), (String ((Ascii
                (false, false, true, false, true, true, true, false)),
                (String ((Ascii (true, false, true, false, false, true, true,
                false)), (String ((Ascii (false, true, false, false, true,
                true, true, false)), (String ((Ascii (false, true, true,
                true, false, true, true, false)), (String ((Ascii (true,
                false, false, false, false, true, true, false)), (String
                ((Ascii (false, false, true, true, false, true, true,
                false)), (String ((Ascii (false, true, false, true, true,
                true, false, false)), (String ((Ascii (false, false, false,
                false, false, true, false, false)), (String ((Ascii (true,
                true, true, true, false, true, true, false)), (String ((Ascii
                (false, false, false, false, true, true, true, false)),
                (String ((Ascii (true, false, true, false, false, true, true,
                false)), (String ((Ascii (false, true, false, false, true,
                true, true, false)), (String ((Ascii (true, false, false,
                false, false, true, true, false)), (String ((Ascii (false,
                true, true, true, false, true, true, false)), (String ((Ascii
                (false, false, true, false, false, true, true, false)),
                (String ((Ascii (true, true, false, false, true, true, true,
                false)), EmptyString)))))))))))))))))))))))))))))))))))))
            | b :: l1 ->
              (match l1 with
               | [] ->
                 int_of a (fun x ->
                   int_of b (fun y ->
                     match binop_ans o x y with
                     | Coq_inl u -> Fail u
                     | Coq_inr z -> Ret ((Vint z), s1)))
               | _ :: _ ->
                 Fail (Unsupported (String ((Ascii (true, false, false, true,
                   false, true, true, false)), (String ((Ascii (false, true,
                   true, true, false, true, true, false)), (String ((Ascii
                   (false, false, true, false, true, true, true, false)),
                   (String ((Ascii (true, false, true, false, false, true,
                   true, false)), (String ((Ascii (false, true, false, false,
                   true, true, true, false)), (String ((Ascii (false, true,
                   true, true, false, true, true, false)), (String ((Ascii
                   (true, false, false, false, false, true, true, false)),
                   (String ((Ascii (false, false, true, true, false, true,
                   true, false)), (String ((Ascii (false, true, false, true,
                   true, true, false, false)), (String ((Ascii (false, false,
                   false, false, false, true, false, false)), (String ((Ascii
                   (true, true, true, true, false, true, true, false)),
                   (String ((Ascii (false, false, false, false, true, true,
                   true, false)), (String ((Ascii (true, false, true, false,
                   false, true, true, false)), (String ((Ascii (false, true,
                   false, false, true, true, true, false)), (String ((Ascii
                   (true, false, false, false, false, true, true, false)),
                   (String ((Ascii (false, true, true, true, false, true,
                   true, false)), (String ((Ascii (false, false, true, false,
                   false, true, true, false)), (String ((Ascii (true, true,
                   false, false, true, true, true, false)),
                   EmptyString))))))))))))))))))))))))))))))))))))))))
     | Ne ->
       bind (operands evs (l :: (r :: [])) s) (fun vs s1 ->
         match vs with
         | [] ->
           Fail (Unsupported (String ((Ascii (true, false, false, true,
             false, true, true, false)), (String ((Ascii (false, true, true,
             true, false, true, true, false)), (String ((Ascii (false, false,
             true, false, true, true, true, false)), (String ((Ascii (true,
             false, true, false, false, true, true, false)), (String ((Ascii
             (false, true, false, false, true, true, true, false)), (String
             ((Ascii (false, true, true, true, false, true, true, false)),
             (String ((Ascii (true, false, false, false, false, true, true,
             false)), (String ((Ascii (false, false, true, true, false, true,
             true, false)), (String ((Ascii (false, true, false, true, true,
             true, false, false)), (String ((Ascii (false, false, false,
             false, false, true, false, false)), (String ((Ascii (true, true,
             true, true, false, true, true, false)), (String ((Ascii (false,
             false, false, false, true, true, true, false)), (String ((Ascii
             (true, false, true, false, false, true, true, false)), (String
             ((Ascii (false, true, false, false, true, true, true, false)),
             (String ((Ascii (true, false, false, false, false, true, true,
             false)), (String ((Ascii (false, true, true, true, false, true,
             true, false)), (String ((Ascii (false, false, true, false,
             false, true, true, false)), (String ((Ascii (true, true, false,
             false, true, true, true, false)),
             EmptyString)))))))))))))))))))))))))))))))))))))
         | a :: l0 ->
           (match l0 with
            | [] ->
              Fail (Unsupported (String ((Ascii (true, false, false, true,
                false, true, true, false)), (String ((Ascii (false, true,
                true, true, false, true, true, false)), (String ((Ascii
                (false, false, true, false, true, true, true, false)),
                (String ((Ascii (true, false, true, false, false, true, true,
                false)), (String ((Ascii (false, true, false, false, true,
                true, true, false)), (String ((Ascii (false, true, true,
                true, false, true, true, false)), (String ((Ascii (true,
                false, false, false, false, true, true, false)), (String
                ((Ascii (false, false, true, true, false, true, true,
                false)), (String ((Ascii (false, true, false, true, true,
                true, false, false)), (String ((Ascii (false, false, false,
                false, false, true, false, false)), (String ((Ascii (true,
                true, true, true, false, true, true, false)), (String ((Ascii
                (false, false, false, false, true, true, true, false)),
                (String ((Ascii (true, false, true, false, false, true, true,
                false)), (String ((Ascii (false, true, false, false, true,
                true, true, false)), (String ((Ascii (true, false, false,
                false, false, true, true, false)), (String ((Ascii (false,
                true, true, true, false, true, true, false)), (String ((Ascii
                (false, false, true, false, false, true, true, false)),
                (String ((Ascii (true, true, false, false, true, true, true,
                false)), EmptyString)))))))))))))))))))))))))))))))))))))
            | b :: l1 ->
              (match l1 with
               | [] ->
                 int_of a (fun x ->
                   int_of b (fun y ->
                     match binop_ans o x y with
                     | Coq_inl u -> Fail u
                     | Coq_inr z -> Ret ((Vint z), s1)))
               | _ :: _ ->
                 Fail (Unsupported (String ((Ascii (true, false, false, true,
                   false, true, true, false)), (String ((Ascii (false, true,
                   true, true, false, true, true, false)), (String ((Ascii
                   (false, false, true, false, true, true, true, false)),
                   (String ((Ascii (true, false, true, false, false, true,
                   true, false)), (String ((Ascii (false, true, false, false,
                   true, true, true, false)), (String ((Ascii (false, true,
                   true, true, false, true, true, false)), (String ((Ascii
                   (true, false, false, false, false, true, true, false)),
                   (String ((Ascii (false, false, true, true, false, true,
                   true, false)), (String ((Ascii (false, true, false, true,
                   true, true, false, false)), (String ((Ascii (false, false,
                   false, false, false, true, false, false)), (String ((Ascii
                   (true, true, true, true, false, true, true, false)),
                   (String ((Ascii (false, false, false, false, true, true,
                   true, false)), (String ((Ascii (true, false, true, false,
                   false, true, true, false)), (String ((Ascii (false, true,
                   false, false, true, true, true, false)), (String ((Ascii
                   (true, false, false, false, false, true, true, false)),
                   (String ((Ascii (false, true, true, true, false, true,
                   true, false)), (String ((Ascii (false, false, true, false,
                   false, true, true, false)), (String ((Ascii (true, true,
                   false, false, true, true, true, false)),
                   EmptyString))))))))))))))))))))))))))))))))))))))))
     | Ls ->
       bind (operands evs (l :: (r :: [])) s) (fun vs s1 ->
         match vs with
         | [] ->
           Fail (Unsupported (String ((Ascii (true, false, false, true,
             false, true, true, false)), (String ((Ascii (false, true, true,
             true, false, true, true, false)), (String ((Ascii (false, false,
             true, false, true, true, true, false)), (String ((Ascii (true,
             false, true, false, false, true, true, false)), (String ((Ascii
             (false, true, false, false, true, true, true, false)), (String
             ((Ascii (false, true, true, true, false, true, true, false)),
             (String ((Ascii (true, false, false, false, false, true, true,
             false)), (String ((Ascii (false, false, true, true, false, true,
             true, false)), (String ((Ascii (false, true, false, true, true,
             true, false, false)), (String ((Ascii (false, false, false,
             false, false, true, false, false)), (String ((Ascii (true, true,
             true, true, false, true, true, false)), (String ((Ascii (false,
             false, false, false, true, true, true, false)), (String ((Ascii
             (true, false, true, false, false, true, true, false)), (String
             ((Ascii (false, true, false, false, true, true, true, false)),
             (String ((Ascii (true, false, false, false, false, true, true,
             false)), (String ((Ascii (false, true, true, true, false, true,
             true, false)), (String ((Ascii (false, false, true, false,
             false, true, true, false)), (String ((Ascii (true, true, false,
             false, true, true, true, false)),
             EmptyString)))))))))))))))))))))))))))))))))))))
         | a :: l0 ->
           (match l0 with
            | [] ->
              Fail (Unsupported (String ((Ascii (true, false, false, true,
                false, true, true, false)), (String ((Ascii (false, true,
                true, true, false, true, true, false)), (String ((Ascii
                (false, false, true, false, true, true, true, false)),
                (String ((Ascii (true, false, true, false, false, true, true,
                false)), (String ((Ascii (false, true, false, false, true,
                true, true, false)), (String ((Ascii (false, true, true,
                true, false, true, true, false)), (String ((Ascii (true,
                false, false, false, false, true, true, false)), (String
                ((Ascii (false, false, true, true, false, true, true,
                false)), (String ((Ascii (false, true, false, true, true,
                true, false, false)), (String ((Ascii (false, false, false,
                false, false, true, false, false)), (String ((Ascii (true,
                true, true, true, false, true, true, false)), (String ((Ascii
                (false, false, false, false, true, true, true, false)),
                (String ((Ascii (true, false, true, false, false, true, true,
                false)), (String ((Ascii (false, true, false, false, true,
                true, true, false)), (String ((Ascii (true, false, false,
                false, false, true, true, false)), (String ((Ascii (false,
                true, true, true, false, true, true, false)), (String ((Ascii
                (false, false, true, false, false, true, true, false)),
                (String ((Ascii (true, true, false, false, true, true, true,
                false)), EmptyString)))))))))))))))))))))))))))))))))))))
            | b :: l1 ->
              (match l1 with
               | [] ->
                 int_of a (fun x ->
                   int_of b (fun y ->
                     match binop_ans o x y with
                     | Coq_inl u -> Fail u
                     | Coq_inr z -> Ret ((Vint z), s1)))
               | _ :: _ ->
                 Fail (Unsupported (String ((Ascii (true, false, false, true,
                   false, true, true, false)), (String ((Ascii (false, true,
                   true, true, false, true, true, false)), (String ((Ascii
                   (false, false, true, false, true, true, true, false)),
                   (String ((Ascii (true, false, true, false, false, true,
                   true, false)), (String ((Ascii (false, true, false, false,
                   true, true, true, false)), (String ((Ascii (false, true,
                   true, true, false, true, true, false)), (String ((Ascii
                   (true, false, false, false, false, true, true, false)),
                   (String ((Ascii (false, false, true, true, false, true,
                   true, false)), (String ((Ascii (false, true, false, true,
                   true, true, false, false)), (String ((Ascii (false, false,
                   false, false, false, true, false, false)), (String ((Ascii
                   (true, true, true, true, false, true, true, false)),
                   (String ((Ascii (false, false, false, false, true, true,
                   true, false)), (String ((Ascii (true, false, true, false,
                   false, true, true, false)), (String ((Ascii (false, true,
                   false, false, true, true, true, false)), (String ((Ascii
                   (true, false, false, false, false, true, true, false)),
                   (String ((Ascii (false, true, true, true, false, true,
                   true, false)), (String ((Ascii (false, false, true, false,
                   false, true, true, false)), (String ((Ascii (true, true,
                   false, false, true, true, true, false)),
                   EmptyString))))))))))))))))))))))))))))))))))))))))
     | Le ->
       bind (operands evs (l :: (r :: [])) s) (fun vs s1 ->
         match vs with
         | [] ->
           Fail (Unsupported (String ((Ascii (true, false, false, true,
             false, true, true, false)), (String ((Ascii (false, true, true,
             true, false, true, true, false)), (String ((Ascii (false, false,
             true, false, true, true, true, false)), (String ((Ascii (true,
             false, true, false, false, true, true, false)), (String ((Ascii
             (false, true, false, false, true, true, true, false)), (String
             ((Ascii (false, true, true, true, false, true, true, false)),
             (String ((Ascii (true, false, false, false, false, true, true,
             false)), (String ((Ascii (false, false, true, true, false, true,
             true, false)), (String ((Ascii (false, true, false, true, true,
             true, false, false)), (String ((Ascii (false, false, false,
             false, false, true, false, false)), (String ((Ascii (true, true,
             true, true, false, true, true, false)), (String ((Ascii (false,
             false, false, false, true, true, true, false)), (String ((Ascii
             (true, false, true, false, false, true, true, false)), (String
             ((Ascii (false, true, false, false, true, true, true, false)),
             (String ((Ascii (true, false, false, false, false, true, true,
             false)), (String ((Ascii (false, true, true, true, false, true,
             true, false)), (String ((Ascii (false, false, true, false,
             false, true, true, false)), (String ((Ascii (true, true, false,
             false, true, true, true, false)),
             EmptyString)))))))))))))))))))))))))))))))))))))
         | a :: l0 ->
           (match l0 with
            | [] ->
              Fail (Unsupported (String ((Ascii (true, false, false, true,
                false, true, true, false)), (String ((Ascii (false, true,
                true, true, false, true, true, false)), (String ((Ascii
                (false, false, true, false, true, true, true, false)),
                (String ((Ascii (true, false, true, false, false, true, true,
                false)), (String ((Ascii (false, true, false, false, true,
                true, true, false)), (String ((Ascii (false, true, true,
                true, false, true, true, false)), (String ((Ascii (true,
                false, false, false, false, true, true, false)), (String
                ((Ascii (false, false, true, true, false, true, true,
                false)), (String ((Ascii (false, true, false, true, true,
                true, false, false)), (String ((Ascii (false, false, false,
                false, false, true, false, false)), (String ((Ascii (true,
                true, true, true, false, true, true, false)), (String ((Ascii
                (false, false, false, false, true, true, true, false)),
                (String ((Ascii (true, false, true, false, false, true, true,
                false)), (String ((Ascii (false, true, false, false, true,
                true, true, false)), (String ((Ascii (true, false, false,
                false, false, true, true, false)), (String ((Ascii (false,
                true, true, true, false, true, true, false)), (String ((Ascii
                (false, false, true, false, false, true, true, false)),
                (String ((Ascii (true, true, false, false, true, true, true,
                false)), EmptyString)))))))))))))))))))))))))))))))))))))
            | b :: l1 ->
              (match l1 with
               | [] ->
                 int_of a (fun x ->
                   int_of b (fun y ->
                     match binop_ans o x y with
                     | Coq_inl u -> Fail u
                     | Coq_inr z -> Ret ((Vint z), s1)))
               | _ :: _ ->
                 Fail (Unsupported (String ((Ascii (true, false, false, true,
                   false, true, true, false)), (String ((Ascii (false, true,
                   true, true, false, true, true, false)), (String ((Ascii
                   (false, false, true, false, true, true, true, false)),
                   (String ((Ascii (true, false, true, false, false, true,
                   true, false)), (String ((Ascii (false, true, false, false,
                   true, true, true, false)), (String ((Ascii (false, true,
                   true, true, false, true, true, false)), (String ((Ascii
                   (true, false, false, false, false, true, true, false)),
                   (String ((Ascii (false, false, true, true, false, true,
                   true, false)), (String ((Ascii (false, true, false, true,
                   true, true, false, false)), (String ((Ascii (false, false,
                   false, false, false, true, false, false)), (String ((Ascii
                   (true, true, true, true, false, true, true, false)),
                   (String ((Ascii (false, false, false, false, true, true,
                   true, false)), (String ((Ascii (true, false, true, false,
                   false, true, true, false)), (String ((Ascii (false, true,
                   false, false, true, true, true, false)), (String ((Ascii
                   (true, false, false, false, false, true, true, false)),
                   (String ((Ascii (false, true, true, true, false, true,
                   true, false)), (String ((Ascii (false, false, true, false,
                   false, true, true, false)), (String ((Ascii (true, true,
                   false, false, true, true, true, false)),
                   EmptyString))))))))))))))))))))))))))))))))))))))))
     | Gr ->
       bind (operands evs (l :: (r :: [])) s) (fun vs s1 ->
         match vs with
         | [] ->
           Fail (Unsupported (String ((Ascii (true, false, false, true,
             false, true, true, false)), (String ((Ascii (false, true, true,
             true, false, true, true, false)), (String ((Ascii (false, false,
             true, false, true, true, true, false)), (String ((Ascii (true,
             false, true, false, false, true, true, false)), (String ((Ascii
             (false, true, false, false, true, true, true, false)), (String
             ((Ascii (false, true, true, true, false, true, true, false)),
             (String ((Ascii (true, false, false, false, false, true, true,
             false)), (String ((Ascii (false, false, true, true, false, true,
             true, false)), (String ((Ascii (false, true, false, true, true,
             true, false, false)), (String ((Ascii (false, false, false,
             false, false, true, false, false)), (String ((Ascii (true, true,
             true, true, false, true, true, false)), (String ((Ascii (false,
             false, false, false, true, true, true, false)), (String ((Ascii
             (true, false, true, false, false, true, true, false)), (String
             ((Ascii (false, true, false, false, true, true, true, false)),
             (String ((Ascii (true, false, false, false, false, true, true,
             false)), (String ((Ascii (false, true, true, true, false, true,
             true, false)), (String ((Ascii (false, false, true, false,
             false, true, true, false)), (String ((Ascii (true, true, false,
             false, true, true, true, false)),
             EmptyString)))))))))))))))))))))))))))))))))))))
         | a :: l0 ->
           (match l0 with
            | [] ->
              Fail (Unsupported (String ((Ascii (true, false, false, true,
                false, true, true, false)), (String ((Ascii (false, true,
                true, true, false, true, true, false)), (String ((Ascii
                (false, false, true, false, true, true, true, false)),
                (String ((Ascii (true, false, true, false, false, true, true,
                false)), (String ((Ascii (false, true, false, false, true,
                true, true, false)), (String ((Ascii (false, true, true,
                true, false, true, true, false)), (String ((Ascii (true,
                false, false, false, false, true, true, false)), (String
                ((Ascii (false, false, true, true, false, true, true,
                false)), (String ((Ascii (false, true, false, true, true,
                true, false, false)), (String ((Ascii (false, false, false,
                false, false, true, false, false)), (String ((Ascii (true,
                true, true, true, false, true, true, false)), (String ((Ascii
                (false, false, false, false, true, true, true, false)),
                (String ((Ascii (true, false, true, false, false, true, true,
                false)), (String ((Ascii (false, true, false, false, true,
                true, true, false)), (String ((Ascii (true, false, false,
                false, false, true, true, false)), (String ((Ascii (false,
                true, true, true, false, true, true, false)), (String ((Ascii
                (false, false, true, false, false, true, true, false)),
                (String ((Ascii (true, true, false, false, true, true, true,
                false)), EmptyString)))))))))))))))))))))))))))))))))))))
            | b :: l1 ->
              (match l1 with
               | [] ->
                 int_of a (fun x ->
                   int_of b (fun y ->
                     match binop_ans o x y with
                     | Coq_inl u -> Fail u
                     | Coq_inr z -> Ret ((Vint z), s1)))
               | _ :: _ ->
                 Fail (Unsupported (String ((Ascii (true, false, false, true,
                   false, true, true, false)), (String ((Ascii (false, true,
                   true, true, false, true, true, false)), (String ((Ascii
                   (false, false, true, false, true, true, true, false)),
                   (String ((Ascii (true, false, true, false, false, true,
                   true, false)), (String ((Ascii (false, true, false, false,
                   true, true, true, false)), (String ((Ascii (false, true,
                   true, true, false, true, true, false)), (String ((Ascii
                   (true, false, false, false, false, true, true, false)),
                   (String ((Ascii (false, false, true, true, false, true,
                   true, false)), (String ((Ascii (false, true, false, true,
                   true, true, false, false)), (String ((Ascii (false, false,
                   false, false, false, true, false, false)), (String ((Ascii
                   (true, true, true, true, false, true, true, false)),
                   (String ((Ascii (false, false, false, false, true, true,
                   true, false)), (String ((Ascii (true, false, true, false,
                   false, true, true, false)), (String ((Ascii (false, true,
                   false, false, true, true, true, false)), (String ((Ascii
                   (true, false, false, false, false, true, true, false)),
                   (String ((Ascii (false, true, true, true, false, true,
                   true, false)), (String ((Ascii (false, false, true, false,
                   false, true, true, false)), (String ((Ascii (true, true,
                   false, false, true, true, true, false)),
                   EmptyString))))))))))))))))))))))))))))))))))))))))
     | Ge ->
       bind (operands evs (l :: (r :: [])) s) (fun vs s1 ->
         match vs with
         | [] ->
           Fail (Unsupported (String ((Ascii (true, false, false, true,
             false, true, true, false)), (String ((Ascii (false, true, true,
             true, false, true, true, false)), (String ((Ascii (false, false,
             true, false, true, true, true, false)), (String ((Ascii (true,
             false, true, false, false, true, true, false)), (String ((Ascii
             (false, true, false, false, true, true, true, false)), (String
             ((Ascii (false, true, true, true, false, true, true, false)),
             (String ((Ascii (true, false, false, false, false, true, true,
             false)), (String ((Ascii (false, false, true, true, false, true,
             true, false)), (String ((Ascii (false, true, false, true, true,
             true, false, false)), (String ((Ascii (false, false, false,
             false, false, true, false, false)), (String ((Ascii (true, true,
             true, true, false, true, true, false)), (String ((Ascii (false,
             false, false, false, true, true, true, false)), (String ((Ascii
             (true, false, true, false, false, true, true, false)), (String
             ((Ascii (false, true, false, false, true, true, true, false)),
             (String ((Ascii (true, false, false, false, false, true, true,
             false)), (String ((Ascii (false, true, true, true, false, true,
             true, false)), (String ((Ascii (false, false, true, false,
             false, true, true, false)), (String ((Ascii (true, true, false,
             false, true, true, true, false)),
             EmptyString)))))))))))))))))))))))))))))))))))))
         | a :: l0 ->
           (match l0 with
            | [] ->
              Fail (Unsupported (String ((Ascii (true, false, false, true,
                false, true, true, false)), (String ((Ascii (false, true,
                true, true, false, true, true, false)), (String ((Ascii
                (false, false, true, false, true, true, true, false)),
                (String ((Ascii (true, false, true, false, false, true, true,
                false)), (String ((Ascii (false, true, false, false, true,
                true, true, false)), (String ((Ascii (false, true, true,
                true, false, true, true, false)), (String ((Ascii (true,
                false, false, false, false, true, true, false)), (String
                ((Ascii (false, false, true, true, false, true, true,
                false)), (String ((Ascii (false, true, false, true, true,
                true, false, false)), (String ((Ascii (false, false, false,
                false, false, true, false, false)), (String ((Ascii (true,
                true, true, true, false, true, true, false)), (String ((Ascii
                (false, false, false, false, true, true, true, false)),
                (String ((Ascii (true, false, true, false, false, true, true,
                false)), (String ((Ascii (false, true, false, false, true,
                true, true, false)), (String ((Ascii (true, false, false,
                false, false, true, true, false)), (String ((Ascii (false,
                true, true, true, false, true, true, false)), (String ((Ascii
                (false, false, true, false, false, true, true, false)),
                (String ((Ascii (true, true, false, false, true, true, true,
                false)), EmptyString)))))))))))))))))))))))))))))))))))))
            | b :: l1 ->
              (match l1 with
               | [] ->
                 int_of a (fun x ->
                   int_of b (fun y ->
                     match binop_ans o x y with
                     | Coq_inl u -> Fail u
                     | Coq_inr z -> Ret ((Vint z), s1)))
               | _ :: _ ->
                 Fail (Unsupported (String ((Ascii (true, false, false, true,
                   false, true, true, false)), (String ((Ascii (false, true,
                   true, true, false, true, true, false)), (String ((Ascii
                   (false, false, true, false, true, true, true, false)),
                   (String ((Ascii (true, false, true, false, false, true,
                   true, false)), (String ((Ascii (false, true, false, false,
                   true, true, true, false)), (String ((Ascii (false, true,
                   true, true, false, true, true, false)), (String ((Ascii
                   (true, false, false, false, false, true, true, false)),
                   (String ((Ascii (false, false, true, true, false, true,
                   true, false)), (String ((Ascii (false, true, false, true,
                   true, true, false, false)), (String ((Ascii (false, false,
                   false, false, false, true, false, false)), (String ((Ascii
                   (true, true, true, true, false, true, true, false)),
                   (String ((Ascii (false, false, false, false, true, true,
                   true, false)), (String ((Ascii (true, false, true, false,
                   false, true, true, false)), (String ((Ascii (false, true,
                   false, false, true, true, true, false)), (String ((Ascii
                   (true, false, false, false, false, true, true, false)),
                   (String ((Ascii (false, true, true, true, false, true,
                   true, false)), (String ((Ascii (false, false, true, false,
                   false, true, true, false)), (String ((Ascii (true, true,
                   false, false, true, true, true, false)),
                   EmptyString)))))))))))))))))))))))))))))))))))))))))

(** val exec_body :
    (expr -> state -> value res) -> (expr list -> state -> (value * eff) list
    res) -> (stmt -> state -> flow res) -> (stmt list -> state -> flow res)
    -> genv -> stmt -> state -> flow res **)

let exec_body ev evs ex exs ge st s0 =
  tick s0 (fun s ->
    match st with
    | SSkip -> Ret (Normal, s)
    | SStop -> Halt (Z0, s)
    | SReturn e -> bind (ev e s) (fun v s1 -> Ret ((Returned v), s1))
    | SIf (c, t0, e) ->
      bind (ev c s) (fun v s1 ->
        bool_of v (fun b -> ex (if b then t0 else e) s1))
    | SWhile (c, b) ->
      bind (ev c s) (fun v s1 ->
        bool_of v (fun t0 ->
          if t0
          then bind (ex b s1) (fun fl s2 ->
                 match fl with
                 | Normal -> ex (SWhile (c, b)) s2
                 | Returned w -> Ret ((Returned w), s2))
          else Ret (Normal, s1)))
    | SSeq ss -> exs ss s
    | SAssign (x, e) ->
      bind (ev e s) (fun v s1 -> int_of v (fun n -> assign ge x n s1))
    | SAssignSub (a, i, e) ->
      bind (resolve_array ge a s) (fun av s1 ->
        bind (operands evs (i :: (e :: [])) s1) (fun vs s2 ->
          match vs with
          | [] ->
            Fail (Unsupported (String ((Ascii (true, false, false, true,
              false, true, true, false)), (String ((Ascii (false, true, true,
              true, false, true, true, false)), (String ((Ascii (false,
              false, true, false, true, true, true, false)), (String ((Ascii
              (true, false, true, false, false, true, true, false)), (String
              ((Ascii (false, true, false, false, true, true, true, false)),
              (String ((Ascii (false, true, true, true, false, true, true,
              false)), (String ((Ascii (true, false, false, false, false,
              true, true, false)), (String ((Ascii (false, false, true, true,
              false, true, true, false)), (String ((Ascii (false, true,
              false, true, true, true, false, false)), (String ((Ascii
              (false, false, false, false, false, true, false, false)),
              (String ((Ascii (true, true, true, true, false, true, true,
              false)), (String ((Ascii (false, false, false, false, true,
              true, true, false)), (String ((Ascii (true, false, true, false,
              false, true, true, false)), (String ((Ascii (false, true,
              false, false, true, true, true, false)), (String ((Ascii (true,
              false, false, false, false, true, true, false)), (String
              ((Ascii (false, true, true, true, false, true, true, false)),
              (String ((Ascii (false, false, true, false, false, true, true,
              false)), (String ((Ascii (true, true, false, false, true, true,
              true, false)), EmptyString)))))))))))))))))))))))))))))))))))))
          | iv :: l ->
            (match l with
             | [] ->
               Fail (Unsupported (String ((Ascii (true, false, false, true,
                 false, true, true, false)), (String ((Ascii (false, true,
                 true, true, false, true, true, false)), (String ((Ascii
                 (false, false, true, false, true, true, true, false)),
                 (String ((Ascii (true, false, true, false, false, true,
                 true, false)), (String ((Ascii (false, true, false, false,
                 true, true, true, false)), (String ((Ascii (false, true,
                 true, true, false, true, true, false)), (String ((Ascii
                 (true, false, false, false, false, true, true, false)),
                 (String ((Ascii (false, false, true, true, false, true,
                 true, false)), (String ((Ascii (false, true, false, true,
                 true, true, false, false)), (String ((Ascii (false, false,
                 false, false, false, true, false, false)), (String ((Ascii
                 (true, true, true, true, false, true, true, false)), (String
                 ((Ascii (false, false, false, false, true, true, true,
                 false)), (String ((Ascii (true, false, true, false, false,
                 true, true, false)), (String ((Ascii (false, true, false,
                 false, true, true, true, false)), (String ((Ascii (true,
                 false, false, false, false, true, true, false)), (String
                 ((Ascii (false, true, true, true, false, true, true,
                 false)), (String ((Ascii (false, false, true, false, false,
                 true, true, false)), (String ((Ascii (true, true, false,
                 false, true, true, true, false)),
                 EmptyString)))))))))))))))))))))))))))))))))))))
             | v :: l0 ->
               (match l0 with
                | [] ->
                  int_of iv (fun n ->
                    int_of v (fun w -> write_elem av a n w s2))
                | _ :: _ ->
                  Fail (Unsupported (String ((Ascii (true, false, false,
                    true, false, true, true, false)), (String ((Ascii (false,
                    true, true, true, false, true, true, false)), (String
                    ((Ascii (false, false, true, false, true, true, true,
                    false)), (String ((Ascii (true, false, true, false,
                    false, true, true, false)), (String ((Ascii (false, true,
                    false, false, true, true, true, false)), (String ((Ascii
                    (false, true, true, true, false, true, true, false)),
                    (String ((Ascii (true, false, false, false, false, true,
                    true, false)), (String ((Ascii (false, false, true, true,
                    false, true, true, false)), (String ((Ascii (false, true,
                    false, true, true, true, false, false)), (String ((Ascii
                    (false, false, false, false, false, true, false, false)),
                    (String ((Ascii (true, true, true, true, false, true,
                    true, false)), (String ((Ascii (false, false, false,
                    false, true, true, true, false)), (String ((Ascii (true,
                    false, true, false, false, true, true, false)), (String
                    ((Ascii (false, true, false, false, true, true, true,
                    false)), (String ((Ascii (true, false, false, false,
                    false, true, true, false)), (String ((Ascii (false, true,
                    true, true, false, true, true, false)), (String ((Ascii
                    (false, false, true, false, false, true, true, false)),
                    (String ((Ascii (true, true, false, false, true, true,
                    true, false)),
                    EmptyString)))))))))))))))))))))))))))))))))))))))))
    | SCall (f, args) ->
      (match call_target ge f s with
       | TSys n ->
         bind (operands evs args s) (fun vs s1 ->
           bind (do_sys n vs false s1) (fun _ s2 -> Ret (Normal, s2)))
       | TProc ->
         bind (operands evs args s) (fun vs s1 ->
           bind (invoke ex ge false f vs s1) (fun _ s2 -> Ret (Normal, s2)))
       | TBad ->
         Fail (Unsupported (String ((Ascii (true, true, false, false, false,
           true, true, false)), (String ((Ascii (true, false, false, false,
           false, true, true, false)), (String ((Ascii (false, false, true,
           true, false, true, true, false)), (String ((Ascii (false, false,
           true, true, false, true, true, false)), (String ((Ascii (false,
           false, false, false, false, true, false, false)), (String ((Ascii
           (true, true, true, true, false, true, true, false)), (String
           ((Ascii (false, true, true, false, false, true, true, false)),
           (String ((Ascii (false, false, false, false, false, true, false,
           false)), (String ((Ascii (true, false, false, false, false, true,
           true, false)), (String ((Ascii (false, false, false, false, false,
           true, false, false)), (String ((Ascii (false, true, true, false,
           true, true, true, false)), (String ((Ascii (true, false, false,
           false, false, true, true, false)), (String ((Ascii (false, true,
           false, false, true, true, true, false)), (String ((Ascii (true,
           false, false, true, false, true, true, false)), (String ((Ascii
           (true, false, false, false, false, true, true, false)), (String
           ((Ascii (false, true, false, false, false, true, true, false)),
           (String ((Ascii (false, false, true, true, false, true, true,
           false)), (String ((Ascii (true, false, true, false, false, true,
           true, false)), (String ((Ascii (false, false, false, false, false,
           true, false, false)), (String ((Ascii (true, true, true, true,
           false, true, true, false)), (String ((Ascii (false, true, false,
           false, true, true, true, false)), (String ((Ascii (false, false,
           false, false, false, true, false, false)), (String ((Ascii (false,
           true, true, false, false, true, true, false)), (String ((Ascii
           (true, true, true, true, false, true, true, false)), (String
           ((Ascii (false, true, false, false, true, true, true, false)),
           (String ((Ascii (true, false, true, true, false, true, true,
           false)), (String ((Ascii (true, false, false, false, false, true,
           true, false)), (String ((Ascii (false, false, true, true, false,
           true, true, false)),
           EmptyString))))))))))))))))))))))))))))))))))))))))))))))))))))))))))
    | SSys (n, args) ->
      bind (operands evs args s) (fun vs s1 ->
        bind (do_sys n vs false s1) (fun _ s2 -> Ret (Normal, s2))))

(** val execs_body :
    (stmt -> state -> flow res) -> (stmt list -> state -> flow res) -> stmt
    list -> state -> flow res **)

let execs_body ex exs ss s =
  match ss with
  | [] -> Ret (Normal, s)
  | st :: r ->
    bind (ex st s) (fun fl s1 ->
      match fl with
      | Normal -> exs r s1
      | Returned v -> Ret ((Returned v), s1))

(** val eval : nat -> genv -> expr -> state -> value res **)

let rec eval f ge e s =
  match f with
  | O -> Fail FuelExhausted
  | S f' -> eval_body (eval f' ge) (evals f' ge) (exec f' ge) ge e s

(** val evals :
    nat -> genv -> expr list -> state -> (value * eff) list res **)

and evals f ge es s =
  match f with
  | O -> Fail FuelExhausted
  | S f' -> evals_body (eval f' ge) (evals f' ge) es s

(** val exec : nat -> genv -> stmt -> state -> flow res **)

and exec f ge st s =
  match f with
  | O -> Fail FuelExhausted
  | S f' ->
    exec_body (eval f' ge) (evals f' ge) (exec f' ge) (execs f' ge) ge st s

(** val execs : nat -> genv -> stmt list -> state -> flow res **)

and execs f ge ss s =
  match f with
  | O -> Fail FuelExhausted
  | S f' -> execs_body (exec f' ge) (execs f' ge) ss s

(** val wf_proc : proc -> bool **)

let wf_proc p =
  negb (has_dup (app (map formal_name p.formals) (map decl_name p.locals)))

(** val wf_program : program -> string option **)

let wf_program p =
  if has_dup
       (app (map decl_name p.globals) (map (fun p0 -> p0.pname) p.procs))
  then Some (String ((Ascii (false, false, true, false, false, true, true,
         false)), (String ((Ascii (true, false, true, false, true, true,
         true, false)), (String ((Ascii (false, false, false, false, true,
         true, true, false)), (String ((Ascii (false, false, true, true,
         false, true, true, false)), (String ((Ascii (true, false, false,
         true, false, true, true, false)), (String ((Ascii (true, true,
         false, false, false, true, true, false)), (String ((Ascii (true,
         false, false, false, false, true, true, false)), (String ((Ascii
         (false, false, true, false, true, true, true, false)), (String
         ((Ascii (true, false, true, false, false, true, true, false)),
         (String ((Ascii (false, false, false, false, false, true, false,
         false)), (String ((Ascii (true, true, true, false, false, true,
         true, false)), (String ((Ascii (false, false, true, true, false,
         true, true, false)), (String ((Ascii (true, true, true, true, false,
         true, true, false)), (String ((Ascii (false, true, false, false,
         false, true, true, false)), (String ((Ascii (true, false, false,
         false, false, true, true, false)), (String ((Ascii (false, false,
         true, true, false, true, true, false)), (String ((Ascii (false,
         false, false, false, false, true, false, false)), (String ((Ascii
         (false, true, true, true, false, true, true, false)), (String
         ((Ascii (true, false, false, false, false, true, true, false)),
         (String ((Ascii (true, false, true, true, false, true, true,
         false)), (String ((Ascii (true, false, true, false, false, true,
         true, false)), EmptyString))))))))))))))))))))))))))))))))))))))))))
  else if forallb wf_proc p.procs
       then None
       else Some (String ((Ascii (false, false, true, false, false, true,
              true, false)), (String ((Ascii (true, false, true, false, true,
              true, true, false)), (String ((Ascii (false, false, false,
              false, true, true, true, false)), (String ((Ascii (false,
              false, true, true, false, true, true, false)), (String ((Ascii
              (true, false, false, true, false, true, true, false)), (String
              ((Ascii (true, true, false, false, false, true, true, false)),
              (String ((Ascii (true, false, false, false, false, true, true,
              false)), (String ((Ascii (false, false, true, false, true,
              true, true, false)), (String ((Ascii (true, false, true, false,
              false, true, true, false)), (String ((Ascii (false, false,
              false, false, false, true, false, false)), (String ((Ascii
              (false, true, true, true, false, true, true, false)), (String
              ((Ascii (true, false, false, false, false, true, true, false)),
              (String ((Ascii (true, false, true, true, false, true, true,
              false)), (String ((Ascii (true, false, true, false, false,
              true, true, false)), (String ((Ascii (false, false, false,
              false, false, true, false, false)), (String ((Ascii (true,
              false, false, true, false, true, true, false)), (String ((Ascii
              (false, true, true, true, false, true, true, false)), (String
              ((Ascii (false, false, false, false, false, true, false,
              false)), (String ((Ascii (true, false, false, false, false,
              true, true, false)), (String ((Ascii (false, false, false,
              false, false, true, false, false)), (String ((Ascii (false,
              false, false, false, true, true, true, false)), (String ((Ascii
              (false, true, false, false, true, true, true, false)), (String
              ((Ascii (true, true, true, true, false, true, true, false)),
              (String ((Ascii (true, true, false, false, false, true, true,
              false)), (String ((Ascii (true, false, true, false, false,
              true, true, false)), (String ((Ascii (false, false, true,
              false, false, true, true, false)), (String ((Ascii (true,
              false, true, false, true, true, true, false)), (String ((Ascii
              (false, true, false, false, true, true, true, false)), (String
              ((Ascii (true, false, true, false, false, true, true, false)),
              EmptyString))))))))))))))))))))))))))))))))))))))))))))))))))))))))))

(** val init_globals :
    decl list -> (string * coq_Z) list -> (string * value) list ->
    (string * arr) list -> (undef, ((string * coq_Z) list * (string * value)
    list) * (string * arr) list) sum **)

let rec init_globals ds vals vars arrs =
  match ds with
  | [] -> Coq_inr ((vals, vars), arrs)
  | d :: r ->
    (match d with
     | DVal (x, e) ->
       (match eval_const (fun y -> assoc y vals) e with
        | Coq_inl u -> Coq_inl u
        | Coq_inr z -> init_globals r ((x, z) :: vals) vars arrs)
     | DVar x -> init_globals r vals ((x, Vundef) :: vars) arrs
     | DArray (x, e) ->
       (match eval_const (fun y -> assoc y vals) e with
        | Coq_inl u -> Coq_inl u
        | Coq_inr n ->
          if Z.ltb n Z0
          then Coq_inl (Unsupported (String ((Ascii (false, true, true, true,
                 false, true, true, false)), (String ((Ascii (true, false,
                 true, false, false, true, true, false)), (String ((Ascii
                 (true, true, true, false, false, true, true, false)),
                 (String ((Ascii (true, false, false, false, false, true,
                 true, false)), (String ((Ascii (false, false, true, false,
                 true, true, true, false)), (String ((Ascii (true, false,
                 false, true, false, true, true, false)), (String ((Ascii
                 (false, true, true, false, true, true, true, false)),
                 (String ((Ascii (true, false, true, false, false, true,
                 true, false)), (String ((Ascii (false, false, false, false,
                 false, true, false, false)), (String ((Ascii (true, false,
                 false, false, false, true, true, false)), (String ((Ascii
                 (false, true, false, false, true, true, true, false)),
                 (String ((Ascii (false, true, false, false, true, true,
                 true, false)), (String ((Ascii (true, false, false, false,
                 false, true, true, false)), (String ((Ascii (true, false,
                 false, true, true, true, true, false)), (String ((Ascii
                 (false, false, false, false, false, true, false, false)),
                 (String ((Ascii (false, false, true, true, false, true,
                 true, false)), (String ((Ascii (true, false, true, false,
                 false, true, true, false)), (String ((Ascii (false, true,
                 true, true, false, true, true, false)), (String ((Ascii
                 (true, true, true, false, false, true, true, false)),
                 (String ((Ascii (false, false, true, false, true, true,
                 true, false)), (String ((Ascii (false, false, false, true,
                 false, true, true, false)),
                 EmptyString)))))))))))))))))))))))))))))))))))))))))))
          else init_globals r vals vars ((x, { alen = n; acells =
                 PositiveMap.empty }) :: arrs)))

(** val finish : state -> coq_Z -> outcome **)

let finish s code =
  Behaviour { outputs = (rev s.out_rev); consumed = s.ncons; exit_value =
    code }

(** val run_fuel : nat -> coq_Z -> nat -> program -> coq_Z list -> outcome **)

let run_fuel fuel steps maxdepth p inp =
  match wf_program p with
  | Some msg -> Undef (Unsupported msg)
  | None ->
    (match init_globals p.globals [] [] [] with
     | Coq_inl u -> Undef u
     | Coq_inr p0 ->
       let (p1, arrs) = p0 in
       let (vals, vars) = p1 in
       (match find_proc (String ((Ascii (true, false, true, true, false,
                true, true, false)), (String ((Ascii (true, false, false,
                false, false, true, true, false)), (String ((Ascii (true,
                false, false, true, false, true, true, false)), (String
                ((Ascii (false, true, true, true, false, true, true, false)),
                EmptyString)))))))) p.procs with
        | Some m ->
          if (||) m.is_func
               (negb (match m.formals with
                      | [] -> true
                      | _ :: _ -> false))
          then Undef (Unsupported (String ((Ascii (true, false, true, true,
                 false, true, true, false)), (String ((Ascii (true, false,
                 false, false, false, true, true, false)), (String ((Ascii
                 (true, false, false, true, false, true, true, false)),
                 (String ((Ascii (false, true, true, true, false, true, true,
                 false)), (String ((Ascii (false, false, false, false, false,
                 true, false, false)), (String ((Ascii (true, false, true,
                 true, false, true, true, false)), (String ((Ascii (true,
                 false, true, false, true, true, true, false)), (String
                 ((Ascii (true, true, false, false, true, true, true,
                 false)), (String ((Ascii (false, false, true, false, true,
                 true, true, false)), (String ((Ascii (false, false, false,
                 false, false, true, false, false)), (String ((Ascii (false,
                 true, false, false, false, true, true, false)), (String
                 ((Ascii (true, false, true, false, false, true, true,
                 false)), (String ((Ascii (false, false, false, false, false,
                 true, false, false)), (String ((Ascii (true, false, false,
                 false, false, true, true, false)), (String ((Ascii (false,
                 false, false, false, false, true, false, false)), (String
                 ((Ascii (false, false, false, false, true, true, true,
                 false)), (String ((Ascii (false, true, false, false, true,
                 true, true, false)), (String ((Ascii (true, true, true,
                 true, false, true, true, false)), (String ((Ascii (true,
                 true, false, false, false, true, true, false)), (String
                 ((Ascii (true, false, true, false, false, true, true,
                 false)), (String ((Ascii (false, false, true, false, false,
                 true, true, false)), (String ((Ascii (true, false, true,
                 false, true, true, true, false)), (String ((Ascii (false,
                 true, false, false, true, true, true, false)), (String
                 ((Ascii (true, false, true, false, false, true, true,
                 false)), (String ((Ascii (false, false, false, false, false,
                 true, false, false)), (String ((Ascii (true, true, true,
                 false, true, true, true, false)), (String ((Ascii (true,
                 false, false, true, false, true, true, false)), (String
                 ((Ascii (false, false, true, false, true, true, true,
                 false)), (String ((Ascii (false, false, false, true, false,
                 true, true, false)), (String ((Ascii (true, true, true,
                 true, false, true, true, false)), (String ((Ascii (true,
                 false, true, false, true, true, true, false)), (String
                 ((Ascii (false, false, true, false, true, true, true,
                 false)), (String ((Ascii (false, false, false, false, false,
                 true, false, false)), (String ((Ascii (false, true, true,
                 false, false, true, true, false)), (String ((Ascii (true,
                 true, true, true, false, true, true, false)), (String
                 ((Ascii (false, true, false, false, true, true, true,
                 false)), (String ((Ascii (true, false, true, true, false,
                 true, true, false)), (String ((Ascii (true, false, false,
                 false, false, true, true, false)), (String ((Ascii (false,
                 false, true, true, false, true, true, false)), (String
                 ((Ascii (true, true, false, false, true, true, true,
                 false)),
                 EmptyString)))))))))))))))))))))))))))))))))))))))))))))))))))))))))))))))))))))))))))))))))
          else let ge = { g_vals = vals; g_procs = p.procs; g_maxdepth =
                 maxdepth }
               in
               let s0 = { gvars = vars; garrs = arrs; out_rev = []; input =
                 inp; ncons = O; budget = steps; cur = eff0; stk =
                 ({ f_vars = []; f_vals = []; f_depth = O } :: []) }
               in
               (match invoke (exec fuel ge) ge false (String ((Ascii (true,
                        false, true, true, false, true, true, false)),
                        (String ((Ascii (true, false, false, false, false,
                        true, true, false)), (String ((Ascii (true, false,
                        false, true, false, true, true, false)), (String
                        ((Ascii (false, true, true, true, false, true, true,
                        false)), EmptyString)))))))) [] s0 with
                | Ret (_, s) -> finish s Z0
                | Halt (c, s) -> finish s c
                | Fail u -> Undef u)
        | None ->
          Undef (Unsupported (String ((Ascii (false, true, true, true, false,
            true, true, false)), (String ((Ascii (true, true, true, true,
            false, true, true, false)), (String ((Ascii (false, false, false,
            false, false, true, false, false)), (String ((Ascii (false,
            false, false, false, true, true, true, false)), (String ((Ascii
            (false, true, false, false, true, true, true, false)), (String
            ((Ascii (true, true, true, true, false, true, true, false)),
            (String ((Ascii (true, true, false, false, false, true, true,
            false)), (String ((Ascii (true, false, true, false, false, true,
            true, false)), (String ((Ascii (false, false, true, false, false,
            true, true, false)), (String ((Ascii (true, false, true, false,
            true, true, true, false)), (String ((Ascii (false, true, false,
            false, true, true, true, false)), (String ((Ascii (true, false,
            true, false, false, true, true, false)), (String ((Ascii (false,
            false, false, false, false, true, false, false)), (String ((Ascii
            (true, false, true, true, false, true, true, false)), (String
            ((Ascii (true, false, false, false, false, true, true, false)),
            (String ((Ascii (true, false, false, true, false, true, true,
            false)), (String ((Ascii (false, true, true, true, false, true,
            true, false)), EmptyString)))))))))))))))))))))))))))))))))))))

(** val default_fuel : nat **)

let default_fuel =
  Z.to_nat (Zpos (Coq_xO (Coq_xO (Coq_xO (Coq_xO (Coq_xO (Coq_xO (Coq_xI
    (Coq_xO (Coq_xO (Coq_xI (Coq_xO (Coq_xO (Coq_xO (Coq_xO (Coq_xI (Coq_xO
    (Coq_xI (Coq_xI (Coq_xI Coq_xH))))))))))))))))))))

(** val default_steps : coq_Z **)

let default_steps =
  Zpos (Coq_xO (Coq_xO (Coq_xO (Coq_xO (Coq_xO (Coq_xO (Coq_xO (Coq_xI
    (Coq_xO (Coq_xO (Coq_xI (Coq_xO (Coq_xO (Coq_xO (Coq_xO (Coq_xI (Coq_xO
    (Coq_xI (Coq_xI (Coq_xI Coq_xH))))))))))))))))))))

(** val default_depth : nat **)

let default_depth =
  Z.to_nat (Zpos (Coq_xO (Coq_xO (Coq_xO (Coq_xO (Coq_xI (Coq_xO (Coq_xI
    (Coq_xI (Coq_xI (Coq_xI Coq_xH)))))))))))

(** val run : program -> coq_Z list -> outcome **)

let run p inp =
  run_fuel default_fuel default_steps default_depth p inp
