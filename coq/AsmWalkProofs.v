(* AsmWalkProofs.v -- what a successful AsmSpec.walk says about the layout, as an explicit statement rather than
   by reading the validator: the placed directives are the source directives in source order; they are laid out from
   the start position without overlap (each starts at or after the end of the one before, the end position is at or
   after the end of the last); every DATA word starts on a word boundary and occupies 4 bytes; a label followed (after
   further labels only) by DATA is placed at the DATA word, so the DATA word is named by the labels directly before it. *)
From Coq Require Import ZArith Lia Bool List.
From HexVerif Require Import WMap Isa AsmModel AsmSpec.
Import ListNotations.
Local Open Scope Z_scope.

(* consecutive, non-overlapping placement from `pos` to `e` *)
Fixpoint laid_out (pos : Z) (ps : list placed) (e : Z) : Prop :=
  match ps with
  | [] => e = pos
  | p :: r => pos <= p_start p /\ 0 <= p_size p /\ laid_out (p_start p + p_size p) r e
  end.

(* the first DATA start after a run of labels *)
Fixpoint names_data (ps : list placed) : Prop :=
  match ps with
  | [] => True
  | p :: r =>
      (match p_dir p, r with
       | DLabel _ _, q :: _ =>
           match p_dir q with
           | DData _ => p_start p = p_start q
           | DLabel _ _ => run_then_data (map p_dir r) = true -> p_start p = p_start q
           | _ => True
           end
       | _, _ => True
       end) /\ names_data r
  end.

Definition data_aligned (ps : list placed) : Prop :=
  forall p, In p ps -> match p_dir p with DData _ => p_start p mod 4 = 0 /\ p_size p = 4 | _ => True end.

Lemma up4_ge p : p <= up4 p.
Proof. unfold up4. destruct (p mod 4 =? 0) eqn:E; [lia|]. pose proof (Z.mod_pos_bound p 4). lia. Qed.

Lemma up4_aligned p : up4 p mod 4 = 0.
Proof.
  unfold up4. destruct (p mod 4 =? 0) eqn:E.
  - apply Z.eqb_eq in E. exact E.
  - pose proof (Z.mod_pos_bound p 4 ltac:(lia)) as Hb. pose proof (Z.div_mod p 4 ltac:(lia)) as Hd.
    replace (p + (4 - p mod 4)) with ((p / 4 + 1) * 4) by lia. apply Z.mod_mul. lia.
Qed.

Lemma up4_idem p : p mod 4 = 0 -> up4 p = p.
Proof. intros H. unfold up4. rewrite H. reflexivity. Qed.

Lemma decode_go_next : forall fuel img pos o opc v nxt,
  decode_go fuel img pos o = Some (opc, v, nxt) -> pos + 1 <= nxt.
Proof.
  induction fuel as [|f IH]; intros img pos o opc v nxt H; cbn [decode_go] in H; [discriminate|].
  destruct ((rd img pos / 16 =? 14) || (rd img pos / 16 =? 15)) eqn:E.
  - apply IH in H. lia.
  - inversion H; subst. lia.
Qed.

Lemma laid_out_le : forall ps pos e, laid_out pos ps e -> pos <= e.
Proof.
  induction ps as [|p r IH]; intros pos e H; cbn [laid_out] in H.
  - lia.
  - destruct H as (H1 & H2 & H3). apply IH in H3. lia.
Qed.

(* the directives found are the source directives, in source order *)
Theorem walk_source_order : forall l img pos ps e, walk l img pos = Some (ps, e) -> map p_dir ps = l.
Proof.
  induction l as [|d rest IH]; intros img pos ps e H.
  - cbn [walk] in H. inversion H; subst. reflexivity.
  - cbn [walk] in H. destruct d as [v|k n|t v|t n rel|t|z].
    + destruct (_ && _); [|discriminate].
      destruct (walk rest img _) as [[ps' e']|] eqn:W; [|discriminate].
      inversion H; subst. cbn [map p_dir]. f_equal. eapply IH; eassumption.
    + destruct (all_zero _ _ _); [|discriminate].
      destruct (walk rest img _) as [[ps' e']|] eqn:W; [|discriminate].
      inversion H; subst. cbn [map p_dir]. f_equal. eapply IH; eassumption.
    + destruct (decode img pos) as [[[opc o] nxt]|]; [|discriminate].
      destruct (token_opc t); [|discriminate]. destruct (_ && _); [|discriminate].
      destruct (walk rest img _) as [[ps' e']|] eqn:W; [|discriminate].
      inversion H; subst. cbn [map p_dir]. f_equal. eapply IH; eassumption.
    + destruct (decode img pos) as [[[opc o] nxt]|]; [|discriminate].
      destruct (token_opc t); [|discriminate]. destruct (opc =? _); [|discriminate].
      destruct (walk rest img _) as [[ps' e']|] eqn:W; [|discriminate].
      inversion H; subst. cbn [map p_dir]. f_equal. eapply IH; eassumption.
    + destruct (opr_opc t); [|discriminate]. destruct (rd img pos =? _); [|discriminate].
      destruct (walk rest img _) as [[ps' e']|] eqn:W; [|discriminate].
      inversion H; subst. cbn [map p_dir]. f_equal. eapply IH; eassumption.
    + discriminate.
Qed.

(* laid out from `pos` without overlap, DATA aligned *)
Theorem walk_laid_out : forall l img pos ps e, walk l img pos = Some (ps, e) -> laid_out pos ps e /\ data_aligned ps.
Proof.
  induction l as [|d rest IH]; intros img pos ps e H.
  - cbn [walk] in H. inversion H; subst. split; [reflexivity|]. intros p [].
  - cbn [walk] in H. destruct d as [v|k n|t v|t n rel|t|z].
    + destruct (_ && _); [|discriminate].
      destruct (walk rest img _) as [[ps' e']|] eqn:W; [|discriminate].
      inversion H; subst. apply IH in W. destruct W as [W1 W2]. split.
      * cbn [laid_out p_start p_size]. split; [apply up4_ge|split; [lia|exact W1]].
      * intros p [<-|Hin]; [cbn [p_dir p_start p_size]; split; [apply up4_aligned|reflexivity]|apply W2; exact Hin].
    + destruct (all_zero _ _ _); [|discriminate].
      destruct (walk rest img _) as [[ps' e']|] eqn:W; [|discriminate].
      inversion H; subst. apply IH in W. destruct W as [W1 W2]. split.
      * cbn [laid_out p_start p_size]. rewrite Z.add_0_r. split; [|split; [lia|exact W1]].
        destruct (run_then_data _); [apply up4_ge|lia].
      * intros p [<-|Hin]; [exact I|apply W2; exact Hin].
    + destruct (decode img pos) as [[[opc o] nxt]|] eqn:D; [|discriminate].
      destruct (token_opc t); [|discriminate]. destruct (_ && _); [|discriminate].
      destruct (walk rest img _) as [[ps' e']|] eqn:W; [|discriminate].
      inversion H; subst. apply IH in W. destruct W as [W1 W2]. apply decode_go_next in D. split.
      * cbn [laid_out p_start p_size]. split; [lia|split; [lia|]]. replace (pos + (nxt - pos)) with nxt by lia. exact W1.
      * intros p [<-|Hin]; [exact I|apply W2; exact Hin].
    + destruct (decode img pos) as [[[opc o] nxt]|] eqn:D; [|discriminate].
      destruct (token_opc t); [|discriminate]. destruct (opc =? _); [|discriminate].
      destruct (walk rest img _) as [[ps' e']|] eqn:W; [|discriminate].
      inversion H; subst. apply IH in W. destruct W as [W1 W2]. apply decode_go_next in D. split.
      * cbn [laid_out p_start p_size]. split; [lia|split; [lia|]]. replace (pos + (nxt - pos)) with nxt by lia. exact W1.
      * intros p [<-|Hin]; [exact I|apply W2; exact Hin].
    + destruct (opr_opc t); [|discriminate]. destruct (rd img pos =? _); [|discriminate].
      destruct (walk rest img _) as [[ps' e']|] eqn:W; [|discriminate].
      inversion H; subst. apply IH in W. destruct W as [W1 W2]. split.
      * cbn [laid_out p_start p_size]. split; [lia|split; [lia|exact W1]].
      * intros p [<-|Hin]; [exact I|apply W2; exact Hin].
    + discriminate.
Qed.

(* the first placed directive of a successful walk over a label run followed by DATA starts at up4 pos *)
Lemma walk_head_start : forall l img pos ps e p r,
  walk l img pos = Some (ps, e) -> ps = p :: r -> run_then_data l = true -> p_start p = up4 pos.
Proof.
  intros l img pos ps e p r H Hps Hr. destruct l as [|d rest]; [discriminate|].
  cbn [walk] in H. destruct d as [v|k n|t v|t n rel|t|z]; try discriminate.
  - destruct (_ && _); [|discriminate].
    destruct (walk rest img _) as [[ps' e']|]; [|discriminate]. inversion H; subst. inversion H1; subst. reflexivity.
  - rewrite Hr in H. destruct (all_zero _ _ _); [|discriminate].
    destruct (walk rest img _) as [[ps' e']|]; [|discriminate]. inversion H; subst. inversion H1; subst. reflexivity.
Qed.

(* a label directly before DATA (through further labels) is placed at the DATA word *)
Theorem walk_names_data : forall l img pos ps e, walk l img pos = Some (ps, e) -> names_data ps.
Proof.
  induction l as [|d rest IH]; intros img pos ps e H.
  - cbn [walk] in H. inversion H; subst. exact I.
  - pose proof H as H0. cbn [walk] in H. destruct d as [v|k n|t v|t n rel|t|z].
    + destruct (_ && _); [|discriminate].
      destruct (walk rest img _) as [[ps' e']|] eqn:W; [|discriminate].
      inversion H; subst. cbn [names_data p_dir]. split; [exact I|eapply IH; eassumption].
    + destruct (run_then_data (DLabel k n :: rest)) eqn:R.
      * destruct (all_zero _ _ _); [|discriminate].
        destruct (walk rest img (up4 pos)) as [[ps' e']|] eqn:W; [|discriminate].
        inversion H; subst. cbn [names_data p_dir p_start]. split; [|eapply IH; eassumption].
        destruct ps' as [|q r']; [exact I|].
        cbn [run_then_data] in R.
        pose proof (walk_head_start _ _ _ _ _ _ _ W eq_refl R) as Hq.
        rewrite (up4_idem _ (up4_aligned pos)) in Hq.
        destruct (p_dir q); try exact I; [|intros _]; symmetry; exact Hq.
      * destruct (all_zero _ _ _); [|discriminate].
        destruct (walk rest img pos) as [[ps' e']|] eqn:W; [|discriminate].
        inversion H; subst. cbn [names_data p_dir p_start]. split; [|eapply IH; eassumption].
        destruct ps' as [|q r']; [exact I|].
        cbn [run_then_data] in R. pose proof (walk_source_order _ _ _ _ _ W) as Hs.
        destruct (p_dir q) eqn:Eq; try exact I.
        -- exfalso. rewrite <- Hs in R. cbn [map] in R. rewrite Eq in R. cbn [run_then_data] in R. discriminate.
        -- intros Hr. rewrite Hs in Hr. rewrite R in Hr. discriminate.
    + destruct (decode img pos) as [[[opc o] nxt]|]; [|discriminate].
      destruct (token_opc t); [|discriminate]. destruct (_ && _); [|discriminate].
      destruct (walk rest img _) as [[ps' e']|] eqn:W; [|discriminate].
      inversion H; subst. cbn [names_data p_dir]. split; [exact I|eapply IH; eassumption].
    + destruct (decode img pos) as [[[opc o] nxt]|]; [|discriminate].
      destruct (token_opc t); [|discriminate]. destruct (opc =? _); [|discriminate].
      destruct (walk rest img _) as [[ps' e']|] eqn:W; [|discriminate].
      inversion H; subst. cbn [names_data p_dir]. split; [exact I|eapply IH; eassumption].
    + destruct (opr_opc t); [|discriminate]. destruct (rd img pos =? _); [|discriminate].
      destruct (walk rest img _) as [[ps' e']|] eqn:W; [|discriminate].
      inversion H; subst. cbn [names_data p_dir]. split; [exact I|eapply IH; eassumption].
    + discriminate.
Qed.

(* the whole clause for an accepted image, including the header word *)
Theorem check_image_layout : forall prog image hw,
  check_image prog image hw = true ->
  exists ps e, walk prog (bytes_map image) 0 = Some (ps, e) /\
    map p_dir ps = prog /\ laid_out 0 ps e /\ data_aligned ps /\ names_data ps /\
    e <= Z.of_nat (List.length image) /\ Z.of_nat (List.length image) = up4 e /\
    hw * 4 = Z.of_nat (List.length image).
Proof.
  intros prog image hw H. unfold check_image in H.
  destruct (walk prog (bytes_map image) 0) as [[ps e]|] eqn:W; [|discriminate].
  repeat (apply andb_prop in H; destruct H as [H ?]).
  exists ps, e. split; [reflexivity|].
  split; [eapply walk_source_order; eassumption|].
  destruct (walk_laid_out _ _ _ _ _ W) as [L A].
  split; [exact L|]. split; [exact A|]. split; [eapply walk_names_data; eassumption|].
  repeat match goal with Hx : (_ <=? _) = true |- _ => apply Z.leb_le in Hx | Hx : (_ =? _) = true |- _ => apply Z.eqb_eq in Hx end.
  repeat split; lia.
Qed.

(* laid_out in pairwise form: of any two placed directives, the earlier one ends at or before the later one starts,
   and all of them lie in [pos, e] *)
Lemma laid_out_ge : forall ps pos e p, laid_out pos ps e -> In p ps -> pos <= p_start p /\ p_start p + p_size p <= e.
Proof.
  induction ps as [|q r IH]; intros pos e p H Hin; [destruct Hin|].
  cbn [laid_out] in H. destruct H as (H1 & H2 & H3). destruct Hin as [<-|Hin].
  - apply laid_out_le in H3. lia.
  - destruct (IH _ _ _ H3 Hin). lia.
Qed.

Theorem laid_out_pairwise : forall a p b q c pos e,
  laid_out pos (a ++ p :: b ++ q :: c) e -> p_start p + p_size p <= p_start q.
Proof.
  induction a as [|x a IH]; intros p b q c pos e H.
  - cbn [app laid_out] in H. destruct H as (_ & _ & H).
    destruct (laid_out_ge _ _ _ q H) as [Hq _]; [apply in_or_app; right; left; reflexivity|]. exact Hq.
  - cbn [app laid_out] in H. destruct H as (_ & _ & H). eapply IH; eassumption.
Qed.

(* C15, table half, as an explicit statement: the names of a validated symbol table are the FUNC/PROC directives of the
   source, once each, in source order *)
Fixpoint proc_names (l : list directive) : list String.string :=
  match l with
  | [] => []
  | DLabel LFunc n :: r | DLabel LProc n :: r => n :: proc_names r
  | _ :: r => proc_names r
  end.

Lemma expected_syms_names : forall ps, map fst (expected_syms ps) = proc_names (map p_dir ps).
Proof.
  induction ps as [|p r IH]; [reflexivity|].
  cbn [expected_syms map proc_names]. destruct (p_dir p) as [v|k n|t v|t n rel|t|z]; try exact IH.
  destruct k; [exact IH| |]; cbn [map fst]; f_equal; exact IH.
Qed.

Lemma syms_eqb_eq' : forall a b, syms_eqb a b = true -> a = b.
Proof.
  induction a as [|[n1 o1] r1 IH]; intros [|[n2 o2] r2] H; cbn [syms_eqb] in H; try discriminate; [reflexivity|].
  apply andb_prop in H. destruct H as [H H3]. apply andb_prop in H. destruct H as [H1 H2].
  apply String.eqb_eq in H1. apply Z.eqb_eq in H2. subst. f_equal. apply IH. exact H3.
Qed.

Theorem check_symtab_names : forall prog image syms,
  check_symtab prog image syms = true -> map fst syms = proc_names prog.
Proof.
  intros prog image syms H. unfold check_symtab in H.
  destruct (walk prog (bytes_map image) 0) as [[ps e]|] eqn:W; [|discriminate].
  apply syms_eqb_eq' in H. subst syms. rewrite expected_syms_names.
  rewrite (walk_source_order _ _ _ _ _ W). reflexivity.
Qed.
