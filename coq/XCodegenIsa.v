(* XCodegenIsa.v -- the machine side of the code-generator proofs: symbolic instructions (with label operands
   for branches, as xcmp hands them to the assembler), their meaning as Isa.step at the instruction byte, runs of
   Isa.run with their events, and the interface `instr_at` / `code_at` to the assembler.

   `instr_at C lab pos nxt i`: in every memory of the class C (those in which the code is intact) the bytes of
   instruction i occupy [pos, nxt) in the ISA's own sense: started at pos with a clear operand register the ISA
   runs through the prefix bytes (silent steps that change only pc and oreg) and arrives at the instruction byte
   with i's opcode and i's 32-bit operand accumulated; a branch's operand is its label's position relative to nxt.
   This is what AsmSpecProofs.decode_exec establishes for an image the assembler validator accepts
   (XCodegenBridge.v).  A LABEL occupies no bytes and pins the label's position. *)
From Coq Require Import ZArith List Bool Lia.
From HexVerif Require Import WMap Isa.
Import ListNotations.
Local Open Scope Z_scope.

Ltac Zify.zify_post_hook ::= Z.div_mod_to_equations.

Definition label := Z.
Inductive instr :=
| LDAM (a : Z) | LDBM (a : Z) | STAM (a : Z)
| LDAC (v : Z) | LDBC (v : Z) | LDAP (l : label)
| LDAI (k : Z) | LDBI (k : Z) | STAI (k : Z)
| BR (l : label) | BRZ (l : label) | BRN (l : label)
| ADD | SUB | SVC | BRB
| LABEL (l : label).

Definition opc (i : instr) : Z :=
  match i with
  | LDAM _ => 0 | LDBM _ => 1 | STAM _ => 2 | LDAC _ => 3 | LDBC _ => 4 | LDAP _ => 5
  | LDAI _ => 6 | LDBI _ => 7 | STAI _ => 8 | BR _ => 9 | BRZ _ => 10 | BRN _ => 11
  | ADD => 13 | SUB => 13 | SVC => 13 | BRB => 13 | LABEL _ => 0
  end.

(* the 32-bit operand accumulated at the instruction byte *)
Definition operand (lab : label -> Z) (nxt : Z) (i : instr) : Z :=
  match i with
  | LDAM a => a | LDBM a => a | STAM a => a
  | LDAC v => v mod W | LDBC v => v mod W
  | LDAI k => k mod W | LDBI k => k mod W | STAI k => k mod W       (* a negative offset is its 32-bit two's complement *)
  | LDAP l => (lab l - nxt) mod W | BR l => (lab l - nxt) mod W | BRZ l => (lab l - nxt) mod W | BRN l => (lab l - nxt) mod W
  | BRB => 0 | ADD => 1 | SUB => 2 | SVC => 3
  | LABEL _ => 0
  end.

Definition mk (p a b o : Z) (m : WMap.t) : arch := {| pc := p; areg := a; breg := b; oreg := o; mem := m |}.

(* ---------------------------------------------------------------- runs and their events *)
Definition runs (inp : inputs) (s : arch) (evs : list event) (inp' : inputs) (s' : arch) : Prop :=
  exists k, Isa.run k s inp [] = (evs, inp', s', Cut).
Definition exits (inp : inputs) (s : arch) (evs : list event) (inp' : inputs) (c : Z) : Prop :=
  exists k s', Isa.run k s inp [] = (evs ++ [Exit c], inp', s', Exited c).
Definition taus (inp : inputs) (s s' : arch) : Prop := runs inp s [] inp s'.

Lemma run_compose : forall k1 s inp0 evs l inp1 s1,
  Isa.run k1 s inp0 evs = (l, inp1, s1, Cut) ->
  forall k2, Isa.run (k1 + k2) s inp0 evs = Isa.run k2 s1 inp1 (rev l).
Proof.
  induction k1 as [|k IH]; intros s inp0 evs l inp1 s1 H k2.
  - cbn [Isa.run] in H. inversion H; subst. rewrite rev_involutive. reflexivity.
  - cbn [Isa.run Nat.add] in *. destruct (step s inp0) as [[[s' inp'] ev]|u]; [|discriminate].
    destruct ev; try discriminate; eapply IH; exact H.
Qed.

Lemma run_acc : forall k s inp acc,
  Isa.run k s inp acc =
  (rev acc ++ fst (fst (fst (Isa.run k s inp []))), snd (fst (fst (Isa.run k s inp []))),
   snd (fst (Isa.run k s inp [])), snd (Isa.run k s inp [])).
Proof.
  induction k as [|k IH]; intros s inp acc.
  - cbn [Isa.run fst snd rev]. rewrite app_nil_r. reflexivity.
  - cbn [Isa.run]. destruct (step s inp) as [[[s' inp'] ev]|u].
    + destruct ev.
      * apply IH.
      * cbn [fst snd rev app]. reflexivity.
      * rewrite (IH s' inp' (Write byte stream :: acc)), (IH s' inp' [Write byte stream]).
        cbn [fst snd rev app]. rewrite <- app_assoc. reflexivity.
      * rewrite (IH s' inp' (Read stream got :: acc)), (IH s' inp' [Read stream got]).
        cbn [fst snd rev app]. rewrite <- app_assoc. reflexivity.
    + cbn [fst snd rev]. rewrite app_nil_r. reflexivity.
Qed.

Lemma runs_refl inp s : runs inp s [] inp s.
Proof. exists O. reflexivity. Qed.

Lemma runs_trans inp s e1 inp1 s1 e2 inp2 s2 :
  runs inp s e1 inp1 s1 -> runs inp1 s1 e2 inp2 s2 -> runs inp s (e1 ++ e2) inp2 s2.
Proof.
  intros [k1 H1] [k2 H2]. exists (k1 + k2)%nat.
  rewrite (run_compose k1 s inp [] e1 inp1 s1 H1 k2), run_acc, H2. cbn [fst snd]. rewrite rev_involutive. reflexivity.
Qed.

Lemma runs_exits inp s e1 inp1 s1 e2 inp2 c :
  runs inp s e1 inp1 s1 -> exits inp1 s1 e2 inp2 c -> exits inp s (e1 ++ e2) inp2 c.
Proof.
  intros [k1 H1] (k2 & s2 & H2). exists (k1 + k2)%nat, s2.
  rewrite (run_compose k1 s inp [] e1 inp1 s1 H1 k2), run_acc, H2. cbn [fst snd]. rewrite rev_involutive, app_assoc. reflexivity.
Qed.

Lemma taus_refl inp s : taus inp s s. Proof. apply runs_refl. Qed.
Lemma taus_trans inp s1 s2 s3 : taus inp s1 s2 -> taus inp s2 s3 -> taus inp s1 s3.
Proof. intros H1 H2. exact (runs_trans inp s1 [] inp s2 [] inp s3 H1 H2). Qed.
Lemma taus_runs inp s s1 e inp' s2 : taus inp s s1 -> runs inp s1 e inp' s2 -> runs inp s e inp' s2.
Proof. intros H1 H2. exact (runs_trans inp s [] inp s1 e inp' s2 H1 H2). Qed.
Lemma runs_taus inp s e inp' s1 s2 : runs inp s e inp' s1 -> taus inp' s1 s2 -> runs inp s e inp' s2.
Proof. intros H1 H2. pose proof (runs_trans inp s e inp' s1 [] inp' s2 H1 H2) as H. rewrite app_nil_r in H. exact H. Qed.
Lemma taus_exits inp s s1 e inp' c : taus inp s s1 -> exits inp s1 e inp' c -> exits inp s e inp' c.
Proof. intros H1 H2. exact (runs_exits inp s [] inp s1 e inp' c H1 H2). Qed.

Lemma taus_one inp s s1 : step s inp = Ok (s1, inp, Tau) -> taus inp s s1.
Proof. intros H. exists 1%nat. cbn [Isa.run]. rewrite H. reflexivity. Qed.
Lemma runs_write inp s s1 b st : step s inp = Ok (s1, inp, Write b st) -> runs inp s [Write b st] inp s1.
Proof. intros H. exists 1%nat. cbn [Isa.run]. rewrite H. reflexivity. Qed.
Lemma runs_read inp s s1 inp1 st g : step s inp = Ok (s1, inp1, Read st g) -> runs inp s [Read st g] inp1 s1.
Proof. intros H. exists 1%nat. cbn [Isa.run]. rewrite H. reflexivity. Qed.
Lemma exits_one inp s s1 c : step s inp = Ok (s1, inp, Exit c) -> exits inp s [] inp c.
Proof. intros H. exists 1%nat, s1. cbn [Isa.run]. rewrite H. reflexivity. Qed.

(* ---------------------------------------------------------------- the interface to the assembler *)
Definition at_byte (s : arch) (op o : Z) : Prop :=
  in_mem (pc s / 4) = true /\ fetch s / 16 = op /\ Z.lor (oreg s) (fetch s mod 16) = o.

Definition instr_at (C : WMap.t -> Prop) (lab : label -> Z) (pos nxt : Z) (i : instr) : Prop :=
  match i with
  | LABEL l => pos = nxt /\ lab l = pos
  | _ =>
    0 <= pos < nxt /\
    forall m a b inp, C m -> exists s',
      taus inp (mk pos a b 0 m) s' /\ pc s' = nxt - 1 /\ areg s' = a /\ breg s' = b /\ mem s' = m /\
      at_byte s' (opc i) (operand lab nxt i)
  end.

Fixpoint code_at (C : WMap.t -> Prop) (lab : label -> Z) (pos : Z) (c : list instr) (nxt : Z) : Prop :=
  match c with
  | [] => pos = nxt
  | i :: r => exists mid, instr_at C lab pos mid i /\ code_at C lab mid r nxt
  end.

Lemma instr_at_le C lab pos nxt i : instr_at C lab pos nxt i -> pos <= nxt.
Proof. destruct i; cbn [instr_at]; intros H; try (destruct H as [[_ H] _]; lia). destruct H; lia. Qed.

Lemma code_at_le C lab : forall c pos nxt, code_at C lab pos c nxt -> pos <= nxt.
Proof.
  induction c as [|i r IH]; intros pos nxt H; cbn [code_at] in H.
  - lia.
  - destruct H as (mid & Hi & Hr). apply instr_at_le in Hi. specialize (IH mid nxt Hr). lia.
Qed.

Lemma code_at_app C lab : forall c1 c2 pos nxt,
  code_at C lab pos (c1 ++ c2) nxt <-> exists mid, code_at C lab pos c1 mid /\ code_at C lab mid c2 nxt.
Proof.
  induction c1 as [|i r IH]; intros c2 pos nxt; cbn [app code_at].
  - split.
    + intros H. exists pos. split; [reflexivity | exact H].
    + intros (mid & -> & H). exact H.
  - split.
    + intros (mid & Hi & Hr). apply IH in Hr. destruct Hr as (mid2 & H1 & H2).
      exists mid2. split; [exists mid; split; assumption | exact H2].
    + intros (mid2 & (mid & Hi & H1) & H2). exists mid. split; [exact Hi|]. apply IH. exists mid2. split; assumption.
Qed.

(* ---------------------------------------------------------------- one step at the instruction byte *)
Ltac step_tac Hm Hop Ho :=
  unfold step; rewrite Hm; cbv beta iota zeta delta [negb]; rewrite Hop, Ho.

Lemma step_ldam s inp o : at_byte s 0 o -> in_mem o = true ->
  step s inp = Ok (mk (wrap (pc s + 1)) (rd (mem s) o) (breg s) 0 (mem s), inp, Tau).
Proof. intros (Hm & Hop & Ho) Hin. step_tac Hm Hop Ho. rewrite Hin. reflexivity. Qed.
Lemma step_ldbm s inp o : at_byte s 1 o -> in_mem o = true ->
  step s inp = Ok (mk (wrap (pc s + 1)) (areg s) (rd (mem s) o) 0 (mem s), inp, Tau).
Proof. intros (Hm & Hop & Ho) Hin. step_tac Hm Hop Ho. rewrite Hin. reflexivity. Qed.
Lemma step_stam s inp o : at_byte s 2 o -> in_mem o = true ->
  step s inp = Ok (mk (wrap (pc s + 1)) (areg s) (breg s) 0 (wr (mem s) o (areg s)), inp, Tau).
Proof. intros (Hm & Hop & Ho) Hin. step_tac Hm Hop Ho. rewrite Hin. reflexivity. Qed.
Lemma step_ldac s inp o : at_byte s 3 o ->
  step s inp = Ok (mk (wrap (pc s + 1)) o (breg s) 0 (mem s), inp, Tau).
Proof. intros (Hm & Hop & Ho). step_tac Hm Hop Ho. reflexivity. Qed.
Lemma step_ldbc s inp o : at_byte s 4 o ->
  step s inp = Ok (mk (wrap (pc s + 1)) (areg s) o 0 (mem s), inp, Tau).
Proof. intros (Hm & Hop & Ho). step_tac Hm Hop Ho. reflexivity. Qed.
Lemma step_ldap s inp o : at_byte s 5 o ->
  step s inp = Ok (mk (wrap (pc s + 1)) (wrap (wrap (pc s + 1) + o)) (breg s) 0 (mem s), inp, Tau).
Proof. intros (Hm & Hop & Ho). step_tac Hm Hop Ho. reflexivity. Qed.
Lemma step_ldai s inp o : at_byte s 6 o -> in_mem (wrap (areg s + o)) = true ->
  step s inp = Ok (mk (wrap (pc s + 1)) (rd (mem s) (wrap (areg s + o))) (breg s) 0 (mem s), inp, Tau).
Proof. intros (Hm & Hop & Ho) Hin. step_tac Hm Hop Ho. rewrite Hin. reflexivity. Qed.
Lemma step_ldbi s inp o : at_byte s 7 o -> in_mem (wrap (breg s + o)) = true ->
  step s inp = Ok (mk (wrap (pc s + 1)) (areg s) (rd (mem s) (wrap (breg s + o))) 0 (mem s), inp, Tau).
Proof. intros (Hm & Hop & Ho) Hin. step_tac Hm Hop Ho. rewrite Hin. reflexivity. Qed.
Lemma step_stai s inp o : at_byte s 8 o -> in_mem (wrap (breg s + o)) = true ->
  step s inp = Ok (mk (wrap (pc s + 1)) (areg s) (breg s) 0 (wr (mem s) (wrap (breg s + o)) (areg s)), inp, Tau).
Proof. intros (Hm & Hop & Ho) Hin. step_tac Hm Hop Ho. rewrite Hin. reflexivity. Qed.
Lemma step_br s inp o : at_byte s 9 o ->
  step s inp = Ok (mk (wrap (wrap (pc s + 1) + o)) (areg s) (breg s) 0 (mem s), inp, Tau).
Proof. intros (Hm & Hop & Ho). step_tac Hm Hop Ho. reflexivity. Qed.
Lemma step_brz s inp o : at_byte s 10 o ->
  step s inp = Ok (mk (if areg s =? 0 then wrap (wrap (pc s + 1) + o) else wrap (pc s + 1)) (areg s) (breg s) 0 (mem s), inp, Tau).
Proof. intros (Hm & Hop & Ho). step_tac Hm Hop Ho. reflexivity. Qed.
Lemma step_brn s inp o : at_byte s 11 o ->
  step s inp = Ok (mk (if negative (areg s) then wrap (wrap (pc s + 1) + o) else wrap (pc s + 1)) (areg s) (breg s) 0 (mem s), inp, Tau).
Proof. intros (Hm & Hop & Ho). step_tac Hm Hop Ho. reflexivity. Qed.
Lemma step_brb s inp : at_byte s 13 0 ->
  step s inp = Ok (mk (breg s) (areg s) (breg s) 0 (mem s), inp, Tau).
Proof. intros (Hm & Hop & Ho). step_tac Hm Hop Ho. reflexivity. Qed.
Lemma step_add s inp : at_byte s 13 1 ->
  step s inp = Ok (mk (wrap (pc s + 1)) (wrap (areg s + breg s)) (breg s) 0 (mem s), inp, Tau).
Proof. intros (Hm & Hop & Ho). step_tac Hm Hop Ho. reflexivity. Qed.
Lemma step_sub s inp : at_byte s 13 2 ->
  step s inp = Ok (mk (wrap (pc s + 1)) (wrap (areg s - breg s)) (breg s) 0 (mem s), inp, Tau).
Proof. intros (Hm & Hop & Ho). step_tac Hm Hop Ho. reflexivity. Qed.
Lemma step_svc_exit s inp : at_byte s 13 3 -> areg s = 0 -> in_mem (wrap (rd (mem s) 1 + 2)) = true ->
  step s inp = Ok (mk (wrap (pc s + 1)) (areg s) (breg s) 0 (mem s), inp, Exit (rd (mem s) (wrap (rd (mem s) 1 + 2)))).
Proof.
  intros (Hm & Hop & Ho) Ha Hin. step_tac Hm Hop Ho.
  change (in_mem 1) with true. cbv iota. rewrite Ha at 1. cbv iota. rewrite Hin. rewrite Ha. reflexivity.
Qed.
Lemma step_svc_put s inp : at_byte s 13 3 -> areg s = 1 ->
  in_mem (wrap (rd (mem s) 1 + 2)) = true -> in_mem (wrap (rd (mem s) 1 + 3)) = true ->
  step s inp = Ok (mk (wrap (pc s + 1)) (areg s) (breg s) 0 (mem s), inp,
                   Write (rd (mem s) (wrap (rd (mem s) 1 + 2)) mod 256) (rd (mem s) (wrap (rd (mem s) 1 + 3)))).
Proof.
  intros (Hm & Hop & Ho) Ha H2 H3. step_tac Hm Hop Ho.
  change (in_mem 1) with true. cbv iota. rewrite Ha at 1. cbv iota. rewrite H2, H3. rewrite Ha. reflexivity.
Qed.

(* get from the console: the byte (255 at the end of the input) goes to the word sp + 1, the input advances *)
Definition console_next (inp : inputs) : inputs := {| console := snd (next_byte (console inp)); files := files inp |}.
Definition console_byte (inp : inputs) : Z := fst (next_byte (console inp)) mod 256.
Lemma step_svc_get s inp : at_byte s 13 3 -> areg s = 2 ->
  in_mem (wrap (rd (mem s) 1 + 2)) = true -> in_mem (wrap (rd (mem s) 1 + 1)) = true ->
  is_console (rd (mem s) (wrap (rd (mem s) 1 + 2))) = true ->
  step s inp = Ok (mk (wrap (pc s + 1)) (areg s) (breg s) 0 (wr (mem s) (wrap (rd (mem s) 1 + 1)) (console_byte inp)), console_next inp,
                   Read (rd (mem s) (wrap (rd (mem s) 1 + 2))) (console_byte inp)).
Proof.
  intros (Hm & Hop & Ho) Ha H2 H1 Hcon. step_tac Hm Hop Ho.
  change (in_mem 1) with true. cbv iota. rewrite Ha at 1. cbv iota. rewrite H2. unfold simin. rewrite Hcon.
  unfold console_next, console_byte. destruct (next_byte (console inp)) as [bb r]. cbn [fst snd]. rewrite H1. rewrite Ha. reflexivity.
Qed.

(* ---------------------------------------------------------------- straight-line instructions *)
Definition sem (i : instr) (a b : Z) (m : WMap.t) : Z * Z * WMap.t :=
  match i with
  | LDAM x => (rd m x, b, m)
  | LDBM x => (a, rd m x, m)
  | STAM x => (a, b, wr m x a)
  | LDAC v => (v mod W, b, m)
  | LDBC v => (a, v mod W, m)
  | LDAI k => (rd m (wrap (a + k)), b, m)
  | LDBI k => (a, rd m (wrap (b + k)), m)
  | STAI k => (a, b, wr m (wrap (b + k)) a)
  | ADD => (wrap (a + b), b, m)
  | SUB => (wrap (a - b), b, m)
  | _ => (a, b, m)
  end.
Definition straight (i : instr) : bool :=
  match i with
  | LDAM _ | LDBM _ | STAM _ | LDAC _ | LDBC _ | LDAI _ | LDBI _ | STAI _ | ADD | SUB => true
  | _ => false
  end.
Definition readable (i : instr) (a b : Z) : Prop :=
  match i with
  | LDAM x => in_mem x = true
  | LDBM x => in_mem x = true
  | STAM x => in_mem x = true
  | LDAI k => in_mem (wrap (a + k)) = true
  | LDBI k => in_mem (wrap (b + k)) = true
  | STAI k => in_mem (wrap (b + k)) = true
  | _ => True
  end.

Lemma next_pc s' nxt : pc s' = nxt - 1 -> 0 < nxt < W -> wrap (pc s' + 1) = nxt.
Proof. intros -> H. unfold wrap. replace (nxt - 1 + 1) with nxt by lia. apply Z.mod_small. lia. Qed.

Lemma wrap_mod_r a k : wrap (a + k mod W) = wrap (a + k).
Proof. unfold wrap. apply Zplus_mod_idemp_r. Qed.

(* the memory class must be closed under the instruction's own store (stores never hit code) *)
Lemma exec_instr C lab m pos nxt i a b inp :
  straight i = true -> instr_at C lab pos nxt i -> C m -> readable i a b -> nxt < W ->
  taus inp (mk pos a b 0 m)
       (mk nxt (fst (fst (sem i a b m))) (snd (fst (sem i a b m))) 0 (snd (sem i a b m))).
Proof.
  intros Hs Hi HC Hr Hn.
  destruct i; try discriminate Hs; cbn [instr_at] in Hi; destruct Hi as [Hpos Hat];
    destruct (Hat m a b inp HC) as (s' & Ht & Hpc & Ha & Hb & Hm & Hby);
    (eapply taus_trans; [exact Ht|]); apply taus_one;
    pose proof (next_pc s' nxt Hpc ltac:(lia)) as Hw;
    cbn [opc operand] in Hby; cbn [sem fst snd]; cbn [readable] in Hr.
  - rewrite (step_ldam s' inp _ Hby Hr). rewrite Hw, Hb, Hm. reflexivity.
  - rewrite (step_ldbm s' inp _ Hby Hr). rewrite Hw, Ha, Hm. reflexivity.
  - rewrite (step_stam s' inp _ Hby Hr). rewrite Hw, Ha, Hb, Hm. reflexivity.
  - rewrite (step_ldac s' inp _ Hby). rewrite Hw, Hb, Hm. reflexivity.
  - rewrite (step_ldbc s' inp _ Hby). rewrite Hw, Ha, Hm. reflexivity.
  - rewrite <- Ha, <- wrap_mod_r in Hr. rewrite (step_ldai s' inp _ Hby Hr). rewrite wrap_mod_r, Hw, Ha, Hb, Hm. reflexivity.
  - rewrite <- Hb, <- wrap_mod_r in Hr. rewrite (step_ldbi s' inp _ Hby Hr). rewrite wrap_mod_r, Hw, Ha, Hb, Hm. reflexivity.
  - rewrite <- Hb, <- wrap_mod_r in Hr. rewrite (step_stai s' inp _ Hby Hr). rewrite wrap_mod_r, Hw, Ha, Hb, Hm. reflexivity.
  - rewrite (step_add s' inp Hby). rewrite Hw, Ha, Hb, Hm. reflexivity.
  - rewrite (step_sub s' inp Hby). rewrite Hw, Ha, Hb, Hm. reflexivity.
Qed.

(* ---------------------------------------------------------------- branches *)
Lemma branch_target (lab : label -> Z) l nxt : 0 <= nxt < W -> 0 <= lab l < W -> wrap (nxt + (lab l - nxt) mod W) = lab l.
Proof.
  intros Hn Hl. unfold wrap. rewrite Zplus_mod_idemp_r. replace (nxt + (lab l - nxt)) with (lab l) by lia.
  apply Z.mod_small. exact Hl.
Qed.

Lemma exec_br C lab m pos nxt l a b inp :
  instr_at C lab pos nxt (BR l) -> C m -> nxt < W -> 0 <= lab l < W ->
  taus inp (mk pos a b 0 m) (mk (lab l) a b 0 m).
Proof.
  intros [Hpos Hat] HC Hn Hl. destruct (Hat m a b inp HC) as (s' & Ht & Hpc & Ha & Hb & Hm & Hby).
  eapply taus_trans; [exact Ht|]. apply taus_one. cbn [opc operand] in Hby.
  rewrite (step_br s' inp _ Hby). rewrite (next_pc s' nxt Hpc ltac:(lia)), (branch_target lab l nxt ltac:(lia) Hl), Ha, Hb, Hm.
  reflexivity.
Qed.

Lemma exec_brz C lab m pos nxt l a b inp :
  instr_at C lab pos nxt (BRZ l) -> C m -> nxt < W -> 0 <= lab l < W ->
  taus inp (mk pos a b 0 m) (mk (if a =? 0 then lab l else nxt) a b 0 m).
Proof.
  intros [Hpos Hat] HC Hn Hl. destruct (Hat m a b inp HC) as (s' & Ht & Hpc & Ha & Hb & Hm & Hby).
  eapply taus_trans; [exact Ht|]. apply taus_one. cbn [opc operand] in Hby.
  rewrite (step_brz s' inp _ Hby). rewrite (next_pc s' nxt Hpc ltac:(lia)), (branch_target lab l nxt ltac:(lia) Hl), Ha, Hb, Hm.
  reflexivity.
Qed.

Lemma exec_brn C lab m pos nxt l a b inp :
  instr_at C lab pos nxt (BRN l) -> C m -> nxt < W -> 0 <= lab l < W ->
  taus inp (mk pos a b 0 m) (mk (if negative a then lab l else nxt) a b 0 m).
Proof.
  intros [Hpos Hat] HC Hn Hl. destruct (Hat m a b inp HC) as (s' & Ht & Hpc & Ha & Hb & Hm & Hby).
  eapply taus_trans; [exact Ht|]. apply taus_one. cbn [opc operand] in Hby.
  rewrite (step_brn s' inp _ Hby). rewrite (next_pc s' nxt Hpc ltac:(lia)), (branch_target lab l nxt ltac:(lia) Hl), Ha, Hb, Hm.
  reflexivity.
Qed.

Lemma exec_ldap C lab m pos nxt l a b inp :
  instr_at C lab pos nxt (LDAP l) -> C m -> nxt < W -> 0 <= lab l < W ->
  taus inp (mk pos a b 0 m) (mk nxt (lab l) b 0 m).
Proof.
  intros [Hpos Hat] HC Hn Hl. destruct (Hat m a b inp HC) as (s' & Ht & Hpc & Ha & Hb & Hm & Hby).
  eapply taus_trans; [exact Ht|]. apply taus_one. cbn [opc operand] in Hby.
  rewrite (step_ldap s' inp _ Hby). rewrite (next_pc s' nxt Hpc ltac:(lia)), (branch_target lab l nxt ltac:(lia) Hl), Hb, Hm.
  reflexivity.
Qed.

Lemma exec_brb C lab m pos nxt a b inp :
  instr_at C lab pos nxt BRB -> C m ->
  taus inp (mk pos a b 0 m) (mk b a b 0 m).
Proof.
  intros [Hpos Hat] HC. destruct (Hat m a b inp HC) as (s' & Ht & Hpc & Ha & Hb & Hm & Hby).
  eapply taus_trans; [exact Ht|]. apply taus_one. cbn [opc operand] in Hby.
  rewrite (step_brb s' inp Hby). rewrite Ha, Hb, Hm. reflexivity.
Qed.

(* system calls *)
Lemma exec_svc_exit C lab m pos nxt b inp :
  instr_at C lab pos nxt SVC -> C m -> in_mem (wrap (rd m 1 + 2)) = true ->
  exits inp (mk pos 0 b 0 m) [] inp (rd m (wrap (rd m 1 + 2))).
Proof.
  intros [Hpos Hat] HC Hin. destruct (Hat m 0 b inp HC) as (s' & Ht & Hpc & Ha & Hb & Hm & Hby).
  eapply taus_exits; [exact Ht|]. cbn [opc operand] in Hby.
  rewrite <- Hm in Hin. pose proof (step_svc_exit s' inp Hby Ha Hin) as Hs. rewrite Hm in Hs.
  eapply exits_one. exact Hs.
Qed.

Lemma exec_svc_get C lab m pos nxt b inp :
  instr_at C lab pos nxt SVC -> C m -> nxt < W ->
  in_mem (wrap (rd m 1 + 2)) = true -> in_mem (wrap (rd m 1 + 1)) = true -> is_console (rd m (wrap (rd m 1 + 2))) = true ->
  runs inp (mk pos 2 b 0 m) [Read (rd m (wrap (rd m 1 + 2))) (console_byte inp)] (console_next inp)
       (mk nxt 2 b 0 (wr m (wrap (rd m 1 + 1)) (console_byte inp))).
Proof.
  intros [Hpos Hat] HC Hn H2 H1 Hcon. destruct (Hat m 2 b inp HC) as (s' & Ht & Hpc & Ha & Hb & Hm & Hby).
  eapply taus_runs; [exact Ht|]. cbn [opc operand] in Hby.
  rewrite <- Hm in H2, H1, Hcon. pose proof (step_svc_get s' inp Hby Ha H2 H1 Hcon) as Hs.
  rewrite (next_pc s' nxt Hpc ltac:(lia)), Ha, Hb, Hm in Hs.
  eapply runs_read. exact Hs.
Qed.

Lemma exec_svc_put C lab m pos nxt b inp :
  instr_at C lab pos nxt SVC -> C m -> nxt < W ->
  in_mem (wrap (rd m 1 + 2)) = true -> in_mem (wrap (rd m 1 + 3)) = true ->
  runs inp (mk pos 1 b 0 m) [Write (rd m (wrap (rd m 1 + 2)) mod 256) (rd m (wrap (rd m 1 + 3)))] inp (mk nxt 1 b 0 m).
Proof.
  intros [Hpos Hat] HC Hn H2 H3. destruct (Hat m 1 b inp HC) as (s' & Ht & Hpc & Ha & Hb & Hm & Hby).
  eapply taus_runs; [exact Ht|]. cbn [opc operand] in Hby.
  rewrite <- Hm in H2, H3. pose proof (step_svc_put s' inp Hby Ha H2 H3) as Hs.
  rewrite (next_pc s' nxt Hpc ltac:(lia)), Ha, Hb, Hm in Hs.
  eapply runs_write. exact Hs.
Qed.
