(* SimIOProofs.v -- the device of hexsim (SimIO.v: one stream per file index, bound at first use) and the architecture's
   independent input/output files (Isa.v) give the same run whenever the run uses every file index in one direction. *)
From Coq Require Import ZArith List Bool Lia String.
From HexVerif Require Import WMap Isa SimModel SimProofs SimIO.
Import ListNotations.
Local Open Scope Z_scope.

(* ---- how SimModel.step depends on its `inputs` argument: only through io_input of the stream a READ names *)
Definition shape (s : sim) (r : sim_result (sim * inputs * event)) (inp1 : inputs) : Prop :=
  match r with
  | SOk (s', inp', e) =>
      match e with
      | Read st b => exists s1 a, forall inp2, SimModel.step s inp2 =
            (let '(b2, inp2') := io_input inp2 st in SOk (with_mem s1 (wr (s_mem s) a (Z.land b2 255)), inp2', Read st (Z.land b2 255)))
      | _ => inp' = inp1 /\ forall inp2, SimModel.step s inp2 = SOk (s', inp2, e)
      end
  | SThrow m => forall inp2, SimModel.step s inp2 = SThrow m
  | SUB w => forall inp2, SimModel.step s inp2 = SUB w
  end.

Ltac ifs := repeat match goal with |- context[if ?c then _ else _] => destruct c eqn:? end.
Ltac done := cbv beta iota zeta; ifs; cbn [shape]; intros; try (split; [reflexivity|intros; reflexivity]); try reflexivity.

Lemma step_shape s inp1 : shape s (SimModel.step s inp1) inp1.
Proof.
  unfold shape at 1. unfold SimModel.step.
  destruct (negb (idx_ok (Z.shiftr (s_pc s) 2))) eqn:Epc; [intros; reflexivity|].
  pose proof (Z.mod_pos_bound (Z.shiftr (sim_fetch s) 4) 16 ltac:(lia)) as Hr. rewrite <- land_15 in Hr.
  set (opc := Z.land (Z.shiftr (sim_fetch s) 4) 15) in *. clearbody opc.
  set (oreg := Z.lor (s_oreg s) (Z.land (sim_fetch s) 15)). clearbody oreg.
  assert (Hcases: opc = 0 \/ opc = 1 \/ opc = 2 \/ opc = 3 \/ opc = 4 \/ opc = 5 \/ opc = 6 \/ opc = 7 \/ opc = 8 \/
                  opc = 9 \/ opc = 10 \/ opc = 11 \/ opc = 12 \/ opc = 13 \/ opc = 14 \/ opc = 15) by lia.
  clear Hr.
  repeat (destruct Hcases as [->|Hcases]); [.. | subst opc]; try solve [done].
  (* OPR *)
  cbv beta iota zeta.
  destruct oreg as [|[[?|?|]|[?|?|]|]|?]; try solve [done].
  (* SVC *)
  destruct (idx_ok 1) eqn:E1; [|done].
  destruct (s_areg s) as [|[[?|?|]|[?|?|]|]|?]; try solve [done].
  (* READ *)
  destruct (idx_ok (u32 (rd (s_mem s) 1 + 2))) eqn:E2; [|done].
  destruct (io_input inp1 (rd (s_mem s) (u32 (rd (s_mem s) 1 + 2)))) as [b inp'] eqn:Ei.
  destruct (idx_ok (u32 (rd (s_mem s) 1 + 1))) eqn:E3; [|cbn [shape]; intros inp2; destruct (io_input inp2 _); reflexivity].
  cbn [shape]. eexists. eexists. intros inp2. reflexivity.
Qed.

(* ---- the relation between the device and the architecture's inputs along a run *)
Definition R (d : dev) (inp : inputs) : Prop :=
  d_console d = console inp /\
  forall k, match d_bind d k with
            | Unbound => d_files d k = files inp k
            | BIn r => r = files inp k
            | BOut => True
            | Dead => False
            end.

(* evs: the events so far, newest first *)
Definition past (d : dev) (evs : list event) : Prop :=
  (forall k, d_bind d k = BOut -> existsb (writes_index k) evs = true) /\
  (forall k r, d_bind d k = BIn r -> existsb (reads_index k) evs = true) /\
  d_cout d = isa_cout evs /\ (forall k, d_fout d k = isa_fout k evs).

Definition compat (d : dev) (e : event) : Prop :=
  match e with
  | Read st _ => io_is_console st = true \/ d_bind d (io_index st) <> BOut
  | Write _ st => io_is_console st = true \/ (forall r, d_bind d (io_index st) <> BIn r)
  | _ => True
  end.

Lemma upd_same {A} (f : Z -> A) k v : upd f k v k = v.
Proof. unfold upd. rewrite Z.eqb_refl. reflexivity. Qed.
Lemma upd_other {A} (f : Z -> A) k v j : j <> k -> upd f k v j = f j.
Proof. intros H. unfold upd. destruct (j =? k) eqn:E; [apply Z.eqb_eq in E; contradiction|reflexivity]. Qed.

Lemma io_input_view d inp st : R d inp -> (io_is_console st = true \/ d_bind d (io_index st) <> BOut) ->
  fst (io_input (dev_view d) st) = fst (io_input inp st) /\
  R (dev_after_read d st (snd (io_input (dev_view d) st))) (snd (io_input inp st)).
Proof.
  intros [Hc Hf] Hcompat. unfold io_input, dev_after_read.
  destruct (io_is_console st) eqn:Ec.
  - cbn [dev_view console files]. rewrite Hc. destruct (next_byte (console inp)) as [b r]. cbn [fst snd]. split; [reflexivity|].
    split; [reflexivity|]. intros k. specialize (Hf k). cbn [d_bind d_files files]. exact Hf.
  - destruct Hcompat as [Hx|Hnb]; [discriminate|].
    set (k := io_index st) in *.
    assert (Hv: files (dev_view d) k = files inp k).
    { unfold dev_view. cbn [files]. pose proof (Hf k) as Hk. destruct (d_bind d k) eqn:Eb; [assumption|assumption|exfalso; apply Hnb; reflexivity|contradiction]. }
    rewrite Hv. destruct (next_byte (files inp k)) as [b r]. cbn [fst snd]. split; [reflexivity|].
    split; [cbn [d_console console]; exact Hc|].
    intros j. cbn [d_bind d_files files]. destruct (Z.eq_dec j k) as [->|Hne].
    + rewrite upd_same, Z.eqb_refl.
      pose proof (Hf k) as Hk. destruct (d_bind d k); [reflexivity|reflexivity|contradiction|contradiction].
    + rewrite upd_other by assumption. replace (j =? k) with false by (symmetry; apply Z.eqb_neq; assumption).
      exact (Hf j).
Qed.

Lemma existsb_cons_false {A} (f : A -> bool) x l : f x = false -> existsb f (x :: l) = existsb f l.
Proof. intros H. cbn [existsb]. rewrite H. reflexivity. Qed.
Lemma existsb_cons_true {A} (f : A -> bool) x l : f x = true -> existsb f (x :: l) = true.
Proof. intros H. cbn [existsb]. rewrite H. reflexivity. Qed.

(* one step *)
Lemma step_dev_agree s d inp s' inp' e :
  R d inp -> SimModel.step s inp = SOk (s', inp', e) -> compat d e ->
  exists d', step_dev s d = SOk (s', d', e) /\ R d' inp' /\
             forall evs, past d evs -> past d' (match e with Tau => evs | _ => e :: evs end).
Proof.
  intros HR Hstep Hc. pose proof (step_shape s inp) as Hs. rewrite Hstep in Hs. cbn [shape] in Hs. unfold step_dev.
  destruct e as [|c|v st|st b].
  - (* Tau *) destruct Hs as [-> Hall]. rewrite (Hall (dev_view d)). exists d. split; [reflexivity|]. split; [assumption|]. intros evs H; exact H.
  - (* Exit *) destruct Hs as [-> Hall]. rewrite (Hall (dev_view d)). exists d. split; [reflexivity|]. split; [assumption|].
    intros evs (P1 & P2 & P3 & P4). repeat split.
    + intros k Hk. rewrite existsb_cons_false by reflexivity. apply P1; assumption.
    + intros k r Hk. rewrite existsb_cons_false by reflexivity. eapply P2; eassumption.
    + exact P3.
    + exact P4.
  - (* Write *) destruct Hs as [-> Hall]. rewrite (Hall (dev_view d)). eexists. split; [reflexivity|].
    destruct HR as [HRc HRf]. cbn [compat] in Hc. unfold dev_after_write.
    destruct (io_is_console st) eqn:Ec.
    + split; [split; [exact HRc|exact HRf]|].
      intros evs (P1 & P2 & P3 & P4). unfold past. cbn [d_bind d_cout d_fout]. repeat split.
      * intros k Hk. rewrite existsb_cons_false by (cbn [writes_index]; rewrite Ec; reflexivity). apply P1; assumption.
      * intros k r Hk. rewrite existsb_cons_false by reflexivity. eapply P2; eassumption.
      * cbn [isa_cout]. rewrite Ec, P3. reflexivity.
      * intros k. cbn [isa_fout]. rewrite Ec. cbn [negb andb]. apply P4.
    + destruct Hc as [Hx|Hnb]; [discriminate|]. set (k := io_index st) in *.
      pose proof (HRf k) as Hk.
      assert (Hb: d_bind d k = Unbound \/ d_bind d k = BOut).
      { destruct (d_bind d k) as [|r| |] eqn:Eb; [left; reflexivity|exfalso; apply (Hnb r); reflexivity|right; reflexivity|contradiction]. }
      assert (Heq: match d_bind d k with
                   | Unbound | BOut => {| d_console := d_console d; d_files := d_files d; d_bind := upd (d_bind d) k BOut; d_cout := d_cout d; d_fout := upd (d_fout d) k (v :: d_fout d k) |}
                   | BIn _ | Dead => {| d_console := d_console d; d_files := d_files d; d_bind := upd (d_bind d) k Dead; d_cout := d_cout d; d_fout := d_fout d |}
                   end = {| d_console := d_console d; d_files := d_files d; d_bind := upd (d_bind d) k BOut; d_cout := d_cout d; d_fout := upd (d_fout d) k (v :: d_fout d k) |})
        by (destruct Hb as [-> | ->]; reflexivity).
      rewrite Heq. clear Heq. split.
      * split; [exact HRc|]. intros j. cbn [d_bind d_files]. destruct (Z.eq_dec j k) as [->|Hne]; [rewrite upd_same; exact I|rewrite upd_other by assumption; exact (HRf j)].
      * intros evs (P1 & P2 & P3 & P4). unfold past. cbn [d_bind d_cout d_fout]. repeat split.
        -- intros j Hj. destruct (Z.eq_dec j k) as [->|Hne].
           ++ apply existsb_cons_true. cbn [writes_index]. rewrite Ec. fold k. rewrite Z.eqb_refl. reflexivity.
           ++ rewrite upd_other in Hj by assumption. cbn [existsb]. rewrite (P1 j Hj). apply orb_true_r.
        -- intros j r Hj. destruct (Z.eq_dec j k) as [->|Hne]; [rewrite upd_same in Hj; discriminate|].
           rewrite upd_other in Hj by assumption. rewrite existsb_cons_false by reflexivity. eapply P2; eassumption.
        -- cbn [isa_cout]. rewrite Ec. exact P3.
        -- intros j. cbn [isa_fout]. rewrite Ec. cbn [negb andb]. fold k. destruct (Z.eq_dec j k) as [->|Hne].
           ++ rewrite upd_same, Z.eqb_refl, P4. reflexivity.
           ++ rewrite upd_other by assumption. replace (k =? j) with false by (symmetry; apply Z.eqb_neq; intro; apply Hne; symmetry; assumption). apply P4.
  - (* Read *) destruct Hs as (s1 & a & Hall).
    pose proof (Hall inp) as H1. rewrite Hstep in H1.
    pose proof (io_input_view d inp st HR Hc) as [Hb HR'].
    rewrite (Hall (dev_view d)).
    destruct (io_input inp st) as [b0 i0] eqn:E0. destruct (io_input (dev_view d) st) as [b1 i1] eqn:E1.
    cbn [fst snd] in Hb, HR'. subst b1. inversion H1; subst. eexists. split; [reflexivity|]. split; [exact HR'|].
    intros evs (P1 & P2 & P3 & P4). unfold dev_after_read. destruct HR as [HRc HRf].
    destruct (io_is_console st) eqn:Ec.
    + unfold past. cbn [d_bind d_cout d_fout]. repeat split.
      * intros k Hk. rewrite existsb_cons_false by reflexivity. apply P1; assumption.
      * intros k r Hk. rewrite existsb_cons_false by (cbn [reads_index]; rewrite Ec; reflexivity). eapply P2; eassumption.
      * exact P3.
      * exact P4.
    + cbn [compat] in Hc. destruct Hc as [Hx|Hnb]; [rewrite Ec in Hx; discriminate|]. set (k := io_index st) in *.
      pose proof (HRf k) as Hk.
      assert (Hnew: match d_bind d k with Unbound | BIn _ => BIn (files i1 k) | BOut | Dead => Dead end = BIn (files i1 k))
        by (destruct (d_bind d k); [reflexivity|reflexivity|contradiction|contradiction]).
      rewrite Hnew. unfold past. cbn [d_bind d_cout d_fout]. repeat split.
      * intros j Hj. destruct (Z.eq_dec j k) as [->|Hne]; [rewrite upd_same in Hj; discriminate|].
        rewrite upd_other in Hj by assumption. rewrite existsb_cons_false by reflexivity. apply P1; assumption.
      * intros j r Hj. destruct (Z.eq_dec j k) as [->|Hne].
        -- apply existsb_cons_true. cbn [reads_index]. rewrite Ec. fold k. rewrite Z.eqb_refl. reflexivity.
        -- rewrite upd_other in Hj by assumption. cbn [existsb]. rewrite (P2 j r Hj). apply orb_true_r.
      * exact P3.
      * exact P4.
Qed.

Lemma step_dev_throw s d inp m : SimModel.step s inp = SThrow m -> step_dev s d = SThrow m.
Proof. intros H. pose proof (step_shape s inp) as Hs. rewrite H in Hs. cbn [shape] in Hs. unfold step_dev. rewrite Hs. reflexivity. Qed.
Lemma step_dev_ub s d inp w : SimModel.step s inp = SUB w -> step_dev s d = SUB w.
Proof. intros H. pose proof (step_shape s inp) as Hs. rewrite H in Hs. cbn [shape] in Hs. unfold step_dev. rewrite Hs. reflexivity. Qed.

(* the events accumulated so far are part of the final trace *)
Lemma run_keeps n : forall mc s inp evs tr inp' s' en, SimModel.run n mc s inp evs = (tr, inp', s', en) ->
  forall x, In x evs -> In x tr.
Proof.
  induction n as [|n IH]; intros mc s inp evs tr inp' s' en H x Hx; cbn [SimModel.run] in H.
  - destruct (negb (guard mc s)); inversion H; subst; rewrite <- in_rev; assumption.
  - destruct (negb (guard mc s)); [inversion H; subst; rewrite <- in_rev; assumption|].
    destruct (SimModel.step s inp) as [[[s1 i1] e]|m|w]; [|inversion H; subst; rewrite <- in_rev; assumption|inversion H; subst; rewrite <- in_rev; assumption].
    destruct e; (eapply IH; [exact H|]); try assumption; right; assumption.
Qed.

Lemma existsb_in {A} (f : A -> bool) l x : In x l -> f x = true -> existsb f l = true.
Proof. intros Hi Hf. apply existsb_exists. exists x. split; assumption. Qed.

Lemma compat_of_single d evs tr e : past d evs -> (forall x, In x evs -> In x tr) -> In e tr -> single_direction tr -> compat d e.
Proof.
  intros (P1 & P2 & _ & _) Hsub He Hsd. destruct e as [|c|v st|st b]; cbn [compat]; try exact I.
  - destruct (io_is_console st) eqn:Ec; [left; reflexivity|right]. intros r Hb.
    pose proof (P2 _ _ Hb) as Hr. apply existsb_exists in Hr. destruct Hr as (x & Hx & Hfx).
    destruct (Hsd (io_index st)) as [H|H].
    + rewrite (existsb_in _ tr x (Hsub x Hx) Hfx) in H. discriminate.
    + assert (Hw: writes_index (io_index st) (Write v st) = true) by (cbn [writes_index]; rewrite Ec, Z.eqb_refl; reflexivity).
      rewrite (existsb_in _ tr _ He Hw) in H. discriminate.
  - destruct (io_is_console st) eqn:Ec; [left; reflexivity|right]. intros Hb.
    pose proof (P1 _ Hb) as Hr. apply existsb_exists in Hr. destruct Hr as (x & Hx & Hfx).
    destruct (Hsd (io_index st)) as [H|H].
    + assert (Hw: reads_index (io_index st) (Read st b) = true) by (cbn [reads_index]; rewrite Ec, Z.eqb_refl; reflexivity).
      rewrite (existsb_in _ tr _ He Hw) in H. discriminate.
    + rewrite (existsb_in _ tr x (Hsub x Hx) Hfx) in H. discriminate.
Qed.

Lemma run_agree n : forall mc s inp d evs tr inp' s' en,
  R d inp -> past d evs -> SimModel.run n mc s inp evs = (tr, inp', s', en) -> single_direction tr ->
  exists d', run_dev n mc s d evs = (tr, d', s', en) /\ R d' inp' /\ past d' (rev tr).
Proof.
  induction n as [|n IH]; intros mc s inp d evs tr inp' s' en HR HP Hrun Hsd; cbn [SimModel.run] in Hrun; cbn [run_dev].
  - destruct (negb (guard mc s)); inversion Hrun; subst; exists d; (split; [reflexivity|]); (split; [assumption|]); rewrite rev_involutive; assumption.
  - destruct (negb (guard mc s)) eqn:Eg.
    { inversion Hrun; subst. exists d. split; [reflexivity|]. split; [assumption|]. rewrite rev_involutive; assumption. }
    destruct (SimModel.step s inp) as [[[s1 i1] e]|m|w] eqn:Es.
    + assert (Hin: forall x, In x (match e with Tau => evs | _ => e :: evs end) -> In x tr).
      { intros x Hx. destruct e; (eapply run_keeps; [exact Hrun|exact Hx]). }
      assert (Hc: compat d e).
      { destruct e as [|c|v st|st b]; [exact I|exact I| |];
          (eapply compat_of_single; [exact HP| intros x Hx; apply Hin; right; exact Hx | apply Hin; left; reflexivity | exact Hsd]). }
      destruct (step_dev_agree s d inp s1 i1 e HR Es Hc) as (d1 & Hd & HR1 & HP1). rewrite Hd.
      specialize (HP1 evs HP).
      destruct e; (eapply IH; [exact HR1|exact HP1|exact Hrun|exact Hsd]).
    + rewrite (step_dev_throw s d inp m Es). inversion Hrun; subst. exists d. split; [reflexivity|]. split; [assumption|]. rewrite rev_involutive; assumption.
    + rewrite (step_dev_ub s d inp w Es). inversion Hrun; subst. exists d. split; [reflexivity|]. split; [assumption|]. rewrite rev_involutive; assumption.
Qed.

Lemma isa_cout_app l1 l2 : isa_cout (l1 ++ l2) = isa_cout l1 ++ isa_cout l2.
Proof. induction l1 as [|e l IH]; [reflexivity|]. cbn [app isa_cout]. destruct e; try exact IH. destruct (io_is_console stream); [cbn [app]; rewrite IH; reflexivity|exact IH]. Qed.
Lemma isa_cout_rev l : isa_cout (rev l) = rev (isa_cout l).
Proof.
  induction l as [|e l IH]; [reflexivity|]. cbn [rev]. rewrite isa_cout_app, IH. destruct e; cbn [isa_cout app]; try apply app_nil_r.
  destruct (io_is_console stream); [reflexivity|apply app_nil_r].
Qed.
Lemma isa_fout_app k l1 l2 : isa_fout k (l1 ++ l2) = isa_fout k l1 ++ isa_fout k l2.
Proof. induction l1 as [|e l IH]; [reflexivity|]. cbn [app isa_fout]. destruct e; try exact IH. destruct (negb (io_is_console stream) && (io_index stream =? k)); [cbn [app]; rewrite IH; reflexivity|exact IH]. Qed.
Lemma isa_fout_rev k l : isa_fout k (rev l) = rev (isa_fout k l).
Proof.
  induction l as [|e l IH]; [reflexivity|]. cbn [rev]. rewrite isa_fout_app, IH. destruct e; cbn [isa_fout app]; try apply app_nil_r.
  destruct (negb (io_is_console stream) && (io_index stream =? k)); [reflexivity|apply app_nil_r].
Qed.

(* the device and the architecture's independent files agree on every run that uses each file index in one direction:
   same events, same final state, same way of ending, the same bytes delivered to the console and to each simout<k> *)
Theorem io_agree n mc s inp tr inp' s' en :
  SimModel.run n mc s inp [] = (tr, inp', s', en) -> single_direction tr ->
  exists d', run_dev n mc s (dev0 inp) [] = (tr, d', s', en) /\
             d_console d' = console inp' /\
             rev (d_cout d') = isa_cout tr /\ (forall k, rev (d_fout d' k) = isa_fout k tr).
Proof.
  intros Hrun Hsd.
  assert (HR: R (dev0 inp) inp) by (split; [reflexivity|intros k; reflexivity]).
  assert (HP: past (dev0 inp) []) by (repeat split; intros; discriminate).
  destruct (run_agree n mc s inp (dev0 inp) [] tr inp' s' en HR HP Hrun Hsd) as (d' & Hd & [Hc _] & (_ & _ & P3 & P4)).
  exists d'. split; [exact Hd|]. split; [exact Hc|]. split.
  - rewrite P3, isa_cout_rev, rev_involutive. reflexivity.
  - intros k. rewrite P4, isa_fout_rev, rev_involutive. reflexivity.
Qed.
