open Datatypes

(** val nth : nat -> 'a1 list -> 'a1 -> 'a1 **)

let rec nth n l default =
  match n with
  | O -> (match l with
          | [] -> default
          | x :: _ -> x)
  | S m -> (match l with
            | [] -> default
            | _ :: t -> nth m t default)

(** val nth_error : 'a1 list -> nat -> 'a1 option **)

let rec nth_error l = function
| O -> (match l with
        | [] -> None
        | x :: _ -> Some x)
| S n0 -> (match l with
           | [] -> None
           | _ :: l0 -> nth_error l0 n0)

(** val rev : 'a1 list -> 'a1 list **)

let rec rev = function
| [] -> []
| x :: l' -> app (rev l') (x :: [])

(** val rev_append : 'a1 list -> 'a1 list -> 'a1 list **)

let rec rev_append l l' =
  match l with
  | [] -> l'
  | a :: l0 -> rev_append l0 (a :: l')

(** val map : ('a1 -> 'a2) -> 'a1 list -> 'a2 list **)

let rec map f = function
| [] -> []
| a :: t -> (f a) :: (map f t)

(** val flat_map : ('a1 -> 'a2 list) -> 'a1 list -> 'a2 list **)

let rec flat_map f = function
| [] -> []
| x :: t -> app (f x) (flat_map f t)

(** val fold_left : ('a1 -> 'a2 -> 'a1) -> 'a2 list -> 'a1 -> 'a1 **)

let rec fold_left f l a0 =
  match l with
  | [] -> a0
  | b :: t -> fold_left f t (f a0 b)

(** val existsb : ('a1 -> bool) -> 'a1 list -> bool **)

let rec existsb f = function
| [] -> false
| a :: l0 -> (||) (f a) (existsb f l0)

(** val forallb : ('a1 -> bool) -> 'a1 list -> bool **)

let rec forallb f = function
| [] -> true
| a :: l0 -> (&&) (f a) (forallb f l0)

(** val repeat : 'a1 -> nat -> 'a1 list **)

let rec repeat x = function
| O -> []
| S k -> x :: (repeat x k)
