(* Properties_C10.v -- placeholder until the totality proofs land. *)
From HexVerif Require Import AsmLayout.
