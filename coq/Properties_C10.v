(* Properties_C10.v -- the assembler is total: on every byte string the model (lexer, parser, label resolution,
   emission, listing) either accepts or rejects with a diagnostic; no branch of the model is undefined behaviour
   and no loop exhausts the fuel the model gives it.  Proofs: AsmFrontProofs.v. *)
From Coq Require Import ZArith List String Bool.
From HexVerif Require Import WMap AsmModel AsmLayout AsmSpec AsmStatements AsmFrontProofs.
Import ListNotations.
Local Open Scope Z_scope.

Theorem C10_total :
  forall src, (exists out, assemble src = Ok out) \/ (exists d, assemble src = Reject d).
Proof. exact assemble_total. Qed.
Print Assumptions C10_total.

(* everything the parser accepts is well formed: instruction tokens are instructions, OPR operands are OPR
   operands, values are C ints (the hypothesis of the C05/C15/C17 theorems) *)
Theorem C10_parse_wf :
  forall toks l, parse toks = Ok l -> Forall wf_directive (map (fun x => snd x) l).
Proof. exact parse_wf. Qed.
Print Assumptions C10_parse_wf.

(* non-vacuity: both outcomes occur *)
Example C10_accepts : exists out, assemble (bytes_of_string "BR l
LDAC 17
l
OPR SVC") = Ok out /\ ao_image out = [146; 225; 49; 211].
Proof. eexists. split; vm_compute; reflexivity. Qed.
Example C10_rejects : assemble (bytes_of_string "BR nowhere") = Reject (EUnknownLabel 0 "nowhere").
Proof. vm_compute. reflexivity. Qed.
