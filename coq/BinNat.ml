open BinNums
open BinPos
open Datatypes

module N =
 struct
  (** val succ_pos : coq_N -> positive **)

  let succ_pos = function
  | N0 -> Coq_xH
  | Npos p -> Pos.succ p

  (** val add : coq_N -> coq_N -> coq_N **)

  let add n m =
    match n with
    | N0 -> m
    | Npos p -> (match m with
                 | N0 -> n
                 | Npos q -> Npos (Pos.add p q))

  (** val mul : coq_N -> coq_N -> coq_N **)

  let mul n m =
    match n with
    | N0 -> N0
    | Npos p -> (match m with
                 | N0 -> N0
                 | Npos q -> Npos (Pos.mul p q))

  (** val coq_lor : coq_N -> coq_N -> coq_N **)

  let coq_lor n m =
    match n with
    | N0 -> m
    | Npos p -> (match m with
                 | N0 -> n
                 | Npos q -> Npos (Pos.coq_lor p q))

  (** val coq_land : coq_N -> coq_N -> coq_N **)

  let coq_land n m =
    match n with
    | N0 -> N0
    | Npos p -> (match m with
                 | N0 -> N0
                 | Npos q -> Pos.coq_land p q)

  (** val ldiff : coq_N -> coq_N -> coq_N **)

  let ldiff n m =
    match n with
    | N0 -> N0
    | Npos p -> (match m with
                 | N0 -> n
                 | Npos q -> Pos.ldiff p q)

  (** val coq_lxor : coq_N -> coq_N -> coq_N **)

  let coq_lxor n m =
    match n with
    | N0 -> m
    | Npos p -> (match m with
                 | N0 -> n
                 | Npos q -> Pos.coq_lxor p q)

  (** val to_nat : coq_N -> nat **)

  let to_nat = function
  | N0 -> O
  | Npos p -> Pos.to_nat p

  (** val of_nat : nat -> coq_N **)

  let of_nat = function
  | O -> N0
  | S n' -> Npos (Pos.of_succ_nat n')
 end
