open BinInt
open BinNums
open Datatypes
open Isa
open List
open WMap

type kind =
| Fetch
| Load
| Store

type access = kind * coq_Z

(** val sys_accesses : arch -> access list **)

let sys_accesses s =
  let sp = rd s.mem (Zpos Coq_xH) in
  (Load, (Zpos
  Coq_xH)) :: (match s.areg with
               | Z0 -> (Load, (wrap (Z.add sp (Zpos (Coq_xO Coq_xH))))) :: []
               | Zpos p ->
                 (match p with
                  | Coq_xI _ -> []
                  | Coq_xO p0 ->
                    (match p0 with
                     | Coq_xH ->
                       (Load,
                         (wrap (Z.add sp (Zpos (Coq_xO Coq_xH))))) :: ((Store,
                         (wrap (Z.add sp (Zpos Coq_xH)))) :: [])
                     | _ -> [])
                  | Coq_xH ->
                    (Load,
                      (wrap (Z.add sp (Zpos (Coq_xO Coq_xH))))) :: ((Load,
                      (wrap (Z.add sp (Zpos (Coq_xI Coq_xH))))) :: []))
               | Zneg _ -> [])

(** val accesses : arch -> access list **)

let accesses s =
  let w = Z.div s.pc (Zpos (Coq_xO (Coq_xO Coq_xH))) in
  (Fetch,
  w) :: (if negb (in_mem w)
         then []
         else let inst = fetch s in
              let o =
                Z.coq_lor s.oreg
                  (Z.modulo inst (Zpos (Coq_xO (Coq_xO (Coq_xO (Coq_xO
                    Coq_xH))))))
              in
              (match Z.div inst (Zpos (Coq_xO (Coq_xO (Coq_xO (Coq_xO
                       Coq_xH))))) with
               | Z0 -> (Load, o) :: []
               | Zpos p ->
                 (match p with
                  | Coq_xI p0 ->
                    (match p0 with
                     | Coq_xI p1 ->
                       (match p1 with
                        | Coq_xH -> (Load, (wrap (Z.add s.breg o))) :: []
                        | _ -> [])
                     | Coq_xO p1 ->
                       (match p1 with
                        | Coq_xI p2 ->
                          (match p2 with
                           | Coq_xH ->
                             (match o with
                              | Zpos p3 ->
                                (match p3 with
                                 | Coq_xI p4 ->
                                   (match p4 with
                                    | Coq_xH -> sys_accesses s
                                    | _ -> [])
                                 | _ -> [])
                              | _ -> [])
                           | _ -> [])
                        | _ -> [])
                     | Coq_xH -> [])
                  | Coq_xO p0 ->
                    (match p0 with
                     | Coq_xI p1 ->
                       (match p1 with
                        | Coq_xH -> (Load, (wrap (Z.add s.areg o))) :: []
                        | _ -> [])
                     | Coq_xO p1 ->
                       (match p1 with
                        | Coq_xO p2 ->
                          (match p2 with
                           | Coq_xH -> (Store, (wrap (Z.add s.breg o))) :: []
                           | _ -> [])
                        | _ -> [])
                     | Coq_xH -> (Store, o) :: [])
                  | Coq_xH -> (Load, o) :: [])
               | Zneg _ -> []))

type layout = { data_lo : coq_Z; data_hi : coq_Z; image_end : coq_Z;
                exit_pc : coq_Z; sp0 : coq_Z }

(** val is_data : layout -> coq_Z -> bool **)

let is_data l a =
  (&&) (Z.leb l.data_lo a) (Z.ltb a l.data_hi)

(** val is_code : layout -> coq_Z -> bool **)

let is_code l a =
  (&&) ((&&) (Z.leb Z0 a) (Z.ltb a l.image_end)) (negb (is_data l a))

(** val is_free : layout -> coq_Z -> bool **)

let is_free l a =
  (&&) (Z.leb l.image_end a) (Z.ltb a coq_MEMW)

(** val acc_ok : layout -> access -> bool **)

let acc_ok l x =
  (&&) (in_mem (snd x))
    (match fst x with
     | Fetch -> is_code l (snd x)
     | Load -> true
     | Store -> (||) (is_data l (snd x)) (is_free l (snd x)))

(** val state_ok : layout -> arch -> bool **)

let state_ok l s =
  (&&) (Z.leb (rd s.mem (Zpos Coq_xH)) l.sp0)
    (if Z.eqb s.pc l.exit_pc
     then Z.eqb (rd s.mem (Zpos Coq_xH)) l.sp0
     else true)

(** val mon_ok : layout -> nat -> arch -> inputs -> bool **)

let rec mon_ok l n s inp =
  (&&) (state_ok l s)
    (match n with
     | O -> true
     | S k ->
       (&&) (forallb (acc_ok l) (accesses s))
         (match step s inp with
          | Ok a ->
            let (p, e) = a in
            let (s', inp') = p in
            (match e with
             | Exit _ -> state_ok l s'
             | _ -> mon_ok l k s' inp')
          | Undefined _ -> true))
