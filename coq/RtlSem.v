(* RtlSem.v -- clock-cycle semantics of a generated design (Vexp.design) for the `hex` top (processor + memory):
   how an architectural state becomes an environment, how the cut wires are bound, what one rising clock edge
   with i_rst = 0 does to registers and memory, and the generic facts about that construction.
   Executable (extracted and stepped against the Verilated `hex` model on every run). *)
From Coq Require Import ZArith Lia Bool List String.
From HexVerif Require Import WMap Vexp.
Import ListNotations.
Local Open Scope Z_scope.
Local Open Scope string_scope.

Record rstate := { r_pc : Z; r_areg : Z; r_breg : Z; r_oreg : Z; r_mem : WMap.t }.

Definition n_pc := "hex.u_processor.pc_q".
Definition n_areg := "hex.u_processor.areg_q".
Definition n_breg := "hex.u_processor.breg_q".
Definition n_oreg := "hex.u_processor.oreg_q".
Definition n_mem := "hex.u_memory.memory_q".
Definition n_fdata := "hex.res_f_data".
Definition n_ddata := "hex.res_d_data".

(* registers, the memory array, reset low; every other name reads 0 until a wire is bound to it *)
Definition base_env (rst : Z) (xv : nat -> Z) (s : rstate) : env :=
  {| var := fun v => if String.eqb v n_pc then r_pc s else if String.eqb v n_areg then r_areg s
                     else if String.eqb v n_breg then r_breg s else if String.eqb v n_oreg then r_oreg s
                     else if String.eqb v "i_rst" then rst else 0;
     xs := xv;
     arr := fun m a => if String.eqb m n_mem then rd (r_mem s) a else 0 |}.

Definition bind (e : env) (n : string) (v : Z) : env :=
  {| var := fun x => if String.eqb x n then v else var e x; xs := xs e; arr := arr e |}.
Definition env_wires (e : env) (ws : list (string * vexp)) : env :=
  fold_left (fun e w => bind e (fst w) (eval e (snd w))) ws e.

Fixpoint getv (n : string) (l : list (string * Z)) (dflt : Z) : Z :=
  match l with [] => dflt | (m, v) :: r => if String.eqb m n then v else getv n r dflt end.


(* a clocked array write, already evaluated in the pre-edge environment: (array, (enable, (address, data))) *)
Definition apply_write (m : WMap.t) (w : string * (Z * (Z * Z))) : WMap.t :=
  if String.eqb (fst w) n_mem then
    if Z.eqb (fst (snd w)) 0 then m else wr m (fst (snd (snd w))) (snd (snd (snd w)))
  else m.

Definition cycle_env (d : design) (rst : Z) (xv : nat -> Z) (s : rstate) : env := env_wires (base_env rst xv s) (wires d).

Definition state_of (s : rstate) (nx : list (string * Z)) (ws : list (string * (Z * (Z * Z)))) : rstate :=
  {| r_pc := getv n_pc nx (r_pc s); r_areg := getv n_areg nx (r_areg s); r_breg := getv n_breg nx (r_breg s);
     r_oreg := getv n_oreg nx (r_oreg s);
     r_mem := fold_left apply_write ws (r_mem s) |}.

Definition cycle_gen (d : design) (rst : Z) (xv : nat -> Z) (s : rstate) : rstate :=
  let e := cycle_env d rst xv s in
  state_of s (map (evalp e) (next d)) (map (evalw e) (mem_writes d)).

(* one rising clock edge with reset low *)
Definition cycle (d : design) (s : rstate) : rstate := cycle_gen d 0 (fun _ => 0) s.
(* combinational outputs of the design in state s *)
Definition outs (d : design) (s : rstate) : list (string * Z) :=
  let e := cycle_env d 0 (fun _ => 0) s in map (evalp e) (outputs d).
(* the cut wires as the design computes them in state s: fetched instruction byte, data read *)
Definition wire (d : design) (s : rstate) (n : string) : Z := var (cycle_env d 0 (fun _ => 0) s) n.

(* ------------------------------------------------------------------ binding a name an expression does not mention *)
Fixpoint mentions (n : string) (x : vexp) : bool :=
  match x with
  | C _ | X _ => false
  | V v _ => String.eqb v n
  | Trunc _ a | Sel _ _ a | Not _ a | ArrSel _ _ a => mentions n a
  | Add _ a b | Sub _ a b | Mul _ a b | Shl _ a b | Shr _ a b | Or a b | And a b | Xor a b | Eq a b | Ltu a b | Gts _ a b =>
      mentions n a || mentions n b
  | Cond c a b => mentions n c || mentions n a || mentions n b
  end.

Lemma eval_bind_unmentioned e n v x : mentions n x = false -> eval (bind e n v) x = eval e x.
Proof.
  induction x; cbn [mentions eval]; intros H;
  repeat match goal with H : _ || _ = false |- _ => apply orb_false_elim in H; destruct H end;
  rewrite ?IHx, ?IHx1, ?IHx2, ?IHx3 by assumption; try reflexivity.
  cbn [bind var]. rewrite H. reflexivity.
Qed.

(* wires are well ordered when no wire expression mentions its own name or the name of a later wire *)
Fixpoint wires_ordered (ws : list (string * vexp)) : bool :=
  match ws with
  | [] => true
  | (n, x) :: r => negb (mentions n x) && forallb (fun w => negb (mentions (fst w) x)) r
                   && negb (existsb (fun w => String.eqb (fst w) n) r) && wires_ordered r
  end.

Lemma env_wires_cons e n x r : env_wires e ((n, x) :: r) = env_wires (bind e n (eval e x)) r.
Proof. reflexivity. Qed.

Lemma env_wires_var_other ws : forall e v, existsb (fun w => String.eqb (fst w) v) ws = false -> var (env_wires e ws) v = var e v.
Proof.
  induction ws as [|[n x] r IH]; intros e v H; [reflexivity|]. cbn [existsb fst] in H. apply orb_false_elim in H. destruct H as [H1 H2].
  rewrite env_wires_cons. rewrite IH by assumption.
  cbn [bind var]. rewrite String.eqb_sym, H1. reflexivity.
Qed.
Lemma env_wires_arr ws : forall e, arr (env_wires e ws) = arr e.
Proof. induction ws as [|[n x] r IH]; intros e; [reflexivity|]. rewrite env_wires_cons. rewrite IH. reflexivity. Qed.
Lemma env_wires_xs ws : forall e, xs (env_wires e ws) = xs e.
Proof. induction ws as [|[n x] r IH]; intros e; [reflexivity|]. rewrite env_wires_cons. rewrite IH. reflexivity. Qed.

Lemma eval_env_wires_unmentioned ws : forall e x, forallb (fun w => negb (mentions (fst w) x)) ws = true ->
  eval (env_wires e ws) x = eval e x.
Proof.
  induction ws as [|[n y] r IH]; intros e x H; [reflexivity|]. cbn [forallb fst] in H. apply andb_prop in H. destruct H as [H1 H2].
  rewrite env_wires_cons. rewrite IH by assumption.
  apply eval_bind_unmentioned. apply negb_true_iff. exact H1.
Qed.

(* in the final environment every wire holds the value of its defining expression *)
Theorem env_wires_consistent ws : forall e, wires_ordered ws = true ->
  Forall (fun w => var (env_wires e ws) (fst w) = eval (env_wires e ws) (snd w)) ws.
Proof.
  induction ws as [|[n x] r IH]; intros e H; [constructor|].
  cbn [wires_ordered] in H. repeat (apply andb_prop in H; let H' := fresh "H" in destruct H as [H H']).
  apply negb_true_iff in H. apply negb_true_iff in H1.
  rewrite env_wires_cons.
  constructor; [|apply IH; assumption]. cbn [fst snd].
  rewrite env_wires_var_other by assumption. cbn [bind var]. rewrite String.eqb_refl.
  rewrite eval_env_wires_unmentioned by assumption. symmetry. apply eval_bind_unmentioned. exact H.
Qed.


Lemma consistent_values (e : env) (ws : list (string * vexp)) :
  Forall (fun w => var e (fst w) = eval e (snd w)) ws -> map (fun w => (fst w, var e (fst w))) ws = map (evalp e) ws.
Proof. induction 1 as [|w r Hw F IH]; [reflexivity|]. cbn [map]. rewrite IH. unfold evalp at 1. rewrite Hw. reflexivity. Qed.

Lemma cycle_env_wire_values d rst xv s : wires_ordered (wires d) = true ->
  let e := cycle_env d rst xv s in map (fun w => (fst w, var e (fst w))) (wires d) = map (evalp e) (wires d).
Proof. intros H e. apply consistent_values. apply env_wires_consistent. exact H. Qed.

Lemma wire_value_lookup (e : env) (ws : list (string * vexp)) l : map (fun w => (fst w, var e (fst w))) ws = l ->
  forall n v, In (n, v) l -> var e n = v.
Proof.
  intros <- n v H. apply in_map_iff in H. destruct H as [w [E _]]. injection E as <- <-. reflexivity.
Qed.
