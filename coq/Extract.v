(* Extract.v -- extraction of the executable specs and models to OCaml (ExtrOcamlBasic only; Z stays
   the extracted binary datatype; one OCaml module per Coq module).  Run from ocaml/gen. *)
From Coq Require Import ExtrOcamlBasic ZArith List String FMapPositive.
From HexVerif Require Import WMap Isa SimModel SimIO AsmModel AsmLayout AsmSpec AsmStatements CliModel Loader.
From HexVerif Require Import Vexp RtlSem TbModel.
From HexVerif.gen Require RtlSv RtlV RtlVSynth RtlHex.
From HexVerif Require Import XAst XSem IsaMon XCodegenExpr XCodegenStmt XCodegenProgram.
From HexVerif Require Import XConstProp.
From HexVerif Require XFrontPreserve.
From HexVerif Require XFront.
From HexVerif Require AsmListingRead.
From HexVerif Require SimTraceText.
Extraction Language OCaml.
Separate Extraction WMap.rd WMap.wr WMap.zero WMap.empty WMap.load_words PositiveMap.elements
  Isa.step Isa.run Isa.boot Isa.words_of_bytes
  Vexp.eval RtlSv.design RtlV.design RtlVSynth.design RtlHex.design RtlSem.cycle RtlSem.outs RtlSem.wire RtlSem.getv
  TbModel.run TbModel.power_on TbModel.Current TbModel.Previous TbModel.Legacy TbModel.loaded_words TbModel.file_loads TbModel.tb_main TbModel.set_tmem SimModel.io_is_console
  TbModel.step_safe TbModel.wb_mon Isa.fetch SimModel.to_int
  SimModel.step SimModel.run SimModel.init SimModel.arch_of SimModel.trace_symbol SimModel.trace_prefix
  SimIO.dev0 SimIO.step_dev SimIO.run_dev
  AsmModel.lex AsmModel.parse AsmLayout.assemble_directives AsmLayout.assemble AsmLayout.diag_location AsmLayout.codegen AsmLayout.emit_bin
  AsmLayout.num_nibbles AsmLayout.enc_size AsmLayout.emit_instr AsmLayout.instr_len
  AsmStatements.struct_listing Loader.load_file CliModel.hexasm_main CliModel.xcmp_main CliModel.hexsim_main CliModel.xrun_main
  AsmSpec.check_image AsmSpec.check_symtab AsmSpec.check_listing AsmSpec.decode AsmSpec.bytes_map
  XSem.run XSem.run_fuel XSem.default_fuel XSem.default_steps XSem.default_depth
  IsaMon.accesses IsaMon.acc_ok IsaMon.state_ok IsaMon.mon_ok XCodegenExpr.cg XCodegenExpr.frame_venv XCodegenExpr.first_temp XCodegenStmt.cproc XCodegenProgram.model_compile
  XConstProp.tree XConstProp.tree_opt XConstProp.front XConstProp.repo_arith XConstProp.repo_rejects_nonconst_val XConstProp.gen_const
  XFrontPreserve.names_ok XFrontPreserve.front_swap_safe
  XFront.lex XFront.front_located XFront.front XFront.diag_message
  AsmListingRead.read_listing_line AsmListingRead.read_listing AsmListingRead.is_total_line AsmListingRead.listing_lines
  SimTraceText.prefix_text SimTraceText.has_debug SimTraceText.read_prefix.
