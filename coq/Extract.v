(* Extract.v -- extraction of the executable specs and models to OCaml (ExtrOcamlBasic only; Z stays
   the extracted binary datatype; one OCaml module per Coq module).  Run from ocaml/gen. *)
From Coq Require Import ExtrOcamlBasic ZArith List String FMapPositive.
From HexVerif Require Import WMap Isa SimModel.
Extraction Language OCaml.
Separate Extraction WMap.rd WMap.wr WMap.zero WMap.empty WMap.load_words PositiveMap.elements
  Isa.step Isa.run Isa.boot Isa.words_of_bytes
  SimModel.step SimModel.run SimModel.init SimModel.arch_of.
