(* XCodegenSource.v -- the end-to-end statement for SOURCE programs: the front-end passes (CreateSymbols, ConstProp,
   OptimiseExpr: XConstProp.front, shown to preserve XSem's behaviour in XFrontPreserveProofs.v), then the model of the
   code generator and the layout (XCodegenProgram.model_compile), then the ISA.

   source_program_correct: a source program p (the AST the parser model XFront produces from the X text) that the front
   end accepts (front p = COk p') and that satisfies the two decidable side conditions of the front-end theorem
   (names_ok, front_swap_safe); if XSem gives p the behaviour b within a quarter of the default fuel and model_compile
   lays p' out as the image img, then the ISA booted on img shows b.
   demo_source_end_to_end: the theorem applied to the demo's SOURCE program demo_src. *)
From Coq Require Import ZArith List String Bool Lia.
From HexVerif Require Import WMap Isa XAst XSem XSemProps XConstProp XFrontPreserve XFrontPreserveProofs
     XCodegenStmt XCodegenProgram XCodegenDemo.
Import ListNotations.
Local Open Scope Z_scope.

Theorem source_program_correct : forall (prm : params) (p p' : program) (f : nat) (inp : list Z) (b : behaviour) (img : list Z),
  front p = COk p' -> names_ok p = true -> front_swap_safe p = true -> (f * 4 <= default_fuel)%nat ->
  run_fuel f default_steps default_depth p inp = Behaviour b ->
  model_compile prm false p' = Some img -> exists n, isa_shows img inp n b.
Proof.
  intros prm p p' f inp b img Hf Hn Hs Hle Hrun Hmc.
  exact (program_correct prm p' inp b img (front_preserves_run p p' f inp b Hf Hn Hs Hle Hrun) Hmc).
Qed.

(* the demo, from its source *)
Lemma demo_src_side_conditions : names_ok demo_src = true /\ front_swap_safe demo_src = true.
Proof. split; vm_compute; reflexivity. Qed.
Lemma demo_src_spec : run_fuel 100 default_steps default_depth demo_src [66; 67] =
  Behaviour {| outputs := [(0, 51); (0, 50); (0, 49); (0, 48); (0, 67)]; consumed := 1; exit_value := 0 |}.
Proof. vm_compute. reflexivity. Qed.
Theorem demo_source_end_to_end : exists n,
  isa_shows demo_image [66; 67] n {| outputs := [(0, 51); (0, 50); (0, 49); (0, 48); (0, 67)]; consumed := 1; exit_value := 0 |}.
Proof.
  apply (source_program_correct demo_frames demo_src demo 100 [66; 67] _ demo_image demo_front
           (proj1 demo_src_side_conditions) (proj2 demo_src_side_conditions)).
  - unfold default_fuel. apply Nat2Z.inj_le. rewrite Z2Nat.id by lia. lia.
  - exact demo_src_spec.
  - exact demo_model_image.
Qed.
