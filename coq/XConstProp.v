(* XConstProp.v -- MODEL (executable Gallina, no proofs) of xcmp's compile-time evaluation, a function-for-
   function port of /repo/xcmp.hpp:

     CreateSymbols                      -> create_symbols     (the (scope, name) map; a later insert overwrites)
     SymbolTable::lookup                -> lookup             (own scope first, then the global scope "")
     ConstProp::visitPost(NumberExpr/BooleanExpr/VarRefExpr/UnaryOpExpr/BinaryOpExpr/CallExpr/ValDecl)
                                        -> cp_expr, cp_decl   (annotation `constValue` of every Expr node)
     OptimiseExpr::visitPost(BinaryOpExpr/UnaryOpExpr) + the accept() methods that install the replacement
                                        -> opt_expr           (~=, >=, >, <= and unary minus rewriting)
     AstPrinter                         -> print_program      (the --tree / --tree-opt dump, without [loc=..])
     CodeBuffer::genConst               -> gen_const_imm, gen_const   (immediate or constant pool)

   The C++ does not rebuild the tree when it folds: it ANNOTATES nodes (`std::optional<int> constValue`); the
   code generator then loads `getValue()` for every BinaryOp/UnaryOp/VarRef node with `isConst()`.  The model
   therefore produces an annotated tree `aexpr`; `erase` is the reading of an annotated tree by the code
   generator (ExprCodeGen::visitPost: isConst() -> genConst(reg, getValue())).

   C `int` arithmetic is explicit: where the C++ computes `a + b`, `a - b`, `-a` on `int`, the model answers
   `CUB SignedOverflow` when the mathematical result leaves [INT_MIN, INT_MAX] (mode ArithInt), or wraps through
   `unsigned` (mode ArithWrap, the repaired source `static_cast<int>(static_cast<unsigned>(a) + ...)`).
   `repo_arith` says which of the two the working tree's source contains NOW; tools/c07.py checks that choice
   against the real code on every run (UBSan build: a signed-overflow report iff the model says UB).

   `exprValue` of a ValDecl is an uninitialised `int` until ConstProp::visitPost(ValDecl) stores a value (only when
   the expression is constant): reading it before is `CUB UninitValRead`. *)
From Coq Require Import ZArith String List Bool.
From HexVerif Require Import XAst.
Import ListNotations.
Local Open Scope string_scope.
Local Open Scope Z_scope.

(* ---------------------------------------------------------------- C int, outcomes *)
Definition INT_MIN : Z := -2147483648.
Definition INT_MAX : Z := 2147483647.
Definition in_cint (z : Z) : bool := (INT_MIN <=? z) && (z <=? INT_MAX).
(* unsigned -> int (modular: GCC, and C++20), also int -> unsigned -> int round trip *)
Definition to_cint (n : Z) : Z :=
  let m := n mod 4294967296 in if 2147483648 <=? m then m - 4294967296 else m.
Definition of_cbool (b : bool) : Z := if b then 1 else 0.

Inductive ub := SignedOverflow | UninitValRead (x : string).
Inductive err := UnknownSymbol (x : string) | InvalidSyscall (n : Z) | NonConstVal (x : string) | RedefinedProc (x : string).
Inductive cres (A : Type) := COk (a : A) | CUB (u : ub) | CErr (e : err).
Arguments COk {A}. Arguments CUB {A}. Arguments CErr {A}.
Definition cbind {A B : Type} (r : cres A) (k : A -> cres B) : cres B :=
  match r with COk a => k a | CUB u => CUB u | CErr e => CErr e end.

Inductive arith := ArithInt | ArithWrap.
(* the result of `a + b`, `a - b`, `-a` whose mathematical value is z *)
Definition c_arith (m : arith) (z : Z) : cres Z :=
  match m with
  | ArithInt => if in_cint z then COk z else CUB SignedOverflow
  | ArithWrap => COk (to_cint z)
  end.
(* WHAT THE SOURCE SAYS NOW (xcmp.hpp ConstProp::visitPost(BinaryOpExpr/UnaryOpExpr)):
     case Token::PLUS:  result = LHS->getValue() +  RHS->getValue();      on int
     case Token::MINUS: result = LHS->getValue() -  RHS->getValue();
     case Token::MINUS: result = -element->getValue();                                                   *)
Definition repo_arith : arith := ArithWrap.
(* ConstProp::visitPost(ValDecl): `if (decl.getExpr()->isConst()) decl.setValue(...)` -- a non-constant val is
   accepted and its value stays uninitialised; a reference to a val whose value has not been set reads that
   uninitialised int.  (true = the repaired source: `std::optional<int> exprValue`; NonConstValError thrown at the
   declaration and at a call through a val that has no value yet; a plain reference to such a val is not constant) *)
Definition repo_rejects_nonconst_val : bool := true.
(* a reference to a ValDecl whose value has not been set: as a name in an expression / as the name of a call *)
Definition unset_val_call {A : Type} (f : string) : cres A :=
  if repo_rejects_nonconst_val then CErr (NonConstVal f) else CUB (UninitValRead f).

(* ---------------------------------------------------------------- annotated tree *)
(* every constructor mirrors one Expr class; `c` is Expr::constValue *)
Inductive aexpr :=
| ANum (n : Z) (c : option Z)              (* NumberExpr: `unsigned value` *)
| ABool (b : bool) (c : option Z)
| AStr (bytes : list Z)
| AVar (x : string) (c : option Z)
| ASub (a : string) (i : aexpr)
| ACall (f : string) (sysid : Z) (args : list aexpr)   (* CallExpr: name, sysCallId (-1 = not a system call) *)
| AUn (o : unop) (c : option Z) (e : aexpr)
| ABin (o : binop) (c : option Z) (l r : aexpr).

Inductive astmt :=
| ASkip | AStop
| AReturn (e : aexpr)
| AIf (c : aexpr) (t e : astmt)
| AWhile (c : aexpr) (b : astmt)
| ASeq (ss : list astmt)
| AAssign (x : string) (xc : option Z) (e : aexpr)       (* LHS VarRefExpr with its own constValue *)
| AAssignSub (a : string) (i e : aexpr)
| ACallS (f : string) (sysid : Z) (args : list aexpr).

Inductive adecl := ADVal (x : string) (e : aexpr) (v : option Z) (* exprValue, once set *)
                 | ADVar (x : string) | ADArray (x : string) (len : aexpr).
Record aproc := { a_is_func : bool; a_pname : string; a_formals : list formal; a_locals : list adecl; a_body : astmt }.
Record aprogram := { a_globals : list adecl; a_procs : list aproc }.

Definition const_of (e : aexpr) : option Z :=
  match e with
  | ANum _ c | ABool _ c | AVar _ c | AUn _ c _ | ABin _ c _ _ => c
  | AStr _ | ASub _ _ | ACall _ _ _ => None
  end.

(* ---------------------------------------------------------------- symbols *)
(* what the passes ask of a Symbol's node: a ValDecl (and which one), a Proc (CreateSymbols refuses a second
   definition of a procedure name), or anything else *)
Inductive symkind := KValDecl (id : nat) | KProc | KOther.
Definition symtab := list ((string * string) * symkind).    (* newest first: std::map operator[] overwrites *)

Fixpoint find_sym (st : symtab) (scope name : string) : option symkind :=
  match st with
  | [] => None
  | ((sc, n), k) :: r => if String.eqb sc scope && String.eqb n name then Some k else find_sym r scope name
  end.
Definition lookup (st : symtab) (scope name : string) : option symkind :=
  match find_sym st scope name with
  | Some k => Some k
  | None => if String.eqb scope "" then None else find_sym st "" name
  end.

Definition decl_name (d : decl) : string := match d with DVal x _ => x | DVar x => x | DArray x _ => x end.
Definition formal_name (f : formal) : string := match f with FVal x => x | FArray x => x | FProc x => x | FFunc x => x end.

(* CreateSymbols; ValDecls are numbered in visiting order (the same order ConstProp visits them in) *)
Fixpoint sym_decls (scope : string) (ds : list decl) (n : nat) (st : symtab) : nat * symtab :=
  match ds with
  | [] => (n, st)
  | DVal x _ :: r => sym_decls scope r (S n) (((scope, x), KValDecl n) :: st)
  | d :: r => sym_decls scope r n (((scope, decl_name d), KOther) :: st)
  end.
Fixpoint sym_formals (scope : string) (fs : list formal) (st : symtab) : symtab :=
  match fs with [] => st | f :: r => sym_formals scope r (((scope, formal_name f), KOther) :: st) end.
(* CreateSymbols on one procedure: visitPre(Proc) inserts the name in the enclosing (global) scope before enterProc,
   then the formals and the local declarations go into the procedure's own scope *)
Definition sym_proc_step (p : proc) (n : nat) (st : symtab) : nat * symtab :=
  let st1 := (("", pname p), KProc) :: st in
  let st2 := sym_formals (pname p) (formals p) st1 in
  sym_decls (pname p) (locals p) n st2.
Fixpoint sym_procs (ps : list proc) (n : nat) (st : symtab) : nat * symtab :=
  match ps with
  | [] => (n, st)
  | p :: r => let '(n3, st3) := sym_proc_step p n st in sym_procs r n3 st3
  end.
Definition create_symbols (p : program) : symtab :=
  let '(n, st) := sym_decls "" (globals p) O [] in snd (sym_procs (procs p) n st).
(* CreateSymbols::visitPre(Proc): `existing = symbolTable.find((scope, name)); if (existing && dynamic_cast<Proc*>(node))
   throw RedefinedProcError` -- the first procedure whose name is, at that moment, the symbol of a procedure *)
Fixpoint redefined (ps : list proc) (n : nat) (st : symtab) : option string :=
  match ps with
  | [] => None
  | p :: r =>
      match find_sym st "" (pname p) with
      | Some KProc => Some (pname p)
      | _ => let '(n3, st3) := sym_proc_step p n st in redefined r n3 st3
      end
  end.
Definition redefined_proc (p : program) : option string :=
  let '(n, st) := sym_decls "" (globals p) O [] in redefined (procs p) n st.

(* ---------------------------------------------------------------- ConstProp *)
Fixpoint assoc_nat (k : nat) (l : list (nat * Z)) : option Z :=
  match l with [] => None | (j, v) :: r => if Nat.eqb j k then Some v else assoc_nat k r end.

Record cpenv := { cp_arith : arith; cp_syms : symtab; cp_scope : string; cp_vals : list (nat * Z) }.

(* ValDecl::getValue() of the ValDecl a name resolves to *)
Inductive named := NUnknown | NNotVal | NVal (v : Z) | NValUninit.
Definition resolve (E : cpenv) (x : string) : named :=
  match lookup (cp_syms E) (cp_scope E) x with
  | None => NUnknown
  | Some KOther | Some KProc => NNotVal
  | Some (KValDecl id) => match assoc_nat id (cp_vals E) with Some v => NVal v | None => NValUninit end
  end.

Definition NUM_SYSCALLS : Z := 3.      (* hex::Syscall::NUM_VALUES *)

(* visitPost(BinaryOpExpr), both operands constant *)
Definition fold_bin (m : arith) (o : binop) (a b : Z) : cres Z :=
  match o with
  | Plus => c_arith m (a + b)
  | Minus => c_arith m (a - b)
  | Eq => COk (of_cbool (a =? b))
  | Ne => COk (of_cbool (negb (a =? b)))
  | Ls => COk (of_cbool (a <? b))
  | Le => COk (of_cbool (a <=? b))
  | Gr => COk (of_cbool (b <? a))
  | Ge => COk (of_cbool (b <=? a))
  | And => COk (if a =? 0 then 0 else if b =? 0 then 0 else 1)
  | Or => COk (if negb (a =? 0) then 1 else if b =? 0 then 0 else 1)
  end.
(* visitPost(UnaryOpExpr), operand constant *)
Definition fold_un (m : arith) (o : unop) (a : Z) : cres Z :=
  match o with
  | Neg => c_arith m (- a)
  | Not => COk (if a =? 0 then 1 else 0)
  end.

(* visitPost(CallExpr): a call through a val-named number becomes a system call; the id is range-checked *)
Definition cp_call (E : cpenv) (f : string) (sysid : Z) (args : list aexpr) : cres (string * Z * list aexpr) :=
  let check id := if (NUM_SYSCALLS <=? id) || (id <? 0) then CErr (InvalidSyscall id) else COk (f, id, args) in
  if sysid =? -1 then
    match resolve E f with
    | NUnknown => CErr (UnknownSymbol f)
    | NNotVal => COk (f, sysid, args)
    | NVal v => check v
    | NValUninit => unset_val_call f
    end
  else check sysid.

Fixpoint cp_expr (E : cpenv) (e : expr) : cres aexpr :=
  match e with
  | ENum n => COk (ANum n (Some (to_cint n)))                       (* expr.setValue(expr.getValue()) *)
  | EBool b => COk (ABool b (Some (of_cbool b)))
  | EStr bs => COk (AStr bs)
  | EVar x =>
      match resolve E x with
      | NUnknown => CErr (UnknownSymbol x)
      | NNotVal => COk (AVar x None)
      | NVal v => COk (AVar x (Some v))
      | NValUninit => if repo_rejects_nonconst_val then COk (AVar x None)     (* `if (symbolExpr->hasValue())` *)
                    else CUB (UninitValRead x)
      end
  | ESub a i => cbind (cp_expr E i) (fun i' => COk (ASub a i'))
  | ECall f args =>
      cbind ((fix go (l : list expr) : cres (list aexpr) :=
                match l with [] => COk [] | x :: r => cbind (cp_expr E x) (fun x' => cbind (go r) (fun r' => COk (x' :: r'))) end) args)
            (fun args' => cbind (cp_call E f (-1) args') (fun t => let '(f', id, a') := t in COk (ACall f' id a')))
  | ESys n args =>
      cbind ((fix go (l : list expr) : cres (list aexpr) :=
                match l with [] => COk [] | x :: r => cbind (cp_expr E x) (fun x' => cbind (go r) (fun r' => COk (x' :: r'))) end) args)
            (fun args' => cbind (cp_call E "" (to_cint n) args') (fun t => let '(f', id, a') := t in COk (ACall f' id a')))
  | EUn o a =>
      cbind (cp_expr E a) (fun a' =>
        match const_of a' with
        | Some v => cbind (fold_un (cp_arith E) o v) (fun z => COk (AUn o (Some z) a'))
        | None => COk (AUn o None a')
        end)
  | EBin o l r =>
      cbind (cp_expr E l) (fun l' => cbind (cp_expr E r) (fun r' =>
        match const_of l', const_of r' with
        | Some a, Some b => cbind (fold_bin (cp_arith E) o a b) (fun z => COk (ABin o (Some z) l' r'))
        | _, _ => COk (ABin o None l' r')
        end))
  end.

Fixpoint cp_exprs (E : cpenv) (l : list expr) : cres (list aexpr) :=
  match l with [] => COk [] | x :: r => cbind (cp_expr E x) (fun x' => cbind (cp_exprs E r) (fun r' => COk (x' :: r'))) end.

Fixpoint cp_stmt (E : cpenv) (s : stmt) : cres astmt :=
  match s with
  | SSkip => COk ASkip
  | SStop => COk AStop
  | SReturn e => cbind (cp_expr E e) (fun e' => COk (AReturn e'))
  | SIf c t e => cbind (cp_expr E c) (fun c' => cbind (cp_stmt E t) (fun t' => cbind (cp_stmt E e) (fun e' => COk (AIf c' t' e'))))
  | SWhile c b => cbind (cp_expr E c) (fun c' => cbind (cp_stmt E b) (fun b' => COk (AWhile c' b')))
  | SSeq ss =>
      cbind ((fix go (l : list stmt) : cres (list astmt) :=
                match l with [] => COk [] | x :: r => cbind (cp_stmt E x) (fun x' => cbind (go r) (fun r' => COk (x' :: r'))) end) ss)
            (fun ss' => COk (ASeq ss'))
  | SAssign x e =>                                                     (* LHS->accept, then RHS->accept *)
      cbind (cp_expr E (EVar x)) (fun lhs => cbind (cp_expr E e) (fun e' => COk (AAssign x (const_of lhs) e')))
  | SAssignSub a i e => cbind (cp_expr E i) (fun i' => cbind (cp_expr E e) (fun e' => COk (AAssignSub a i' e')))
  | SCall f args =>
      cbind (cp_exprs E args) (fun args' => cbind (cp_call E f (-1) args') (fun t => let '(f', id, a') := t in COk (ACallS f' id a')))
  | SSys n args =>
      cbind (cp_exprs E args) (fun args' => cbind (cp_call E "" (to_cint n) args') (fun t => let '(f', id, a') := t in COk (ACallS f' id a')))
  end.

(* declarations of one scope, in order; n = number of the next ValDecl; returns the values set so far *)
Fixpoint cp_decls (m : arith) (st : symtab) (scope : string) (ds : list decl) (n : nat) (vals : list (nat * Z))
  : cres (list adecl * nat * list (nat * Z)) :=
  let E := {| cp_arith := m; cp_syms := st; cp_scope := scope; cp_vals := vals |} in
  match ds with
  | [] => COk ([], n, vals)
  | DVar x :: r => cbind (cp_decls m st scope r n vals) (fun t => let '(ds', n', v') := t in COk (ADVar x :: ds', n', v'))
  | DArray x e :: r =>
      cbind (cp_expr E e) (fun e' =>
      cbind (cp_decls m st scope r n vals) (fun t => let '(ds', n', v') := t in COk (ADArray x e' :: ds', n', v')))
  | DVal x e :: r =>
      cbind (cp_expr E e) (fun e' =>
        match const_of e' with
        | Some v =>                                                         (* decl.setValue(expr->getValue()) *)
            cbind (cp_decls m st scope r (S n) ((n, v) :: vals)) (fun t => let '(ds', n', v') := t in COk (ADVal x e' (Some v) :: ds', n', v'))
        | None =>
            if repo_rejects_nonconst_val then CErr (NonConstVal x) else
            cbind (cp_decls m st scope r (S n) vals) (fun t => let '(ds', n', v') := t in COk (ADVal x e' None :: ds', n', v'))
        end)
  end.

Fixpoint cp_procs (m : arith) (st : symtab) (ps : list proc) (n : nat) (vals : list (nat * Z)) : cres (list aproc) :=
  match ps with
  | [] => COk []
  | p :: r =>
      cbind (cp_decls m st (pname p) (locals p) n vals) (fun t =>
        let '(ds', n', v') := t in
        let E := {| cp_arith := m; cp_syms := st; cp_scope := pname p; cp_vals := v' |} in
        cbind (cp_stmt E (body p)) (fun b' =>
        cbind (cp_procs m st r n' v') (fun r' =>
          COk ({| a_is_func := is_func p; a_pname := pname p; a_formals := formals p; a_locals := ds'; a_body := b' |} :: r'))))
  end.

Definition constprop_program_with (m : arith) (p : program) : cres aprogram :=
  match redefined_proc p with Some x => CErr (RedefinedProc x) | None =>
  let st := create_symbols p in
  cbind (cp_decls m st "" (globals p) O []) (fun t =>
    let '(gs', n', v') := t in
    cbind (cp_procs m st (procs p) n' v') (fun ps' => COk {| a_globals := gs'; a_procs := ps' |}))
  end.
Definition constprop_program : program -> cres aprogram := constprop_program_with repo_arith.

(* ---------------------------------------------------------------- OptimiseExpr *)
(* UnaryOpExpr::accept / BinaryOpExpr::accept visit (and replace) the operands only `if (!isConst() && ...)`;
   visitPost then builds the replacement from fresh nodes (constValue = nullopt), installed by the parent *)
Fixpoint opt_expr (e : aexpr) : aexpr :=
  match e with
  | ANum _ _ | ABool _ _ | AStr _ | AVar _ _ => e
  | ASub a i => ASub a (opt_expr i)
  | ACall f id args => ACall f id (map opt_expr args)
  | AUn o c a =>
      let a' := match c with Some _ => a | None => opt_expr a end in
      match c, o with
      | None, Neg => ABin Minus None (ANum 0 None) a'                         (* -x -> 0 - x *)
      | _, _ => AUn o c a'
      end
  | ABin o c l r =>
      let l' := match c with Some _ => l | None => opt_expr l end in
      let r' := match c with Some _ => r | None => opt_expr r end in
      match o with
      | Ne => AUn Not None (ABin Eq None l' r')                               (* l ~= r -> ~(l = r) *)
      | Ge => AUn Not None (ABin Ls None l' r')                               (* l >= r -> ~(l < r) *)
      | Gr => ABin Ls None r' l'                                              (* l > r  -> r < l *)
      | Le => AUn Not None (ABin Ls None r' l')                               (* l <= r -> ~(r < l) *)
      | _ => ABin o c l' r'
      end
  end.

Fixpoint opt_stmt (s : astmt) : astmt :=
  match s with
  | ASkip => ASkip | AStop => AStop
  | AReturn e => AReturn (opt_expr e)
  | AIf c t e => AIf (opt_expr c) (opt_stmt t) (opt_stmt e)
  | AWhile c b => AWhile (opt_expr c) (opt_stmt b)
  | ASeq ss => ASeq (map opt_stmt ss)
  | AAssign x xc e => AAssign x xc (opt_expr e)
  | AAssignSub a i e => AAssignSub a (opt_expr i) (opt_expr e)
  | ACallS f id args => ACallS f id (map opt_expr args)
  end.
Definition opt_decl (d : adecl) : adecl :=
  match d with ADVal x e v => ADVal x (opt_expr e) v | ADVar x => ADVar x | ADArray x e => ADArray x (opt_expr e) end.
Definition opt_proc (p : aproc) : aproc :=
  {| a_is_func := a_is_func p; a_pname := a_pname p; a_formals := a_formals p;
     a_locals := map opt_decl (a_locals p); a_body := opt_stmt (a_body p) |}.
Definition opt_program (p : aprogram) : aprogram :=
  {| a_globals := map opt_decl (a_globals p); a_procs := map opt_proc (a_procs p) |}.

(* ---------------------------------------------------------------- what the code generator reads *)
(* ExprCodeGen::visitPost: BinaryOp/UnaryOp/VarRef with isConst() -> genConst(reg, getValue()); Number/Boolean ->
   genConst(reg, own value); everything else structurally.  A constant v is the literal v mod 2^32. *)
Definition lit (v : Z) : expr := ENum (v mod 4294967296).
Fixpoint erase (e : aexpr) : expr :=
  match e with
  | ANum n _ => ENum n
  | ABool b _ => EBool b
  | AStr bs => EStr bs
  | AVar x (Some v) => lit v
  | AVar x None => EVar x
  | ASub a i => ESub a (erase i)
  | ACall f id args => if id =? -1 then ECall f (map erase args) else ESys id (map erase args)
  | AUn o (Some v) _ => lit v
  | AUn o None a => EUn o (erase a)
  | ABin o (Some v) _ _ => lit v
  | ABin o None l r => EBin o (erase l) (erase r)
  end.
Fixpoint erase_stmt (s : astmt) : stmt :=
  match s with
  | ASkip => SSkip | AStop => SStop
  | AReturn e => SReturn (erase e)
  | AIf c t e => SIf (erase c) (erase_stmt t) (erase_stmt e)
  | AWhile c b => SWhile (erase c) (erase_stmt b)
  | ASeq ss => SSeq (map erase_stmt ss)
  | AAssign x _ e => SAssign x (erase e)
  | AAssignSub a i e => SAssignSub a (erase i) (erase e)
  | ACallS f id args => if id =? -1 then SCall f (map erase args) else SSys id (map erase args)
  end.

Definition erase_decl (d : adecl) : decl :=
  match d with ADVal x e _ => DVal x (erase e) | ADVar x => DVar x | ADArray x e => DArray x (erase e) end.
Definition erase_proc (p : aproc) : proc :=
  {| is_func := a_is_func p; pname := a_pname p; formals := a_formals p; locals := map erase_decl (a_locals p);
     body := erase_stmt (a_body p) |}.
Definition erase_program (p : aprogram) : program :=
  {| globals := map erase_decl (a_globals p); procs := map erase_proc (a_procs p) |}.
(* the program the code generator works from *)
Definition front (p : program) : cres program :=
  cbind (constprop_program p) (fun a => COk (erase_program (opt_program a))).

(* the two passes on one expression, in an environment of val constants *)
Fixpoint env_syms (l : list (string * Z)) (n : nat) : symtab * list (nat * Z) :=
  match l with
  | [] => ([], [])
  | (x, v) :: r => let '(st, vs) := env_syms r (S n) in ((("", x), KValDecl n) :: st, (n, v) :: vs)
  end.
(* every name in `vals` is a ValDecl of the global scope with its value set; the names in `others` are global
   symbols that are not vals (variables) *)
Definition cp_env_of (m : arith) (vals : list (string * Z)) (others : list string) : cpenv :=
  let '(st, vs) := env_syms vals O in
  {| cp_arith := m; cp_syms := List.app st (map (fun x => (("", x), KOther)) others); cp_scope := ""; cp_vals := vs |}.
(* ConstProp then OptimiseExpr then the code generator's reading, on one expression *)
Definition front_expr (E : cpenv) (e : expr) : cres expr := cbind (cp_expr E e) (fun a => COk (erase (opt_expr a))).

(* ---------------------------------------------------------------- AstPrinter *)
(* one line of the dump: indentation, node word, then a name, an operator or a number, then [const=..] *)
Inductive parg := PNone | PName (s : string) | PNum (z : Z).
Record pline := { p_indent : nat; p_head : string; p_arg : parg; p_const : option Z }.
Definition ln (i : nat) (h : string) (a : parg) (c : option Z) : pline :=
  {| p_indent := i; p_head := h; p_arg := a; p_const := c |}.

Definition binop_str (o : binop) : string :=
  match o with Plus => "+" | Minus => "-" | Or => "or" | And => "and" | Eq => "=" | Ne => "~=" | Ls => "<" | Le => "<="
             | Gr => ">" | Ge => ">=" end.
Definition unop_str (o : unop) : string := match o with Neg => "-" | Not => "~" end.
Definition string_of_bytes (bs : list Z) : string :=
  fold_right (fun b s => String (Ascii.ascii_of_nat (Z.to_nat (b mod 256))) s) EmptyString bs.

(* accept(): the operands of a BinaryOp/UnaryOp node are visited only if the node is not constant *)
Fixpoint print_expr (i : nat) (e : aexpr) : list pline :=
  match e with
  | ANum n _ => [ln i "number" (PNum n) None]
  | ABool b _ => [ln i "boolean" (PNum (of_cbool b)) None]
  | AStr bs => [ln i "string" (PName (string_of_bytes bs)) None]
  | AVar x _ => [ln i "varref" (PName x) None]
  | ASub a ix => ln i "arraysubscript" (PName a) None :: print_expr (S i) ix
  | ACall f id args =>
      (if id =? -1 then ln i "call" (PName f) None else ln i "syscall" (PNum id) None)
      :: flat_map (print_expr (S i)) args
  | AUn o c a => ln i "unaryop" (PName (unop_str o)) c :: match c with Some _ => [] | None => print_expr (S i) a end
  | ABin o c l r => ln i "binaryop" (PName (binop_str o)) c
                    :: match c with Some _ => [] | None => print_expr (S i) l ++ print_expr (S i) r end
  end.
Fixpoint print_stmt (i : nat) (s : astmt) : list pline :=
  match s with
  | ASkip => [ln i "skipstmt" PNone None]
  | AStop => [ln i "stopstmt" PNone None]
  | AReturn e => ln i "returnstmt" PNone None :: print_expr (S i) e
  | AIf c t e => ln i "ifstmt" PNone None :: print_expr (S i) c ++ print_stmt (S i) t ++ print_stmt (S i) e
  | AWhile c b => ln i "whilestmt" PNone None :: print_expr (S i) c ++ print_stmt (S i) b
  | ASeq ss => ln i "seqstmt" PNone None :: flat_map (print_stmt (S i)) ss
  | AAssign x _ e => ln i "assstmt" PNone None :: ln (S i) "varref" (PName x) None :: print_expr (S i) e
  | AAssignSub a ix e => ln i "assstmt" PNone None :: (ln (S i) "arraysubscript" (PName a) None :: print_expr (S (S i)) ix) ++ print_expr (S i) e
  | ACallS f id args =>
      (if id =? -1 then ln i "callstmt" PNone None else ln i "syscallstmt" (PNum id) None)
      :: print_expr (S i) (ACall f id args)
  end.
Definition print_decl (i : nat) (d : adecl) : list pline :=
  match d with
  | ADVal x e _ => ln i "valdecl" (PName x) None :: print_expr (S i) e
  | ADVar x => [ln i "vardecl" (PName x) None]
  | ADArray x e => ln i "arraydecl" (PName x) None :: print_expr (S i) e
  end.
Definition print_formal (i : nat) (f : formal) : pline :=
  match f with
  | FVal x => ln i "valformal" (PName x) None | FArray x => ln i "arrayformal" (PName x) None
  | FProc x => ln i "procformal" (PName x) None | FFunc x => ln i "funcformal" (PName x) None
  end.
Definition print_proc (i : nat) (p : aproc) : list pline :=
  ln i "proc" (PName (a_pname p)) None
  :: map (print_formal (S i)) (a_formals p) ++ flat_map (print_decl (S i)) (a_locals p) ++ print_stmt (S i) (a_body p).
Definition print_program (p : aprogram) : list pline :=
  ln O "program" PNone None :: flat_map (print_decl 1%nat) (a_globals p) ++ flat_map (print_proc 1%nat) (a_procs p).

(* xcmp --tree and xcmp --tree-opt *)
Definition tree (p : program) : cres (list pline) := cbind (constprop_program p) (fun a => COk (print_program a)).
Definition tree_opt (p : program) : cres (list pline) :=
  cbind (constprop_program p) (fun a => COk (print_program (opt_program a))).

(* ---------------------------------------------------------------- genConst *)
(* `if (value > -(1<<16) && value < (1<<16))` : immediate, else constant pool *)
Definition gen_const_imm (v : Z) : bool := (-65536 <? v) && (v <? 65536).
Inductive reg := RA | RB.
(* the instruction genConst emits: opcode, and either the value itself or the pool word holding it *)
Inductive cload := LoadImm (opc v : Z) | LoadPool (opc v : Z).
Definition gen_const (r : reg) (v : Z) : cload :=
  if gen_const_imm v then LoadImm (match r with RA => 3 (* LDAC *) | RB => 4 (* LDBC *) end) v
  else LoadPool (match r with RA => 0 (* LDAM *) | RB => 1 (* LDBM *) end) v.
