open Ascii
open BinInt
open BinNums
open Datatypes
open Isa
open List
open String
open WMap

type sim = { s_pc : coq_Z; s_areg : coq_Z; s_breg : coq_Z; s_oreg : coq_Z;
             s_mem : t; s_running : bool; s_exit : coq_Z; s_cycles : 
             coq_Z }

type 'a sim_result =
| SOk of 'a
| SThrow of string
| SUB of string

(** val u32 : coq_Z -> coq_Z **)

let u32 x =
  Z.modulo x (Zpos (Coq_xO (Coq_xO (Coq_xO (Coq_xO (Coq_xO (Coq_xO (Coq_xO
    (Coq_xO (Coq_xO (Coq_xO (Coq_xO (Coq_xO (Coq_xO (Coq_xO (Coq_xO (Coq_xO
    (Coq_xO (Coq_xO (Coq_xO (Coq_xO (Coq_xO (Coq_xO (Coq_xO (Coq_xO (Coq_xO
    (Coq_xO (Coq_xO (Coq_xO (Coq_xO (Coq_xO (Coq_xO (Coq_xO
    Coq_xH)))))))))))))))))))))))))))))))))

(** val to_int : coq_Z -> coq_Z **)

let to_int x =
  if Z.leb (Zpos (Coq_xO (Coq_xO (Coq_xO (Coq_xO (Coq_xO (Coq_xO (Coq_xO
       (Coq_xO (Coq_xO (Coq_xO (Coq_xO (Coq_xO (Coq_xO (Coq_xO (Coq_xO
       (Coq_xO (Coq_xO (Coq_xO (Coq_xO (Coq_xO (Coq_xO (Coq_xO (Coq_xO
       (Coq_xO (Coq_xO (Coq_xO (Coq_xO (Coq_xO (Coq_xO (Coq_xO (Coq_xO
       Coq_xH)))))))))))))))))))))))))))))))) x
  then Z.sub x (Zpos (Coq_xO (Coq_xO (Coq_xO (Coq_xO (Coq_xO (Coq_xO (Coq_xO
         (Coq_xO (Coq_xO (Coq_xO (Coq_xO (Coq_xO (Coq_xO (Coq_xO (Coq_xO
         (Coq_xO (Coq_xO (Coq_xO (Coq_xO (Coq_xO (Coq_xO (Coq_xO (Coq_xO
         (Coq_xO (Coq_xO (Coq_xO (Coq_xO (Coq_xO (Coq_xO (Coq_xO (Coq_xO
         (Coq_xO Coq_xH)))))))))))))))))))))))))))))))))
  else x

(** val coq_MEMORY_SIZE_WORDS : coq_Z **)

let coq_MEMORY_SIZE_WORDS =
  Zpos (Coq_xO (Coq_xO (Coq_xO (Coq_xO (Coq_xO (Coq_xO (Coq_xI (Coq_xO
    (Coq_xI (Coq_xO (Coq_xI (Coq_xI (Coq_xO (Coq_xO (Coq_xO (Coq_xO (Coq_xI
    Coq_xH)))))))))))))))))

(** val idx_ok : coq_Z -> bool **)

let idx_ok i =
  (&&) (Z.leb Z0 i) (Z.ltb i coq_MEMORY_SIZE_WORDS)

(** val sim_fetch : sim -> coq_Z **)

let sim_fetch s =
  Z.coq_land
    (Z.shiftr (rd s.s_mem (Z.shiftr s.s_pc (Zpos (Coq_xO Coq_xH))))
      (Z.shiftl (Z.coq_land s.s_pc (Zpos (Coq_xI Coq_xH))) (Zpos (Coq_xI
        Coq_xH)))) (Zpos (Coq_xI (Coq_xI (Coq_xI (Coq_xI (Coq_xI (Coq_xI
    (Coq_xI Coq_xH))))))))

(** val io_is_console : coq_Z -> bool **)

let io_is_console stream_word =
  Z.ltb (to_int stream_word) (Zpos (Coq_xO (Coq_xO (Coq_xO (Coq_xO (Coq_xO
    (Coq_xO (Coq_xO (Coq_xO Coq_xH)))))))))

(** val io_index : coq_Z -> coq_Z **)

let io_index stream_word =
  Z.coq_land
    (Z.shiftr (to_int stream_word) (Zpos (Coq_xO (Coq_xO (Coq_xO Coq_xH)))))
    (Zpos (Coq_xI (Coq_xI Coq_xH)))

(** val io_input : inputs -> coq_Z -> coq_Z * inputs **)

let io_input inp stream_word =
  if io_is_console stream_word
  then let (b, r) = next_byte inp.console in
       (b, { console = r; files = inp.files })
  else let f = io_index stream_word in
       let (b, r) = next_byte (inp.files f) in
       (b, { console = inp.console; files = (fun g ->
       if Z.eqb g f then r else inp.files g) })

(** val with_regs : sim -> coq_Z -> coq_Z -> coq_Z -> coq_Z -> sim **)

let with_regs s pc0 a b o =
  { s_pc = pc0; s_areg = a; s_breg = b; s_oreg = o; s_mem = s.s_mem;
    s_running = s.s_running; s_exit = s.s_exit; s_cycles =
    (Z.add s.s_cycles (Zpos Coq_xH)) }

(** val with_mem : sim -> t -> sim **)

let with_mem s m =
  { s_pc = s.s_pc; s_areg = s.s_areg; s_breg = s.s_breg; s_oreg = s.s_oreg;
    s_mem = m; s_running = s.s_running; s_exit = s.s_exit; s_cycles =
    s.s_cycles }

(** val stopped : sim -> coq_Z -> sim **)

let stopped s code =
  { s_pc = s.s_pc; s_areg = s.s_areg; s_breg = s.s_breg; s_oreg = s.s_oreg;
    s_mem = s.s_mem; s_running = false; s_exit = code; s_cycles = s.s_cycles }

(** val step : sim -> inputs -> ((sim * inputs) * event) sim_result **)

let step s inp =
  if negb (idx_ok (Z.shiftr s.s_pc (Zpos (Coq_xO Coq_xH))))
  then SUB (String ((Ascii (true, false, true, true, false, true, true,
         false)), (String ((Ascii (true, false, true, false, false, true,
         true, false)), (String ((Ascii (true, false, true, true, false,
         true, true, false)), (String ((Ascii (true, true, true, true, false,
         true, true, false)), (String ((Ascii (false, true, false, false,
         true, true, true, false)), (String ((Ascii (true, false, false,
         true, true, true, true, false)), (String ((Ascii (true, true, false,
         true, true, false, true, false)), (String ((Ascii (false, false,
         false, false, true, true, true, false)), (String ((Ascii (true,
         true, false, false, false, true, true, false)), (String ((Ascii
         (false, false, false, false, false, true, false, false)), (String
         ((Ascii (false, true, true, true, true, true, false, false)),
         (String ((Ascii (false, true, true, true, true, true, false,
         false)), (String ((Ascii (false, false, false, false, false, true,
         false, false)), (String ((Ascii (false, true, false, false, true,
         true, false, false)), (String ((Ascii (true, false, true, true,
         true, false, true, false)), EmptyString))))))))))))))))))))))))))))))
  else let instr = sim_fetch s in
       let pc0 = u32 (Z.add s.s_pc (Zpos Coq_xH)) in
       let oreg0 =
         Z.coq_lor s.s_oreg
           (Z.coq_land instr (Zpos (Coq_xI (Coq_xI (Coq_xI Coq_xH)))))
       in
       let opc =
         Z.coq_land (Z.shiftr instr (Zpos (Coq_xO (Coq_xO Coq_xH)))) (Zpos
           (Coq_xI (Coq_xI (Coq_xI Coq_xH))))
       in
       let areg0 = s.s_areg in
       let breg0 = s.s_breg in
       let ok = fun s' -> SOk ((s', inp), Tau) in
       let ld = fun i k ->
         if idx_ok i
         then k (rd s.s_mem i)
         else SUB (String ((Ascii (true, false, true, true, false, true,
                true, false)), (String ((Ascii (true, false, true, false,
                false, true, true, false)), (String ((Ascii (true, false,
                true, true, false, true, true, false)), (String ((Ascii
                (true, true, true, true, false, true, true, false)), (String
                ((Ascii (false, true, false, false, true, true, true,
                false)), (String ((Ascii (true, false, false, true, true,
                true, true, false)), (String ((Ascii (true, true, false,
                true, true, false, true, false)), (String ((Ascii (true,
                false, true, true, true, false, true, false)), (String
                ((Ascii (false, false, false, false, false, true, false,
                false)), (String ((Ascii (false, true, false, false, true,
                true, true, false)), (String ((Ascii (true, false, true,
                false, false, true, true, false)), (String ((Ascii (true,
                false, false, false, false, true, true, false)), (String
                ((Ascii (false, false, true, false, false, true, true,
                false)), EmptyString))))))))))))))))))))))))))
       in
       let st = fun i v k ->
         if idx_ok i
         then k (wr s.s_mem i v)
         else SUB (String ((Ascii (true, false, true, true, false, true,
                true, false)), (String ((Ascii (true, false, true, false,
                false, true, true, false)), (String ((Ascii (true, false,
                true, true, false, true, true, false)), (String ((Ascii
                (true, true, true, true, false, true, true, false)), (String
                ((Ascii (false, true, false, false, true, true, true,
                false)), (String ((Ascii (true, false, false, true, true,
                true, true, false)), (String ((Ascii (true, true, false,
                true, true, false, true, false)), (String ((Ascii (true,
                false, true, true, true, false, true, false)), (String
                ((Ascii (false, false, false, false, false, true, false,
                false)), (String ((Ascii (true, true, true, false, true,
                true, true, false)), (String ((Ascii (false, true, false,
                false, true, true, true, false)), (String ((Ascii (true,
                false, false, true, false, true, true, false)), (String
                ((Ascii (false, false, true, false, true, true, true,
                false)), (String ((Ascii (true, false, true, false, false,
                true, true, false)), EmptyString))))))))))))))))))))))))))))
       in
       (match opc with
        | Z0 -> ld oreg0 (fun v -> ok (with_regs s pc0 v breg0 Z0))
        | Zpos p ->
          (match p with
           | Coq_xI p0 ->
             (match p0 with
              | Coq_xI p1 ->
                (match p1 with
                 | Coq_xI p2 ->
                   (match p2 with
                    | Coq_xH ->
                      ok
                        (with_regs s pc0 areg0 breg0
                          (Z.coq_lor (Zpos (Coq_xO (Coq_xO (Coq_xO (Coq_xO
                            (Coq_xO (Coq_xO (Coq_xO (Coq_xO (Coq_xI (Coq_xI
                            (Coq_xI (Coq_xI (Coq_xI (Coq_xI (Coq_xI (Coq_xI
                            (Coq_xI (Coq_xI (Coq_xI (Coq_xI (Coq_xI (Coq_xI
                            (Coq_xI (Coq_xI (Coq_xI (Coq_xI (Coq_xI (Coq_xI
                            (Coq_xI (Coq_xI (Coq_xI
                            Coq_xH))))))))))))))))))))))))))))))))
                            (u32
                              (Z.shiftl oreg0 (Zpos (Coq_xO (Coq_xO Coq_xH)))))))
                    | _ ->
                      SThrow (String ((Ascii (true, false, false, true,
                        false, true, true, false)), (String ((Ascii (false,
                        true, true, true, false, true, true, false)), (String
                        ((Ascii (false, true, true, false, true, true, true,
                        false)), (String ((Ascii (true, false, false, false,
                        false, true, true, false)), (String ((Ascii (false,
                        false, true, true, false, true, true, false)),
                        (String ((Ascii (true, false, false, true, false,
                        true, true, false)), (String ((Ascii (false, false,
                        true, false, false, true, true, false)), (String
                        ((Ascii (false, false, false, false, false, true,
                        false, false)), (String ((Ascii (true, false, false,
                        true, false, true, true, false)), (String ((Ascii
                        (false, true, true, true, false, true, true, false)),
                        (String ((Ascii (true, true, false, false, true,
                        true, true, false)), (String ((Ascii (false, false,
                        true, false, true, true, true, false)), (String
                        ((Ascii (false, true, false, false, true, true, true,
                        false)), (String ((Ascii (true, false, true, false,
                        true, true, true, false)), (String ((Ascii (true,
                        true, false, false, false, true, true, false)),
                        (String ((Ascii (false, false, true, false, true,
                        true, true, false)), (String ((Ascii (true, false,
                        false, true, false, true, true, false)), (String
                        ((Ascii (true, true, true, true, false, true, true,
                        false)), (String ((Ascii (false, true, true, true,
                        false, true, true, false)),
                        EmptyString)))))))))))))))))))))))))))))))))))))))
                 | Coq_xO p2 ->
                   (match p2 with
                    | Coq_xH ->
                      ok
                        (with_regs s
                          (if Z.ltb (to_int areg0) Z0
                           then u32 (Z.add pc0 oreg0)
                           else pc0) areg0 breg0 Z0)
                    | _ ->
                      SThrow (String ((Ascii (true, false, false, true,
                        false, true, true, false)), (String ((Ascii (false,
                        true, true, true, false, true, true, false)), (String
                        ((Ascii (false, true, true, false, true, true, true,
                        false)), (String ((Ascii (true, false, false, false,
                        false, true, true, false)), (String ((Ascii (false,
                        false, true, true, false, true, true, false)),
                        (String ((Ascii (true, false, false, true, false,
                        true, true, false)), (String ((Ascii (false, false,
                        true, false, false, true, true, false)), (String
                        ((Ascii (false, false, false, false, false, true,
                        false, false)), (String ((Ascii (true, false, false,
                        true, false, true, true, false)), (String ((Ascii
                        (false, true, true, true, false, true, true, false)),
                        (String ((Ascii (true, true, false, false, true,
                        true, true, false)), (String ((Ascii (false, false,
                        true, false, true, true, true, false)), (String
                        ((Ascii (false, true, false, false, true, true, true,
                        false)), (String ((Ascii (true, false, true, false,
                        true, true, true, false)), (String ((Ascii (true,
                        true, false, false, false, true, true, false)),
                        (String ((Ascii (false, false, true, false, true,
                        true, true, false)), (String ((Ascii (true, false,
                        false, true, false, true, true, false)), (String
                        ((Ascii (true, true, true, true, false, true, true,
                        false)), (String ((Ascii (false, true, true, true,
                        false, true, true, false)),
                        EmptyString)))))))))))))))))))))))))))))))))))))))
                 | Coq_xH ->
                   ld (u32 (Z.add breg0 oreg0)) (fun v ->
                     ok (with_regs s pc0 areg0 v Z0)))
              | Coq_xO p1 ->
                (match p1 with
                 | Coq_xI p2 ->
                   (match p2 with
                    | Coq_xH ->
                      (match oreg0 with
                       | Z0 -> ok (with_regs s breg0 areg0 breg0 Z0)
                       | Zpos p3 ->
                         (match p3 with
                          | Coq_xI p4 ->
                            (match p4 with
                             | Coq_xH ->
                               ld (Zpos Coq_xH) (fun sp ->
                                 let s1 = with_regs s pc0 areg0 breg0 Z0 in
                                 (match areg0 with
                                  | Z0 ->
                                    ld
                                      (u32 (Z.add sp (Zpos (Coq_xO Coq_xH))))
                                      (fun c -> SOk
                                      (((stopped s1 (to_int c)), inp), (Exit
                                      c)))
                                  | Zpos p5 ->
                                    (match p5 with
                                     | Coq_xI _ ->
                                       SThrow (String ((Ascii (true, false,
                                         false, true, false, true, true,
                                         false)), (String ((Ascii (false,
                                         true, true, true, false, true, true,
                                         false)), (String ((Ascii (false,
                                         true, true, false, true, true, true,
                                         false)), (String ((Ascii (true,
                                         false, false, false, false, true,
                                         true, false)), (String ((Ascii
                                         (false, false, true, true, false,
                                         true, true, false)), (String ((Ascii
                                         (true, false, false, true, false,
                                         true, true, false)), (String ((Ascii
                                         (false, false, true, false, false,
                                         true, true, false)), (String ((Ascii
                                         (false, false, false, false, false,
                                         true, false, false)), (String
                                         ((Ascii (true, true, false, false,
                                         true, true, true, false)), (String
                                         ((Ascii (true, false, false, true,
                                         true, true, true, false)), (String
                                         ((Ascii (true, true, false, false,
                                         true, true, true, false)), (String
                                         ((Ascii (true, true, false, false,
                                         false, true, true, false)), (String
                                         ((Ascii (true, false, false, false,
                                         false, true, true, false)), (String
                                         ((Ascii (false, false, true, true,
                                         false, true, true, false)), (String
                                         ((Ascii (false, false, true, true,
                                         false, true, true, false)),
                                         EmptyString))))))))))))))))))))))))))))))
                                     | Coq_xO p6 ->
                                       (match p6 with
                                        | Coq_xH ->
                                          ld
                                            (u32
                                              (Z.add sp (Zpos (Coq_xO
                                                Coq_xH)))) (fun stream ->
                                            let (b, inp') =
                                              io_input inp stream
                                            in
                                            st (u32 (Z.add sp (Zpos Coq_xH)))
                                              (Z.coq_land b (Zpos (Coq_xI
                                                (Coq_xI (Coq_xI (Coq_xI
                                                (Coq_xI (Coq_xI (Coq_xI
                                                Coq_xH))))))))) (fun m -> SOk
                                              (((with_mem s1 m), inp'), (Read
                                              (stream,
                                              (Z.coq_land b (Zpos (Coq_xI
                                                (Coq_xI (Coq_xI (Coq_xI
                                                (Coq_xI (Coq_xI (Coq_xI
                                                Coq_xH))))))))))))))
                                        | _ ->
                                          SThrow (String ((Ascii (true,
                                            false, false, true, false, true,
                                            true, false)), (String ((Ascii
                                            (false, true, true, true, false,
                                            true, true, false)), (String
                                            ((Ascii (false, true, true,
                                            false, true, true, true, false)),
                                            (String ((Ascii (true, false,
                                            false, false, false, true, true,
                                            false)), (String ((Ascii (false,
                                            false, true, true, false, true,
                                            true, false)), (String ((Ascii
                                            (true, false, false, true, false,
                                            true, true, false)), (String
                                            ((Ascii (false, false, true,
                                            false, false, true, true,
                                            false)), (String ((Ascii (false,
                                            false, false, false, false, true,
                                            false, false)), (String ((Ascii
                                            (true, true, false, false, true,
                                            true, true, false)), (String
                                            ((Ascii (true, false, false,
                                            true, true, true, true, false)),
                                            (String ((Ascii (true, true,
                                            false, false, true, true, true,
                                            false)), (String ((Ascii (true,
                                            true, false, false, false, true,
                                            true, false)), (String ((Ascii
                                            (true, false, false, false,
                                            false, true, true, false)),
                                            (String ((Ascii (false, false,
                                            true, true, false, true, true,
                                            false)), (String ((Ascii (false,
                                            false, true, true, false, true,
                                            true, false)),
                                            EmptyString)))))))))))))))))))))))))))))))
                                     | Coq_xH ->
                                       ld
                                         (u32
                                           (Z.add sp (Zpos (Coq_xO Coq_xH))))
                                         (fun v ->
                                         ld
                                           (u32
                                             (Z.add sp (Zpos (Coq_xI Coq_xH))))
                                           (fun stream -> SOk ((s1, inp),
                                           (Write
                                           ((Z.coq_land v (Zpos (Coq_xI
                                              (Coq_xI (Coq_xI (Coq_xI (Coq_xI
                                              (Coq_xI (Coq_xI Coq_xH))))))))),
                                           stream))))))
                                  | Zneg _ ->
                                    SThrow (String ((Ascii (true, false,
                                      false, true, false, true, true,
                                      false)), (String ((Ascii (false, true,
                                      true, true, false, true, true, false)),
                                      (String ((Ascii (false, true, true,
                                      false, true, true, true, false)),
                                      (String ((Ascii (true, false, false,
                                      false, false, true, true, false)),
                                      (String ((Ascii (false, false, true,
                                      true, false, true, true, false)),
                                      (String ((Ascii (true, false, false,
                                      true, false, true, true, false)),
                                      (String ((Ascii (false, false, true,
                                      false, false, true, true, false)),
                                      (String ((Ascii (false, false, false,
                                      false, false, true, false, false)),
                                      (String ((Ascii (true, true, false,
                                      false, true, true, true, false)),
                                      (String ((Ascii (true, false, false,
                                      true, true, true, true, false)),
                                      (String ((Ascii (true, true, false,
                                      false, true, true, true, false)),
                                      (String ((Ascii (true, true, false,
                                      false, false, true, true, false)),
                                      (String ((Ascii (true, false, false,
                                      false, false, true, true, false)),
                                      (String ((Ascii (false, false, true,
                                      true, false, true, true, false)),
                                      (String ((Ascii (false, false, true,
                                      true, false, true, true, false)),
                                      EmptyString))))))))))))))))))))))))))))))))
                             | _ ->
                               SThrow (String ((Ascii (true, false, false,
                                 true, false, true, true, false)), (String
                                 ((Ascii (false, true, true, true, false,
                                 true, true, false)), (String ((Ascii (false,
                                 true, true, false, true, true, true,
                                 false)), (String ((Ascii (true, false,
                                 false, false, false, true, true, false)),
                                 (String ((Ascii (false, false, true, true,
                                 false, true, true, false)), (String ((Ascii
                                 (true, false, false, true, false, true,
                                 true, false)), (String ((Ascii (false,
                                 false, true, false, false, true, true,
                                 false)), (String ((Ascii (false, false,
                                 false, false, false, true, false, false)),
                                 (String ((Ascii (true, true, true, true,
                                 false, false, true, false)), (String ((Ascii
                                 (false, false, false, false, true, false,
                                 true, false)), (String ((Ascii (false, true,
                                 false, false, true, false, true, false)),
                                 EmptyString)))))))))))))))))))))))
                          | Coq_xO p4 ->
                            (match p4 with
                             | Coq_xH ->
                               ok
                                 (with_regs s pc0 (u32 (Z.sub areg0 breg0))
                                   breg0 Z0)
                             | _ ->
                               SThrow (String ((Ascii (true, false, false,
                                 true, false, true, true, false)), (String
                                 ((Ascii (false, true, true, true, false,
                                 true, true, false)), (String ((Ascii (false,
                                 true, true, false, true, true, true,
                                 false)), (String ((Ascii (true, false,
                                 false, false, false, true, true, false)),
                                 (String ((Ascii (false, false, true, true,
                                 false, true, true, false)), (String ((Ascii
                                 (true, false, false, true, false, true,
                                 true, false)), (String ((Ascii (false,
                                 false, true, false, false, true, true,
                                 false)), (String ((Ascii (false, false,
                                 false, false, false, true, false, false)),
                                 (String ((Ascii (true, true, true, true,
                                 false, false, true, false)), (String ((Ascii
                                 (false, false, false, false, true, false,
                                 true, false)), (String ((Ascii (false, true,
                                 false, false, true, false, true, false)),
                                 EmptyString)))))))))))))))))))))))
                          | Coq_xH ->
                            ok
                              (with_regs s pc0 (u32 (Z.add areg0 breg0))
                                breg0 Z0))
                       | Zneg _ ->
                         SThrow (String ((Ascii (true, false, false, true,
                           false, true, true, false)), (String ((Ascii
                           (false, true, true, true, false, true, true,
                           false)), (String ((Ascii (false, true, true,
                           false, true, true, true, false)), (String ((Ascii
                           (true, false, false, false, false, true, true,
                           false)), (String ((Ascii (false, false, true,
                           true, false, true, true, false)), (String ((Ascii
                           (true, false, false, true, false, true, true,
                           false)), (String ((Ascii (false, false, true,
                           false, false, true, true, false)), (String ((Ascii
                           (false, false, false, false, false, true, false,
                           false)), (String ((Ascii (true, true, true, true,
                           false, false, true, false)), (String ((Ascii
                           (false, false, false, false, true, false, true,
                           false)), (String ((Ascii (false, true, false,
                           false, true, false, true, false)),
                           EmptyString)))))))))))))))))))))))
                    | _ ->
                      SThrow (String ((Ascii (true, false, false, true,
                        false, true, true, false)), (String ((Ascii (false,
                        true, true, true, false, true, true, false)), (String
                        ((Ascii (false, true, true, false, true, true, true,
                        false)), (String ((Ascii (true, false, false, false,
                        false, true, true, false)), (String ((Ascii (false,
                        false, true, true, false, true, true, false)),
                        (String ((Ascii (true, false, false, true, false,
                        true, true, false)), (String ((Ascii (false, false,
                        true, false, false, true, true, false)), (String
                        ((Ascii (false, false, false, false, false, true,
                        false, false)), (String ((Ascii (true, false, false,
                        true, false, true, true, false)), (String ((Ascii
                        (false, true, true, true, false, true, true, false)),
                        (String ((Ascii (true, true, false, false, true,
                        true, true, false)), (String ((Ascii (false, false,
                        true, false, true, true, true, false)), (String
                        ((Ascii (false, true, false, false, true, true, true,
                        false)), (String ((Ascii (true, false, true, false,
                        true, true, true, false)), (String ((Ascii (true,
                        true, false, false, false, true, true, false)),
                        (String ((Ascii (false, false, true, false, true,
                        true, true, false)), (String ((Ascii (true, false,
                        false, true, false, true, true, false)), (String
                        ((Ascii (true, true, true, true, false, true, true,
                        false)), (String ((Ascii (false, true, true, true,
                        false, true, true, false)),
                        EmptyString)))))))))))))))))))))))))))))))))))))))
                 | Coq_xO p2 ->
                   (match p2 with
                    | Coq_xH ->
                      ok (with_regs s (u32 (Z.add pc0 oreg0)) areg0 breg0 Z0)
                    | _ ->
                      SThrow (String ((Ascii (true, false, false, true,
                        false, true, true, false)), (String ((Ascii (false,
                        true, true, true, false, true, true, false)), (String
                        ((Ascii (false, true, true, false, true, true, true,
                        false)), (String ((Ascii (true, false, false, false,
                        false, true, true, false)), (String ((Ascii (false,
                        false, true, true, false, true, true, false)),
                        (String ((Ascii (true, false, false, true, false,
                        true, true, false)), (String ((Ascii (false, false,
                        true, false, false, true, true, false)), (String
                        ((Ascii (false, false, false, false, false, true,
                        false, false)), (String ((Ascii (true, false, false,
                        true, false, true, true, false)), (String ((Ascii
                        (false, true, true, true, false, true, true, false)),
                        (String ((Ascii (true, true, false, false, true,
                        true, true, false)), (String ((Ascii (false, false,
                        true, false, true, true, true, false)), (String
                        ((Ascii (false, true, false, false, true, true, true,
                        false)), (String ((Ascii (true, false, true, false,
                        true, true, true, false)), (String ((Ascii (true,
                        true, false, false, false, true, true, false)),
                        (String ((Ascii (false, false, true, false, true,
                        true, true, false)), (String ((Ascii (true, false,
                        false, true, false, true, true, false)), (String
                        ((Ascii (true, true, true, true, false, true, true,
                        false)), (String ((Ascii (false, true, true, true,
                        false, true, true, false)),
                        EmptyString)))))))))))))))))))))))))))))))))))))))
                 | Coq_xH ->
                   ok (with_regs s pc0 (u32 (Z.add pc0 oreg0)) breg0 Z0))
              | Coq_xH -> ok (with_regs s pc0 oreg0 breg0 Z0))
           | Coq_xO p0 ->
             (match p0 with
              | Coq_xI p1 ->
                (match p1 with
                 | Coq_xI p2 ->
                   (match p2 with
                    | Coq_xH ->
                      ok
                        (with_regs s pc0 areg0 breg0
                          (u32
                            (Z.shiftl oreg0 (Zpos (Coq_xO (Coq_xO Coq_xH))))))
                    | _ ->
                      SThrow (String ((Ascii (true, false, false, true,
                        false, true, true, false)), (String ((Ascii (false,
                        true, true, true, false, true, true, false)), (String
                        ((Ascii (false, true, true, false, true, true, true,
                        false)), (String ((Ascii (true, false, false, false,
                        false, true, true, false)), (String ((Ascii (false,
                        false, true, true, false, true, true, false)),
                        (String ((Ascii (true, false, false, true, false,
                        true, true, false)), (String ((Ascii (false, false,
                        true, false, false, true, true, false)), (String
                        ((Ascii (false, false, false, false, false, true,
                        false, false)), (String ((Ascii (true, false, false,
                        true, false, true, true, false)), (String ((Ascii
                        (false, true, true, true, false, true, true, false)),
                        (String ((Ascii (true, true, false, false, true,
                        true, true, false)), (String ((Ascii (false, false,
                        true, false, true, true, true, false)), (String
                        ((Ascii (false, true, false, false, true, true, true,
                        false)), (String ((Ascii (true, false, true, false,
                        true, true, true, false)), (String ((Ascii (true,
                        true, false, false, false, true, true, false)),
                        (String ((Ascii (false, false, true, false, true,
                        true, true, false)), (String ((Ascii (true, false,
                        false, true, false, true, true, false)), (String
                        ((Ascii (true, true, true, true, false, true, true,
                        false)), (String ((Ascii (false, true, true, true,
                        false, true, true, false)),
                        EmptyString)))))))))))))))))))))))))))))))))))))))
                 | Coq_xO p2 ->
                   (match p2 with
                    | Coq_xH ->
                      ok
                        (with_regs s
                          (if Z.eqb areg0 Z0
                           then u32 (Z.add pc0 oreg0)
                           else pc0) areg0 breg0 Z0)
                    | _ ->
                      SThrow (String ((Ascii (true, false, false, true,
                        false, true, true, false)), (String ((Ascii (false,
                        true, true, true, false, true, true, false)), (String
                        ((Ascii (false, true, true, false, true, true, true,
                        false)), (String ((Ascii (true, false, false, false,
                        false, true, true, false)), (String ((Ascii (false,
                        false, true, true, false, true, true, false)),
                        (String ((Ascii (true, false, false, true, false,
                        true, true, false)), (String ((Ascii (false, false,
                        true, false, false, true, true, false)), (String
                        ((Ascii (false, false, false, false, false, true,
                        false, false)), (String ((Ascii (true, false, false,
                        true, false, true, true, false)), (String ((Ascii
                        (false, true, true, true, false, true, true, false)),
                        (String ((Ascii (true, true, false, false, true,
                        true, true, false)), (String ((Ascii (false, false,
                        true, false, true, true, true, false)), (String
                        ((Ascii (false, true, false, false, true, true, true,
                        false)), (String ((Ascii (true, false, true, false,
                        true, true, true, false)), (String ((Ascii (true,
                        true, false, false, false, true, true, false)),
                        (String ((Ascii (false, false, true, false, true,
                        true, true, false)), (String ((Ascii (true, false,
                        false, true, false, true, true, false)), (String
                        ((Ascii (true, true, true, true, false, true, true,
                        false)), (String ((Ascii (false, true, true, true,
                        false, true, true, false)),
                        EmptyString)))))))))))))))))))))))))))))))))))))))
                 | Coq_xH ->
                   ld (u32 (Z.add areg0 oreg0)) (fun v ->
                     ok (with_regs s pc0 v breg0 Z0)))
              | Coq_xO p1 ->
                (match p1 with
                 | Coq_xI _ ->
                   SThrow (String ((Ascii (true, false, false, true, false,
                     true, true, false)), (String ((Ascii (false, true, true,
                     true, false, true, true, false)), (String ((Ascii
                     (false, true, true, false, true, true, true, false)),
                     (String ((Ascii (true, false, false, false, false, true,
                     true, false)), (String ((Ascii (false, false, true,
                     true, false, true, true, false)), (String ((Ascii (true,
                     false, false, true, false, true, true, false)), (String
                     ((Ascii (false, false, true, false, false, true, true,
                     false)), (String ((Ascii (false, false, false, false,
                     false, true, false, false)), (String ((Ascii (true,
                     false, false, true, false, true, true, false)), (String
                     ((Ascii (false, true, true, true, false, true, true,
                     false)), (String ((Ascii (true, true, false, false,
                     true, true, true, false)), (String ((Ascii (false,
                     false, true, false, true, true, true, false)), (String
                     ((Ascii (false, true, false, false, true, true, true,
                     false)), (String ((Ascii (true, false, true, false,
                     true, true, true, false)), (String ((Ascii (true, true,
                     false, false, false, true, true, false)), (String
                     ((Ascii (false, false, true, false, true, true, true,
                     false)), (String ((Ascii (true, false, false, true,
                     false, true, true, false)), (String ((Ascii (true, true,
                     true, true, false, true, true, false)), (String ((Ascii
                     (false, true, true, true, false, true, true, false)),
                     EmptyString))))))))))))))))))))))))))))))))))))))
                 | Coq_xO p2 ->
                   (match p2 with
                    | Coq_xH ->
                      st (u32 (Z.add breg0 oreg0)) areg0 (fun m ->
                        ok (with_mem (with_regs s pc0 areg0 breg0 Z0) m))
                    | _ ->
                      SThrow (String ((Ascii (true, false, false, true,
                        false, true, true, false)), (String ((Ascii (false,
                        true, true, true, false, true, true, false)), (String
                        ((Ascii (false, true, true, false, true, true, true,
                        false)), (String ((Ascii (true, false, false, false,
                        false, true, true, false)), (String ((Ascii (false,
                        false, true, true, false, true, true, false)),
                        (String ((Ascii (true, false, false, true, false,
                        true, true, false)), (String ((Ascii (false, false,
                        true, false, false, true, true, false)), (String
                        ((Ascii (false, false, false, false, false, true,
                        false, false)), (String ((Ascii (true, false, false,
                        true, false, true, true, false)), (String ((Ascii
                        (false, true, true, true, false, true, true, false)),
                        (String ((Ascii (true, true, false, false, true,
                        true, true, false)), (String ((Ascii (false, false,
                        true, false, true, true, true, false)), (String
                        ((Ascii (false, true, false, false, true, true, true,
                        false)), (String ((Ascii (true, false, true, false,
                        true, true, true, false)), (String ((Ascii (true,
                        true, false, false, false, true, true, false)),
                        (String ((Ascii (false, false, true, false, true,
                        true, true, false)), (String ((Ascii (true, false,
                        false, true, false, true, true, false)), (String
                        ((Ascii (true, true, true, true, false, true, true,
                        false)), (String ((Ascii (false, true, true, true,
                        false, true, true, false)),
                        EmptyString)))))))))))))))))))))))))))))))))))))))
                 | Coq_xH -> ok (with_regs s pc0 areg0 oreg0 Z0))
              | Coq_xH ->
                st oreg0 areg0 (fun m ->
                  ok (with_mem (with_regs s pc0 areg0 breg0 Z0) m)))
           | Coq_xH -> ld oreg0 (fun v -> ok (with_regs s pc0 areg0 v Z0)))
        | Zneg _ ->
          SThrow (String ((Ascii (true, false, false, true, false, true,
            true, false)), (String ((Ascii (false, true, true, true, false,
            true, true, false)), (String ((Ascii (false, true, true, false,
            true, true, true, false)), (String ((Ascii (true, false, false,
            false, false, true, true, false)), (String ((Ascii (false, false,
            true, true, false, true, true, false)), (String ((Ascii (true,
            false, false, true, false, true, true, false)), (String ((Ascii
            (false, false, true, false, false, true, true, false)), (String
            ((Ascii (false, false, false, false, false, true, false, false)),
            (String ((Ascii (true, false, false, true, false, true, true,
            false)), (String ((Ascii (false, true, true, true, false, true,
            true, false)), (String ((Ascii (true, true, false, false, true,
            true, true, false)), (String ((Ascii (false, false, true, false,
            true, true, true, false)), (String ((Ascii (false, true, false,
            false, true, true, true, false)), (String ((Ascii (true, false,
            true, false, true, true, true, false)), (String ((Ascii (true,
            true, false, false, false, true, true, false)), (String ((Ascii
            (false, false, true, false, true, true, true, false)), (String
            ((Ascii (true, false, false, true, false, true, true, false)),
            (String ((Ascii (true, true, true, true, false, true, true,
            false)), (String ((Ascii (false, true, true, true, false, true,
            true, false)), EmptyString)))))))))))))))))))))))))))))))))))))))

(** val guard : coq_Z -> sim -> bool **)

let guard max_cycles s =
  (&&) s.s_running
    (if Z.ltb Z0 max_cycles then Z.leb s.s_cycles max_cycles else true)

type run_end =
| Returned of coq_Z
| Threw of string
| Ub of string
| NoFuel

(** val run :
    nat -> coq_Z -> sim -> inputs -> event list -> ((event
    list * inputs) * sim) * run_end **)

let rec run n max_cycles s inp evs =
  if negb (guard max_cycles s)
  then ((((rev evs), inp), s), (Returned s.s_exit))
  else (match n with
        | O -> ((((rev evs), inp), s), NoFuel)
        | S k ->
          (match step s inp with
           | SOk a ->
             let (p, e) = a in
             let (s', inp') = p in
             (match e with
              | Tau -> run k max_cycles s' inp' evs
              | _ -> run k max_cycles s' inp' (e :: evs))
           | SThrow m -> ((((rev evs), inp), s), (Threw m))
           | SUB w -> ((((rev evs), inp), s), (Ub w))))

(** val init : (coq_Z -> coq_Z) -> coq_Z -> coq_Z list -> sim **)

let init background exit0 ws =
  { s_pc = Z0; s_areg = Z0; s_breg = Z0; s_oreg = Z0; s_mem =
    (load_words (empty background) Z0 ws); s_running = true; s_exit = exit0;
    s_cycles = Z0 }

(** val arch_of : sim -> arch **)

let arch_of s =
  { pc = s.s_pc; areg = s.s_areg; breg = s.s_breg; oreg = s.s_oreg; mem =
    s.s_mem }

type symtab = (string * coq_Z) list

(** val lookup_scan : symtab -> coq_Z -> string option **)

let rec lookup_scan tab pc0 =
  match tab with
  | [] -> None
  | p :: r ->
    let (n, o) = p in
    (match r with
     | [] -> if Z.leb o pc0 then Some n else None
     | p0 :: _ ->
       let (_, o2) = p0 in
       if (&&) (Z.leb o pc0) (Z.ltb pc0 o2) then Some n else lookup_scan r pc0)

(** val lookup_symbol : symtab -> coq_Z -> string option **)

let lookup_symbol tab pc0 =
  match tab with
  | [] -> None
  | p :: _ ->
    let (_, o0) = p in if Z.ltb pc0 o0 then None else lookup_scan tab pc0

(** val map_offset : symtab -> string -> coq_Z -> coq_Z **)

let rec map_offset tab name acc =
  match tab with
  | [] -> acc
  | p :: r ->
    let (n, o) = p in map_offset r name (if eqb n name then o else acc)

(** val trace_symbol : symtab -> coq_Z -> (string * coq_Z) option **)

let trace_symbol tab pc0 =
  match lookup_symbol tab pc0 with
  | Some n -> Some (n, (Z.sub pc0 (map_offset tab n Z0)))
  | None -> None

(** val trace_prefix :
    symtab -> sim -> (((coq_Z * coq_Z) * (string * coq_Z)
    option) * coq_Z) * coq_Z **)

let trace_prefix tab s =
  let instr = sim_fetch s in
  ((((s.s_cycles, s.s_pc), (trace_symbol tab s.s_pc)),
  (Z.coq_land (Z.shiftr instr (Zpos (Coq_xO (Coq_xO Coq_xH)))) (Zpos (Coq_xI
    (Coq_xI (Coq_xI Coq_xH)))))),
  (Z.coq_land instr (Zpos (Coq_xI (Coq_xI (Coq_xI Coq_xH))))))
