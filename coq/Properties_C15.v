(* Properties_C15.v -- trace and debug symbols report what is actually executing.
   Models: AsmLayout.v (symbols written by the assembler), SimModel.v (lookupSymbol, the trace line prefix). *)
From Coq Require Import ZArith List String.
From HexVerif Require Import WMap Isa SimModel SimProofs SimProofs15 AsmModel AsmLayout AsmSpec AsmStatements AsmLayoutProofs AsmSymtabProofs AsmWalkProofs Loader SimTraceText SimTraceTextProofs.
Import ListNotations.
Local Open Scope Z_scope.

(* the symbol table written into a binary lists exactly the FUNC/PROC directives, once each, in order, each with the
   byte offset of the first instruction byte emitted after it (check_symtab: spec validator over the image) *)
Theorem C15_symtab : forall prog locs out,
  Forall wf_directive prog -> assemble_directives prog locs = AsmModel.Ok out -> small (ao_layout out) ->
  check_symtab prog (ao_image out) (ao_syms out) = true.
Proof. exact symtab_ok. Qed.
Print Assumptions C15_symtab.

(* "lists every procedure and function of the program once", as an explicit statement (AsmWalkProofs.v): the names of a
   table the validator accepts -- in particular of the table the assembler model writes -- are the FUNC/PROC directives
   of the source, once each, in source order *)
Theorem C15_table_names : forall prog image syms,
  check_symtab prog image syms = true -> map fst syms = proc_names prog.
Proof. exact check_symtab_names. Qed.
Print Assumptions C15_table_names.

Theorem C15_model_table_names : forall prog locs out,
  Forall wf_directive prog -> assemble_directives prog locs = AsmModel.Ok out -> small (ao_layout out) ->
  map fst (ao_syms out) = proc_names prog.
Proof. intros prog locs out Hwf Ha Hs. exact (check_symtab_names _ _ _ (symtab_ok prog locs out Hwf Ha Hs)). Qed.
Print Assumptions C15_model_table_names.

(* a table that passes the validator -- in particular the table the assembler model writes -- has ascending offsets
   (the hypothesis `asc` of the lookup theorems below); `asc` is non-strict: adjacent entries may share an offset *)
Theorem C15_validated_table_ascends : forall prog image syms, check_symtab prog image syms = true -> asc syms.
Proof. exact check_symtab_asc. Qed.
Print Assumptions C15_validated_table_ascends.

Theorem C15_model_table_ascends : forall prog locs out,
  Forall wf_directive prog -> assemble_directives prog locs = AsmModel.Ok out -> small (ao_layout out) -> asc (ao_syms out).
Proof. intros prog locs out Hwf Ha Hs. exact (check_symtab_asc _ _ _ (symtab_ok prog locs out Hwf Ha Hs)). Qed.
Print Assumptions C15_model_table_ascends.

(* the trace labels each instruction with the procedure whose code contains it, with its offset from the entry
   (ascending offsets: see above; distinct names: X rejects a procedure defined twice; an assembly file that names two
   FUNC/PROC alike is outside the property's quantifier -- debugInfoMap then keeps the last offset) *)
Theorem C15_lookup : forall pre n o post pc,
  asc (pre ++ (n, o) :: post) -> NoDup (map fst (pre ++ (n, o) :: post)) ->
  o <= pc -> match post with [] => True | (_, o2) :: _ => pc < o2 end ->
  trace_symbol (pre ++ (n, o) :: post) pc = Some (n, pc - o).
Proof. exact lookup_correct. Qed.
Print Assumptions C15_lookup.

Theorem C15_before_first_entry : forall n0 o0 r pc, pc < o0 -> trace_symbol ((n0, o0) :: r) pc = None.
Proof. exact lookup_before_first. Qed.
Print Assumptions C15_before_first_entry.

(* offset 0 is shown exactly at a procedure's entry *)
Theorem C15_offset_zero_iff_entry : forall pre n o post pc,
  asc (pre ++ (n, o) :: post) -> NoDup (map fst (pre ++ (n, o) :: post)) ->
  o <= pc -> match post with [] => True | (_, o2) :: _ => pc < o2 end ->
  (exists m, trace_symbol (pre ++ (n, o) :: post) pc = Some (m, 0)) <-> pc = o.
Proof. exact offset_zero_iff_entry. Qed.
Print Assumptions C15_offset_zero_iff_entry.

(* the n-th trace line (counting from 0) reports: n, the byte address of the n-th instruction of the ISA trace,
   its symbol, the opcode of the byte fetched there and that byte's low nibble *)
Theorem C15_trace_columns : forall tab n s inp a' inp',
  wf s -> s_cycles s = 0 -> isa_steps n (arch_of s) inp = Some (a', inp') ->
  exists s', sim_steps n s inp = Some (s', inp') /\
    trace_prefix tab s' = (Z.of_nat n, pc a', trace_symbol tab (pc a'), fetch a' / 16, fetch a' mod 16).
Proof. exact trace_columns_are_isa. Qed.
Print Assumptions C15_trace_columns.

(* the same as TEXT: the n-th line hexsim -t prints starts with exactly the bytes SimTraceText.prefix_text gives for
   (n, pc_n, symbol, opcode, nibble) of the n-th instruction of the ISA trace -- "%-6d %-6d %-12s %-4s %-2d " with the
   symbol column "<name>+<offset>" or empty, or the shorter form without symbol column when the binary has no symbols.
   tools/c15.py compares this text (extracted) verbatim with the start of every real trace line. *)
Theorem C15_trace_line_text : forall tab n s inp a' inp',
  wf s -> s_cycles s = 0 -> isa_steps n (arch_of s) inp = Some (a', inp') ->
  exists s', sim_steps n s inp = Some (s', inp') /\
    trace_line_prefix_text tab s' =
    prefix_text (has_debug tab) (Z.of_nat n, pc a', trace_symbol tab (pc a'), fetch a' / 16, fetch a' mod 16).
Proof. exact trace_line_text_is_isa. Qed.
Print Assumptions C15_trace_line_text.

(* and the text determines the five columns: the total reader SimTraceText.read_prefix recovers the structured prefix
   from the start of the line, whatever follows it (numbers below 10^25, opcode 0..15, symbol names without blanks,
   symbol offset below 2^32; without debug symbols there is no symbol column) *)
Theorem C15_trace_text_determines_columns : forall debug n pc sym opc nib rest,
  printable (n, pc, sym, opc, nib) -> (debug = false -> sym = None) ->
  read_prefix debug (prefix_text debug (n, pc, sym, opc, nib) ++ rest) = Some (n, pc, sym, opc, nib).
Proof. exact read_prefix_text. Qed.
Print Assumptions C15_trace_text_determines_columns.

(* what the simulator's loader (model of Processor::load) reads back from the file the assembler model writes is
   exactly the image, word for word, and exactly the symbol table (names without NUL bytes, offsets below 2^32) *)
Theorem C15_loader_roundtrip : forall L img syms,
  emit_go (l_items L) 0 = (img, syms) ->
  Z.of_nat (List.length img) = l_size L -> l_size L mod 4 = 0 -> l_size L <= 800000 ->
  Z.of_nat (List.length syms) < W32 ->
  Forall (fun p => no_nul (bytes_of_string (fst p))) syms -> Forall (fun p => 0 <= snd p < W32) syms ->
  load_file (fst (fst (emit_bin L))) = Some (words_of_bytes img, map (fun p => (bytes_of_string (fst p), snd p)) syms).
Proof. exact load_emit_bin. Qed.
Print Assumptions C15_loader_roundtrip.

(* The last sentence of the property ("the sequence of procedure entries in a trace equals the call sequence of the
   source program") additionally needs the compiler's correctness (C01); it is not proved here: tools/c15.py decides
   it per explored program (offset-0 lines of the real trace = the entry addresses the ISA run reaches, in order)
   and says so in the evidence. *)

Example C15_nonvacuous :
  trace_symbol [("main"%string, 14); ("fib"%string, 50)] 57 = Some ("fib"%string, 7) /\
  trace_symbol [("main"%string, 14); ("fib"%string, 50)] 14 = Some ("main"%string, 0) /\
  trace_symbol [("main"%string, 14); ("fib"%string, 50)] 9 = None.
Proof. repeat split. Qed.

Example C15_text_nonvacuous :
  AsmModel.string_of_chars (prefix_text true (17, 22, Some ("a_long_procedure_name_xyz"%string, 0), 1, 1)) = "17     22     a_long_procedure_name_xyz+0 LDBM 1  "%string /\
  AsmModel.string_of_chars (prefix_text true (0, 0, None, 9, 15)) = "0      0                   BR   15 "%string /\
  AsmModel.string_of_chars (prefix_text false (1234567, 16, None, 14, 1)) = "1234567 16     PFIX 1  "%string.
Proof. repeat split; vm_compute; reflexivity. Qed.
