(* XFrontPreserveProofs.v -- xcmp's front-end passes (model XConstProp.front) preserve the meaning XSem gives to
   expressions (calls, system calls and array reads included), statements and procedure bodies: a simulation by
   induction on the interpreter's fuel, up to the order in which footprints are recorded (XFrontPreserve.st_eq).
   The transformed program gets four times the fuel (the rewrites ~= -> ~(=), >= -> ~(<) ... nest one level deeper).
   Parts: footprints as sets and states up to footprint order; the interpreter's primitives respect that equivalence;
   the stack keeps its shape (shape_all); call-free expressions only add reads to the footprint (pure_all); whatever
   an expression or statement does, the globals it leaves changed are in the write footprint it recorded (wsound_all);
   a call-free expression gives the same value and the same footprint from two states that agree on what it reads
   (rsound_all) -- together these move a call-free right operand of `>` / `<=` in front of a left operand with calls; a node
   annotated constant evaluates to that constant (const_eval); the step lemmas SE_step / SEs_step / SX_step / SXs_step /
   SWAP_step and their fuel induction sim_all.  Exclusions: XFrontPreserve.swap_safe. *)
From Coq Require Import ZArith String List Bool Lia FMapPositive.
From HexVerif Require Import XAst XSem XSemProps XConstProp XConstPropProofs XConstPropDeclProofs XFrontPreserve.
Import ListNotations.
Local Open Scope Z_scope.

(* ------------------------------------------------------------------ footprints as sets *)
Lemma mem_add x y l : mem_str x (add_str y l) = String.eqb x y || mem_str x l.
Proof.
  unfold add_str. destruct (mem_str y l) eqn:E; [|reflexivity].
  destruct (String.eqb_spec x y); [subst; rewrite E; reflexivity|reflexivity].
Qed.
Lemma mem_union x a b : mem_str x (union_str a b) = mem_str x a || mem_str x b.
Proof. induction a as [|y r IH]; [reflexivity|]. cbn [union_str mem_str]. rewrite mem_add, IH, orb_assoc. reflexivity. Qed.
Lemma inter_spec a b : inter_str a b = true <-> exists x, mem_str x a = true /\ mem_str x b = true.
Proof.
  induction a as [|y r IH]; cbn [inter_str mem_str].
  - split; [discriminate|intros (x & H & _); discriminate].
  - rewrite orb_true_iff, IH. split.
    + intros [H|(x & H1 & H2)]; [exists y; rewrite String.eqb_refl; auto|exists x; rewrite H1, orb_true_r; auto].
    + intros (x & H1 & H2). destruct (String.eqb_spec x y); [subst; auto|right; exists x; auto].
Qed.
Lemma inter_ext a a' b b' : (forall x, mem_str x a = mem_str x a') -> (forall x, mem_str x b = mem_str x b') -> inter_str a b = inter_str a' b'.
Proof.
  intros Ha Hb. apply eq_true_iff_eq. rewrite !inter_spec. split; intros (x & H1 & H2); exists x.
  - rewrite <- Ha, <- Hb; auto.
  - rewrite Ha, Hb; auto.
Qed.
Lemma inter_nil_r a : inter_str a [] = false.
Proof. induction a; [reflexivity|exact IHa]. Qed.

Lemma eff_eq_refl a : eff_eq a a. Proof. repeat split. Qed.
Lemma eff_eq_sym a b : eff_eq a b -> eff_eq b a.
Proof. intros (A & B & C). repeat split; intros; symmetry; auto. Qed.
Lemma eff_eq_trans a b c : eff_eq a b -> eff_eq b c -> eff_eq a c.
Proof. intros (A & B & C) (A' & B' & C'). split; [|split]; intros; (etransitivity; [|eauto]); auto. Qed.
Lemma eff_union_eq a a' b b' : eff_eq a a' -> eff_eq b b' -> eff_eq (eff_union a b) (eff_union a' b').
Proof.
  intros (A & B & C) (A' & B' & C'). unfold eff_union. split; [|split]; cbn [e_rd e_wr e_io].
  - intros x. rewrite !mem_union, A, A'. reflexivity.
  - intros x. rewrite !mem_union, B, B'. reflexivity.
  - rewrite C, C'. reflexivity.
Qed.
Lemma eff_union_eff0 a : eff_eq (eff_union a eff0) a.
Proof. unfold eff_union, eff0. split; [|split]; cbn; intros; rewrite ?mem_union; cbn; rewrite ?orb_false_r; reflexivity. Qed.
Lemma eff_union_comm a b : eff_eq (eff_union a b) (eff_union b a).
Proof. unfold eff_union. split; [|split]; cbn; intros; rewrite ?mem_union; try apply orb_comm. Qed.
Lemma eff_union_assoc_swap c a b : eff_eq (eff_union (eff_union c a) b) (eff_union (eff_union c b) a).
Proof.
  unfold eff_union. split; [|split]; cbn; intros; rewrite ?mem_union.
  - destruct (mem_str x (e_rd c)), (mem_str x (e_rd a)), (mem_str x (e_rd b)); reflexivity.
  - destruct (mem_str x (e_wr c)), (mem_str x (e_wr a)), (mem_str x (e_wr b)); reflexivity.
  - destruct (e_io c), (e_io a), (e_io b); reflexivity.
Qed.
Lemma conflict_eq a a' b b' : eff_eq a a' -> eff_eq b b' -> conflict a b = conflict a' b'.
Proof.
  intros (A & B & C) (A' & B' & C'). unfold conflict.
  rewrite (inter_ext (e_wr a) (e_wr a') (e_rd b) (e_rd b') B A'), (inter_ext (e_wr a) (e_wr a') (e_wr b) (e_wr b') B B'),
          (inter_ext (e_wr b) (e_wr b') (e_rd a) (e_rd a') B' A), C, C'. reflexivity.
Qed.
Lemma conflict_any_eq a a' l l' : eff_eq a a' -> Forall2 eff_eq l l' -> conflict_any a l = conflict_any a' l'.
Proof. intros Ha H. induction H; [reflexivity|]. cbn [conflict_any]. rewrite (conflict_eq a a' x y Ha H), IHForall2. reflexivity. Qed.
Lemma conflicts_eq l l' : Forall2 eff_eq l l' -> conflicts l = conflicts l'.
Proof. intros H. induction H; [reflexivity|]. cbn [conflicts]. rewrite (conflict_any_eq x y l l' H H0), IHForall2. reflexivity. Qed.

(* ------------------------------------------------------------------ states *)
Lemma st_eq_fields s t :
  st_eq s t <-> gvars s = gvars t /\ garrs s = garrs t /\ out_rev s = out_rev t /\ input s = input t /\ ncons s = ncons t /\
                budget s = budget t /\ stk s = stk t /\ eff_eq (cur s) (cur t).
Proof.
  unfold st_eq, set_cur. destruct s, t; cbn. split.
  - intros [H E]. inversion H; subst. destruct E as (E1 & E2 & E3). repeat split; auto.
  - intros (H1 & H2 & H3 & H4 & H5 & H6 & H7 & E). subst. split; [reflexivity|exact E].
Qed.
Lemma st_eq_refl s : st_eq s s. Proof. split; [reflexivity|apply eff_eq_refl]. Qed.
Lemma st_eq_sym s t : st_eq s t -> st_eq t s.
Proof. intros [A B]. split; [symmetry; exact A|apply eff_eq_sym; exact B]. Qed.
Lemma st_eq_trans s t u : st_eq s t -> st_eq t u -> st_eq s u.
Proof. intros [A B] [A' B']. split; [congruence|eapply eff_eq_trans; eauto]. Qed.
Lemma st_eq_start s t : st_eq s t -> set_cur s eff0 = set_cur t eff0. Proof. intros [A _]. exact A. Qed.
Lemma st_eq_set_cur s t c c' : set_cur s eff0 = set_cur t eff0 -> eff_eq c c' -> st_eq (set_cur s c) (set_cur t c').
Proof. intros H E. split; [|exact E]. destruct s, t; cbn in *. inversion H; subst. reflexivity. Qed.
Lemma same_set_cur s c : set_cur (set_cur s c) eff0 = set_cur s eff0. Proof. destruct s; reflexivity. Qed.
Lemma top_eq s t : st_eq s t -> top s = top t.
Proof. intros H. apply st_eq_fields in H. unfold top. destruct H as (_ & _ & _ & _ & _ & _ & H & _). rewrite H. reflexivity. Qed.

Lemma ok_res_eq {A} (R : A -> A -> Prop) r r' : res_eq R r r' -> ok r /\ ok r'.
Proof. destruct r, r'; cbn; tauto. Qed.

(* ------------------------------------------------------------------ fuel *)
Lemma evals_fuel_le : forall f f' ge es s, (f <= f')%nat -> le_res (evals f ge es s) (evals f' ge es s).
Proof.
  intros f f' ge es s H. induction H as [|m Hm IH]; [apply le_res_refl|].
  eapply le_res_trans; [exact IH|]. apply (fuel_step m ge).
Qed.
Lemma execs_fuel_le : forall f f' ge ss s, (f <= f')%nat -> le_res (execs f ge ss s) (execs f' ge ss s).
Proof.
  intros f f' ge ss s H. induction H as [|m Hm IH]; [apply le_res_refl|].
  eapply le_res_trans; [exact IH|]. apply (fuel_step m ge).
Qed.
Lemma lift_eval f f' ge e s r : eval f ge e s = r -> ok r -> (f <= f')%nat -> eval f' ge e s = r.
Proof. intros H Ho Hl. destruct (eval_fuel_le f f' ge e s Hl) as [E|E]; [exfalso; rewrite E in H; subst r; exact Ho|congruence]. Qed.
Lemma lift_evals f f' ge es s r : evals f ge es s = r -> ok r -> (f <= f')%nat -> evals f' ge es s = r.
Proof. intros H Ho Hl. destruct (evals_fuel_le f f' ge es s Hl) as [E|E]; [exfalso; rewrite E in H; subst r; exact Ho|congruence]. Qed.
Lemma lift_exec f f' ge st s r : exec f ge st s = r -> ok r -> (f <= f')%nat -> exec f' ge st s = r.
Proof. intros H Ho Hl. destruct (exec_fuel_le f f' ge st s Hl) as [E|E]; [exfalso; rewrite E in H; subst r; exact Ho|congruence]. Qed.
Lemma lift_execs f f' ge ss s r : execs f ge ss s = r -> ok r -> (f <= f')%nat -> execs f' ge ss s = r.
Proof. intros H Ho Hl. destruct (execs_fuel_le f f' ge ss s Hl) as [E|E]; [exfalso; rewrite E in H; subst r; exact Ho|congruence]. Qed.

(* r' simulates r: whenever r is not a failure, r' is the same answer in an equivalent state *)
Definition sim {A : Type} (R : A -> A -> Prop) (r r' : res A) : Prop := ok r -> res_eq R r r'.

Ltac fields H := apply st_eq_fields in H; destruct H as (?Hgv & ?Hga & ?Hout & ?Hin & ?Hnc & ?Hbu & ?Hstk & ?Hcur).
Ltac mk_steq := apply st_eq_fields; cbn; repeat match goal with |- _ /\ _ => split end; try assumption; try reflexivity; try congruence.

Lemma note_rd_eq x s t : st_eq s t -> st_eq (note_rd x s) (note_rd x t).
Proof.
  intros H. fields H. unfold note_rd, set_cur. mk_steq. destruct Hcur as (A & B & C). split; [|split]; cbn; auto.
  intros y. rewrite !mem_add, A. reflexivity.
Qed.
Lemma note_wr_eq x s t : st_eq s t -> st_eq (note_wr x s) (note_wr x t).
Proof.
  intros H. fields H. unfold note_wr, set_cur. mk_steq. destruct Hcur as (A & B & C). split; [|split]; cbn; auto.
  intros y. rewrite !mem_add, B. reflexivity.
Qed.
Lemma note_io_eq s t : st_eq s t -> st_eq (note_io s) (note_io t).
Proof.
  intros H. fields H. unfold note_io, set_cur. mk_steq. destruct Hcur as (A & B & C). split; [|split]; cbn; auto.
Qed.
Lemma set_budget_eq s t b : st_eq s t -> st_eq (set_budget s b) (set_budget t b).
Proof. intros H. fields H. mk_steq. Qed.
Lemma set_stk_eq s t k : st_eq s t -> st_eq (set_stk s k) (set_stk t k).
Proof. intros H. fields H. mk_steq. Qed.
Lemma set_gvars_eq s t g : st_eq s t -> st_eq (set_gvars s g) (set_gvars t g).
Proof. intros H. fields H. mk_steq. Qed.
Lemma set_garrs_eq s t g : st_eq s t -> st_eq (set_garrs s g) (set_garrs t g).
Proof. intros H. fields H. mk_steq. Qed.
Lemma pop_eq s t : st_eq s t -> st_eq (pop s) (pop t).
Proof. intros H. unfold pop. pose proof H as H'. fields H'. rewrite Hstk. apply set_stk_eq. exact H. Qed.

Section Prims.
  Variables (ge ge' : genv).
  Hypothesis Hvals : g_vals ge' = g_vals ge.

  Lemma read_var_sim x s t : st_eq s t -> sim eq (read_var ge x s) (read_var ge' x t).
  Proof.
    intros H Hok. pose proof (top_eq s t H) as Ht. pose proof H as H'. fields H'.
    unfold read_var in *. rewrite <- Ht, Hvals, <- Hgv, <- Hga.
    destruct (assoc x (f_vars (top s))) as [[| | |]|]; try exact Hok; try (split; [reflexivity|exact H]).
    destruct (assoc x (f_vals (top s))); [split; [reflexivity|exact H]|].
    destruct (assoc x (g_vals ge)); [split; [reflexivity|exact H]|].
    destruct (assoc x (gvars s)) as [[| | |]|]; try exact Hok; try (split; [reflexivity|apply note_rd_eq; exact H]).
    destruct (assoc x (garrs s)); [split; [reflexivity|exact H]|exact Hok].
  Qed.

  Lemma resolve_array_sim a s t : st_eq s t -> sim eq (resolve_array ge a s) (resolve_array ge' a t).
  Proof.
    intros H Hok. pose proof (top_eq s t H) as Ht. pose proof H as H'. fields H'.
    unfold resolve_array in *. rewrite <- Ht, <- Hga.
    destruct (assoc a (f_vars (top s))) as [[| | |]|]; try exact Hok; try (split; [reflexivity|exact H]).
    destruct (assoc a (f_vals (top s))); [exact Hok|].
    destruct (assoc a (garrs s)); [split; [reflexivity|exact H]|exact Hok].
  Qed.

  Lemma call_target_eq f s t : st_eq s t -> call_target ge' f t = call_target ge f s.
  Proof. intros H. unfold call_target. rewrite <- (top_eq s t H), Hvals. reflexivity. Qed.
End Prims.

Lemma read_elem_sim av a i s t : st_eq s t -> sim eq (read_elem av a i s) (read_elem av a i t).
Proof.
  intros H Hok. pose proof H as H'. fields H'. unfold read_elem in *. destruct av; try exact Hok.
  - rewrite <- Hga. destruct (assoc a0 (garrs s)); [|exact Hok].
    destruct ((0 <=? i) && (i <? alen a1)); [|exact Hok].
    destruct (PositiveMap.find (cell i) (acells a1)) as [[| | |]|]; try exact Hok. split; [reflexivity|apply note_rd_eq; exact H].
  - destruct ((0 <=? i) && (i <? Z.of_nat (Datatypes.length ws))); [|exact Hok]. split; [reflexivity|exact H].
Qed.

Lemma write_elem_sim av a i n s t : st_eq s t -> sim eq (write_elem av a i n s) (write_elem av a i n t).
Proof.
  intros H Hok. pose proof H as H'. fields H'. unfold write_elem in *. destruct av; try exact Hok.
  rewrite <- Hga. destruct (assoc a0 (garrs s)); [|exact Hok].
  destruct ((0 <=? i) && (i <? alen a1)); [|exact Hok].
  split; [reflexivity|]. apply note_wr_eq. apply set_garrs_eq. exact H.
Qed.

Lemma assign_sim ge ge' x n s t : g_vals ge' = g_vals ge -> st_eq s t -> sim eq (assign ge x n s) (assign ge' x n t).
Proof.
  intros Hv H Hok. pose proof H as H'. fields H'. unfold assign in *. rewrite <- Hstk, Hv, <- Hgv.
  destruct (stk s) as [|fr rest]; [exact Hok|].
  destruct (assoc x (f_vars fr)) as [[| | |]|]; try exact Hok; try (split; [reflexivity|apply set_stk_eq; exact H]).
  destruct (assoc x (f_vals fr)); [exact Hok|]. destruct (assoc x (g_vals ge)); [exact Hok|].
  destruct (assoc x (gvars s)); [|exact Hok]. split; [reflexivity|]. apply note_wr_eq. apply set_gvars_eq. exact H.
Qed.

Lemma do_sys_sim n vs b s t : st_eq s t -> sim eq (do_sys n vs b s) (do_sys n vs b t).
Proof.
  intros H Hok. pose proof H as H'. fields H'. unfold do_sys in *.
  destruct n as [|p|p]; [| |exact Hok].
  - (* 0: exit *) destruct vs as [|v ?]; [exact Hok|]. unfold int_of in *. destruct v; try exact Hok. split; [reflexivity|apply st_eq_start; exact H].
  - destruct p as [p|p|]; [exact Hok| |].
    + destruct p as [p|p|]; [exact Hok|exact Hok|].
      (* 2: get *)
      destruct vs as [|st ?]; [exact Hok|]. unfold int_of in *. destruct st; try exact Hok.
      destruct (n <? 256); [|exact Hok]. rewrite <- Hin. destruct (input s).
      * split; [reflexivity|apply note_io_eq; exact H].
      * split; [reflexivity|]. unfold consume. apply note_io_eq. mk_steq.
    + (* 1: put *) destruct vs as [|b0 [|st ?]]; try exact Hok. unfold int_of in *. destruct b0; try exact Hok. destruct st; try exact Hok.
      destruct b; [exact Hok|]. split; [reflexivity|]. unfold emit. apply note_io_eq. mk_steq.
Qed.

(* ------------------------------------------------------------------ framing of the footprint: starting an evaluation with the
   extra footprint c recorded only adds c to what is recorded at the end *)
Definition FR (c : eff) (s t : state) : Prop := set_cur s eff0 = set_cur t eff0 /\ eff_eq (eff_union c (cur s)) (cur t).
Definition rel2 {A : Type} (c : eff) (r r' : res A) : Prop :=
  match r, r' with
  | Ret a s, Ret a' t => a = a' /\ FR c s t
  | Halt k s, Halt k' t => k = k' /\ set_cur s eff0 = set_cur t eff0
  | Fail u, Fail u' => u = u'
  | _, _ => False
  end.

Lemma FR_fields c s t :
  FR c s t <-> gvars s = gvars t /\ garrs s = garrs t /\ out_rev s = out_rev t /\ input s = input t /\ ncons s = ncons t /\
               budget s = budget t /\ stk s = stk t /\ eff_eq (eff_union c (cur s)) (cur t).
Proof.
  unfold FR, set_cur. destruct s, t; cbn. split.
  - intros [H E]. inversion H; subst. repeat split; auto; apply E.
  - intros (H1 & H2 & H3 & H4 & H5 & H6 & H7 & E). subst. split; [reflexivity|exact E].
Qed.
Ltac ffields H := apply FR_fields in H; destruct H as (?Hgv & ?Hga & ?Hout & ?Hin & ?Hnc & ?Hbu & ?Hstk & ?Hcur).
Ltac mk_fr := apply FR_fields; cbn; repeat match goal with |- _ /\ _ => split end; try assumption; try reflexivity; try congruence.

Lemma FR_top c s t : FR c s t -> top s = top t.
Proof. intros H. ffields H. unfold top. rewrite Hstk. reflexivity. Qed.
Lemma FR_start c s t : FR c s t -> set_cur s eff0 = set_cur t eff0. Proof. intros [A _]. exact A. Qed.

Lemma FR_note_rd c x s t : FR c s t -> FR c (note_rd x s) (note_rd x t).
Proof.
  intros H. ffields H. unfold note_rd, set_cur. mk_fr. destruct Hcur as (A & B & C). split; [|split]; cbn in *; auto.
  intros y. rewrite mem_union, !mem_add, <- A, mem_union. destruct (mem_str y (e_rd c)), (String.eqb y x), (mem_str y (e_rd (cur s))); reflexivity.
Qed.
Lemma FR_note_wr c x s t : FR c s t -> FR c (note_wr x s) (note_wr x t).
Proof.
  intros H. ffields H. unfold note_wr, set_cur. mk_fr. destruct Hcur as (A & B & C). split; [|split]; cbn in *; auto.
  intros y. rewrite mem_union, !mem_add, <- B, mem_union. destruct (mem_str y (e_wr c)), (String.eqb y x), (mem_str y (e_wr (cur s))); reflexivity.
Qed.
Lemma FR_note_io c s t : FR c s t -> FR c (note_io s) (note_io t).
Proof.
  intros H. ffields H. unfold note_io, set_cur. mk_fr. destruct Hcur as (A & B & C). split; [|split]; cbn in *; auto.
  apply orb_true_r.
Qed.
Lemma FR_set_budget c s t b : FR c s t -> FR c (set_budget s b) (set_budget t b).
Proof. intros H. ffields H. mk_fr. Qed.
Lemma FR_set_stk c s t k : FR c s t -> FR c (set_stk s k) (set_stk t k).
Proof. intros H. ffields H. mk_fr. Qed.
Lemma FR_set_gvars c s t g : FR c s t -> FR c (set_gvars s g) (set_gvars t g).
Proof. intros H. ffields H. mk_fr. Qed.
Lemma FR_set_garrs c s t g : FR c s t -> FR c (set_garrs s g) (set_garrs t g).
Proof. intros H. ffields H. mk_fr. Qed.
Lemma FR_pop c s t : FR c s t -> FR c (pop s) (pop t).
Proof. intros H. unfold pop. pose proof H as H'. ffields H'. rewrite Hstk. apply FR_set_stk. exact H. Qed.

Lemma rel2_ret {A} c (a : A) s t : FR c s t -> rel2 c (Ret a s) (Ret a t).
Proof. intros H. split; [reflexivity|exact H]. Qed.
Lemma rel2_fail {A} c u : @rel2 A c (Fail u) (Fail u). Proof. reflexivity. Qed.

Lemma rel2_bind {A B} c (r r' : res A) (k k' : A -> state -> res B) :
  rel2 c r r' -> (forall a s1 t1, FR c s1 t1 -> rel2 c (k a s1) (k' a t1)) -> rel2 c (bind r k) (bind r' k').
Proof.
  intros H1 H2. destruct r as [a s1|k0 s1|u], r' as [a' t1|k1 t1|u']; cbn in H1; try contradiction; cbn [bind rcase].
  - destruct H1 as [Ha Hs]. subst a'. apply H2. exact Hs.
  - exact H1.
  - exact H1.
Qed.
Lemma rel2_int_of {B} c v (k k' : Z -> res B) : (forall n, rel2 c (k n) (k' n)) -> rel2 c (int_of v k) (int_of v k').
Proof. intros H. destruct v; cbn; try reflexivity. apply H. Qed.
Lemma rel2_bool_of {B} c v (k k' : bool -> res B) : (forall b, rel2 c (k b) (k' b)) -> rel2 c (bool_of v k) (bool_of v k').
Proof. intros H. unfold bool_of. apply rel2_int_of. intros n. destruct (n =? 0); [apply H|]. destruct (n =? 1); [apply H|reflexivity]. Qed.
Lemma rel2_tick {B} c s t (k k' : state -> res B) :
  FR c s t -> (forall s0 t0, FR c s0 t0 -> rel2 c (k s0) (k' t0)) -> rel2 c (tick s k) (tick t k').
Proof.
  intros H Hk. unfold tick. pose proof H as H'. ffields H'. rewrite <- Hbu. destruct (budget s <=? 0); [reflexivity|].
  apply Hk. apply FR_set_budget. exact H.
Qed.

Lemma eff_union_assoc a b d : eff_eq (eff_union a (eff_union b d)) (eff_union (eff_union a b) d).
Proof. unfold eff_union. split; [|split]; cbn; intros; rewrite ?mem_union, ?orb_assoc; reflexivity. Qed.

(* inside with_eff the two evaluations start from the same state: identical results; the difference c stays outside *)
Lemma rel2_with_eff {A} c (m : state -> res A) s t : FR c s t -> rel2 c (with_eff m s) (with_eff m t).
Proof.
  intros H. unfold with_eff. rewrite <- (FR_start c s t H).
  destruct (m (set_cur s eff0)) as [a s'|k s'|u]; cbn [rcase].
  - split; [reflexivity|]. split; [rewrite !same_set_cur; reflexivity|].
    assert (CS : forall x k, cur (set_cur x k) = k) by (intros x k; destruct x; reflexivity). rewrite !CS.
    eapply eff_eq_trans; [apply eff_union_assoc|]. apply eff_union_eq; [apply H|apply eff_eq_refl].
  - split; reflexivity.
  - reflexivity.
Qed.

Lemma fr_read_var c ge x s t : FR c s t -> rel2 c (read_var ge x s) (read_var ge x t).
Proof.
  intros H. pose proof (FR_top c s t H) as Ht. pose proof H as H'. ffields H'.
  unfold read_var. rewrite <- Ht, <- Hgv, <- Hga.
  destruct (assoc x (f_vars (top s))) as [[| | |]|]; try reflexivity; try (apply rel2_ret; exact H).
  destruct (assoc x (f_vals (top s))); [apply rel2_ret; exact H|].
  destruct (assoc x (g_vals ge)); [apply rel2_ret; exact H|].
  destruct (assoc x (gvars s)) as [[| | |]|]; try reflexivity; try (apply rel2_ret; apply FR_note_rd; exact H).
  destruct (assoc x (garrs s)); [apply rel2_ret; exact H|reflexivity].
Qed.
Lemma fr_resolve_array c ge a s t : FR c s t -> rel2 c (resolve_array ge a s) (resolve_array ge a t).
Proof.
  intros H. pose proof (FR_top c s t H) as Ht. pose proof H as H'. ffields H'.
  unfold resolve_array. rewrite <- Ht, <- Hga.
  destruct (assoc a (f_vars (top s))) as [[| | |]|]; try reflexivity; try (apply rel2_ret; exact H).
  destruct (assoc a (f_vals (top s))); [reflexivity|]. destruct (assoc a (garrs s)); [apply rel2_ret; exact H|reflexivity].
Qed.
Lemma fr_call_target c ge f s t : FR c s t -> call_target ge f t = call_target ge f s.
Proof. intros H. unfold call_target. rewrite <- (FR_top c s t H). reflexivity. Qed.
Lemma fr_read_elem c av a i s t : FR c s t -> rel2 c (read_elem av a i s) (read_elem av a i t).
Proof.
  intros H. pose proof H as H'. ffields H'. unfold read_elem. destruct av; try reflexivity.
  - rewrite <- Hga. destruct (assoc a0 (garrs s)); [|reflexivity]. destruct ((0 <=? i) && (i <? alen a1)); [|reflexivity].
    destruct (PositiveMap.find (cell i) (acells a1)) as [[| | |]|]; try reflexivity. apply rel2_ret. apply FR_note_rd. exact H.
  - destruct ((0 <=? i) && (i <? Z.of_nat (Datatypes.length ws))); [apply rel2_ret; exact H|reflexivity].
Qed.
Lemma fr_write_elem c av a i n s t : FR c s t -> rel2 c (write_elem av a i n s) (write_elem av a i n t).
Proof.
  intros H. pose proof H as H'. ffields H'. unfold write_elem. destruct av; try reflexivity.
  rewrite <- Hga. destruct (assoc a0 (garrs s)); [|reflexivity]. destruct ((0 <=? i) && (i <? alen a1)); [|reflexivity].
  apply rel2_ret. apply FR_note_wr. apply FR_set_garrs. exact H.
Qed.
Lemma fr_assign c ge x n s t : FR c s t -> rel2 c (assign ge x n s) (assign ge x n t).
Proof.
  intros H. pose proof H as H'. ffields H'. unfold assign. rewrite <- Hstk, <- Hgv.
  destruct (stk s) as [|fr rest]; [reflexivity|].
  destruct (assoc x (f_vars fr)) as [[| | |]|]; try reflexivity; try (apply rel2_ret; apply FR_set_stk; exact H).
  destruct (assoc x (f_vals fr)); [reflexivity|]. destruct (assoc x (g_vals ge)); [reflexivity|].
  destruct (assoc x (gvars s)); [|reflexivity]. apply rel2_ret. apply FR_note_wr. apply FR_set_gvars. exact H.
Qed.
Lemma fr_do_sys c n vs b s t : FR c s t -> rel2 c (do_sys n vs b s) (do_sys n vs b t).
Proof.
  intros H. pose proof H as H'. ffields H'. unfold do_sys.
  destruct n as [|p|p]; [| |reflexivity].
  - destruct vs as [|v ?]; [reflexivity|]. unfold int_of. destruct v; try reflexivity. split; [reflexivity|apply H].
  - destruct p as [p|p|]; [reflexivity| |].
    + destruct p as [p|p|]; [reflexivity|reflexivity|].
      destruct vs as [|st ?]; [reflexivity|]. unfold int_of. destruct st; try reflexivity.
      destruct (n <? 256); [|reflexivity]. rewrite <- Hin. destruct (input s).
      * apply rel2_ret. apply FR_note_io. exact H.
      * apply rel2_ret. unfold consume. apply FR_note_io. mk_fr.
    + destruct vs as [|b0 [|st ?]]; try reflexivity. unfold int_of. destruct b0; try reflexivity. destruct st; try reflexivity.
      destruct b; [reflexivity|]. apply rel2_ret. unfold emit. apply FR_note_io. mk_fr.
Qed.

Lemma enter_top_fr ge q vs s t : top s = top t -> enter ge q vs s = enter ge q vs t.
Proof. intros H. unfold enter. rewrite H. reflexivity. Qed.

Section Bodies.
  Variables (c : eff) (ge : genv)
            (ev : expr -> state -> res value)
            (evs : list expr -> state -> res (list (value * eff)))
            (ex : stmt -> state -> res flow)
            (exs : list stmt -> state -> res flow).
  Hypothesis Hev : forall e s t, FR c s t -> rel2 c (ev e s) (ev e t).
  Hypothesis Hevs : forall es s t, FR c s t -> rel2 c (evs es s) (evs es t).
  Hypothesis Hex : forall st s t, FR c s t -> rel2 c (ex st s) (ex st t).
  Hypothesis Hexs : forall ss s t, FR c s t -> rel2 c (exs ss s) (exs ss t).

  Lemma fr_evals_body es s t : FR c s t -> rel2 c (evals_body ev evs es s) (evals_body ev evs es t).
  Proof.
    intros H. destruct es as [|e r]; [apply rel2_ret; exact H|]. unfold evals_body.
    pose proof (rel2_with_eff c (ev e) s t H) as Hw.
    destruct (with_eff (ev e) s) as [ve s1|k s1|u], (with_eff (ev e) t) as [ve' t1|k' t1|u']; cbn in Hw; try contradiction; cbn [rcase].
    - destruct Hw as [Hv Hs1]. subst ve'. specialize (Hevs r s1 t1 Hs1).
      destruct (evs r s1) as [l s2|k s2|u], (evs r t1) as [l' t2|k' t2|u']; cbn in Hevs; try contradiction; cbn [rcase].
      + destruct Hevs as [Hl Hs2]. subst l'. apply rel2_ret. exact Hs2.
      + destruct (e_io (snd ve)); [reflexivity|exact Hevs].
      + exact Hevs.
    - destruct (forallb harmless r); [exact Hw|reflexivity].
    - exact Hw.
  Qed.
  Lemma fr_operands es s t : FR c s t -> rel2 c (operands evs es s) (operands evs es t).
  Proof.
    intros H. unfold operands. apply rel2_bind; [apply Hevs; exact H|]. intros l s1 t1 Hs1.
    destruct (conflicts (map snd l)); [reflexivity|apply rel2_ret; exact Hs1].
  Qed.
  Lemma fr_invoke w f vs s t : FR c s t -> rel2 c (invoke ex ge w f vs s) (invoke ex ge w f vs t).
  Proof.
    intros H. unfold invoke. destruct (find_proc f (g_procs ge)) as [p|]; [|reflexivity].
    destruct (negb (Bool.eqb (is_func p) w)); [reflexivity|].
    rewrite (enter_top_fr ge p vs t s (eq_sym (FR_top c s t H))). destruct (enter ge p vs s) as [u|fr]; [reflexivity|].
    apply rel2_tick; [exact H|]. intros s0 t0 Hs0.
    assert (Hstk : stk s0 = stk t0) by (apply FR_fields in Hs0; tauto).
    apply rel2_bind; [rewrite <- Hstk; apply Hex; apply FR_set_stk; exact Hs0|]. intros fl s2 t2 Hs2.
    destruct fl; destruct w; try reflexivity; try (apply rel2_ret; apply FR_pop; exact Hs2).
    destruct v; try reflexivity. apply rel2_ret. apply FR_pop. exact Hs2.
  Qed.

  Ltac fr :=
    repeat first
      [ reflexivity | assumption
      | apply rel2_ret; assumption
      | apply Hev; assumption | apply Hevs; assumption | apply Hex; assumption | apply Hexs; assumption
      | apply fr_read_var; assumption | apply fr_resolve_array; assumption | apply fr_read_elem; assumption
      | apply fr_write_elem; assumption | apply fr_assign; assumption | apply fr_do_sys; assumption
      | apply fr_operands; assumption | apply fr_invoke; assumption
      | apply rel2_bind; [ | intros ]
      | apply rel2_int_of; intros
      | apply rel2_bool_of; intros
      | match goal with
        | |- rel2 _ (match ?x with _ => _ end) (match ?x with _ => _ end) => destruct x
        | |- rel2 _ (if ?x then _ else _) (if ?x then _ else _) => destruct x
        | |- rel2 _ (Halt _ _) (Halt _ _) => split; [reflexivity|eapply FR_start; eassumption]
        end ].

  Lemma fr_eval_body e s t : FR c s t -> rel2 c (eval_body ev evs ex ge e s) (eval_body ev evs ex ge e t).
  Proof.
    intros H. destruct e as [n|b|bs|x|a i|f args|n args|o a|o l r]; cbn [eval_body]; try rewrite (fr_call_target c ge f s t H); try solve [fr].
  Qed.
  Lemma fr_exec_body st s t : FR c s t -> rel2 c (exec_body ev evs ex exs ge st s) (exec_body ev evs ex exs ge st t).
  Proof.
    intros H. unfold exec_body. apply rel2_tick; [exact H|]. intros s0 t0 H0.
    destruct st; try rewrite (fr_call_target c ge f s0 t0 H0); solve [fr].
  Qed.
  Lemma fr_execs_body ss s t : FR c s t -> rel2 c (execs_body ex exs ss s) (execs_body ex exs ss t).
  Proof. intros H. destruct ss as [|st r]; cbn [execs_body]; fr. Qed.
End Bodies.

Lemma frame_all c ge : forall f,
  (forall e s t, FR c s t -> rel2 c (eval f ge e s) (eval f ge e t)) /\
  (forall es s t, FR c s t -> rel2 c (evals f ge es s) (evals f ge es t)) /\
  (forall st s t, FR c s t -> rel2 c (exec f ge st s) (exec f ge st t)) /\
  (forall ss s t, FR c s t -> rel2 c (execs f ge ss s) (execs f ge ss t)).
Proof.
  induction f as [|f (H1 & H2 & H3 & H4)]; [repeat split; intros; reflexivity|].
  repeat split; intros.
  - apply (fr_eval_body c ge (eval f ge) (evals f ge) (exec f ge) H1 H2 H3). assumption.
  - apply (fr_evals_body c (eval f ge) (evals f ge) H2). assumption.
  - apply (fr_exec_body c ge (eval f ge) (evals f ge) (exec f ge) (execs f ge) H1 H2 H3 H4). assumption.
  - apply (fr_execs_body c (exec f ge) (execs f ge) H3 H4). assumption.
Qed.

(* ------------------------------------------------------------------ the stack keeps its shape *)
Definition fshape (fr : frame) : list string * list (string * Z) * nat := (map fst (f_vars fr), f_vals fr, f_depth fr).
Definition shape (s : state) := map fshape (stk s).
Definition PS {A : Type} (r : res A) (s : state) : Prop := match r with Ret _ s' => shape s' = shape s | _ => True end.

Lemma PS_bind {A B} (r : res A) (k : A -> state -> res B) s :
  PS r s -> (forall a s1, shape s1 = shape s -> PS (k a s1) s1) -> PS (bind r k) s.
Proof.
  intros H1 H2. destruct r as [a s1| |]; cbn in *; try exact I.
  specialize (H2 a s1 H1). unfold PS in *. destruct (k a s1); try exact I. congruence.
Qed.
Lemma PS_int_of {B} v (k : Z -> res B) s : (forall n, PS (k n) s) -> PS (int_of v k) s.
Proof. intros H. destruct v; cbn; try exact I. apply H. Qed.
Lemma PS_bool_of {B} v (k : bool -> res B) s : (forall b, PS (k b) s) -> PS (bool_of v k) s.
Proof. intros H. unfold bool_of. apply PS_int_of. intros n. destruct (n =? 0); [apply H|]. destruct (n =? 1); [apply H|exact I]. Qed.
Lemma PS_tick {B} s (k : state -> res B) : (forall s0, shape s0 = shape s -> PS (k s0) s0) -> PS (tick s k) s.
Proof.
  intros H. unfold tick. destruct (budget s <=? 0); [exact I|].
  specialize (H (set_budget s (budget s - 1)) eq_refl). unfold PS in *. destruct (k _); try exact I. exact H.
Qed.
Lemma PS_with_eff {A} (m : state -> res A) s : PS (m (set_cur s eff0)) (set_cur s eff0) -> PS (with_eff m s) s.
Proof. intros H. unfold with_eff. destruct (m (set_cur s eff0)); cbn in *; try exact I. exact H. Qed.

Lemma update_keys {A} x (v : A) l : map fst (update x v l) = map fst l.
Proof. induction l as [|[y w] r IH]; [reflexivity|]. cbn [update]. destruct (String.eqb x y); cbn; [reflexivity|rewrite IH; reflexivity]. Qed.

Lemma PS_read_var ge x s : PS (read_var ge x s) s.
Proof.
  unfold read_var. destruct (assoc x (f_vars (top s))) as [[| | |]|]; try exact I; try reflexivity.
  destruct (assoc x (f_vals (top s))); [reflexivity|]. destruct (assoc x (g_vals ge)); [reflexivity|].
  destruct (assoc x (gvars s)) as [[| | |]|]; try exact I; try reflexivity. destruct (assoc x (garrs s)); [reflexivity|exact I].
Qed.
Lemma PS_resolve_array ge a s : PS (resolve_array ge a s) s.
Proof.
  unfold resolve_array. destruct (assoc a (f_vars (top s))) as [[| | |]|]; try exact I; try reflexivity.
  destruct (assoc a (f_vals (top s))); [exact I|]. destruct (assoc a (garrs s)); [reflexivity|exact I].
Qed.
Lemma PS_read_elem av a i s : PS (read_elem av a i s) s.
Proof.
  unfold read_elem. destruct av; try exact I.
  - destruct (assoc a0 (garrs s)); [|exact I]. destruct ((0 <=? i) && (i <? alen a1)); [|exact I].
    destruct (PositiveMap.find (cell i) (acells a1)) as [[| | |]|]; try exact I. reflexivity.
  - destruct ((0 <=? i) && (i <? Z.of_nat (Datatypes.length ws))); [reflexivity|exact I].
Qed.
Lemma PS_write_elem av a i n s : PS (write_elem av a i n s) s.
Proof.
  unfold write_elem. destruct av; try exact I. destruct (assoc a0 (garrs s)); [|exact I].
  destruct ((0 <=? i) && (i <? alen a1)); [reflexivity|exact I].
Qed.
Lemma PS_assign ge x n s : PS (assign ge x n s) s.
Proof.
  unfold assign. destruct (stk s) as [|fr rest] eqn:Es; [exact I|].
  destruct (assoc x (f_vars fr)) as [[| | |]|]; try exact I.
  - cbn. unfold shape. cbn. rewrite Es. cbn. unfold fshape at 1 3. cbn. rewrite update_keys. reflexivity.
  - cbn. unfold shape. cbn. rewrite Es. cbn. unfold fshape at 1 3. cbn. rewrite update_keys. reflexivity.
  - destruct (assoc x (f_vals fr)); [exact I|]. destruct (assoc x (g_vals ge)); [exact I|].
    destruct (assoc x (gvars s)); [|exact I]. cbn. unfold shape. cbn. rewrite Es. reflexivity.
Qed.
Lemma PS_do_sys n vs b s : PS (do_sys n vs b s) s.
Proof.
  unfold do_sys. destruct n as [|p|p]; [| |exact I].
  - destruct vs; [exact I|]. apply PS_int_of. intros; exact I.
  - destruct p as [p|p|]; [exact I| |].
    + destruct p as [p|p|]; [exact I|exact I|]. destruct vs; [exact I|]. apply PS_int_of. intros n.
      destruct (n <? 256); [|exact I]. destruct (input s); reflexivity.
    + destruct vs as [|b0 [|st ?]]; try exact I. apply PS_int_of. intros bz. apply PS_int_of. intros sz. destruct b; [exact I|reflexivity].
Qed.

Section Bodies.
  Variables (ge : genv)
            (ev : expr -> state -> res value)
            (evs : list expr -> state -> res (list (value * eff)))
            (ex : stmt -> state -> res flow)
            (exs : list stmt -> state -> res flow).
  Hypothesis Hev : forall e s, PS (ev e s) s.
  Hypothesis Hevs : forall es s, PS (evs es s) s.
  Hypothesis Hex : forall st s, PS (ex st s) s.
  Hypothesis Hexs : forall ss s, PS (exs ss s) s.

  Lemma PS_evals_body es s : PS (evals_body ev evs es s) s.
  Proof.
    destruct es as [|e r]; [reflexivity|]. unfold evals_body.
    assert (H := PS_with_eff (ev e) s (Hev e _)).
    destruct (with_eff (ev e) s) as [ve s1|c s1|u]; cbn [rcase] in *.
    - specialize (Hevs r s1). destruct (evs r s1) as [l s2|c s2|u]; cbn [rcase] in *.
      + cbn in *. congruence.
      + destruct (e_io (snd ve)); exact I.
      + exact I.
    - destruct (forallb harmless r); exact I.
    - exact I.
  Qed.
  Lemma PS_operands es s : PS (operands evs es s) s.
  Proof. unfold operands. apply PS_bind; [apply Hevs|]. intros l s1 _. destruct (conflicts (map snd l)); [exact I|reflexivity]. Qed.

  Lemma PS_invoke w f vs s : PS (invoke ex ge w f vs s) s.
  Proof.
    unfold invoke. destruct (find_proc f (g_procs ge)) as [p|]; [|exact I].
    destruct (negb (Bool.eqb (is_func p) w)); [exact I|]. destruct (enter ge p vs s) as [u|fr]; [exact I|].
    unfold tick. destruct (budget s <=? 0); [exact I|].
    set (s0 := set_budget s (budget s - 1)).
    specialize (Hex (body p) (set_stk s0 (fr :: stk s0))).
    destruct (ex (body p) (set_stk s0 (fr :: stk s0))) as [fl s2|c s2|u]; cbn [bind rcase]; try exact I.
    assert (Hpop : shape (pop s2) = shape s).
    { cbn in Hex. unfold shape in *. unfold pop. cbn in Hex. destruct (stk s2) as [|a l]; cbn in *; [discriminate|]. inversion Hex. reflexivity. }
    destruct fl; destruct w; try exact I; try exact Hpop. destruct v; try exact I. exact Hpop.
  Qed.

  Ltac ps :=
    repeat first
      [ exact I | reflexivity
      | apply Hev | apply Hevs | apply Hex | apply Hexs
      | apply PS_read_var | apply PS_resolve_array | apply PS_read_elem | apply PS_write_elem | apply PS_assign | apply PS_do_sys
      | apply PS_operands | apply PS_invoke
      | apply PS_bind; [ | intros ]
      | apply PS_int_of; intros
      | apply PS_bool_of; intros
      | match goal with
        | |- PS (match ?x with _ => _ end) _ => destruct x
        | |- PS (if ?x then _ else _) _ => destruct x
        end ].

  Lemma PS_eval_body e s : PS (eval_body ev evs ex ge e s) s.
  Proof. destruct e as [n|b|bs|x|a i|f args|n args|o a|o l r]; cbn [eval_body]; solve [ps]. Qed.
  Lemma PS_exec_body st s : PS (exec_body ev evs ex exs ge st s) s.
  Proof. unfold exec_body. apply PS_tick. intros s0 _. destruct st; solve [ps]. Qed.
  Lemma PS_execs_body ss s : PS (execs_body ex exs ss s) s.
  Proof. destruct ss as [|st r]; cbn [execs_body]; ps. Qed.
End Bodies.

Lemma shape_all ge : forall f,
  (forall e s, PS (eval f ge e s) s) /\ (forall es s, PS (evals f ge es s) s) /\
  (forall st s, PS (exec f ge st s) s) /\ (forall ss s, PS (execs f ge ss s) s).
Proof.
  induction f as [|f (H1 & H2 & H3 & H4)]; [repeat split; intros; exact I|].
  repeat split; intros.
  - apply (PS_eval_body ge (eval f ge) (evals f ge) (exec f ge) H1 H2 H3).
  - apply (PS_evals_body (eval f ge) (evals f ge) H1 H2).
  - apply (PS_exec_body ge (eval f ge) (evals f ge) (exec f ge) (execs f ge) H1 H2 H3 H4).
  - apply (PS_execs_body (exec f ge) (execs f ge) H3 H4).
Qed.

(* ------------------------------------------------------------------ call-free expressions only add reads to the footprint *)
Definition wrio (a b : eff) : Prop := (forall x, mem_str x (e_wr a) = mem_str x (e_wr b)) /\ e_io a = e_io b.
Definition PU {A : Type} (r : res A) (s : state) : Prop :=
  match r with Ret _ s' => set_cur s' eff0 = set_cur s eff0 /\ wrio (cur s') (cur s) | Halt _ _ => False | Fail _ => True end.

Lemma wrio_refl a : wrio a a. Proof. split; reflexivity. Qed.
Lemma wrio_trans a b c : wrio a b -> wrio b c -> wrio a c.
Proof. intros [A B] [A' B']. split; [intros x; rewrite A; apply A'|congruence]. Qed.
Lemma PU_ret {A} (a : A) s : PU (Ret a s) s. Proof. split; [reflexivity|apply wrio_refl]. Qed.

Lemma PU_bind {A B} (r : res A) (k : A -> state -> res B) s :
  PU r s -> (forall a s1, PU (Ret a s1) s -> PU (k a s1) s1) -> PU (bind r k) s.
Proof.
  intros H1 H2. destruct r as [a s1|c s1|u]; cbn in *; try exact I; try contradiction.
  specialize (H2 a s1 H1). unfold PU in *. destruct (k a s1); try exact I; try exact H2.
  destruct H1 as [E1 W1], H2 as [E2 W2]. split; [congruence|eapply wrio_trans; eauto].
Qed.
Lemma PU_int_of {B} v (k : Z -> res B) s : (forall n, PU (k n) s) -> PU (int_of v k) s.
Proof. intros H. destruct v; cbn; try exact I. apply H. Qed.
Lemma PU_bool_of {B} v (k : bool -> res B) s : (forall b, PU (k b) s) -> PU (bool_of v k) s.
Proof. intros H. unfold bool_of. apply PU_int_of. intros n. destruct (n =? 0); [apply H|]. destruct (n =? 1); [apply H|exact I]. Qed.

Lemma PU_note_rd {A} (a : A) x s : PU (Ret a (note_rd x s)) s.
Proof. split; [destruct s; reflexivity|split; reflexivity]. Qed.
Lemma PU_read_var ge x s : PU (read_var ge x s) s.
Proof.
  unfold read_var. destruct (assoc x (f_vars (top s))) as [[| | |]|]; try exact I; try apply PU_ret.
  destruct (assoc x (f_vals (top s))); [apply PU_ret|]. destruct (assoc x (g_vals ge)); [apply PU_ret|].
  destruct (assoc x (gvars s)) as [[| | |]|]; try exact I; try apply PU_note_rd. destruct (assoc x (garrs s)); [apply PU_ret|exact I].
Qed.
Lemma PU_resolve_array ge a s : PU (resolve_array ge a s) s.
Proof.
  unfold resolve_array. destruct (assoc a (f_vars (top s))) as [[| | |]|]; try exact I; try apply PU_ret.
  destruct (assoc a (f_vals (top s))); [exact I|]. destruct (assoc a (garrs s)); [apply PU_ret|exact I].
Qed.
Lemma PU_read_elem av a i s : PU (read_elem av a i s) s.
Proof.
  unfold read_elem. destruct av; try exact I.
  - destruct (assoc a0 (garrs s)); [|exact I]. destruct ((0 <=? i) && (i <? alen a1)); [|exact I].
    destruct (PositiveMap.find (cell i) (acells a1)) as [[| | |]|]; try exact I. apply PU_note_rd.
  - destruct ((0 <=? i) && (i <? Z.of_nat (Datatypes.length ws))); [apply PU_ret|exact I].
Qed.

Lemma PU_with_eff {A} (m : state -> res A) s : PU (m (set_cur s eff0)) (set_cur s eff0) -> PU (with_eff m s) s.
Proof.
  intros H. unfold with_eff. destruct (m (set_cur s eff0)) as [a s'|c s'|u]; cbn in *; try exact I; try contradiction.
  destruct H as [E [W1 W2]]. split.
  - rewrite same_set_cur. rewrite E. apply same_set_cur.
  - split; cbn.
    + intros x. rewrite mem_union, W1. cbn. apply orb_false_r.
    + rewrite W2. cbn. apply orb_false_r.
Qed.

Section Bodies.
  Variables (ge : genv)
            (ev : expr -> state -> res value)
            (evs : list expr -> state -> res (list (value * eff)))
            (ex : stmt -> state -> res flow).
  Hypothesis Hev : forall e s, call_free e = true -> PU (ev e s) s.
  Hypothesis Hevs : forall es s, forallb call_free es = true -> PU (evs es s) s.

  Lemma PU_evals_body es s : forallb call_free es = true -> PU (evals_body ev evs es s) s.
  Proof.
    destruct es as [|e r]; [intros _; apply PU_ret|]. cbn [forallb]. intros H. apply andb_true_iff in H. destruct H as [He Hr].
    unfold evals_body. assert (H := PU_with_eff (ev e) s (Hev e _ He)).
    destruct (with_eff (ev e) s) as [ve s1|c s1|u]; cbn [rcase] in *; try exact I; try contradiction.
    specialize (Hevs r s1 Hr). destruct (evs r s1) as [l s2|c s2|u]; cbn [rcase] in *; try exact I; try contradiction.
    destruct H as [E1 W1], Hevs as [E2 W2]. split; [congruence|eapply wrio_trans; eauto].
  Qed.
  Lemma PU_operands es s : forallb call_free es = true -> PU (operands evs es s) s.
  Proof.
    intros H. unfold operands. apply PU_bind; [apply Hevs; exact H|]. intros l s1 _.
    destruct (conflicts (map snd l)); [exact I|apply PU_ret].
  Qed.

  Lemma PU_eval_body e s : call_free e = true -> PU (eval_body ev evs ex ge e s) s.
  Proof.
    destruct e as [n|b|bs|x|a i|f args|n args|o a|o l r]; cbn [eval_body call_free]; intros H; try discriminate.
    - apply PU_ret.
    - apply PU_ret.
    - destruct (pack_string bs); [apply PU_ret|exact I].
    - apply PU_read_var.
    - apply PU_bind; [apply PU_resolve_array|]. intros av s0 _. apply PU_bind; [apply Hev; exact H|]. intros iv s1 _.
      apply PU_int_of. intros n. apply PU_read_elem.
    - destruct o.
      + apply PU_bind; [apply Hev; exact H|]. intros v s1 _. apply PU_int_of. intros n. destruct (in_int (0 - n)); [apply PU_ret|exact I].
      + apply PU_bind; [apply Hev; exact H|]. intros v s1 _. apply PU_bool_of. intros b. apply PU_ret.
    - apply andb_true_iff in H. destruct H as [Hl Hr].
      assert (Hops : PU (bind (operands evs [l; r] s) (fun vs s1 =>
                 match vs with
                 | [a; b] => int_of a (fun x => int_of b (fun y => match binop_ans o x y with inr z => Ret (Vint z) s1 | inl u => Fail u end))
                 | _ => Fail (Unsupported "internal: operands")
                 end)) s).
      { apply PU_bind; [apply PU_operands; cbn; rewrite Hl, Hr; reflexivity|]. intros vs s1 _.
        destruct vs as [|a [|b [|]]]; try exact I. apply PU_int_of. intros x. apply PU_int_of. intros y.
        destruct (binop_ans o x y); [exact I|apply PU_ret]. }
      destruct o; try exact Hops.
      + apply PU_bind; [apply Hev; exact Hl|]. intros v s1 _. apply PU_bool_of. intros b. destruct b; [apply PU_ret|].
        apply PU_bind; [apply Hev; exact Hr|]. intros w s2 _. apply PU_bool_of. intros c. apply PU_ret.
      + apply PU_bind; [apply Hev; exact Hl|]. intros v s1 _. apply PU_bool_of. intros b. destruct b; [|apply PU_ret].
        apply PU_bind; [apply Hev; exact Hr|]. intros w s2 _. apply PU_bool_of. intros c. apply PU_ret.
  Qed.
End Bodies.

Lemma pure_all ge : forall f,
  (forall e s, call_free e = true -> PU (eval f ge e s) s) /\ (forall es s, forallb call_free es = true -> PU (evals f ge es s) s).
Proof.
  induction f as [|f (H1 & H2)]; [split; intros; exact I|].
  split; intros.
  - apply (PU_eval_body ge (eval f ge) (evals f ge) (exec f ge) H1 H2). assumption.
  - apply (PU_evals_body (eval f ge) (evals f ge) H1 H2). assumption.
Qed.

(* the compiler's vals are what the interpreter finds under these names in the current frame *)
Definition frame_inv (ge : genv) (E : cpenv) (fr : frame) : Prop :=
  forall x z, resolve E x = NVal z ->
    assoc x (f_vars fr) = None /\ (assoc x (f_vals fr) = Some z \/ (assoc x (f_vals fr) = None /\ assoc x (g_vals ge) = Some z)).

Lemma read_val ge E s x z : frame_inv ge E (top s) -> resolve E x = NVal z -> read_var ge x s = Ret (Vint z) s.
Proof.
  intros Hf Hr. destruct (Hf x z Hr) as [H1 [H2|[H2 H3]]]; unfold read_var; rewrite H1, H2; [reflexivity|rewrite H3; reflexivity].
Qed.
Lemma call_val ge E s x z : frame_inv ge E (top s) -> resolve E x = NVal z -> call_target ge x s = TSys z.
Proof.
  intros Hf Hr. destruct (Hf x z Hr) as [H1 [H2|[H2 H3]]]; unfold call_target; rewrite H1, H2; [reflexivity|rewrite H3; reflexivity].
Qed.

Section Const.
  Variable ge : genv.
  Variable P : state -> Prop.
  Hypothesis P_top : forall s t, top s = top t -> P s -> P t.
  (* e evaluates, whenever it does not fail, to the constant c without touching the state *)
  Definition CL (e : expr) (c : Z) : Prop := forall f s r, P s -> eval f ge e s = r -> ok r -> res_eq eq r (Ret (Vint c) s).

  Lemma top_set_cur s c : top (set_cur s c) = top s. Proof. destruct s; reflexivity. Qed.

  Lemma conflicts_eff0 l : Forall (fun x => eff_eq x eff0) l -> conflicts l = false.
  Proof.
    intros H. rewrite (conflicts_eq l (map (fun _ => eff0) l)).
    - clear H. induction l as [|a l IH]; [reflexivity|]. cbn [map conflicts]. rewrite IH, orb_false_r.
      clear IH. induction l as [|b l IH]; [reflexivity|]. cbn [map conflict_any]. rewrite IH. reflexivity.
    - induction H; cbn [map]; constructor; auto.
  Qed.

  Lemma with_eff_CL e c : CL e c -> forall f s r, P s -> with_eff (eval f ge e) s = r -> ok r ->
    exists F s', r = Ret (Vint c, F) s' /\ eff_eq F eff0 /\ st_eq s' s.
  Proof.
    intros H f s r HP Hr Ho. unfold with_eff in Hr.
    assert (HP0 : P (set_cur s eff0)) by (eapply P_top; [|exact HP]; symmetry; apply top_set_cur).
    destruct (eval f ge e (set_cur s eff0)) as [a s'|c0 s'|u] eqn:Ee; cbn [rcase] in Hr; subst r; try (exfalso; exact Ho).
    - pose proof (H f _ _ HP0 Ee I) as [Ha Hs]. cbn in Ha. subst a. exists (cur s'), (set_cur s' (eff_union (cur s) (cur s'))).
      destruct Hs as [Hs1 Hs2]. cbn in Hs2. split; [reflexivity|]. split; [exact Hs2|].
      split; [rewrite same_set_cur, Hs1; apply same_set_cur|]. cbn.
      eapply eff_eq_trans; [apply eff_union_eq; [apply eff_eq_refl|exact Hs2]|apply eff_union_eff0].
    - pose proof (H f _ _ HP0 Ee I) as Hx. cbn in Hx. contradiction.
  Qed.

  Lemma evals_CL : forall es cs, Forall2 CL es cs -> forall f s R, P s -> evals f ge es s = R -> ok R ->
    exists l s', R = Ret l s' /\ map fst l = map Vint cs /\ Forall (fun x => eff_eq x eff0) (map snd l) /\ st_eq s' s.
  Proof.
    induction 1 as [|e c es cs Hc Hr IH]; intros f s R HP HR Ho.
    - destruct f; cbn in HR; subst R; [exfalso; exact Ho|]. exists [], s. split; [reflexivity|]. split; [reflexivity|]. split; [constructor|apply st_eq_refl].
    - destruct f; cbn [evals] in HR; [subst R; exfalso; exact Ho|]. unfold evals_body in HR.
      destruct (with_eff (eval f ge e) s) as [ve s1|c0 s1|u] eqn:Ew; cbn [rcase] in HR.
      + destruct (with_eff_CL e c Hc f s _ HP Ew I) as (F & s1' & E1 & E2 & E3). inversion E1; subst ve s1'.
        assert (HP1 : P s1) by (eapply P_top; [|exact HP]; symmetry; apply top_eq; exact E3).
        destruct (evals f ge es s1) as [l s2|c0 s2|u] eqn:Ees; cbn [rcase] in HR; subst R.
        * destruct (IH f s1 _ HP1 Ees I) as (l' & s2' & A & B & C & D). inversion A; subst l' s2'.
          exists ((Vint c, F) :: l), s2. split; [reflexivity|]. cbn [map fst snd]. split; [f_equal; exact B|]. split; [constructor; assumption|].
          eapply st_eq_trans; eauto.
        * destruct (IH f s1 _ HP1 Ees I) as (l' & s2' & A & _). discriminate.
        * exfalso; exact Ho.
      + destruct (with_eff_CL e c Hc f s _ HP Ew I) as (F & s1' & E1 & _). discriminate.
      + subst R. exfalso; exact Ho.
  Qed.

  Lemma operands_CL es cs : Forall2 CL es cs -> forall f s R, P s -> operands (evals f ge) es s = R -> ok R ->
    exists s', R = Ret (map Vint cs) s' /\ st_eq s' s.
  Proof.
    intros H f s R HP HR Ho. unfold operands in HR.
    destruct (evals f ge es s) as [l s1|c0 s1|u] eqn:Ees; cbn [bind rcase] in HR.
    - destruct (evals_CL es cs H f s _ HP Ees I) as (l' & s1' & A & B & C & D). inversion A; subst l' s1'.
      rewrite (conflicts_eff0 _ C) in HR. subst R. exists s1. rewrite B. auto.
    - destruct (evals_CL es cs H f s _ HP Ees I) as (l' & s1' & A & _). discriminate.
    - subst R. exfalso; exact Ho.
  Qed.

  Lemma CL_lit c : in_int c = true -> CL (lit c) c.
  Proof.
    intros Hc f s r _ Hr Ho. destruct f; cbn in Hr; subst r; [exfalso; exact Ho|]. unfold lit. cbn.
    rewrite signed32_mod, signed32_small by exact Hc. split; [reflexivity|apply st_eq_refl].
  Qed.
End Const.

Definition env_range (E : cpenv) : Prop := forall x z, resolve E x = NVal z -> in_int z = true.

Lemma bin_ans_false o a b : o <> And -> o <> Or -> bin_ans false o a b = binop_ans o a b.
Proof. intros H1 H2. destruct o; try reflexivity; congruence. Qed.

Lemma fold_un_false m o a v : un_ans false o a = inr v -> fold_un m o a = COk v /\ in_int v = true.
Proof. intros H. destruct (fold_un_res false m o a v H) as [[Hf|(_ & _ & Hw)] Hv]; [auto|discriminate]. Qed.
Lemma fold_bin_false m o a b v : bin_ans false o a b = inr v -> fold_bin m o a b = COk v /\ in_int v = true.
Proof. intros H. destruct (fold_bin_res false m o a b v H) as [[Hf|(_ & _ & Hw)] Hv]; [auto|discriminate]. Qed.

Lemma go_is_cp_exprs E args :
  (fix go (l : list expr) : cres (list aexpr) :=
     match l with [] => COk [] | x :: r => cbind (cp_expr E x) (fun x' => cbind (go r) (fun r' => COk (x' :: r'))) end) args = cp_exprs E args.
Proof. induction args as [|x r IH]; [reflexivity|]. cbn [cp_exprs]. rewrite <- IH. reflexivity. Qed.

Lemma cp_call_shape E e ae : cp_expr E e = COk ae -> match e with ECall _ _ | ESys _ _ => const_of ae = None | _ => True end.
Proof.
  destruct e; try exact (fun _ => I); cbn [cp_expr]; rewrite go_is_cp_exprs; intros H.
  - destruct (cp_exprs E args) as [a| |]; cbn [cbind] in H; try discriminate. destruct (cp_call E f (-1) a) as [[[? ?] ?]| |]; cbn [cbind] in H; inversion H; reflexivity.
  - destruct (cp_exprs E args) as [a| |]; cbn [cbind] in H; try discriminate. destruct (cp_call E "" (to_cint n) a) as [[[? ?] ?]| |]; cbn [cbind] in H; inversion H; reflexivity.
Qed.

Lemma frame_inv_top ge E s t : top s = top t -> frame_inv ge E (top s) -> frame_inv ge E (top t).
Proof. intros H. rewrite H. auto. Qed.

(* a node annotated constant evaluates to that constant, leaving the state as it was *)
Lemma const_eval ge E : env_range E -> forall e ae c, cp_expr E e = COk ae -> const_of ae = Some c ->
  in_int c = true /\ CL ge (fun s => frame_inv ge E (top s)) e c.
Proof.
  intros Hrange.
  assert (Ptop : forall s t : state, top s = top t -> frame_inv ge E (top s) -> frame_inv ge E (top t)) by (intros; eapply frame_inv_top; eauto).
  induction e as [n|b|bs|x|a i|fn args|n args|o a IHa|o l IHl r IHr]; intros ae c Hcp Hc.
  - cbn [cp_expr] in Hcp. inversion Hcp; subst ae. cbn in Hc. inversion Hc; subst c. rewrite to_cint_signed32. split; [apply signed32_range|].
    intros f s r _ Hr Ho. destruct f; cbn in Hr; subst r; [exfalso; exact Ho|]. split; [reflexivity|apply st_eq_refl].
  - cbn [cp_expr] in Hcp. inversion Hcp; subst ae. cbn in Hc. inversion Hc; subst c. split; [destruct b; reflexivity|].
    intros f s r _ Hr Ho. destruct f; cbn in Hr; subst r; [exfalso; exact Ho|]. split; [destruct b; reflexivity|apply st_eq_refl].
  - cbn [cp_expr] in Hcp. inversion Hcp; subst ae. discriminate.
  - cbn [cp_expr] in Hcp. destruct (resolve E x) eqn:Er; inversion Hcp; subst ae; cbn in Hc; try discriminate.
    inversion Hc; subst v. split; [eapply Hrange; eauto|].
    intros f s r Hf Hr Ho. destruct f; cbn in Hr; subst r; [exfalso; exact Ho|].
    rewrite (read_val ge E s x c Hf Er). split; [reflexivity|apply st_eq_refl].
  - cbn [cp_expr] in Hcp. destruct (cp_expr E i); cbn in Hcp; inversion Hcp; subst ae; discriminate.
  - pose proof (cp_call_shape E _ _ Hcp) as H. cbn in H. congruence.
  - pose proof (cp_call_shape E _ _ Hcp) as H. cbn in H. congruence.
  - (* EUn *) cbn [cp_expr] in Hcp. destruct (cp_expr E a) as [a'| |] eqn:Ea; cbn [cbind] in Hcp; try discriminate.
    destruct (const_of a') as [ca|] eqn:Eca; [|inversion Hcp; subst ae; discriminate].
    destruct (fold_un (cp_arith E) o ca) as [z| |] eqn:Ef; cbn [cbind] in Hcp; inversion Hcp; subst ae. cbn in Hc. inversion Hc; subst z.
    destruct (IHa a' ca eq_refl Eca) as [Hca CLa].
    assert (Main : forall f s, frame_inv ge E (top s) -> ok (eval f ge (EUn o a) s) ->
                   exists s1 v, st_eq s1 s /\ un_ans false o ca = inr v /\ eval f ge (EUn o a) s = Ret (Vint v) s1).
    { intros f s Hf Ho. destruct f; [exfalso; exact Ho|]. cbn [eval eval_body] in *.
      destruct (eval f ge a s) as [v s1|c0 s1|u] eqn:Eev.
      - destruct (CLa f s _ Hf Eev I) as [Hv Hs]. subst v. exists s1.
        destruct o; cbn [bind rcase int_of bool_of un_ans arith_ans] in *.
        + destruct (in_int (0 - ca)); [eauto|exfalso; exact Ho].
        + destruct (ca =? 0); [exists 1; auto|]. destruct (ca =? 1); [exists 0; auto|exfalso; exact Ho].
      - pose proof (CLa f s _ Hf Eev I) as Hx. cbn in Hx. contradiction.
      - destruct o; exfalso; exact Ho. }
    split.
    + destruct o; cbn [fold_un] in Ef.
      * destruct (cp_arith E); cbn [c_arith] in Ef.
        -- rewrite in_cint_in_int in Ef. destruct (in_int (- ca)) eqn:Ei; inversion Ef; subst; exact Ei.
        -- inversion Ef. rewrite to_cint_signed32. apply signed32_range.
      * inversion Ef. destruct (ca =? 0); reflexivity.
    + intros f s r Hf Hr Ho. subst r. destruct (Main f s Hf Ho) as (s1 & v & Hs & Hv & Er). rewrite Er.
      destruct (fold_un_false (cp_arith E) o ca v Hv) as [Hfv _]. rewrite Hfv in Ef. inversion Ef; subst v. cbn [res_eq]. split; [reflexivity|exact Hs].
  - (* EBin *) cbn [cp_expr] in Hcp. destruct (cp_expr E l) as [l'| |] eqn:El; cbn [cbind] in Hcp; try discriminate.
    destruct (cp_expr E r) as [r'| |] eqn:Er; cbn [cbind] in Hcp; try discriminate.
    destruct (const_of l') as [cl|] eqn:Ecl; [|inversion Hcp; subst ae; discriminate].
    destruct (const_of r') as [cr|] eqn:Ecr; [|inversion Hcp; subst ae; discriminate].
    destruct (fold_bin (cp_arith E) o cl cr) as [z| |] eqn:Ef; cbn [cbind] in Hcp; inversion Hcp; subst ae. cbn in Hc. inversion Hc; subst z.
    destruct (IHl l' cl eq_refl Ecl) as [Hcl CLl]. destruct (IHr r' cr eq_refl Ecr) as [Hcr CLr].
    assert (Main : forall f s, frame_inv ge E (top s) -> ok (eval f ge (EBin o l r) s) ->
                   exists s1 v, st_eq s1 s /\ fold_bin (cp_arith E) o cl cr = COk v /\ in_int v = true /\ eval f ge (EBin o l r) s = Ret (Vint v) s1).
    { intros f s Hf Ho. destruct f; [exfalso; exact Ho|].
      assert (Gen : o <> And -> o <> Or ->
                exists s1 v, st_eq s1 s /\ fold_bin (cp_arith E) o cl cr = COk v /\ in_int v = true /\ eval (S f) ge (EBin o l r) s = Ret (Vint v) s1).
      { intros Ha Hb.
        assert (HX : eval (S f) ge (EBin o l r) s = bind (operands (evals f ge) [l; r] s) (fun vs s1 =>
                 match vs with
                 | [a; b] => int_of a (fun x => int_of b (fun y => match binop_ans o x y with inr z => Ret (Vint z) s1 | inl u => Fail u end))
                 | _ => Fail (Unsupported "internal: operands")
                 end)) by (destruct o; try reflexivity; congruence).
        rewrite HX in *. clear HX.
        destruct (operands (evals f ge) [l; r] s) as [vs s1|c0 s1|u] eqn:Eo; cbn [bind rcase] in *.
        - destruct (operands_CL ge _ Ptop [l; r] [cl; cr] (Forall2_cons _ _ CLl (Forall2_cons _ _ CLr (Forall2_nil _))) f s _ Hf Eo I) as (s1' & A & B).
          inversion A; subst vs s1'. cbn [map int_of] in *. exists s1.
          rewrite <- (bin_ans_false o cl cr Ha Hb) in *. destruct (bin_ans false o cl cr) as [u|v] eqn:Eb; [exfalso; exact Ho|].
          destruct (fold_bin_false (cp_arith E) o cl cr v Eb) as [A1 A2]. exists v. auto.
        - destruct (operands_CL ge _ Ptop [l; r] [cl; cr] (Forall2_cons _ _ CLl (Forall2_cons _ _ CLr (Forall2_nil _))) f s _ Hf Eo I) as (s1' & A & B). discriminate.
        - exfalso; exact Ho. }
      destruct o; try (apply Gen; discriminate); cbn [eval eval_body] in *.
      - (* Or *) destruct (eval f ge l s) as [v s1|c0 s1|u] eqn:Eel; cbn [bind rcase] in *; [| |exfalso; exact Ho].
        + destruct (CLl f s _ Hf Eel I) as [Hv Hs]. subst v. unfold bool_of, int_of in *.
          assert (Hf1 : frame_inv ge E (top s1)) by (eapply Ptop; [|exact Hf]; symmetry; apply top_eq; exact Hs).
          destruct (Z.eqb_spec cl 0).
          * subst cl. destruct (eval f ge r s1) as [w s2|c0 s2|u] eqn:Eer; cbn [bind rcase] in *; [| |exfalso; exact Ho].
            -- destruct (CLr f s1 _ Hf1 Eer I) as [Hw Hs2]. subst w. exists s2.
               cbn [fold_bin]. destruct (Z.eqb_spec cr 0); [subst; exists 0; cbn; repeat split; auto; eapply st_eq_trans; eauto|].
               destruct (Z.eqb_spec cr 1); [subst; exists 1; cbn; repeat split; auto; eapply st_eq_trans; eauto|exfalso; exact Ho].
            -- pose proof (CLr f s1 _ Hf1 Eer I) as Hx. cbn in Hx. contradiction.
          * destruct (Z.eqb_spec cl 1); [|exfalso; exact Ho]. subst cl. exists s1, 1. cbn [fold_bin]. cbn. auto.
        + pose proof (CLl f s _ Hf Eel I) as Hx. cbn in Hx. contradiction.
      - (* And *) destruct (eval f ge l s) as [v s1|c0 s1|u] eqn:Eel; cbn [bind rcase] in *; [| |exfalso; exact Ho].
        + destruct (CLl f s _ Hf Eel I) as [Hv Hs]. subst v. unfold bool_of, int_of in *.
          assert (Hf1 : frame_inv ge E (top s1)) by (eapply Ptop; [|exact Hf]; symmetry; apply top_eq; exact Hs).
          destruct (Z.eqb_spec cl 0).
          * subst cl. exists s1, 0. cbn. auto.
          * destruct (Z.eqb_spec cl 1); [|exfalso; exact Ho]. subst cl.
            destruct (eval f ge r s1) as [w s2|c0 s2|u] eqn:Eer; cbn [bind rcase] in *; [| |exfalso; exact Ho].
            -- destruct (CLr f s1 _ Hf1 Eer I) as [Hw Hs2]. subst w. exists s2.
               cbn [fold_bin]. destruct (Z.eqb_spec cr 0); [subst; exists 0; cbn; repeat split; auto; eapply st_eq_trans; eauto|].
               destruct (Z.eqb_spec cr 1); [subst; exists 1; cbn; repeat split; auto; eapply st_eq_trans; eauto|exfalso; exact Ho].
            -- pose proof (CLr f s1 _ Hf1 Eer I) as Hx. cbn in Hx. contradiction.
        + pose proof (CLl f s _ Hf Eel I) as Hx. cbn in Hx. contradiction. }
    split.
    + destruct o; cbn [fold_bin] in Ef; try (inversion Ef; subst; try apply of_bool_range; fail).
      * destruct (cp_arith E); cbn [c_arith] in Ef; [rewrite in_cint_in_int in Ef; destruct (in_int (cl + cr)) eqn:Ei; inversion Ef; subst; exact Ei|inversion Ef; rewrite to_cint_signed32; apply signed32_range].
      * destruct (cp_arith E); cbn [c_arith] in Ef; [rewrite in_cint_in_int in Ef; destruct (in_int (cl - cr)) eqn:Ei; inversion Ef; subst; exact Ei|inversion Ef; rewrite to_cint_signed32; apply signed32_range].
      * inversion Ef. destruct (negb (cl =? 0)); [reflexivity|destruct (cr =? 0); reflexivity].
      * inversion Ef. destruct (cl =? 0); [reflexivity|destruct (cr =? 0); reflexivity].
    + intros f s r0 Hf Hr Ho. subst r0. destruct (Main f s Hf Ho) as (s1 & v & Hs & Hv & _ & Er0). rewrite Er0.
      rewrite Hv in Ef. inversion Ef; subst v. cbn [res_eq]. split; [reflexivity|exact Hs].
Qed.

(* ------------------------------------------------------------------ combinators *)
Lemma sim_bind {A B} (RA : A -> A -> Prop) (RB : B -> B -> Prop) r r' (k k' : A -> state -> res B) :
  sim RA r r' ->
  (forall a a' s1 t1, r = Ret a s1 -> RA a a' -> st_eq s1 t1 -> sim RB (k a s1) (k' a' t1)) ->
  sim RB (bind r k) (bind r' k').
Proof.
  intros H1 H2 Ho. destruct r as [a s1|c s1|u]; cbn [bind rcase] in *; [| |exfalso; exact Ho].
  - specialize (H1 I). destruct r' as [a' t1|c t1|u]; cbn in H1; try contradiction. destruct H1 as [Ha Hs].
    cbn [bind rcase]. apply (H2 a a' s1 t1 eq_refl Ha Hs Ho).
  - specialize (H1 I). destruct r' as [a' t1|c' t1|u]; cbn in H1; try contradiction. exact H1.
Qed.
Lemma sim_int_of {B} (R : B -> B -> Prop) v (k k' : Z -> res B) : (forall n, sim R (k n) (k' n)) -> sim R (int_of v k) (int_of v k').
Proof. intros H. destruct v; cbn; try (intros Ho; exfalso; exact Ho). apply H. Qed.
Lemma sim_bool_of {B} (R : B -> B -> Prop) v (k k' : bool -> res B) : (forall b, sim R (k b) (k' b)) -> sim R (bool_of v k) (bool_of v k').
Proof.
  intros H. unfold bool_of. apply sim_int_of. intros n. destruct (n =? 0); [apply H|]. destruct (n =? 1); [apply H|intros Ho; exfalso; exact Ho].
Qed.
Lemma sim_ret {A} (R : A -> A -> Prop) a a' s t : R a a' -> st_eq s t -> sim R (Ret a s) (Ret a' t).
Proof. intros H1 H2 _. split; assumption. Qed.
Lemma sim_halt {A} (R : A -> A -> Prop) c s t : st_eq s t -> sim R (Halt c s) (Halt c t).
Proof. intros H2 _. split; [reflexivity|apply st_eq_start; assumption]. Qed.
Lemma sim_fail {A} (R : A -> A -> Prop) u r' : sim R (Fail u) r'.
Proof. intros Ho. exfalso; exact Ho. Qed.
Lemma sim_tick {B} (R : B -> B -> Prop) s t (k k' : state -> res B) :
  st_eq s t -> (forall s0 t0, st_eq s0 t0 -> shape s0 = shape s -> sim R (k s0) (k' t0)) -> sim R (tick s k) (tick t k').
Proof.
  intros H Hk. unfold tick. pose proof H as H'. fields H'. rewrite <- Hbu. destruct (budget s <=? 0); [apply sim_fail|].
  apply Hk; [apply set_budget_eq; exact H|reflexivity].
Qed.

Lemma sim_with_eff {A} (R : A -> A -> Prop) (m m' : state -> res A) s t :
  st_eq s t -> sim R (m (set_cur s eff0)) (m' (set_cur s eff0)) ->
  sim (fun x y => R (fst x) (fst y) /\ eff_eq (snd x) (snd y)) (with_eff m s) (with_eff m' t).
Proof.
  intros H Hm Ho. unfold with_eff in *. rewrite <- (st_eq_start s t H).
  destruct (m (set_cur s eff0)) as [a s1|c s1|u]; cbn [rcase] in *; [| |exfalso; exact Ho].
  - specialize (Hm I). destruct (m' (set_cur s eff0)) as [a' t1|c t1|u]; cbn in Hm; try contradiction. destruct Hm as [Ha Hs].
    cbn. split; [split; [exact Ha|apply Hs]|]. destruct Hs as [Hs1 Hs2].
    apply st_eq_set_cur; [exact Hs1|]. apply eff_union_eq; [apply H|exact Hs2].
  - specialize (Hm I). destruct (m' (set_cur s eff0)) as [a' t1|c' t1|u]; cbn in Hm; try contradiction. exact Hm.
Qed.

(* operands: the conflict test and the values only depend on the footprints as sets *)
Lemma sim_operands r r' :
  sim (Forall2 ve_eq) r r' ->
  sim eq (bind r (fun l s1 => if conflicts (map snd l) then Fail OrderDependent else Ret (map fst l) s1))
         (bind r' (fun l s1 => if conflicts (map snd l) then Fail OrderDependent else Ret (map fst l) s1)).
Proof.
  intros H. eapply sim_bind; [exact H|]. intros l l' s1 t1 _ Hl Hs.
  assert (E12 : map fst l = map fst l' /\ Forall2 eff_eq (map snd l) (map snd l')).
  { clear Hs. induction Hl as [|x y l l' Hxy _ IH]; cbn; [split; [reflexivity|constructor]|].
    destruct Hxy as [Hx1 Hx2], IH as [IH1 IH2]. split; [rewrite Hx1, IH1; reflexivity|constructor; assumption]. }
  destruct E12 as [E1 E2].
  rewrite (conflicts_eq _ _ E2), E1. destruct (conflicts (map snd l')); [apply sim_fail|apply sim_ret; [reflexivity|exact Hs]].
Qed.

Lemma sim_lift_eval {R : value -> value -> Prop} r f f' ge e s : sim R r (eval f ge e s) -> (f <= f')%nat -> sim R r (eval f' ge e s).
Proof. intros H Hl Ho. specialize (H Ho). rewrite (lift_eval f f' ge e s _ eq_refl (proj2 (ok_res_eq _ _ _ H)) Hl). exact H. Qed.

(* ------------------------------------------------------------------ frames *)
Lemma assoc_none_keys {A} x (l : list (string * A)) : assoc x l = None <-> ~ In x (map fst l).
Proof.
  induction l as [|[y v] r IH]; cbn [assoc map fst In]; [tauto|].
  destruct (String.eqb_spec x y); [split; [discriminate|intros H; exfalso; apply H; left; congruence]|].
  rewrite IH. split; [intros H [E|E]; [congruence|exact (H E)]|tauto].
Qed.
Lemma frame_inv_shape ge E s s1 : shape s1 = shape s -> frame_inv ge E (top s) -> frame_inv ge E (top s1).
Proof.
  intros Hsh Hf. assert (Hfs : fshape (top s1) = fshape (top s)).
  { unfold shape in Hsh. unfold top. destruct (stk s1) as [|a l], (stk s) as [|b l']; cbn in Hsh; try discriminate; [reflexivity|congruence]. }
  unfold fshape in Hfs. inversion Hfs as [[K V D]]. intros x z Hr. destruct (Hf x z Hr) as [H1 H2]. split.
  - apply assoc_none_keys. rewrite K. apply assoc_none_keys. exact H1.
  - rewrite V. exact H2.
Qed.
Lemma frame_inv_ret ge E f e s v s1 : eval f ge e s = Ret v s1 -> frame_inv ge E (top s) -> frame_inv ge E (top s1).
Proof. intros H. apply frame_inv_shape. pose proof (proj1 (shape_all ge f) e s) as P. rewrite H in P. exact P. Qed.
Lemma frame_inv_steq ge E s t : st_eq s t -> frame_inv ge E (top s) -> frame_inv ge E (top t).
Proof. intros H. rewrite (top_eq s t H). auto. Qed.

Lemma conflicts2 a b : conflicts [a; b] = conflict a b.
Proof. cbn. rewrite !orb_false_r. reflexivity. Qed.
Lemma cur_set_cur s c : cur (set_cur s c) = c. Proof. destruct s; reflexivity. Qed.
Lemma eff_eq_union_l0 c a : eff_eq a eff0 -> eff_eq (eff_union c a) c.
Proof. intros H. eapply eff_eq_trans; [apply eff_union_eq; [apply eff_eq_refl|exact H]|apply eff_union_eff0]. Qed.

Lemma inter_sym a b : inter_str a b = inter_str b a.
Proof. apply eq_true_iff_eq. rewrite !inter_spec. split; intros (x & H1 & H2); exists x; auto. Qed.
Lemma conflict_sym a b : conflict a b = conflict b a.
Proof.
  unfold conflict. rewrite (inter_sym (e_wr a) (e_wr b)), (andb_comm (e_io a)).
  destruct (inter_str (e_wr a) (e_rd b)), (inter_str (e_wr b) (e_wr a)), (inter_str (e_wr b) (e_rd a)), (e_io b && e_io a); reflexivity.
Qed.
Lemma conflict_eff0_r a : conflict a eff0 = false.
Proof. unfold conflict, eff0. cbn. rewrite !inter_nil_r, andb_false_r. reflexivity. Qed.
Lemma conflict_eff0_l a : conflict eff0 a = false.
Proof. rewrite conflict_sym. apply conflict_eff0_r. Qed.

(* operands of a two-element list, unfolded: first element at fuel f, second at fuel f1, f = S f1, f1 = S f2 *)
Lemma operands2 g f2 a b s :
  operands (evals (S (S (S f2))) g) [a; b] s =
  match eval (S (S f2)) g a (set_cur s eff0) with
  | Ret va sa =>
      let s1 := set_cur sa (eff_union (cur s) (cur sa)) in
      match eval (S f2) g b (set_cur s1 eff0) with
      | Ret vb sb =>
          let s2 := set_cur sb (eff_union (cur s1) (cur sb)) in
          if conflicts [cur sa; cur sb] then Fail OrderDependent else Ret [va; vb] s2
      | Halt c sb => if e_io (cur sa) then Fail OrderDependent else Halt c sb
      | Fail u => Fail u
      end
  | Halt c sa => if harmless b then Halt c sa else Fail OrderDependent
  | Fail u => Fail u
  end.
Proof.
  unfold operands. cbn [evals evals_body]. unfold with_eff at 1.
  destruct (eval (S (S f2)) g a (set_cur s eff0)) as [va sa|c sa|u]; cbn [rcase bind]; [| |reflexivity].
  - unfold with_eff. destruct (eval (S f2) g b (set_cur (set_cur sa (eff_union (cur s) (cur sa))) eff0)) as [vb sb|c sb|u]; cbn [rcase bind snd fst map]; try reflexivity.
    destruct (e_io (cur sa)); reflexivity.
  - cbn [forallb]. rewrite andb_true_r. destruct (harmless b); reflexivity.
Qed.


(* an expression that evaluates to the constant c whatever the state, without touching it *)
Definition is_lit (g : genv) (L : expr) (c : Z) : Prop := forall F s, eval (S F) g L s = Ret (Vint c) s.

Lemma lit_is_lit g c : in_int c = true -> is_lit g (lit c) c.
Proof. intros H F s. unfold lit. cbn. rewrite signed32_mod, signed32_small by exact H. reflexivity. Qed.

(* the un-optimised reading of a constant node is such a literal *)
Lemma erase_lit g E e ae c : cp_expr E e = COk ae -> const_of ae = Some c -> in_int c = true -> is_lit g (erase ae) c.
Proof.
  intros Hcp Hc Hi. destruct e; cbn [cp_expr] in Hcp.
  - inversion Hcp; subst ae. cbn in Hc. inversion Hc. intros F s. reflexivity.
  - inversion Hcp; subst ae. cbn in Hc. inversion Hc. intros F s. cbn. destruct b; reflexivity.
  - inversion Hcp; subst ae. discriminate.
  - destruct (resolve E x); inversion Hcp; subst ae; cbn in Hc; try discriminate. inversion Hc; subst. apply lit_is_lit. exact Hi.
  - destruct (cp_expr E e); cbn in Hcp; inversion Hcp; subst ae; discriminate.
  - pose proof (cp_call_shape E (ECall f args) ae Hcp) as H. cbn in H. congruence.
  - pose proof (cp_call_shape E (ESys n args) ae Hcp) as H. cbn in H. congruence.
  - destruct (cp_expr E e) as [a'| |]; cbn [cbind] in Hcp; try discriminate.
    destruct (const_of a'); [|inversion Hcp; subst ae; discriminate].
    destruct (fold_un (cp_arith E) o z); cbn [cbind] in Hcp; inversion Hcp; subst ae. cbn in Hc. inversion Hc; subst. apply lit_is_lit. exact Hi.
  - destruct (cp_expr E e1) as [l'| |]; cbn [cbind] in Hcp; try discriminate.
    destruct (cp_expr E e2) as [r'| |]; cbn [cbind] in Hcp; try discriminate.
    destruct (const_of l'); [|inversion Hcp; subst ae; discriminate].
    destruct (const_of r'); [|inversion Hcp; subst ae; discriminate].
    destruct (fold_bin (cp_arith E) o z z0); cbn [cbind] in Hcp; inversion Hcp; subst ae. cbn in Hc. inversion Hc; subst. apply lit_is_lit. exact Hi.
Qed.

(* two literal operands *)
Lemma operands_lit g L R cl cr f2 t : is_lit g L cl -> is_lit g R cr ->
  exists t2, operands (evals (S (S (S f2))) g) [L; R] t = Ret [Vint cl; Vint cr] t2 /\ st_eq t2 t.
Proof.
  intros HL HR. rewrite operands2, HL. cbv zeta. rewrite HR. rewrite conflicts2, ?cur_set_cur, conflict_eff0_l.
  eexists. split; [reflexivity|]. apply st_eq_set_cur.
  - rewrite ?same_set_cur. reflexivity.
  - rewrite ?cur_set_cur. eapply eff_eq_trans; [apply eff_union_eff0|]. rewrite ?cur_set_cur. apply eff_union_eff0.
Qed.

Definition T (ae : aexpr) : expr := erase (opt_expr ae).
Definition Ts (l : list aexpr) : list expr := map T l.
Definition TS (a : astmt) : stmt := erase_stmt (opt_stmt a).

Lemma res_eq_st {A} (R : A -> A -> Prop) r a s t : res_eq R r (Ret a s) -> st_eq s t -> res_eq R r (Ret a t).
Proof. destruct r; cbn; try tauto. intros [H1 H2] H3. split; [exact H1|eapply st_eq_trans; eauto]. Qed.

Lemma lit_eval_ge ge F c t : in_int c = true -> eval (S F) ge (lit c) t = Ret (Vint c) t.
Proof. intros H. unfold lit. cbn. rewrite signed32_mod, signed32_small by exact H. reflexivity. Qed.

(* the reading of a constant node is a literal of its value *)
Lemma T_const ge E e ae c : cp_expr E e = COk ae -> const_of ae = Some c -> harmless (T ae) = true -> in_int c = true ->
  forall F t, eval (S F) ge (T ae) t = Ret (Vint c) t.
Proof.
  intros Hcp Hc Hs Hi F t. destruct e; cbn [cp_expr] in Hcp.
  - inversion Hcp; subst ae. cbn in Hc. inversion Hc. reflexivity.
  - inversion Hcp; subst ae. cbn in Hc. inversion Hc. cbn. destruct b; reflexivity.
  - inversion Hcp; subst ae. discriminate.
  - destruct (resolve E x); inversion Hcp; subst ae; cbn in Hc; try discriminate.
    inversion Hc; subst. apply lit_eval_ge. exact Hi.
  - destruct (cp_expr E e); cbn in Hcp; inversion Hcp; subst ae; discriminate.
  - pose proof (cp_call_shape E (ECall f args) ae Hcp) as H. cbn in H. congruence.
  - pose proof (cp_call_shape E (ESys n args) ae Hcp) as H. cbn in H. congruence.
  - destruct (cp_expr E e) as [a'| |]; cbn [cbind] in Hcp; try discriminate.
    destruct (const_of a'); [|inversion Hcp; subst ae; discriminate].
    destruct (fold_un (cp_arith E) o z); cbn [cbind] in Hcp; inversion Hcp; subst ae. cbn in Hc. inversion Hc; subst.
    unfold T. rewrite erase_opt_un_some. apply lit_eval_ge. exact Hi.
  - destruct (cp_expr E e1) as [l'| |]; cbn [cbind] in Hcp; try discriminate.
    destruct (cp_expr E e2) as [r'| |]; cbn [cbind] in Hcp; try discriminate.
    destruct (const_of l'); [|inversion Hcp; subst ae; discriminate].
    destruct (const_of r'); [|inversion Hcp; subst ae; discriminate].
    destruct (fold_bin (cp_arith E) o z z0); cbn [cbind] in Hcp; inversion Hcp; subst ae. cbn in Hc. inversion Hc; subst.
    unfold T in *. destruct o; cbn in Hs; try discriminate; cbn [opt_expr erase]; apply lit_eval_ge; exact Hi.
Qed.

(* a constant node reads as a literal, unless its top operator is one of the rewritten ones *)
Lemma const_shape E e ae c : cp_expr E e = COk ae -> const_of ae = Some c ->
  harmless (T ae) = true \/
  exists o l r l' r' cl cr, e = EBin o l r /\ ae = ABin o (Some c) l' r' /\ is_rw o = true /\ cp_expr E l = COk l' /\ cp_expr E r = COk r' /\
                            const_of l' = Some cl /\ const_of r' = Some cr /\ fold_bin (cp_arith E) o cl cr = COk c.
Proof.
  intros Hcp Hc. destruct e; cbn [cp_expr] in Hcp.
  - inversion Hcp; subst ae. left. reflexivity.
  - inversion Hcp; subst ae. left. reflexivity.
  - inversion Hcp; subst ae. discriminate.
  - destruct (resolve E x); inversion Hcp; subst ae; cbn in Hc; try discriminate. left. reflexivity.
  - destruct (cp_expr E e); cbn in Hcp; inversion Hcp; subst ae; discriminate.
  - pose proof (cp_call_shape E (ECall f args) ae Hcp) as H. cbn in H. congruence.
  - pose proof (cp_call_shape E (ESys n args) ae Hcp) as H. cbn in H. congruence.
  - destruct (cp_expr E e) as [a'| |]; cbn [cbind] in Hcp; try discriminate.
    destruct (const_of a'); [|inversion Hcp; subst ae; discriminate].
    destruct (fold_un (cp_arith E) o z); cbn [cbind] in Hcp; inversion Hcp; subst ae. left. unfold T. rewrite erase_opt_un_some. reflexivity.
  - destruct (cp_expr E e1) as [l'| |] eqn:El; cbn [cbind] in Hcp; try discriminate.
    destruct (cp_expr E e2) as [r'| |] eqn:Er; cbn [cbind] in Hcp; try discriminate.
    destruct (const_of l') as [cl|] eqn:Ecl; [|inversion Hcp; subst ae; discriminate].
    destruct (const_of r') as [cr|] eqn:Ecr; [|inversion Hcp; subst ae; discriminate].
    destruct (fold_bin (cp_arith E) o cl cr) as [z| |] eqn:Ef; cbn [cbind] in Hcp; inversion Hcp; subst ae. cbn in Hc. inversion Hc; subst z.
    destruct (is_rw o) eqn:Erw; [right; exists o, e1, e2, l', r', cl, cr; repeat split; auto|].
    left. unfold T. destruct o; cbn in Erw; try discriminate; reflexivity.
Qed.

Lemma do_sys_other n vs b s : n <> 0 -> n <> 1 -> n <> 2 -> ~ ok (do_sys n vs b s).
Proof.
  intros H0 H1 H2. unfold do_sys. destruct n as [|p|p]; [congruence| |intros H; exact H].
  destruct p as [p|p|]; [intros H; exact H| |congruence]. destruct p as [p|p|]; [intros H; exact H|intros H; exact H|congruence].
Qed.

Lemma enter_top ge q vs s t : top s = top t -> enter ge q vs s = enter ge q vs t.
Proof. intros H. unfold enter. rewrite H. reflexivity. Qed.

Section Sim.
  Variables ge ge' : genv.
  Hypothesis Hvals : g_vals ge' = g_vals ge.

  Definition proc_ok (q q' : proc) (E : cpenv) : Prop :=
    is_func q' = is_func q /\ env_range E /\
    (exists ab, cp_stmt E (body q) = COk ab /\ body q' = TS ab /\ swap_safe_stmt ab = true) /\
    (forall vs s fr, enter ge q vs s = inr fr -> enter ge' q' vs s = inr fr /\ frame_inv ge E fr).
  Hypothesis PT : forall f q, find_proc f (g_procs ge) = Some q ->
    exists q' E, find_proc f (g_procs ge') = Some q' /\ proc_ok q q' E.

  Definition SE (f : nat) : Prop := forall F E e ae s t, (f * 4 <= F)%nat ->
    cp_expr E e = COk ae -> swap_safe ae = true -> env_range E -> frame_inv ge E (top s) -> st_eq s t ->
    sim eq (eval f ge e s) (eval F ge' (T ae) t).
  Definition SEs (f : nat) : Prop := forall F E es aes s t, (f * 4 <= F)%nat ->
    cp_exprs E es = COk aes -> forallb swap_safe aes = true -> env_range E -> frame_inv ge E (top s) -> st_eq s t ->
    sim (Forall2 ve_eq) (evals f ge es s) (evals F ge' (Ts aes) t).
  Definition SX (f : nat) : Prop := forall F E st ast s t, (f * 4 <= F)%nat ->
    cp_stmt E st = COk ast -> swap_safe_stmt ast = true -> env_range E -> frame_inv ge E (top s) -> st_eq s t ->
    sim eq (exec f ge st s) (exec F ge' (TS ast) t).

  (* the operand swap of > and <= (proved below, in its own section) *)
  Definition SWAP (f : nat) : Prop := forall F E l r l' r' s t, (f * 4 <= F)%nat ->
    cp_expr E l = COk l' -> cp_expr E r = COk r' -> swap_safe l' = true -> swap_safe r' = true -> swap_ok l' r' = true ->
    env_range E -> frame_inv ge E (top s) -> st_eq s t ->
    sim (fun vs vs' => exists a b, vs = [a; b] /\ vs' = [b; a]) (operands (evals f ge) [l; r] s) (operands (evals F ge') [T r'; T l'] t).

  Lemma invoke_sim f F w fn vs s t : SX f -> (f * 4 <= F)%nat -> st_eq s t ->
    sim eq (invoke (exec f ge) ge w fn vs s) (invoke (exec F ge') ge' w fn vs t).
  Proof.
    intros HX HF Hst. unfold invoke.
    destruct (find_proc fn (g_procs ge)) as [q|] eqn:Eq; [|apply sim_fail].
    destruct (PT fn q Eq) as (q' & E & Eq' & Hfun & Hrng & (ab & Hcp & Hb & Hss) & Hent). rewrite Eq', Hfun.
    destruct (negb (Bool.eqb (is_func q) w)); [apply sim_fail|].
    destruct (enter ge q vs s) as [u|fr] eqn:Een; [apply sim_fail|].
    destruct (Hent vs s fr Een) as [Een' Hfi]. rewrite (enter_top ge' q' vs t s (eq_sym (top_eq s t Hst))), Een'.
    apply sim_tick; [exact Hst|]. intros s0 t0 Hs0 _.
    assert (Hstk : stk s0 = stk t0) by (apply st_eq_fields in Hs0; tauto).
    eapply sim_bind.
    - rewrite Hb, <- Hstk. apply (HX F E (body q) ab _ _ HF Hcp Hss Hrng).
      + destruct s0; exact Hfi.
      + apply set_stk_eq. exact Hs0.
    - intros fl fl' s2 t2 _ Hfl Hs2. subst fl'. destruct fl.
      + destruct w; [apply sim_fail|apply sim_ret; [reflexivity|apply pop_eq; exact Hs2]].
      + destruct w; [|apply sim_ret; [reflexivity|apply pop_eq; exact Hs2]].
        destruct v; try apply sim_fail. apply sim_ret; [reflexivity|apply pop_eq; exact Hs2].
  Qed.
End Sim.

Section Step.
  Variables ge ge' : genv.
  Hypothesis Hvals : g_vals ge' = g_vals ge.
  Hypothesis PT : forall f q, find_proc f (g_procs ge) = Some q ->
    exists q' E, find_proc f (g_procs ge') = Some q' /\ proc_ok ge ge' q q' E.

  Lemma cp_call_args E f id args f' id' a' : cp_call E f id args = COk (f', id', a') -> f' = f /\ a' = args.
  Proof.
    unfold cp_call, unset_val_call. destruct (id =? -1); [destruct (resolve E f)|];
      try destruct ((NUM_SYSCALLS <=? _) || (_ <? 0)); try destruct repo_rejects_nonconst_val; intros H; inversion H; auto.
  Qed.

  Lemma cp_two E l r l' r' : cp_expr E l = COk l' -> cp_expr E r = COk r' -> cp_exprs E [l; r] = COk [l'; r'].
  Proof. intros H1 H2. cbn [cp_exprs]. rewrite H1, H2. reflexivity. Qed.

  (* the final step of a binary operator on the operand values *)
  Definition kbin (o : binop) (vs : list value) (s1 : state) : res value :=
    match vs with
    | [a; b] => int_of a (fun x => int_of b (fun y => match binop_ans o x y with inr z => Ret (Vint z) s1 | inl u => Fail u end))
    | _ => Fail (Unsupported "internal: operands")
    end.
  Lemma eval_bin_unfold f g o l r s : o <> And -> o <> Or ->
    eval (S f) g (EBin o l r) s = bind (operands (evals f g) [l; r] s) (kbin o).
  Proof. intros H1 H2. destruct o; try reflexivity; congruence. Qed.

  Lemma not_of_bool_eval b s : bool_of (Vint (of_bool b)) (fun c => Ret (Vint (of_bool (negb c))) s) = Ret (Vint (of_bool (negb b))) s.
  Proof. destruct b; reflexivity. Qed.

  Lemma bind_assoc {A B C} (r : res A) (k1 : A -> state -> res B) (k2 : B -> state -> res C) :
    bind (bind r k1) k2 = bind r (fun a s => bind (k1 a s) k2).
  Proof. destruct r; reflexivity. Qed.
  Definition knot (v : value) (s1 : state) : res value := bool_of v (fun b => Ret (Vint (of_bool (negb b))) s1).

  Lemma knot_of_bool b s : knot (Vint (of_bool b)) s = Ret (Vint (of_bool (negb b))) s.
  Proof. destruct b; reflexivity. Qed.

  (* ~= and >= against ~(=) and ~(<) on the same operand values; > and <= against < and ~(<) on the swapped ones *)
  Lemma kbin_ne vs s1 t1 : st_eq s1 t1 -> sim eq (kbin Ne vs s1) (bind (kbin Eq vs t1) knot).
  Proof.
    intros Hs. unfold kbin. destruct vs as [|a [|b [|]]]; try apply sim_fail.
    destruct a; try apply sim_fail. destruct b; try apply sim_fail. cbn [int_of binop_ans bind rcase].
    rewrite knot_of_bool. apply sim_ret; [reflexivity|exact Hs].
  Qed.
  Lemma kbin_ge vs s1 t1 : st_eq s1 t1 -> sim eq (kbin Ge vs s1) (bind (kbin Ls vs t1) knot).
  Proof.
    intros Hs. unfold kbin. destruct vs as [|a [|b [|]]]; try apply sim_fail.
    destruct a; try apply sim_fail. destruct b; try apply sim_fail. cbn [int_of binop_ans].
    destruct (in_int (n - n0) && in_int (n0 - n)); [|apply sim_fail]. cbn [bind rcase].
    rewrite knot_of_bool, Z.leb_antisym. apply sim_ret; [reflexivity|exact Hs].
  Qed.
  Lemma kbin_gr a b s1 t1 : st_eq s1 t1 -> sim eq (kbin Gr [a; b] s1) (kbin Ls [b; a] t1).
  Proof.
    intros Hs. unfold kbin. destruct a; try apply sim_fail. destruct b; try apply sim_fail. cbn [int_of binop_ans].
    rewrite (andb_comm (in_int (n0 - n))). destruct (in_int (n - n0) && in_int (n0 - n)); [|apply sim_fail].
    apply sim_ret; [reflexivity|exact Hs].
  Qed.
  Lemma kbin_le a b s1 t1 : st_eq s1 t1 -> sim eq (kbin Le [a; b] s1) (bind (kbin Ls [b; a] t1) knot).
  Proof.
    intros Hs. unfold kbin. destruct a; try apply sim_fail. destruct b; try apply sim_fail. cbn [int_of binop_ans].
    rewrite (andb_comm (in_int (n0 - n))). destruct (in_int (n - n0) && in_int (n0 - n)); [|apply sim_fail]. cbn [bind rcase].
    rewrite knot_of_bool, Z.leb_antisym. apply sim_ret; [reflexivity|exact Hs].
  Qed.
  Lemma eval_not_unfold F g x t : eval (S F) g (EUn Not x) t = bind (eval F g x t) knot.
  Proof. reflexivity. Qed.

  (* a constant comparison that OptimiseExpr rewrites into run-time code over its un-optimised (literal) operands *)
  Lemma const_rw_eval E o l r l' r' cl cr c f s t F1 :
    is_rw o = true -> cp_expr E l = COk l' -> cp_expr E r = COk r' -> const_of l' = Some cl -> const_of r' = Some cr ->
    fold_bin (cp_arith E) o cl cr = COk c -> env_range E -> frame_inv ge E (top s) ->
    ok (eval (S f) ge (EBin o l r) s) -> (4 <= F1)%nat ->
    exists t', eval (S F1) ge' (rw_bin o (erase l') (erase r')) t = Ret (Vint c) t' /\ st_eq t' t.
  Proof.
    intros Hrw Hl Hr Hcl Hcr Hf Hrng Hfi Ho HF.
    destruct (const_eval ge E Hrng l l' cl Hl Hcl) as [Icl CLl]. destruct (const_eval ge E Hrng r r' cr Hr Hcr) as [Icr CLr].
    assert (Ptop : forall s t : state, top s = top t -> frame_inv ge E (top s) -> frame_inv ge E (top t)) by (intros; eapply frame_inv_top; eauto).
    (* the source evaluation is defined: the comparison of the two constants is *)
    assert (Hb : exists z, binop_ans o cl cr = inr z).
    { rewrite eval_bin_unfold in Ho by (destruct o; discriminate).
      destruct (operands (evals f ge) [l; r] s) as [vs s1|c0 s1|u] eqn:Eo; cbn [bind rcase] in Ho; [| |exfalso; exact Ho].
      - destruct (operands_CL ge _ Ptop [l; r] [cl; cr] (Forall2_cons _ _ CLl (Forall2_cons _ _ CLr (Forall2_nil _))) f s _ Hfi Eo I) as (s1' & A & B).
        inversion A; subst vs s1'. cbn [map kbin int_of] in Ho. destruct (binop_ans o cl cr); [exfalso; exact Ho|eauto].
      - destruct (operands_CL ge _ Ptop [l; r] [cl; cr] (Forall2_cons _ _ CLl (Forall2_cons _ _ CLr (Forall2_nil _))) f s _ Hfi Eo I) as (s1' & A & B). discriminate. }
    destruct Hb as [z Hz].
    pose proof (erase_lit ge' E l l' cl Hl Hcl Icl) as LL. pose proof (erase_lit ge' E r r' cr Hr Hcr Icr) as LR.
    destruct F1 as [|[|[|[|f2]]]]; try lia.
    destruct o; try discriminate; cbn [rw_bin fold_bin binop_ans] in *.
    - (* Ne *) rewrite eval_not_unfold, eval_bin_unfold by discriminate.
      destruct (operands_lit ge' _ _ cl cr f2 t LL LR) as (t2 & E2 & S2). rewrite E2. cbn [bind rcase kbin int_of binop_ans].
      rewrite knot_of_bool. inversion Hf; subst c. exists t2. split; [reflexivity|exact S2].
    - (* Le *) rewrite eval_not_unfold, eval_bin_unfold by discriminate.
      destruct (operands_lit ge' _ _ cr cl f2 t LR LL) as (t2 & E2 & S2). rewrite E2. cbn [bind rcase kbin int_of binop_ans].
      rewrite (andb_comm (in_int (cr - cl))). destruct (in_int (cl - cr) && in_int (cr - cl)); [|discriminate].
      cbn [bind rcase]. rewrite knot_of_bool, <- Z.leb_antisym. inversion Hf; subst c. exists t2. split; [reflexivity|exact S2].
    - (* Gr *) destruct (S (S (S (S f2)))) as [|F2] eqn:EF; [discriminate|]. injection EF as EF. subst F2.
      rewrite eval_bin_unfold by discriminate.
      destruct (operands_lit ge' _ _ cr cl (S f2) t LR LL) as (t2 & E2 & S2). rewrite E2. cbn [bind rcase kbin int_of binop_ans].
      rewrite (andb_comm (in_int (cr - cl))). destruct (in_int (cl - cr) && in_int (cr - cl)); [|discriminate].
      inversion Hf; subst c. exists t2. split; [reflexivity|exact S2].
    - (* Ge *) rewrite eval_not_unfold, eval_bin_unfold by discriminate.
      destruct (operands_lit ge' _ _ cl cr f2 t LL LR) as (t2 & E2 & S2). rewrite E2. cbn [bind rcase kbin int_of binop_ans].
      destruct (in_int (cl - cr) && in_int (cr - cl)); [|discriminate].
      cbn [bind rcase]. rewrite knot_of_bool, <- Z.leb_antisym. inversion Hf; subst c. exists t2. split; [reflexivity|exact S2].
  Qed.

  Lemma SE_step f : SE ge ge' f -> SEs ge ge' f -> SX ge ge' f -> SWAP ge ge' f -> SE ge ge' (S f).
  Proof.
    intros HE HEs HX HSW F E e ae s t HF Hcp Hss Hrng Hfi Hst.
    destruct F as [|F1]; [lia|]. assert (HF1 : (f * 4 + 3 <= F1)%nat) by lia.
    destruct (const_of ae) as [c|] eqn:Ec.
    { (* constant node *)
      destruct (const_eval ge E Hrng e ae c Hcp Ec) as [Hc CLc]. intros Ho.
      pose proof (CLc (S f) s _ Hfi eq_refl Ho) as H.
      destruct (const_shape E e ae c Hcp Ec) as [Hh|(o & l & r & l' & r' & cl & cr & He & Hae & Hrw & Hl & Hr & Hcl & Hcr & Hfb)].
      - rewrite (T_const ge' E e ae c Hcp Ec Hh Hc F1 t). eapply res_eq_st; eauto.
      - subst e ae. unfold T. replace (erase (opt_expr (ABin o (Some c) l' r'))) with (rw_bin o (erase l') (erase r')) by (destruct o; try discriminate; reflexivity).
        assert (Hf1 : (1 <= f)%nat).
        { destruct f; [|lia]. exfalso. rewrite eval_bin_unfold in Ho by (destruct o; discriminate). exact Ho. }
        destruct (const_rw_eval E o l r l' r' cl cr c f s t F1 Hrw Hl Hr Hcl Hcr Hfb Hrng Hfi Ho ltac:(clear - HF1 Hf1; lia)) as (t' & Et & St).
        rewrite Et. eapply res_eq_st; [exact H|]. eapply st_eq_trans; [exact Hst|apply st_eq_sym; exact St]. }
    destruct e as [n|b|bs|x|a i|fn args|n args|o a|o l r]; cbn [cp_expr] in Hcp.
    - inversion Hcp; subst ae; discriminate.
    - inversion Hcp; subst ae; discriminate.
    - inversion Hcp; subst ae. cbn. destruct (pack_string bs); [apply sim_ret; [reflexivity|exact Hst]|apply sim_fail].
    - (* EVar *) assert (Hae : ae = AVar x None).
      { destruct (resolve E x); inversion Hcp; subst ae; try reflexivity; discriminate. }
      subst ae. cbn. apply read_var_sim; assumption.
    - (* ESub *) destruct (cp_expr E i) as [i'| |] eqn:Ei; cbn [cbind] in Hcp; inversion Hcp; subst ae. cbn [swap_safe] in Hss.
      change (T (ASub a i')) with (ESub a (T i')). cbn [eval eval_body].
      eapply sim_bind; [apply resolve_array_sim; assumption|]. intros av av' s0 t0 Hr0 Hav Hs0. subst av'.
      assert (Hf0 : frame_inv ge E (top s0)).
      { eapply frame_inv_shape; [|exact Hfi]. pose proof (PS_resolve_array ge a s) as P. rewrite Hr0 in P. exact P. }
      eapply sim_bind; [apply (HE F1 E i i' s0 t0); try assumption; (clear - HF1; lia)|]. intros iv iv' s1 t1 _ Hiv Hs1. subst iv'.
      apply sim_int_of. intros n. apply read_elem_sim. exact Hs1.
    - (* ECall *) rewrite go_is_cp_exprs in Hcp. destruct (cp_exprs E args) as [args'| |] eqn:Ea; cbn [cbind] in Hcp; try discriminate.
      destruct (cp_call E fn (-1) args') as [[[f' id] a']| |] eqn:Ecc; cbn [cbind] in Hcp; inversion Hcp; subst ae. clear Hcp.
      destruct (cp_call_args _ _ _ _ _ _ _ Ecc) as [Ef' Ea']. subst f' a'.
      unfold cp_call in Ecc. cbn [Z.eqb] in Ecc. cbn [swap_safe] in Hss. apply andb_true_iff in Hss. destruct Hss as [Hnm Hss].
      assert (Hops : forall (k k' : list value -> state -> res value),
                 (forall vs s1 t1, st_eq s1 t1 -> sim eq (k vs s1) (k' vs t1)) ->
                 sim eq (bind (operands (evals f ge) args s) k) (bind (operands (evals F1 ge') (Ts args') t) k')).
      { intros k k' Hk. eapply sim_bind.
        - apply sim_operands. apply (HEs F1 E args args' s t); try assumption; clear - HF1; lia.
        - intros vs vs' s1 t1 _ Hv Hs1. subst vs'. apply Hk. exact Hs1. }
      destruct (resolve E fn) eqn:Er; try discriminate.
      + (* not a val: an ordinary call *) inversion Ecc; subst id. change (T (ACall fn (-1) args')) with (ECall fn (map erase (map opt_expr args'))).
        rewrite map_map. fold T. fold (Ts args'). cbn [eval eval_body]. rewrite (call_target_eq ge ge' Hvals fn s t Hst).
        destruct (call_target ge fn s); [| |apply sim_fail].
        * apply Hops. intros vs s1 t1 Hs1. apply do_sys_sim. exact Hs1.
        * apply Hops. intros vs s1 t1 Hs1. apply (invoke_sim ge ge' PT f F1); [exact HX|clear - HF1; lia|exact Hs1].
      + (* a val: a system call *)
        destruct ((NUM_SYSCALLS <=? v) || (v <? 0)) eqn:Erange; inversion Ecc; subst id.
        assert (Hv : (v =? -1) = false) by (apply orb_false_iff in Erange; destruct Erange as [_ E2]; apply Z.ltb_ge in E2; apply Z.eqb_neq; lia).
        unfold T. cbn [opt_expr erase]. rewrite Hv, map_map. fold T. fold (Ts args'). cbn [eval eval_body].
        rewrite (call_val ge E s fn v Hfi Er). apply Hops. intros vs s1 t1 Hs1. apply do_sys_sim. exact Hs1.
    - (* ESys *) rewrite go_is_cp_exprs in Hcp. destruct (cp_exprs E args) as [args'| |] eqn:Ea; cbn [cbind] in Hcp; try discriminate.
      destruct (cp_call E "" (to_cint n) args') as [[[f' id] a']| |] eqn:Ecc; cbn [cbind] in Hcp; inversion Hcp; subst ae. clear Hcp.
      destruct (cp_call_args _ _ _ _ _ _ _ Ecc) as [Ef' Ea']. subst f' a'.
      cbn [swap_safe] in Hss. apply andb_true_iff in Hss. destruct Hss as [Hnm Hss].
      assert (Hops : forall (k k' : list value -> state -> res value),
                 (forall vs s1 t1, st_eq s1 t1 -> sim eq (k vs s1) (k' vs t1)) ->
                 sim eq (bind (operands (evals f ge) args s) k) (bind (operands (evals F1 ge') (Ts args') t) k')).
      { intros k k' Hk. eapply sim_bind.
        - apply sim_operands. apply (HEs F1 E args args' s t); try assumption; clear - HF1; lia.
        - intros vs vs' s1 t1 _ Hv Hs1. subst vs'. apply Hk. exact Hs1. }
      assert (Hid : (id =? -1) = false /\ (n = id \/ (n <> 0 /\ n <> 1 /\ n <> 2))).
      { unfold cp_call in Ecc. destruct (to_cint n =? -1) eqn:Em1.
        - assert (Hn : n <> 0 /\ n <> 1 /\ n <> 2) by (apply Z.eqb_eq in Em1; repeat split; intros E0; subst n; discriminate).
          destruct (resolve E ""); try discriminate.
          + inversion Ecc; subst id. rewrite Em1 in Hnm. cbn in Hnm. discriminate.
          + destruct ((NUM_SYSCALLS <=? v) || (v <? 0)) eqn:Erange; inversion Ecc; subst id.
            split; [|right; exact Hn]. apply orb_false_iff in Erange. destruct Erange as [_ E2]. apply Z.ltb_ge in E2. apply Z.eqb_neq. lia.
        - destruct ((NUM_SYSCALLS <=? to_cint n) || (to_cint n <? 0)) eqn:Erange; inversion Ecc; subst id. split; [exact Em1|].
          destruct (Z.eq_dec n (to_cint n)) as [En|En]; [left; exact En|right].
          repeat split; intros E0; subst n; apply En; reflexivity. }
      destruct Hid as [Hid1 Hid2].
      unfold T. cbn [opt_expr erase]. rewrite Hid1, map_map. fold T. fold (Ts args'). cbn [eval eval_body].
      apply Hops. intros vs s1 t1 Hs1. destruct Hid2 as [En|(N0 & N1 & N2)]; [subst id; apply do_sys_sim; exact Hs1|].
      intros Ho. exfalso. revert Ho. apply do_sys_other; assumption.
    - (* EUn *) destruct (cp_expr E a) as [a'| |] eqn:Ea; cbn [cbind] in Hcp; try discriminate.
      destruct (const_of a') eqn:Eca.
      { destruct (fold_un (cp_arith E) o z); cbn [cbind] in Hcp; inversion Hcp; subst ae; discriminate. }
      inversion Hcp; subst ae. cbn [swap_safe] in Hss. destruct o.
      + (* unary minus: -x becomes 0 - x, whose operand x is evaluated under the operands' footprint bookkeeping *)
        change (T (AUn Neg None a')) with (EBin Minus (ENum 0) (T a')). intros Ho.
        rewrite eval_bin_unfold by discriminate. cbn [eval eval_body] in Ho |- *.
        destruct F1 as [|[|[|f2]]]; try (exfalso; clear - HF1; lia).
        assert (Hf2 : (f * 4 <= S f2)%nat) by (clear - HF1; lia).
        rewrite operands2. change (eval (S (S f2)) ge' (ENum 0) (set_cur t eff0)) with (Ret (Vint (signed32 0)) (set_cur t eff0)). cbv zeta.
        assert (CS : forall x k, cur (set_cur x k) = k) by (intros x k; destruct x; reflexivity).
        rewrite <- ?(st_eq_start s t Hst). repeat rewrite CS. repeat rewrite same_set_cur.
        set (s0 := set_cur s eff0) in *.
        assert (Hfr0 : FR (cur s) s0 s).
        { split; [unfold s0; apply same_set_cur|]. unfold s0. rewrite CS. apply eff_union_eff0. }
        pose proof (proj1 (frame_all (cur s) ge f) a s0 s Hfr0) as Hfr.
        pose proof (HE (S f2) E a a' s0 s0 Hf2 Ea Hss Hrng Hfi (st_eq_refl s0)) as Hsim.
        destruct (eval f ge a s) as [v s1|k s1|u] eqn:Eas; cbn [bind rcase] in Ho; [| |exfalso; exact Ho].
        * destruct (eval f ge a s0) as [v0 sa|k0 sa|u0]; cbn in Hfr; try contradiction. destruct Hfr as [Hv Hfr]. subst v0.
          specialize (Hsim I). destruct (eval (S f2) ge' (T a') s0) as [v' tx|k' tx|u']; cbn in Hsim; try contradiction.
          destruct Hsim as [Hv Hsx]. subst v'. rewrite conflicts2, conflict_eff0_l. cbn [bind rcase kbin].
          destruct v; try (exfalso; exact Ho). cbn [int_of binop_ans] in *. change (signed32 0) with 0 in *.
          destruct (in_int (0 - n)); [|exfalso; exact Ho]. cbn. split; [reflexivity|].
          destruct Hfr as [Hf1 Hf2']. destruct Hsx as [Hx1 Hx2]. apply st_eq_set_cur.
          -- rewrite <- Hf1. exact Hx1.
          -- eapply eff_eq_trans; [apply eff_eq_sym; exact Hf2'|].
             apply eff_eq_sym. eapply eff_eq_trans; [apply eff_union_eq; [apply eff_union_eff0|apply eff_eq_refl]|].
             apply eff_union_eq; [apply eff_eq_sym; apply Hst|apply eff_eq_sym; exact Hx2].
        * destruct (eval f ge a s0) as [v0 sa|k0 sa|u0]; cbn in Hfr; try contradiction. destruct Hfr as [Hk Hfr]. subst k0.
          specialize (Hsim I). destruct (eval (S f2) ge' (T a') s0) as [v' tx|k' tx|u']; cbn in Hsim; try contradiction.
          destruct Hsim as [Hk Hsx]. subst k'. cbn. split; [reflexivity|]. rewrite <- Hfr. exact Hsx.
      + change (T (AUn Not None a')) with (EUn Not (T a')). cbn [eval eval_body].
        eapply sim_bind; [apply (HE F1 E a a' s t); try assumption; (clear - HF1; lia)|]. intros v v' s1 t1 _ Hv Hs1. subst v'.
        apply sim_bool_of. intros b. apply sim_ret; [reflexivity|exact Hs1].
    - (* EBin *) destruct (cp_expr E l) as [l'| |] eqn:El; cbn [cbind] in Hcp; try discriminate.
      destruct (cp_expr E r) as [r'| |] eqn:Er; cbn [cbind] in Hcp; try discriminate.
      assert (Hae : ae = ABin o None l' r').
      { destruct (const_of l'); [destruct (const_of r')|]; try (inversion Hcp; subst ae; reflexivity).
        destruct (fold_bin (cp_arith E) o z z0); cbn [cbind] in Hcp; inversion Hcp; subst ae; discriminate. }
      subst ae. clear Hcp. cbn [swap_safe] in Hss. apply andb_true_iff in Hss. destruct Hss as [Hss Hsw].
      apply andb_true_iff in Hss. destruct Hss as [Hsl Hsr].
      unfold T. rewrite erase_opt_bin_none. fold (T l') (T r').
      assert (Hops2 : forall F2, (f * 4 <= F2)%nat ->
                 sim eq (operands (evals f ge) [l; r] s) (operands (evals F2 ge') [T l'; T r'] t)).
      { intros F2 HF2. apply sim_operands. apply (HEs F2 E [l; r] [l'; r'] s t); try assumption.
        - apply cp_two; assumption.
        - cbn. rewrite Hsl, Hsr. reflexivity. }
      destruct o; cbn [rw_bin].
      + (* Plus *) rewrite !eval_bin_unfold by discriminate. eapply sim_bind; [apply Hops2; (clear - HF1; lia)|].
        intros vs vs' s1 t1 _ Hv Hs1. subst vs'. unfold kbin. destruct vs as [|a [|b [|]]]; try apply sim_fail.
        apply sim_int_of; intros x. apply sim_int_of; intros y. destruct (binop_ans Plus x y); [apply sim_fail|apply sim_ret; [reflexivity|exact Hs1]].
      + (* Minus *) rewrite !eval_bin_unfold by discriminate. eapply sim_bind; [apply Hops2; (clear - HF1; lia)|].
        intros vs vs' s1 t1 _ Hv Hs1. subst vs'. unfold kbin. destruct vs as [|a [|b [|]]]; try apply sim_fail.
        apply sim_int_of; intros x. apply sim_int_of; intros y. destruct (binop_ans Minus x y); [apply sim_fail|apply sim_ret; [reflexivity|exact Hs1]].
      + (* Or *) cbn [eval eval_body]. eapply sim_bind; [apply (HE F1 E l l' s t); try assumption; (clear - HF1; lia)|].
        intros v v' s1 t1 Hr1 Hv Hs1. subst v'. apply sim_bool_of. intros b. destruct b; [apply sim_ret; [reflexivity|exact Hs1]|].
        eapply sim_bind; [apply (HE F1 E r r' s1 t1); try assumption; [clear - HF1; lia|eapply frame_inv_ret; eauto]|].
        intros w w' s2 t2 _ Hw Hs2. subst w'. apply sim_bool_of. intros c. apply sim_ret; [reflexivity|exact Hs2].
      + (* And *) cbn [eval eval_body]. eapply sim_bind; [apply (HE F1 E l l' s t); try assumption; (clear - HF1; lia)|].
        intros v v' s1 t1 Hr1 Hv Hs1. subst v'. apply sim_bool_of. intros b. destruct b; [|apply sim_ret; [reflexivity|exact Hs1]].
        eapply sim_bind; [apply (HE F1 E r r' s1 t1); try assumption; [clear - HF1; lia|eapply frame_inv_ret; eauto]|].
        intros w w' s2 t2 _ Hw Hs2. subst w'. apply sim_bool_of. intros c. apply sim_ret; [reflexivity|exact Hs2].
      + (* Eq *) rewrite !eval_bin_unfold by discriminate. eapply sim_bind; [apply Hops2; (clear - HF1; lia)|].
        intros vs vs' s1 t1 _ Hv Hs1. subst vs'. unfold kbin. destruct vs as [|a [|b [|]]]; try apply sim_fail.
        apply sim_int_of; intros x. apply sim_int_of; intros y. destruct (binop_ans Eq x y); [apply sim_fail|apply sim_ret; [reflexivity|exact Hs1]].
      + (* Ne -> ~(l = r) *) rewrite eval_bin_unfold by discriminate. destruct F1 as [|F2]; [lia|].
        rewrite eval_not_unfold, eval_bin_unfold by discriminate. rewrite bind_assoc.
        eapply sim_bind; [apply Hops2; clear - HF1; lia|]. intros vs vs' s1 t1 _ Hv Hs1. subst vs'. apply kbin_ne. exact Hs1.
      + (* Ls *) rewrite !eval_bin_unfold by discriminate. eapply sim_bind; [apply Hops2; clear - HF1; lia|].
        intros vs vs' s1 t1 _ Hv Hs1. subst vs'. unfold kbin. destruct vs as [|a [|b [|]]]; try apply sim_fail.
        apply sim_int_of; intros x. apply sim_int_of; intros y. destruct (binop_ans Ls x y); [apply sim_fail|apply sim_ret; [reflexivity|exact Hs1]].
      + (* Le -> ~(r < l) *) rewrite eval_bin_unfold by discriminate. destruct F1 as [|F2]; [lia|].
        rewrite eval_not_unfold, eval_bin_unfold by discriminate. rewrite bind_assoc.
        eapply sim_bind; [apply (HSW F2 E l r l' r' s t); try assumption; clear - HF1; lia|].
        intros vs vs' s1 t1 _ (a & b & Ha & Hb) Hs1. subst vs vs'. apply kbin_le. exact Hs1.
      + (* Gr -> r < l *) rewrite !eval_bin_unfold by discriminate.
        eapply sim_bind; [apply (HSW F1 E l r l' r' s t); try assumption; clear - HF1; lia|].
        intros vs vs' s1 t1 _ (a & b & Ha & Hb) Hs1. subst vs vs'. apply kbin_gr. exact Hs1.
      + (* Ge -> ~(l < r) *) rewrite eval_bin_unfold by discriminate. destruct F1 as [|F2]; [lia|].
        rewrite eval_not_unfold, eval_bin_unfold by discriminate. rewrite bind_assoc.
        eapply sim_bind; [apply Hops2; clear - HF1; lia|]. intros vs vs' s1 t1 _ Hv Hs1. subst vs'. apply kbin_ge. exact Hs1.
  Qed.
End Step.

Lemma harmless_T E e e' : cp_expr E e = COk e' -> harmless e = true -> harmless (T e') = true.
Proof. destruct e; cbn; try discriminate; intros H _; inversion H; reflexivity. Qed.
Lemma harmless_Ts E : forall es aes, cp_exprs E es = COk aes -> forallb harmless es = true -> forallb harmless (Ts aes) = true.
Proof.
  induction es as [|e r IH]; intros aes H Hh; cbn [cp_exprs] in H.
  - inversion H. reflexivity.
  - destruct (cp_expr E e) as [e'| |] eqn:Ee; cbn [cbind] in H; try discriminate.
    destruct (cp_exprs E r) as [r'| |] eqn:Er; cbn [cbind] in H; inversion H; subst aes.
    cbn [forallb] in Hh. apply andb_true_iff in Hh. destruct Hh as [H1 H2]. cbn [Ts map forallb].
    rewrite (harmless_T E e e' Ee H1). apply (IH r' eq_refl H2).
Qed.

Section StepList.
  Variables ge ge' : genv.

  Lemma SEs_step f : SE ge ge' f -> SEs ge ge' f -> SEs ge ge' (S f).
  Proof.
    intros HE HEs F E es aes s t HF Hcp Hss Hrng Hfi Hst.
    destruct F as [|F1]; [lia|]. assert (HF1 : (f * 4 <= F1)%nat) by lia.
    destruct es as [|e r]; cbn [cp_exprs] in Hcp.
    - inversion Hcp; subst aes. cbn. apply sim_ret; [constructor|exact Hst].
    - destruct (cp_expr E e) as [e'| |] eqn:Ee; cbn [cbind] in Hcp; try discriminate.
      destruct (cp_exprs E r) as [r'| |] eqn:Er; cbn [cbind] in Hcp; inversion Hcp; subst aes. clear Hcp.
      cbn [forallb] in Hss. apply andb_true_iff in Hss. destruct Hss as [Hs1 Hs2].
      cbn [Ts map evals evals_body]. fold (Ts r').
      assert (Hw : sim (fun x y => fst x = fst y /\ eff_eq (snd x) (snd y)) (with_eff (eval f ge e) s) (with_eff (eval F1 ge' (T e')) t)).
      { apply sim_with_eff; [exact Hst|]. apply (HE F1 E e e'); try assumption. apply st_eq_refl. }
      intros Ho. unfold evals_body in *.
      destruct (with_eff (eval f ge e) s) as [ve s1|c s1|u] eqn:Ew; cbn [rcase] in *; [| |exfalso; exact Ho].
      + specialize (Hw I). destruct (with_eff (eval F1 ge' (T e')) t) as [ve' t1|c t1|u]; cbn in Hw; try contradiction.
        destruct Hw as [[Hv He] Hs1t1]. cbn [rcase].
        assert (Hfi1 : frame_inv ge E (top s1)).
        { unfold with_eff in Ew. destruct (eval f ge e (set_cur s eff0)) as [a s'|c s'|u] eqn:Eev; cbn [rcase] in Ew; inversion Ew; subst.
          rewrite top_set_cur. eapply frame_inv_ret; [exact Eev|]. rewrite top_set_cur. exact Hfi. }
        pose proof (HEs F1 E r r' s1 t1 HF1 Er Hs2 Hrng Hfi1 Hs1t1) as Hr.
        destruct (evals f ge r s1) as [l s2|c s2|u]; cbn [rcase] in *; [| |exfalso; exact Ho].
        * specialize (Hr I). destruct (evals F1 ge' (Ts r') t1) as [l' t2|c t2|u]; cbn in Hr; try contradiction.
          destruct Hr as [Hl Hs2t2]. cbn. split; [constructor; [split; assumption|exact Hl]|exact Hs2t2].
        * specialize (Hr I). destruct (evals F1 ge' (Ts r') t1) as [l' t2|c' t2|u]; cbn in Hr; try contradiction.
          destruct Hr as [Hc Hs2t2]. subst c'. cbn [rcase]. destruct He as (_ & _ & Hio). rewrite <- Hio.
          destruct (e_io (snd ve)); [exfalso; exact Ho|]. cbn. auto.
      + specialize (Hw I). destruct (with_eff (eval F1 ge' (T e')) t) as [ve' t1|c' t1|u]; cbn in Hw; try contradiction.
        destruct Hw as [Hc Hs1t1]. subst c'. cbn [rcase].
        destruct (forallb harmless r) eqn:Eh; [|exfalso; exact Ho]. rewrite (harmless_Ts E r r' Er Eh). cbn. auto.
  Qed.
End StepList.

Fixpoint cp_stmts (E : cpenv) (l : list stmt) : cres (list astmt) :=
  match l with [] => COk [] | x :: r => cbind (cp_stmt E x) (fun x' => cbind (cp_stmts E r) (fun r' => COk (x' :: r'))) end.
Lemma go_is_cp_stmts E ss :
  (fix go (l : list stmt) : cres (list astmt) :=
     match l with [] => COk [] | x :: r => cbind (cp_stmt E x) (fun x' => cbind (go r) (fun r' => COk (x' :: r'))) end) ss = cp_stmts E ss.
Proof. induction ss as [|x r IH]; [reflexivity|]. cbn [cp_stmts]. rewrite <- IH. reflexivity. Qed.

Lemma frame_inv_exec ge E f st s fl s1 : exec f ge st s = Ret fl s1 -> frame_inv ge E (top s) -> frame_inv ge E (top s1).
Proof. intros H. apply frame_inv_shape. pose proof (proj1 (proj2 (proj2 (shape_all ge f))) st s) as P. rewrite H in P. exact P. Qed.

Section StepStmt.
  Variables ge ge' : genv.
  Hypothesis Hvals : g_vals ge' = g_vals ge.
  Hypothesis PT : forall f q, find_proc f (g_procs ge) = Some q ->
    exists q' E, find_proc f (g_procs ge') = Some q' /\ proc_ok ge ge' q q' E.

  Definition SXs (f : nat) : Prop := forall F E ss asts s t, (f * 4 <= F)%nat ->
    cp_stmts E ss = COk asts -> forallb swap_safe_stmt asts = true -> env_range E -> frame_inv ge E (top s) -> st_eq s t ->
    sim eq (execs f ge ss s) (execs F ge' (map TS asts) t).

  Lemma SXs_step f : SX ge ge' f -> SXs f -> SXs (S f).
  Proof.
    intros HX HXs F E ss asts s t HF Hcp Hss Hrng Hfi Hst.
    destruct F as [|F1]; [lia|]. assert (HF1 : (f * 4 <= F1)%nat) by lia.
    destruct ss as [|st r]; cbn [cp_stmts] in Hcp.
    - inversion Hcp; subst asts. cbn. apply sim_ret; [reflexivity|exact Hst].
    - destruct (cp_stmt E st) as [st'| |] eqn:Est; cbn [cbind] in Hcp; try discriminate.
      destruct (cp_stmts E r) as [r'| |] eqn:Er; cbn [cbind] in Hcp; inversion Hcp; subst asts. clear Hcp.
      cbn [forallb] in Hss. apply andb_true_iff in Hss. destruct Hss as [Hs1 Hs2].
      cbn [map execs execs_body].
      eapply sim_bind; [apply (HX F1 E st st' s t); assumption|]. intros fl fl' s1 t1 Hr1 Hfl Hs1t1. subst fl'.
      destruct fl; [|apply sim_ret; [reflexivity|exact Hs1t1]].
      apply (HXs F1 E r r' s1 t1); try assumption. eapply frame_inv_exec; eauto.
  Qed.

  Lemma top_set_budget s b : top (set_budget s b) = top s. Proof. destruct s; reflexivity. Qed.

  Lemma SX_step f : SE ge ge' f -> SEs ge ge' f -> SX ge ge' f -> SXs f -> SX ge ge' (S f).
  Proof.
    intros HE HEs HX HXs F E st ast s0 t0 HF Hcp Hss Hrng Hfi0 Hst0.
    destruct F as [|F1]; [lia|]. assert (HF1 : (f * 4 <= F1)%nat) by lia.
    cbn [exec]. unfold exec_body. apply sim_tick; [exact Hst0|]. intros s t Hst Hsh.
    assert (Hfi : frame_inv ge E (top s)) by (eapply frame_inv_shape; eauto). clear Hfi0 Hst0 Hsh s0 t0.
    assert (Hops : forall args args' (k k' : list value -> state -> res flow) s t,
               cp_exprs E args = COk args' -> forallb swap_safe args' = true -> frame_inv ge E (top s) -> st_eq s t ->
               (forall vs s1 t1, st_eq s1 t1 -> sim eq (k vs s1) (k' vs t1)) ->
               sim eq (bind (operands (evals f ge) args s) k) (bind (operands (evals F1 ge') (Ts args') t) k')).
    { intros args args' k k' s' t' Ha Hsa Hf' Hs' Hk. eapply sim_bind.
      - apply sim_operands. apply (HEs F1 E args args' s' t'); assumption.
      - intros vs vs' s1 t1 _ Hv Hs1. subst vs'. apply Hk. exact Hs1. }
    destruct st as [| |e|c th el|c b|ss|x e|a i e|fn args|n args]; cbn [cp_stmt] in Hcp.
    - inversion Hcp; subst ast. cbn. apply sim_ret; [reflexivity|exact Hst].
    - inversion Hcp; subst ast. cbn. apply sim_halt. exact Hst.
    - (* return *) destruct (cp_expr E e) as [e'| |] eqn:Ee; cbn [cbind] in Hcp; inversion Hcp; subst ast. cbn [swap_safe_stmt] in Hss.
      change (TS (AReturn e')) with (SReturn (T e')). cbn iota beta.
      eapply sim_bind; [apply (HE F1 E e e' s t); assumption|]. intros v v' s1 t1 _ Hv Hs1. subst v'. apply sim_ret; [reflexivity|exact Hs1].
    - (* if *) destruct (cp_expr E c) as [c'| |] eqn:Ec; cbn [cbind] in Hcp; try discriminate.
      destruct (cp_stmt E th) as [th'| |] eqn:Eth; cbn [cbind] in Hcp; try discriminate.
      destruct (cp_stmt E el) as [el'| |] eqn:Eel; cbn [cbind] in Hcp; inversion Hcp; subst ast. cbn [swap_safe_stmt] in Hss.
      apply andb_true_iff in Hss. destruct Hss as [Hss Hs3]. apply andb_true_iff in Hss. destruct Hss as [Hs1 Hs2].
      change (TS (AIf c' th' el')) with (SIf (T c') (TS th') (TS el')). cbn iota beta.
      eapply sim_bind; [apply (HE F1 E c c' s t); assumption|]. intros v v' s1 t1 Hr1 Hv Hs1t1. subst v'.
      assert (Hfi1 : frame_inv ge E (top s1)) by (eapply frame_inv_ret; eauto).
      apply sim_bool_of. intros b. destruct b; [apply (HX F1 E th th' s1 t1)|apply (HX F1 E el el' s1 t1)]; assumption.
    - (* while *) destruct (cp_expr E c) as [c'| |] eqn:Ec; cbn [cbind] in Hcp; try discriminate.
      destruct (cp_stmt E b) as [b'| |] eqn:Eb; cbn [cbind] in Hcp; inversion Hcp; subst ast. cbn [swap_safe_stmt] in Hss.
      pose proof Hss as Hss0. apply andb_true_iff in Hss. destruct Hss as [Hs1 Hs2].
      change (TS (AWhile c' b')) with (SWhile (T c') (TS b')). cbn iota beta.
      eapply sim_bind; [apply (HE F1 E c c' s t); assumption|]. intros v v' s1 t1 Hr1 Hv Hs1t1. subst v'.
      assert (Hfi1 : frame_inv ge E (top s1)) by (eapply frame_inv_ret; eauto).
      apply sim_bool_of. intros tt. destruct tt; [|apply sim_ret; [reflexivity|exact Hs1t1]].
      eapply sim_bind; [apply (HX F1 E b b' s1 t1); assumption|]. intros fl fl' s2 t2 Hr2 Hfl Hs2t2. subst fl'.
      destruct fl; [|apply sim_ret; [reflexivity|exact Hs2t2]].
      change (SWhile (T c') (TS b')) with (TS (AWhile c' b')).
      apply (HX F1 E (SWhile c b) (AWhile c' b') s2 t2); try assumption.
      + cbn [cp_stmt]. rewrite Ec, Eb. reflexivity.
      + eapply frame_inv_exec; eauto.
    - (* seq *) rewrite go_is_cp_stmts in Hcp. destruct (cp_stmts E ss) as [ss'| |] eqn:Ess; cbn [cbind] in Hcp; inversion Hcp; subst ast.
      cbn [swap_safe_stmt] in Hss. unfold TS. cbn [opt_stmt erase_stmt]. rewrite map_map. fold TS. cbn iota beta.
      apply (HXs F1 E ss ss' s t); assumption.
    - (* assign *) destruct (cp_expr E (EVar x)) as [lhs| |]; cbn [cbind] in Hcp; try discriminate.
      destruct (cp_expr E e) as [e'| |] eqn:Ee; cbn [cbind] in Hcp; inversion Hcp; subst ast. cbn [swap_safe_stmt] in Hss.
      change (TS (AAssign x (const_of lhs) e')) with (SAssign x (T e')). cbn iota beta.
      eapply sim_bind; [apply (HE F1 E e e' s t); assumption|]. intros v v' s1 t1 _ Hv Hs1. subst v'.
      apply sim_int_of. intros n. apply assign_sim; assumption.
    - (* array assign *) destruct (cp_expr E i) as [i'| |] eqn:Ei; cbn [cbind] in Hcp; try discriminate.
      destruct (cp_expr E e) as [e'| |] eqn:Ee; cbn [cbind] in Hcp; inversion Hcp; subst ast. cbn [swap_safe_stmt] in Hss.
      apply andb_true_iff in Hss. destruct Hss as [Hs1 Hs2].
      change (TS (AAssignSub a i' e')) with (SAssignSub a (T i') (T e')). cbn iota beta.
      eapply sim_bind; [apply resolve_array_sim; assumption|]. intros av av' s1 t1 Hr1 Hav Hs1t1. subst av'.
      assert (Hfi1 : frame_inv ge E (top s1)).
      { eapply frame_inv_shape; [|exact Hfi]. pose proof (PS_resolve_array ge a s) as P. rewrite Hr1 in P. exact P. }
      change [T i'; T e'] with (Ts [i'; e']). apply Hops; try assumption.
      + apply cp_two; assumption.
      + cbn. rewrite Hs1, Hs2. reflexivity.
      + intros vs s2 t2 Hs2t2. destruct vs as [|iv [|v [|]]]; try apply sim_fail.
        apply sim_int_of; intros n. apply sim_int_of; intros w. apply write_elem_sim. exact Hs2t2.
    - (* call statement *) destruct (cp_exprs E args) as [args'| |] eqn:Ea; cbn [cbind] in Hcp; try discriminate.
      destruct (cp_call E fn (-1) args') as [[[f' id] a']| |] eqn:Ecc; cbn [cbind] in Hcp; inversion Hcp; subst ast. clear Hcp.
      destruct (cp_call_args _ _ _ _ _ _ _ Ecc) as [Ef' Ea']. subst f' a'. cbn [swap_safe_stmt] in Hss.
      apply andb_true_iff in Hss. destruct Hss as [Hnm Hss].
      unfold cp_call in Ecc. cbn [Z.eqb] in Ecc.
      destruct (resolve E fn) eqn:Er; try discriminate.
      + inversion Ecc; subst id. change (TS (ACallS fn (-1) args')) with (SCall fn (map erase (map opt_expr args'))).
        rewrite map_map. fold T. fold (Ts args'). cbn iota beta.
        rewrite (call_target_eq ge ge' Hvals fn s t Hst). destruct (call_target ge fn s); [| |apply sim_fail].
        * apply Hops; try assumption. intros vs s1 t1 Hs1. eapply sim_bind; [apply do_sys_sim; exact Hs1|].
          intros ? ? s2 t2 _ _ Hs2. apply sim_ret; [reflexivity|exact Hs2].
        * apply Hops; try assumption. intros vs s1 t1 Hs1. eapply sim_bind; [apply (invoke_sim ge ge' PT f F1); [exact HX|exact HF1|exact Hs1]|].
          intros ? ? s2 t2 _ _ Hs2. apply sim_ret; [reflexivity|exact Hs2].
      + destruct ((NUM_SYSCALLS <=? v) || (v <? 0)) eqn:Erange; inversion Ecc; subst id.
        assert (Hv : (v =? -1) = false) by (apply orb_false_iff in Erange; destruct Erange as [_ E2]; apply Z.ltb_ge in E2; apply Z.eqb_neq; lia).
        unfold TS. cbn [opt_stmt erase_stmt]. rewrite Hv, map_map. fold T. fold (Ts args'). cbn iota beta.
        rewrite (call_val ge E s fn v Hfi Er). apply Hops; try assumption. intros vs s1 t1 Hs1.
        eapply sim_bind; [apply do_sys_sim; exact Hs1|]. intros ? ? s2 t2 _ _ Hs2. apply sim_ret; [reflexivity|exact Hs2].
    - (* system call statement *) destruct (cp_exprs E args) as [args'| |] eqn:Ea; cbn [cbind] in Hcp; try discriminate.
      destruct (cp_call E "" (to_cint n) args') as [[[f' id] a']| |] eqn:Ecc; cbn [cbind] in Hcp; inversion Hcp; subst ast. clear Hcp.
      destruct (cp_call_args _ _ _ _ _ _ _ Ecc) as [Ef' Ea']. subst f' a'. cbn [swap_safe_stmt] in Hss.
      apply andb_true_iff in Hss. destruct Hss as [Hnm Hss].
      assert (Hid : (id =? -1) = false /\ (n = id \/ (n <> 0 /\ n <> 1 /\ n <> 2))).
      { unfold cp_call in Ecc. destruct (to_cint n =? -1) eqn:Em1.
        - assert (Hn : n <> 0 /\ n <> 1 /\ n <> 2) by (apply Z.eqb_eq in Em1; repeat split; intros E0; subst n; discriminate).
          destruct (resolve E ""); try discriminate.
          + inversion Ecc; subst id. rewrite Em1 in Hnm. cbn in Hnm. discriminate.
          + destruct ((NUM_SYSCALLS <=? v) || (v <? 0)) eqn:Erange; inversion Ecc; subst id.
            split; [|right; exact Hn]. apply orb_false_iff in Erange. destruct Erange as [_ E2]. apply Z.ltb_ge in E2. apply Z.eqb_neq. lia.
        - destruct ((NUM_SYSCALLS <=? to_cint n) || (to_cint n <? 0)) eqn:Erange; inversion Ecc; subst id. split; [exact Em1|].
          destruct (Z.eq_dec n (to_cint n)) as [En|En]; [left; exact En|right].
          repeat split; intros E0; subst n; apply En; reflexivity. }
      destruct Hid as [Hid1 Hid2].
      unfold TS. cbn [opt_stmt erase_stmt]. rewrite Hid1, map_map. fold T. fold (Ts args'). cbn iota beta.
      apply Hops; try assumption. intros vs s1 t1 Hs1. destruct Hid2 as [En|(N0 & N1 & N2)].
      + subst id. eapply sim_bind; [apply do_sys_sim; exact Hs1|]. intros ? ? s2 t2 _ _ Hs2. apply sim_ret; [reflexivity|exact Hs2].
      + intros Ho. exfalso. destruct (do_sys n vs false s1) eqn:Ed; try (revert Ho; cbn; tauto);
          (eapply (do_sys_other n vs false s1); eauto; rewrite Ed; exact I).
  Qed.
End StepStmt.

(* call-freeness survives the passes *)
Lemma call_free_cp E : forall e ae, cp_expr E e = COk ae -> acall_free ae = true -> call_free e = true.
Proof.
  induction e as [n|b|bs|x|a i IH|fn args|n args|o a IH|o l IHl r IHr]; intros ae H Ha; cbn [cp_expr] in H; cbn [call_free]; try reflexivity.
  - destruct (cp_expr E i) as [i'| |]; cbn [cbind] in H; inversion H; subst ae. cbn in Ha. eapply IH; eauto.
  - rewrite go_is_cp_exprs in H. destruct (cp_exprs E args) as [args'| |]; cbn [cbind] in H; try discriminate.
    destruct (cp_call E fn (-1) args') as [[[? ?] ?]| |]; cbn [cbind] in H; inversion H; subst ae. discriminate.
  - rewrite go_is_cp_exprs in H. destruct (cp_exprs E args) as [args'| |]; cbn [cbind] in H; try discriminate.
    destruct (cp_call E "" (to_cint n) args') as [[[? ?] ?]| |]; cbn [cbind] in H; inversion H; subst ae. discriminate.
  - destruct (cp_expr E a) as [a'| |]; cbn [cbind] in H; try discriminate.
    destruct (const_of a'); [destruct (fold_un (cp_arith E) o z); cbn [cbind] in H|]; inversion H; subst ae; cbn in Ha; eapply IH; eauto.
  - destruct (cp_expr E l) as [l'| |]; cbn [cbind] in H; try discriminate. destruct (cp_expr E r) as [r'| |]; cbn [cbind] in H; try discriminate.
    assert (Hx : exists c, ae = ABin o c l' r').
    { destruct (const_of l'); [destruct (const_of r'); [destruct (fold_bin (cp_arith E) o z z0); cbn [cbind] in H|]|]; inversion H; eauto. }
    destruct Hx as [c Hx]. subst ae. cbn in Ha. apply andb_true_iff in Ha. destruct Ha as [A1 A2].
    rewrite (IHl l' eq_refl A1), (IHr r' eq_refl A2). reflexivity.
Qed.

Lemma call_free_T2 : forall ae, acall_free ae = true -> call_free (erase ae) = true /\ call_free (T ae) = true.
Proof.
  induction ae as [n c|b c|bs|x c|a i IH|f id args|o c a IH|o c l IHl r IHr]; intros H; unfold T; cbn [opt_expr erase acall_free call_free] in *; try discriminate; try (split; reflexivity).
  - destruct c; split; reflexivity.
  - apply IH. exact H.
  - destruct (IH H) as [I1 I2]. unfold T in I2. destruct c; [destruct o; split; reflexivity|]. destruct o; cbn; rewrite ?I1, ?I2; split; reflexivity.
  - apply andb_true_iff in H. destruct H as [H1 H2]. destruct (IHl H1) as [L1 L2]. destruct (IHr H2) as [R1 R2]. unfold T in *.
    destruct c; destruct o; cbn; rewrite ?L1, ?L2, ?R1, ?R2; split; reflexivity.
Qed.
Lemma call_free_T ae : acall_free ae = true -> call_free (T ae) = true.
Proof. intros H. apply (call_free_T2 ae H). Qed.

Definition swapped (vs vs' : list value) : Prop := exists a b, vs = [a; b] /\ vs' = [b; a].

Lemma eval1_no_halt g e s c s' : eval 1 g e s <> Halt c s'.
Proof.
  destruct e as [n|b|bs|x|a i|fn args|n args|o a|o l r]; cbn [eval eval_body]; try discriminate.
  - destruct (pack_string bs); discriminate.
  - unfold read_var. destruct (assoc x (f_vars (top s))) as [[| | |]|]; try discriminate.
    destruct (assoc x (f_vals (top s))); [discriminate|]. destruct (assoc x (g_vals g)); [discriminate|].
    destruct (assoc x (gvars s)) as [[| | |]|]; try discriminate. destruct (assoc x (garrs s)); discriminate.
  - unfold resolve_array. destruct (assoc a (f_vars (top s))) as [[| | |]|]; cbn; try discriminate.
    destruct (assoc a (f_vals (top s))); [discriminate|]. destruct (assoc a (garrs s)); cbn; discriminate.
  - destruct (call_target g fn s); cbn; discriminate.
  - destruct o; cbn; discriminate.
  - destruct o; cbn; discriminate.
Qed.

Lemma operands_small g f a b s : (f < 3)%nat -> ~ ok (operands (evals f g) [a; b] s).
Proof.
  intros H X. destruct f as [|[|[|f]]]; try lia; unfold operands in X; cbn [evals evals_body] in X.
  - exact X.
  - unfold with_eff in X. cbn [eval rcase bind] in X. exact X.
  - unfold with_eff at 1 in X. destruct (eval 1 g a (set_cur s eff0)) as [va sa|c sa|u] eqn:E1; cbn [rcase bind] in X.
    + unfold with_eff in X. cbn [eval rcase bind] in X. exact X.
    + exact (eval1_no_halt g a _ c sa E1).
    + exact X.
Qed.

(* ------------------------------------------------------------------ writes are recorded: wsound_all *)
(* ------------------------------------------------------------------ footprints are sound for writes: what an evaluation does not
   record as written keeps its value; the sets of global names never change; an expression leaves the stack as it was *)
Definition KW (s s' : state) : Prop :=
  map fst (gvars s') = map fst (gvars s) /\ map fst (garrs s') = map fst (garrs s) /\
  (forall x, mem_str x (e_wr (cur s')) = false -> assoc x (gvars s') = assoc x (gvars s) /\ assoc x (garrs s') = assoc x (garrs s)) /\
  (forall x, mem_str x (e_wr (cur s)) = true -> mem_str x (e_wr (cur s')) = true).
Definition QE {A : Type} (r : res A) (s : state) : Prop := match r with Ret _ s' => stk s' = stk s /\ KW s s' | _ => True end.
Definition QX {A : Type} (r : res A) (s : state) : Prop := match r with Ret _ s' => tl (stk s') = tl (stk s) /\ KW s s' | _ => True end.

Lemma KW_refl s : KW s s. Proof. repeat split; auto. Qed.
Lemma KW_trans s s1 s2 : KW s s1 -> KW s1 s2 -> KW s s2.
Proof.
  intros (A1 & B1 & C1 & D1) (A2 & B2 & C2 & D2). split; [congruence|]. split; [congruence|]. split.
  - intros x Hx. assert (Hx1 : mem_str x (e_wr (cur s1)) = false).
    { destruct (mem_str x (e_wr (cur s1))) eqn:E; [|reflexivity]. rewrite (D2 x E) in Hx. discriminate. }
    destruct (C2 x Hx) as [P1 P2]. destruct (C1 x Hx1) as [P3 P4]. split; congruence.
  - intros x Hx. apply D2. apply D1. exact Hx.
Qed.
Lemma QE_QX {A} (r : res A) s : QE r s -> QX r s.
Proof. destruct r; cbn; auto. intros [H K]. split; [rewrite H; reflexivity|exact K]. Qed.

Lemma QE_bind {A B} (r : res A) (k : A -> state -> res B) s :
  QE r s -> (forall a s1, QE (k a s1) s1) -> QE (bind r k) s.
Proof.
  intros H1 H2. destruct r as [a s1| |]; cbn in *; try exact I. specialize (H2 a s1). unfold QE in *.
  destruct (k a s1); try exact I. destruct H1 as [E1 K1], H2 as [E2 K2]. split; [congruence|eapply KW_trans; eauto].
Qed.
Lemma QX_bindE {A B} (r : res A) (k : A -> state -> res B) s :
  QE r s -> (forall a s1, QX (k a s1) s1) -> QX (bind r k) s.
Proof.
  intros H1 H2. destruct r as [a s1| |]; cbn in *; try exact I. specialize (H2 a s1). unfold QX in *.
  destruct (k a s1); try exact I. destruct H1 as [E1 K1], H2 as [E2 K2]. split; [congruence|eapply KW_trans; eauto].
Qed.
Lemma QX_bind {A B} (r : res A) (k : A -> state -> res B) s :
  QX r s -> (forall a s1, QX (k a s1) s1) -> QX (bind r k) s.
Proof.
  intros H1 H2. destruct r as [a s1| |]; cbn in *; try exact I. specialize (H2 a s1). unfold QX in *.
  destruct (k a s1); try exact I. destruct H1 as [E1 K1], H2 as [E2 K2]. split; [congruence|eapply KW_trans; eauto].
Qed.
Lemma QE_int_of {B} v (k : Z -> res B) s : (forall n, QE (k n) s) -> QE (int_of v k) s.
Proof. intros H. destruct v; cbn; try exact I. apply H. Qed.
Lemma QE_bool_of {B} v (k : bool -> res B) s : (forall b, QE (k b) s) -> QE (bool_of v k) s.
Proof. intros H. unfold bool_of. apply QE_int_of. intros n. destruct (n =? 0); [apply H|]. destruct (n =? 1); [apply H|exact I]. Qed.
Lemma QX_int_of {B} v (k : Z -> res B) s : (forall n, QX (k n) s) -> QX (int_of v k) s.
Proof. intros H. destruct v; cbn; try exact I. apply H. Qed.
Lemma QX_bool_of {B} v (k : bool -> res B) s : (forall b, QX (k b) s) -> QX (bool_of v k) s.
Proof. intros H. unfold bool_of. apply QX_int_of. intros n. destruct (n =? 0); [apply H|]. destruct (n =? 1); [apply H|exact I]. Qed.
Lemma QE_ret {A} (a : A) s : QE (Ret a s) s. Proof. split; [reflexivity|apply KW_refl]. Qed.
Lemma QX_ret {A} (a : A) s : QX (Ret a s) s. Proof. split; [reflexivity|apply KW_refl]. Qed.

Lemma KW_cur s c : (forall x, mem_str x (e_wr (cur s)) = true -> mem_str x (e_wr c) = true) -> KW s (set_cur s c).
Proof. intros H. destruct s; cbn in *. repeat split; auto. Qed.
Lemma QE_note_rd {A} (a : A) x s : QE (Ret a (note_rd x s)) s.
Proof. split; [destruct s; reflexivity|]. destruct s; cbn. repeat split; auto. Qed.

Lemma QE_with_eff {A} (m : state -> res A) s : QE (m (set_cur s eff0)) (set_cur s eff0) -> QE (with_eff m s) s.
Proof.
  intros H. unfold with_eff. destruct (m (set_cur s eff0)) as [a s'|c s'|u]; cbn in *; try exact I.
  destruct H as [E (A1 & B1 & C1 & D1)]. split; [destruct s, s'; cbn in *; exact E|].
  destruct s, s'; cbn in *. split; [exact A1|]. split; [exact B1|]. split.
  - intros x Hx. cbn in Hx. rewrite mem_union in Hx. apply orb_false_iff in Hx. apply C1. apply Hx.
  - intros x Hx. cbn in Hx |- *. rewrite mem_union, Hx. reflexivity.
Qed.
Lemma QX_tick {B} s (k : state -> res B) : (forall s0, stk s0 = stk s -> KW s s0 -> QX (k s0) s0) -> QX (tick s k) s.
Proof.
  intros H. unfold tick. destruct (budget s <=? 0); [exact I|].
  assert (K : KW s (set_budget s (budget s - 1))) by (destruct s; cbn; repeat split; auto).
  specialize (H (set_budget s (budget s - 1)) ltac:(destruct s; reflexivity) K). unfold QX in *. destruct (k _); try exact I.
  destruct H as [E K2]. split; [rewrite E; destruct s; reflexivity|eapply KW_trans; eauto].
Qed.
Lemma QE_tick {B} s (k : state -> res B) : (forall s0, stk s0 = stk s -> KW s s0 -> QE (k s0) s0) -> QE (tick s k) s.
Proof.
  intros H. unfold tick. destruct (budget s <=? 0); [exact I|].
  assert (K : KW s (set_budget s (budget s - 1))) by (destruct s; cbn; repeat split; auto).
  specialize (H (set_budget s (budget s - 1)) ltac:(destruct s; reflexivity) K). unfold QE in *. destruct (k _); try exact I.
  destruct H as [E K2]. split; [rewrite E; destruct s; reflexivity|eapply KW_trans; eauto].
Qed.

Lemma QE_read_var ge x s : QE (read_var ge x s) s.
Proof.
  unfold read_var. destruct (assoc x (f_vars (top s))) as [[| | |]|]; try exact I; try apply QE_ret.
  destruct (assoc x (f_vals (top s))); [apply QE_ret|]. destruct (assoc x (g_vals ge)); [apply QE_ret|].
  destruct (assoc x (gvars s)) as [[| | |]|]; try exact I; try apply QE_note_rd. destruct (assoc x (garrs s)); [apply QE_ret|exact I].
Qed.
Lemma QE_resolve_array ge a s : QE (resolve_array ge a s) s.
Proof.
  unfold resolve_array. destruct (assoc a (f_vars (top s))) as [[| | |]|]; try exact I; try apply QE_ret.
  destruct (assoc a (f_vals (top s))); [exact I|]. destruct (assoc a (garrs s)); [apply QE_ret|exact I].
Qed.
Lemma QE_read_elem av a i s : QE (read_elem av a i s) s.
Proof.
  unfold read_elem. destruct av; try exact I.
  - destruct (assoc a0 (garrs s)); [|exact I]. destruct ((0 <=? i) && (i <? alen a1)); [|exact I].
    destruct (PositiveMap.find (cell i) (acells a1)) as [[| | |]|]; try exact I. apply QE_note_rd.
  - destruct ((0 <=? i) && (i <? Z.of_nat (Datatypes.length ws))); [apply QE_ret|exact I].
Qed.

Lemma update_keys2 {A} x (v : A) l : map fst (update x v l) = map fst l.
Proof. induction l as [|[y w] r IH]; [reflexivity|]. cbn [update]. destruct (String.eqb x y); cbn; [reflexivity|rewrite IH; reflexivity]. Qed.
Lemma assoc_update_other {A} x y (v : A) l : x <> y -> assoc x (update y v l) = assoc x l.
Proof.
  intros H. induction l as [|[z w] r IH]; [reflexivity|]. cbn [update]. destruct (String.eqb_spec y z).
  - subst. cbn [assoc]. destruct (String.eqb_spec x z); [congruence|reflexivity].
  - cbn [assoc]. destruct (String.eqb x z); [reflexivity|exact IH].
Qed.
Lemma mem_add_self x l : mem_str x (add_str x l) = true.
Proof. rewrite mem_add, String.eqb_refl. reflexivity. Qed.

Lemma KW_write_gvar s x v : KW s (note_wr x (set_gvars s (update x v (gvars s)))) .
Proof.
  destruct s; cbn. split; [apply update_keys2|]. split; [reflexivity|]. split.
  - intros y Hy. cbn in Hy. rewrite mem_add in Hy. apply orb_false_iff in Hy. destruct Hy as [Hy _]. apply String.eqb_neq in Hy.
    split; [apply assoc_update_other; exact Hy|reflexivity].
  - intros y Hy. cbn in Hy |- *. rewrite mem_add, Hy. apply orb_true_r.
Qed.
Lemma KW_write_garr s x v : KW s (note_wr x (set_garrs s (update x v (garrs s)))).
Proof.
  destruct s; cbn. split; [reflexivity|]. split; [apply update_keys2|]. split.
  - intros y Hy. cbn in Hy. rewrite mem_add in Hy. apply orb_false_iff in Hy. destruct Hy as [Hy _]. apply String.eqb_neq in Hy.
    split; [reflexivity|apply assoc_update_other; exact Hy].
  - intros y Hy. cbn in Hy |- *. rewrite mem_add, Hy. apply orb_true_r.
Qed.

Lemma QE_write_elem av a i n s : QE (write_elem av a i n s) s.
Proof.
  unfold write_elem. destruct av; try exact I. destruct (assoc a0 (garrs s)); [|exact I].
  destruct ((0 <=? i) && (i <? alen a1)); [|exact I]. split; [destruct s; reflexivity|apply KW_write_garr].
Qed.
Lemma QX_assign ge x n s : QX (assign ge x n s) s.
Proof.
  unfold assign. destruct (stk s) as [|fr rest] eqn:Es; [exact I|].
  destruct (assoc x (f_vars fr)) as [[| | |]|]; try exact I.
  - split; [destruct s; cbn in *; rewrite Es; reflexivity|destruct s; cbn; repeat split; auto].
  - split; [destruct s; cbn in *; rewrite Es; reflexivity|destruct s; cbn; repeat split; auto].
  - destruct (assoc x (f_vals fr)); [exact I|]. destruct (assoc x (g_vals ge)); [exact I|].
    destruct (assoc x (gvars s)); [|exact I]. split; [destruct s; reflexivity|apply KW_write_gvar].
Qed.
Lemma QE_do_sys n vs b s : QE (do_sys n vs b s) s.
Proof.
  unfold do_sys. destruct n as [|p|p]; [| |exact I].
  - destruct vs; [exact I|]. apply QE_int_of. intros; exact I.
  - destruct p as [p|p|]; [exact I| |].
    + destruct p as [p|p|]; [exact I|exact I|]. destruct vs; [exact I|]. apply QE_int_of. intros n.
      destruct (n <? 256); [|exact I]. destruct (input s); (split; [destruct s; reflexivity|destruct s; cbn; repeat split; auto]).
    + destruct vs as [|b0 [|st ?]]; try exact I. apply QE_int_of. intros bz. apply QE_int_of. intros sz. destruct b; [exact I|].
      split; [destruct s; reflexivity|destruct s; cbn; repeat split; auto].
Qed.

Section Bodies.
  Variables (ge : genv)
            (ev : expr -> state -> res value)
            (evs : list expr -> state -> res (list (value * eff)))
            (ex : stmt -> state -> res flow)
            (exs : list stmt -> state -> res flow).
  Hypothesis Hev : forall e s, QE (ev e s) s.
  Hypothesis Hevs : forall es s, QE (evs es s) s.
  Hypothesis Hex : forall st s, QX (ex st s) s.
  Hypothesis Hexs : forall ss s, QX (exs ss s) s.

  Lemma QE_evals_body es s : QE (evals_body ev evs es s) s.
  Proof.
    destruct es as [|e r]; [apply QE_ret|]. unfold evals_body.
    assert (H := QE_with_eff (ev e) s (Hev e _)).
    destruct (with_eff (ev e) s) as [ve s1|c s1|u]; cbn [rcase] in *; try exact I.
    - specialize (Hevs r s1). destruct (evs r s1) as [l s2|c s2|u]; cbn [rcase] in *; try exact I.
      + destruct H as [E1 K1], Hevs as [E2 K2]. split; [congruence|eapply KW_trans; eauto].
      + destruct (e_io (snd ve)); exact I.
    - destruct (forallb harmless r); exact I.
  Qed.
  Lemma QE_operands es s : QE (operands evs es s) s.
  Proof. unfold operands. apply QE_bind; [apply Hevs|]. intros l s1. destruct (conflicts (map snd l)); [exact I|apply QE_ret]. Qed.

  Lemma QE_invoke w f vs s : QE (invoke ex ge w f vs s) s.
  Proof.
    unfold invoke. destruct (find_proc f (g_procs ge)) as [p|]; [|exact I].
    destruct (negb (Bool.eqb (is_func p) w)); [exact I|]. destruct (enter ge p vs s) as [u|fr]; [exact I|].
    apply QE_tick. intros s0 Hstk0 K0.
    specialize (Hex (body p) (set_stk s0 (fr :: stk s0))).
    destruct (ex (body p) (set_stk s0 (fr :: stk s0))) as [fl s2|c s2|u]; cbn [bind rcase]; try exact I.
    destruct Hex as [Etl K2].
    assert (Hpop : QE (Ret tt (pop s2)) s0).
    { split.
      - unfold pop. destruct s2, s0; cbn in *. destruct stk; cbn in *; exact Etl.
      - destruct K2 as (A & B & C & D). unfold pop. destruct s2, s0; cbn in *. repeat split; auto; apply C; assumption. }
    destruct fl; destruct w; try exact I; try exact Hpop. destruct v; try exact I. exact Hpop.
  Qed.

  Ltac qe :=
    repeat first
      [ exact I | apply QE_ret
      | apply Hev | apply Hevs
      | apply QE_read_var | apply QE_resolve_array | apply QE_read_elem | apply QE_write_elem | apply QE_do_sys
      | apply QE_operands | apply QE_invoke
      | apply QE_bind; [ | intros ]
      | apply QE_int_of; intros
      | apply QE_bool_of; intros
      | match goal with
        | |- QE (match ?x with _ => _ end) _ => destruct x
        | |- QE (if ?x then _ else _) _ => destruct x
        end ].
  Lemma QE_eval_body e s : QE (eval_body ev evs ex ge e s) s.
  Proof. destruct e as [n|b|bs|x|a i|f args|n args|o a|o l r]; cbn [eval_body]; solve [qe]. Qed.

  Ltac qx :=
    repeat first
      [ exact I | apply QX_ret
      | apply Hex | apply Hexs | apply QX_assign
      | apply QE_QX; apply QE_write_elem
      | apply QX_bind; [ apply Hex | intros ]
      | apply QX_bindE; [ first [apply Hev | apply QE_resolve_array | apply QE_operands | apply QE_do_sys | apply QE_invoke] | intros ]
      | apply QX_int_of; intros
      | apply QX_bool_of; intros
      | match goal with
        | |- QX (match ?x with _ => _ end) _ => destruct x
        | |- QX (if ?x then _ else _) _ => destruct x
        end ].
  Lemma QX_exec_body st s : QX (exec_body ev evs ex exs ge st s) s.
  Proof. unfold exec_body. apply QX_tick. intros s0 _ _. destruct st; solve [qx]. Qed.
  Lemma QX_execs_body ss s : QX (execs_body ex exs ss s) s.
  Proof. destruct ss as [|st r]; cbn [execs_body]; qx. Qed.
End Bodies.

Lemma wsound_all ge : forall f,
  (forall e s, QE (eval f ge e s) s) /\ (forall es s, QE (evals f ge es s) s) /\
  (forall st s, QX (exec f ge st s) s) /\ (forall ss s, QX (execs f ge ss s) s).
Proof.
  induction f as [|f (H1 & H2 & H3 & H4)]; [repeat split; intros; exact I|].
  repeat split; intros.
  - apply (QE_eval_body ge (eval f ge) (evals f ge) (exec f ge) H1 H2 H3).
  - apply (QE_evals_body (eval f ge) (evals f ge) H1 H2).
  - apply (QX_exec_body ge (eval f ge) (evals f ge) (exec f ge) (execs f ge) H1 H2 H3 H4).
  - apply (QX_execs_body (exec f ge) (execs f ge) H3 H4).
Qed.

(* ------------------------------------------------------------------ call-free expressions depend only on what they read: rsound_all *)
(* ------------------------------------------------------------------ footprints are sound for reads: a call-free expression has the
   same value, and records the same footprint, in any state that agrees on the current frame, on the sets of global
   names and on the globals it records as read *)
Definition AG (R : list string) (s t : state) : Prop :=
  top s = top t /\ map fst (gvars s) = map fst (gvars t) /\ map fst (garrs s) = map fst (garrs t) /\
  forall x, mem_str x R = true -> assoc x (gvars s) = assoc x (gvars t) /\ assoc x (garrs s) = assoc x (garrs t).
Definition sim0 (s t : state) : Prop := set_cur s eff0 = set_cur t eff0.
Definition RD3 {A : Type} (r : res A) (s : state) (r' : res A) (t : state) : Prop :=
  match r with
  | Ret a s' =>
      sim0 s' s /\ (forall x, mem_str x (e_rd (cur s)) = true -> mem_str x (e_rd (cur s')) = true) /\
      (AG (e_rd (cur s')) s t -> cur t = cur s -> exists t', r' = Ret a t' /\ cur t' = cur s' /\ sim0 t' t)
  | _ => True
  end.

Lemma AG_transfer R s t s1 t1 : sim0 s1 s -> sim0 t1 t -> AG R s t -> AG R s1 t1.
Proof.
  unfold sim0, AG. intros H1 H2. destruct s, t, s1, t1; cbn in *. inversion H1; inversion H2; subst. auto.
Qed.
Lemma AG_mono R R' s t : (forall x, mem_str x R = true -> mem_str x R' = true) -> AG R' s t -> AG R s t.
Proof. intros H (A & B & C & D). repeat split; auto; apply D; apply H; assumption. Qed.
Lemma sim0_refl s : sim0 s s. Proof. reflexivity. Qed.
Lemma sim0_trans a b c : sim0 a b -> sim0 b c -> sim0 a c. Proof. unfold sim0; congruence. Qed.

Lemma RD3_ret {A} (a : A) s t : RD3 (Ret a s) s (Ret a t) t.
Proof. split; [reflexivity|]. split; [auto|]. intros _ Hc. exists t. auto using sim0_refl. Qed.
Lemma RD3_fail {A} u s (r' : res A) t : RD3 (Fail u) s r' t. Proof. exact I. Qed.

Lemma RD3_bind {A B} (r r' : res A) (k : A -> state -> res B) s t :
  RD3 r s r' t -> (forall a s1 t1, RD3 (k a s1) s1 (k a t1) t1) -> RD3 (bind r k) s (bind r' k) t.
Proof.
  intros H1 H2. destruct r as [a s1|c s1|u]; cbn [bind rcase]; try exact I.
  destruct H1 as (S1 & M1 & I1). unfold RD3.
  destruct (k a s1) as [b s2|c s2|u] eqn:Ek; try exact I.
  assert (Hk := fun t1 => H2 a s1 t1). 
  pose proof (Hk s1) as Hself. rewrite Ek in Hself. destruct Hself as (S2 & M2 & _).
  split; [eapply sim0_trans; eauto|]. split; [intros x Hx; apply M2; apply M1; exact Hx|].
  intros Hag Hc.
  destruct (I1 (AG_mono _ _ s t M2 Hag) Hc) as (t1 & Er' & Hc1 & St1). subst r'. cbn [bind rcase].
  specialize (Hk t1). rewrite Ek in Hk. destruct Hk as (_ & _ & I2).
  destruct (I2 (AG_transfer _ s t s1 t1 S1 St1 Hag) Hc1) as (t2 & E2 & Hc2 & St2).
  exists t2. split; [exact E2|]. split; [exact Hc2|eapply sim0_trans; eauto].
Qed.
Lemma RD3_int_of {B} v (k : Z -> res B) (k' : Z -> res B) s t : (forall n, RD3 (k n) s (k' n) t) -> RD3 (int_of v k) s (int_of v k') t.
Proof. intros H. destruct v; cbn; try exact I. apply H. Qed.
Lemma RD3_bool_of {B} v (k k' : bool -> res B) s t : (forall b, RD3 (k b) s (k' b) t) -> RD3 (bool_of v k) s (bool_of v k') t.
Proof. intros H. unfold bool_of. apply RD3_int_of. intros n. destruct (n =? 0); [apply H|]. destruct (n =? 1); [apply H|exact I]. Qed.

Lemma assoc_none_keys0 {A} x (l : list (string * A)) : assoc x l = None <-> ~ In x (map fst l).
Proof.
  induction l as [|[y v] r IH]; cbn [assoc map fst In]; [tauto|].
  destruct (String.eqb_spec x y); [split; [discriminate|intros H; exfalso; apply H; left; congruence]|].
  rewrite IH. split; [intros H [E|E]; [congruence|exact (H E)]|tauto].
Qed.
Lemma keys_none {A B} x (l : list (string * A)) (l' : list (string * B)) : map fst l = map fst l' -> assoc x l = None -> assoc x l' = None.
Proof. intros H H0. apply assoc_none_keys0. rewrite <- H. apply assoc_none_keys0. exact H0. Qed.
Lemma keys_some {A B} x (l : list (string * A)) (l' : list (string * B)) v : map fst l = map fst l' -> assoc x l = Some v -> exists v', assoc x l' = Some v'.
Proof.
  intros H H0. destruct (assoc x l') eqn:E; [eauto|]. exfalso.
  pose proof (keys_none x l' l (eq_sym H) E). congruence.
Qed.

Lemma RD3_note_rd {A} (a : A) x s t :
  RD3 (Ret a (note_rd x s)) s (Ret a (note_rd x t)) t.
Proof.
  split; [destruct s; reflexivity|]. split; [intros y Hy; destruct s; cbn in *; rewrite mem_add, Hy; apply orb_true_r|].
  intros _ Hc. exists (note_rd x t). split; [reflexivity|]. split; [destruct s, t; cbn in *; subst; reflexivity|destruct t; reflexivity].
Qed.

Ltac rd_same_state Hc t := split; [reflexivity|]; split; [auto|]; intros (Ht & Hk1 & Hk2 & Hv) Hc; exists t; split; [|split; [exact Hc|reflexivity]].

Lemma RD3_read_var ge x s t : RD3 (read_var ge x s) s (read_var ge x t) t.
Proof.
  unfold read_var.
  destruct (assoc x (f_vars (top s))) as [[| | |]|] eqn:E1; try exact I;
    try (rd_same_state Hc t; rewrite <- Ht, E1; reflexivity).
  destruct (assoc x (f_vals (top s))) eqn:E2; [rd_same_state Hc t; rewrite <- Ht, E1, E2; reflexivity|].
  destruct (assoc x (g_vals ge)) eqn:E3; [rd_same_state Hc t; rewrite <- Ht, E1, E2, ?E3; reflexivity|].
  destruct (assoc x (gvars s)) as [v|] eqn:E4.
  - destruct v; try exact I;
      (split; [destruct s; reflexivity|]; split; [intros y Hy; destruct s; cbn in *; rewrite mem_add, Hy; apply orb_true_r|];
       intros (Ht & Hk1 & Hk2 & Hv) Hc; eexists (note_rd x t);
       assert (Hx : mem_str x (e_rd (cur (note_rd x s))) = true) by (destruct s; cbn; apply mem_add_self);
       destruct (Hv x Hx) as [Hg _]; rewrite <- Ht, E1, E2, ?E3, <- Hg, E4;
       split; [reflexivity|split; [destruct s, t; cbn in *; subst; reflexivity|destruct t; reflexivity]]).
  - destruct (assoc x (garrs s)) eqn:E5; [|exact I]. rd_same_state Hc t.
    rewrite <- Ht, E1, E2, ?E3, (keys_none x _ _ Hk1 E4). destruct (keys_some x _ _ _ Hk2 E5) as [v' Ev']. rewrite Ev'. reflexivity.
Qed.

Lemma RD3_resolve_array ge a s t : RD3 (resolve_array ge a s) s (resolve_array ge a t) t.
Proof.
  unfold resolve_array.
  destruct (assoc a (f_vars (top s))) as [[| | |]|] eqn:E1; try exact I; try (rd_same_state Hc t; rewrite <- Ht, E1; reflexivity).
  destruct (assoc a (f_vals (top s))) eqn:E2; [exact I|].
  destruct (assoc a (garrs s)) eqn:E5; [|exact I]. rd_same_state Hc t.
  rewrite <- Ht, E1, E2. destruct (keys_some a _ _ _ Hk2 E5) as [v' Ev']. rewrite Ev'. reflexivity.
Qed.

Lemma RD3_read_elem av a i s t : RD3 (read_elem av a i s) s (read_elem av a i t) t.
Proof.
  unfold read_elem. destruct av; try exact I.
  - destruct (assoc a0 (garrs s)) as [ar|] eqn:E1; [|exact I].
    destruct ((0 <=? i) && (i <? alen ar)) eqn:E2; [|exact I].
    destruct (PositiveMap.find (cell i) (acells ar)) as [[| | |]|] eqn:E3; try exact I.
    split; [destruct s; reflexivity|]. split; [intros y Hy; destruct s; cbn in *; rewrite mem_add, Hy; apply orb_true_r|].
    intros (Ht & Hk1 & Hk2 & Hv) Hc. exists (note_rd a0 t).
    assert (Hx : mem_str a0 (e_rd (cur (note_rd a0 s))) = true) by (destruct s; cbn; apply mem_add_self).
    destruct (Hv a0 Hx) as [_ Hg]. rewrite <- Hg, E1, E2, E3.
    split; [reflexivity|split; [destruct s, t; cbn in *; subst; reflexivity|destruct t; reflexivity]].
  - destruct ((0 <=? i) && (i <? Z.of_nat (Datatypes.length ws))); [|exact I]. rd_same_state Hc t. reflexivity.
Qed.

Lemma AG_set_cur R s t c c' : AG R s t -> AG R (set_cur s c) (set_cur t c').
Proof. intros H. eapply AG_transfer; [| |exact H]; unfold sim0; apply same_set_cur. Qed.

Lemma RD3_with_eff {A} (m : state -> res A) s t :
  RD3 (m (set_cur s eff0)) (set_cur s eff0) (m (set_cur t eff0)) (set_cur t eff0) ->
  RD3 (with_eff m s) s (with_eff m t) t.
Proof.
  intros H. unfold with_eff. destruct (m (set_cur s eff0)) as [a s'|c s'|u]; cbn [rcase]; try exact I.
  destruct H as (S1 & M1 & I1). unfold RD3.
  assert (CS : forall x k, cur (set_cur x k) = k) by (intros x k; destruct x; reflexivity).
  split; [unfold sim0 in *; rewrite same_set_cur, S1; apply same_set_cur|].
  split; [intros x Hx; rewrite CS; cbn; rewrite mem_union, Hx; reflexivity|].
  intros Hag Hc. rewrite CS in Hag.
  destruct I1 as (t' & Et & Hc' & St').
  - apply AG_set_cur. eapply AG_mono; [|exact Hag]. intros x Hx. cbn. rewrite mem_union, Hx. apply orb_true_r.
  - rewrite !CS. reflexivity.
  - rewrite Et. cbn [rcase]. rewrite Hc'. eexists. split; [reflexivity|]. split; [rewrite !CS, Hc; reflexivity|].
    unfold sim0 in *. rewrite same_set_cur, St'. apply same_set_cur.
Qed.

Section Bodies.
  Variables (ge : genv)
            (ev : expr -> state -> res value)
            (evs : list expr -> state -> res (list (value * eff)))
            (ex : stmt -> state -> res flow).
  Hypothesis Hev : forall e s t, call_free e = true -> RD3 (ev e s) s (ev e t) t.
  Hypothesis Hevs : forall es s t, forallb call_free es = true -> RD3 (evs es s) s (evs es t) t.
  Hypothesis Pev : forall e s, call_free e = true -> PU (ev e s) s.

  Lemma RD3_evals_body es s t : forallb call_free es = true -> RD3 (evals_body ev evs es s) s (evals_body ev evs es t) t.
  Proof.
    destruct es as [|e r]; [intros _; apply RD3_ret|]. cbn [forallb]. intros H. apply andb_true_iff in H. destruct H as [He Hr].
    unfold evals_body.
    pose proof (RD3_with_eff (ev e) s t (Hev e _ _ He)) as Hw.
    pose proof (PU_with_eff (ev e) s (Pev e _ He)) as Pw.
    destruct (with_eff (ev e) s) as [ve s1|c s1|u] eqn:Ew; cbn [rcase]; try exact I; [|contradiction].
    destruct Hw as (S1 & M1 & I1). unfold RD3.
    destruct (evs r s1) as [l s2|c s2|u] eqn:Er; cbn [rcase]; try exact I.
    - pose proof (Hevs r s1 s1 Hr) as Hself. rewrite Er in Hself. destruct Hself as (S2 & M2 & _).
      split; [eapply sim0_trans; eauto|]. split; [intros x Hx; apply M2; apply M1; exact Hx|].
      intros Hag Hc. destruct (I1 (AG_mono _ _ s t M2 Hag) Hc) as (t1 & Et & Hc1 & St1). rewrite Et. cbn [rcase].
      pose proof (Hevs r s1 t1 Hr) as H2. rewrite Er in H2. destruct H2 as (_ & _ & I2).
      destruct (I2 (AG_transfer _ s t s1 t1 S1 St1 Hag) Hc1) as (t2 & E2 & Hc2 & St2). rewrite E2. cbn [rcase].
      exists t2. split; [reflexivity|]. split; [exact Hc2|eapply sim0_trans; eauto].
    - destruct (e_io (snd ve)); exact I.
  Qed.
  Lemma RD3_operands es s t : forallb call_free es = true -> RD3 (operands evs es s) s (operands evs es t) t.
  Proof.
    intros H. unfold operands. apply RD3_bind; [apply Hevs; exact H|]. intros l s1 t1.
    destruct (conflicts (map snd l)); [exact I|apply RD3_ret].
  Qed.

  Lemma RD3_eval_body e s t : call_free e = true -> RD3 (eval_body ev evs ex ge e s) s (eval_body ev evs ex ge e t) t.
  Proof.
    destruct e as [n|b|bs|x|a i|f args|n args|o a|o l r]; cbn [eval_body call_free]; intros H; try discriminate.
    - apply RD3_ret.
    - apply RD3_ret.
    - destruct (pack_string bs); [apply RD3_ret|exact I].
    - apply RD3_read_var.
    - apply RD3_bind; [apply RD3_resolve_array|]. intros av s0 t0. apply RD3_bind; [apply Hev; exact H|]. intros iv s1 t1.
      apply RD3_int_of. intros n. apply RD3_read_elem.
    - destruct o.
      + apply RD3_bind; [apply Hev; exact H|]. intros v s1 t1. apply RD3_int_of. intros n. destruct (in_int (0 - n)); [apply RD3_ret|exact I].
      + apply RD3_bind; [apply Hev; exact H|]. intros v s1 t1. apply RD3_bool_of. intros b. apply RD3_ret.
    - apply andb_true_iff in H. destruct H as [Hl Hr].
      assert (Hops : RD3 (bind (operands evs [l; r] s) (fun vs s1 =>
                 match vs with
                 | [a; b] => int_of a (fun x => int_of b (fun y => match binop_ans o x y with inr z => Ret (Vint z) s1 | inl u => Fail u end))
                 | _ => Fail (Unsupported "internal: operands")
                 end)) s (bind (operands evs [l; r] t) (fun vs s1 =>
                 match vs with
                 | [a; b] => int_of a (fun x => int_of b (fun y => match binop_ans o x y with inr z => Ret (Vint z) s1 | inl u => Fail u end))
                 | _ => Fail (Unsupported "internal: operands")
                 end)) t).
      { apply RD3_bind; [apply RD3_operands; cbn; rewrite Hl, Hr; reflexivity|]. intros vs s1 t1.
        destruct vs as [|a [|b [|]]]; try exact I. apply RD3_int_of. intros x. apply RD3_int_of. intros y.
        destruct (binop_ans o x y); [exact I|apply RD3_ret]. }
      destruct o; try exact Hops.
      + apply RD3_bind; [apply Hev; exact Hl|]. intros v s1 t1. apply RD3_bool_of. intros b. destruct b; [apply RD3_ret|].
        apply RD3_bind; [apply Hev; exact Hr|]. intros w s2 t2. apply RD3_bool_of. intros c. apply RD3_ret.
      + apply RD3_bind; [apply Hev; exact Hl|]. intros v s1 t1. apply RD3_bool_of. intros b. destruct b; [|apply RD3_ret].
        apply RD3_bind; [apply Hev; exact Hr|]. intros w s2 t2. apply RD3_bool_of. intros c. apply RD3_ret.
  Qed.
End Bodies.

Lemma rsound_all ge : forall f,
  (forall e s t, call_free e = true -> RD3 (eval f ge e s) s (eval f ge e t) t) /\
  (forall es s t, forallb call_free es = true -> RD3 (evals f ge es s) s (evals f ge es t) t).
Proof.
  induction f as [|f (H1 & H2)]; [split; intros; exact I|].
  split; intros.
  - apply (RD3_eval_body ge (eval f ge) (evals f ge) (exec f ge) H1 H2). assumption.
  - apply (RD3_evals_body (eval f ge) (evals f ge) H1 H2 (proj1 (pure_all ge f))). assumption.
Qed.

Section Swap.
  Variables ge ge' : genv.

  Lemma SWAP_step f : SE ge ge' f -> SWAP ge ge' (S f).
  Proof.
    intros HE F E l r l' r' s t HF Hl Hr Hsl Hsr Hsw Hrng Hfi Hst Ho.
    destruct f as [|[|f2]]; try (exfalso; revert Ho; apply operands_small; lia).
    destruct F as [|[|[|F3]]]; try lia. assert (HF3 : (S (S f2) * 4 <= S F3)%nat) by lia.
    assert (HF2 : (S (S f2) * 4 <= S (S F3))%nat) by lia.
    rewrite operands2 in Ho. unfold sim in *. rewrite !operands2.
    set (f := S (S f2)) in *.
    assert (Ht0 : set_cur t eff0 = set_cur s eff0) by (symmetry; apply st_eq_start; exact Hst).
    set (s0 := set_cur s eff0) in *.
    assert (Hfi0 : frame_inv ge E (top s0)) by exact Hfi.
    assert (Hcs : eff_eq (cur s) (cur t)) by apply Hst.
    rewrite Ht0. fold s0.
    (* the simulation of each operand from the common start state s0 *)
    assert (SL : forall F', (f * 4 <= F')%nat -> sim eq (eval f ge l s0) (eval F' ge' (T l') s0)).
    { intros F' HF'. apply (HE F' E l l' s0 s0); try assumption. apply st_eq_refl. }
    assert (SR : forall F', (f * 4 <= F')%nat -> forall rr, eval (S f2) ge r s0 = rr -> ok rr -> res_eq eq rr (eval F' ge' (T r') s0)).
    { intros F' HF' rr Hrr Horr. pose proof (lift_eval (S f2) f ge r s0 rr Hrr Horr ltac:(unfold f; lia)) as Hup.
      rewrite <- Hup. apply (HE F' E r r' s0 s0); try assumption; [apply st_eq_refl|rewrite Hup; exact Horr]. }
    unfold swap_ok in Hsw. apply orb_true_iff in Hsw. destruct Hsw as [Hsw|HD]; [apply orb_true_iff in Hsw; destruct Hsw as [Hsw|Hcf]; [apply orb_true_iff in Hsw; destruct Hsw as [HA|HB]|]|].
    - (* the left operand is a literal-like constant *)
      unfold lit_like in HA. destruct (const_of l') as [cl|] eqn:Ecl; [|discriminate]. fold (T l') in HA.
      destruct (const_eval ge E Hrng l l' cl Hl Ecl) as [Hcl CLl].
      destruct (eval f ge l s0) as [vl sl|c sl|u] eqn:El; [| |exfalso; exact Ho].
      + destruct (CLl f s0 _ Hfi0 El I) as [Hv Hsl0]. subst vl.
        assert (E1 : set_cur (set_cur sl (eff_union (cur s) (cur sl))) eff0 = s0).
        { rewrite same_set_cur. rewrite (st_eq_start sl s0 Hsl0). apply same_set_cur. }
        cbv zeta in *. rewrite E1 in *.
        assert (Fl0 : eff_eq (cur sl) eff0) by (destruct Hsl0 as [_ X]; unfold s0 in X; rewrite cur_set_cur in X; exact X).
        destruct (eval (S f2) ge r s0) as [vr sr|c sr|u] eqn:Er; [| |exfalso; exact Ho].
        * pose proof (SR (S (S F3)) HF2 _ eq_refl I) as Hrr.
          destruct (eval (S (S F3)) ge' (T r') s0) as [vr' tr|c tr|u]; cbn in Hrr; try contradiction. destruct Hrr as [Hv Hsrtr]. subst vr'.
          rewrite (T_const ge' E l l' cl Hl Ecl HA Hcl F3). rewrite !conflicts2 in *. rewrite ?cur_set_cur in *.
          rewrite conflict_eff0_r. rewrite (conflict_eq _ eff0 _ (cur sr) Fl0 (eff_eq_refl _)), conflict_eff0_l in *.
          cbn. split; [exists (Vint cl), vr; auto|]. rewrite ?cur_set_cur.
          apply st_eq_set_cur.
          -- rewrite !same_set_cur. apply st_eq_start. exact Hsrtr.
          -- eapply eff_eq_trans; [|apply eff_eq_sym; apply eff_union_eff0].
             apply eff_union_eq; [|apply Hsrtr]. eapply eff_eq_trans; [apply eff_eq_union_l0; exact Fl0|exact Hcs].
        * destruct Fl0 as (_ & _ & Fio). rewrite Fio in *. cbn [e_io eff0] in *.
          pose proof (SR (S (S F3)) HF2 _ eq_refl I) as Hrr.
          destruct (eval (S (S F3)) ge' (T r') s0) as [vr' tr|c' tr|u]; cbn in Hrr; try contradiction.
          rewrite HA. exact Hrr.
      + pose proof (CLl f s0 _ Hfi0 El I) as Hx. cbn in Hx. contradiction.
    - (* the right operand is a literal-like constant *)
      unfold lit_like in HB. destruct (const_of r') as [cr|] eqn:Ecr; [|discriminate]. fold (T r') in HB.
      destruct (const_eval ge E Hrng r r' cr Hr Ecr) as [Hcr CLr].
      rewrite (T_const ge' E r r' cr Hr Ecr HB Hcr (S F3)). cbv zeta. rewrite ?cur_set_cur, ?same_set_cur.
      assert (Hs00 : set_cur s0 eff0 = s0) by (unfold s0; apply same_set_cur).
      assert (Hc0 : cur s0 = eff0) by (unfold s0; apply cur_set_cur).
      rewrite ?Hs00, ?Hc0.
      destruct (eval f ge l s0) as [vl sl|c sl|u] eqn:El; [| |exfalso; exact Ho].
      + pose proof (SL (S F3) HF3 I) as Hll.
        destruct (eval (S F3) ge' (T l') s0) as [vl' tl|c tl|u]; cbn in Hll; try contradiction. destruct Hll as [Hv Hsltl]. subst vl'.
        cbv zeta in Ho.
        set (s1 := set_cur sl (eff_union (cur s) (cur sl))) in *.
        assert (Hfi1 : frame_inv ge E (top (set_cur s1 eff0))).
        { unfold s1. rewrite !top_set_cur. eapply frame_inv_ret; [exact El|exact Hfi0]. }
        destruct (eval (S f2) ge r (set_cur s1 eff0)) as [vr sr|c sr|u] eqn:Er; [| |exfalso; exact Ho].
        * destruct (CLr (S f2) _ _ Hfi1 Er I) as [Hv Hsr1]. subst vr.
          assert (Fr0 : eff_eq (cur sr) eff0) by (destruct Hsr1 as [_ X]; rewrite cur_set_cur in X; exact X).
          rewrite !conflicts2 in *. rewrite conflict_eff0_l.
          rewrite (conflict_eq _ (cur sl) _ eff0 (eff_eq_refl _) Fr0), conflict_eff0_r in Ho |- *.
          cbn. split; [exists vl, (Vint cr); auto|].
          apply st_eq_set_cur.
          -- rewrite (st_eq_start sr _ Hsr1). rewrite same_set_cur. unfold s1. rewrite same_set_cur. apply st_eq_start. exact Hsltl.
          -- unfold s1. rewrite ?cur_set_cur.
             eapply eff_eq_trans; [apply eff_eq_union_l0; exact Fr0|].
             apply eff_eq_sym. eapply eff_eq_trans; [apply eff_union_eq; [apply eff_union_eff0|apply eff_eq_refl]|].
             apply eff_eq_sym. apply eff_union_eq; [exact Hcs|apply Hsltl].
        * pose proof (CLr (S f2) _ _ Hfi1 Er I) as Hx. cbn in Hx. contradiction.
      + pose proof (SL (S F3) HF3 I) as Hll.
        destruct (eval (S F3) ge' (T l') s0) as [vl' tl|c' tl|u]; cbn in Hll; try contradiction.
        cbn [e_io eff0]. destruct (harmless r); [exact Hll|exfalso; exact Ho].
    - (* both operands are call-free *)
      apply andb_true_iff in Hcf. destruct Hcf as [Hcl Hcr].
      assert (Hs00 : set_cur s0 eff0 = s0) by (unfold s0; apply same_set_cur).
      pose proof (proj1 (pure_all ge f) l s0 (call_free_cp E l l' Hl Hcl)) as PUl.
      destruct (eval f ge l s0) as [vl sl|c sl|u] eqn:El; [|contradiction|exfalso; exact Ho].
      destruct PUl as [El0 Wl]. rewrite Hs00 in El0.
      assert (E1 : set_cur (set_cur sl (eff_union (cur s) (cur sl))) eff0 = s0) by (rewrite same_set_cur; exact El0).
      cbv zeta in *. rewrite E1 in *.
      pose proof (proj1 (pure_all ge (S f2)) r s0 (call_free_cp E r r' Hr Hcr)) as PUr.
      destruct (eval (S f2) ge r s0) as [vr sr|c sr|u] eqn:Er; [|contradiction|exfalso; exact Ho].
      destruct PUr as [Er0 Wr]. rewrite Hs00 in Er0.
      pose proof (SR (S (S F3)) HF2 _ eq_refl I) as Hrr.
      destruct (eval (S (S F3)) ge' (T r') s0) as [vr' tr|c tr|u]; cbn in Hrr; try contradiction. destruct Hrr as [Hv Hsrtr]. subst vr'.
      assert (E2 : set_cur (set_cur tr (eff_union (cur t) (cur tr))) eff0 = s0).
      { rewrite same_set_cur. rewrite <- (st_eq_start sr tr Hsrtr). exact Er0. }
      rewrite E2.
      pose proof (SL (S F3) HF3 I) as Hll.
      destruct (eval (S F3) ge' (T l') s0) as [vl' tl|c tl|u]; cbn in Hll; try contradiction. destruct Hll as [Hv Hsltl]. subst vl'.
      rewrite !conflicts2 in *.
      rewrite (conflict_eq (cur tr) (cur sr) (cur tl) (cur sl) (eff_eq_sym _ _ (proj2 Hsrtr)) (eff_eq_sym _ _ (proj2 Hsltl))).
      rewrite (conflict_sym (cur sr) (cur sl)).
      destruct (conflict (cur sl) (cur sr)); [exfalso; exact Ho|].
      cbn. split; [exists vl, vr; auto|]. rewrite ?cur_set_cur.
      apply st_eq_set_cur.
      + rewrite Er0. rewrite <- (st_eq_start sl tl Hsltl). symmetry. exact El0.
      + eapply eff_eq_trans; [apply eff_union_assoc_swap|].
        apply eff_union_eq; [apply eff_union_eq; [exact Hcs|apply Hsrtr]|apply Hsltl].
    - (* the right operand is call-free: its value and footprint are the same before and after the left operand *)
      apply andb_true_iff in HD. destruct HD as [Hcr Hns].
      assert (Hs00 : set_cur s0 eff0 = s0) by (unfold s0; apply same_set_cur).
      assert (Hc0 : cur s0 = eff0) by (unfold s0; apply cur_set_cur).
      pose proof (call_free_cp E r r' Hr Hcr) as Hcfr.
      pose proof (proj1 (wsound_all ge f) l s0) as Wl.
      destruct (eval f ge l s0) as [vl sl|c sl|u] eqn:El; [| |exfalso; exact Ho].
      + destruct Wl as [Estk (K1 & K2 & K3 & K4)]. cbv zeta in *.
        set (sA := set_cur (set_cur sl (eff_union (cur s) (cur sl))) eff0) in *.
        assert (EsA : sA = set_cur sl eff0) by (unfold sA; apply same_set_cur).
        pose proof (proj1 (pure_all ge (S f2)) r sA Hcfr) as PUr.
        pose proof (proj1 (rsound_all ge (S f2)) r sA s0 Hcfr) as RDr.
        destruct (eval (S f2) ge r sA) as [vr sr|c sr|u] eqn:Er; [|contradiction|exfalso; exact Ho].
        destruct PUr as [Er0 Wr]. destruct RDr as (_ & _ & RDr).
        rewrite conflicts2 in Ho. destruct (conflict (cur sl) (cur sr)) eqn:Ecf; [exfalso; exact Ho|].
        assert (Hnw : forall x, mem_str x (e_rd (cur sr)) = true -> mem_str x (e_wr (cur sl)) = false).
        { intros x Hx. destruct (mem_str x (e_wr (cur sl))) eqn:Ew; [|reflexivity]. exfalso.
          unfold conflict in Ecf. apply orb_false_iff in Ecf. destruct Ecf as [Ecf _]. apply orb_false_iff in Ecf. destruct Ecf as [Ecf _].
          apply orb_false_iff in Ecf. destruct Ecf as [Ecf _].
          assert (Hi : inter_str (e_wr (cur sl)) (e_rd (cur sr)) = true) by (apply inter_spec; exists x; auto). congruence. }
        destruct RDr as (sr0 & Er0' & Hcr0 & Ssr0).
        { rewrite EsA. split; [|split; [|split]].
          - unfold top. destruct sl, s0; cbn in *. rewrite Estk. reflexivity.
          - destruct sl; cbn. exact K1.
          - destruct sl; cbn. exact K2.
          - intros x Hx. destruct (K3 x (Hnw x Hx)) as [G1 G2]. destruct sl; cbn in *. auto. }
        { rewrite Hc0. unfold sA. rewrite cur_set_cur. reflexivity. }
        pose proof (SR (S (S F3)) HF2 _ Er0' I) as Hrr.
        destruct (eval (S (S F3)) ge' (T r') s0) as [vr' tr|c tr|u]; cbn in Hrr; try contradiction. destruct Hrr as [Hv Hsrtr]. subst vr'.
        assert (E2 : set_cur (set_cur tr (eff_union (cur t) (cur tr))) eff0 = s0).
        { rewrite same_set_cur. rewrite <- (st_eq_start sr0 tr Hsrtr). unfold sim0 in Ssr0. rewrite Ssr0. exact Hs00. }
        rewrite E2.
        pose proof (SL (S F3) HF3 I) as Hll.
        destruct (eval (S F3) ge' (T l') s0) as [vl' tl|c tl|u]; cbn in Hll; try contradiction. destruct Hll as [Hv Hsltl]. subst vl'.
        rewrite !conflicts2. rewrite Ecf.
        rewrite (conflict_eq (cur tr) (cur sr) (cur tl) (cur sl)).
        * rewrite (conflict_sym (cur sr) (cur sl)), Ecf. cbn. split; [exists vl, vr; auto|]. rewrite ?cur_set_cur.
          apply st_eq_set_cur.
          -- rewrite Er0. rewrite EsA, same_set_cur. apply st_eq_start. exact Hsltl.
          -- eapply eff_eq_trans; [apply eff_union_assoc_swap|].
             apply eff_union_eq; [apply eff_union_eq; [exact Hcs|]|apply Hsltl].
             rewrite <- Hcr0. apply Hsrtr.
        * apply eff_eq_sym. rewrite <- Hcr0. apply Hsrtr.
        * apply eff_eq_sym. apply Hsltl.
      + (* the left operand leaves the program: the source is defined only if the right one is a literal *)
        destruct (harmless r) eqn:Eh; [|exfalso; exact Ho].
        assert (Hlit : exists v, forall F x, eval (S F) ge' (T r') x = Ret v x).
        { destruct r; try discriminate; cbn [cp_expr] in Hr; inversion Hr; subst r'; try discriminate; eexists; intros; reflexivity. }
        destruct Hlit as [v Hlit]. rewrite Hlit. cbv zeta. rewrite ?cur_set_cur, ?same_set_cur, ?Hs00, ?Hc0.
        pose proof (SL (S F3) HF3 I) as Hll.
        destruct (eval (S F3) ge' (T l') s0) as [vl' tl|c' tl|u]; cbn in Hll; try contradiction. cbn [e_io eff0]. exact Hll.
  Qed.
End Swap.

Section All.
  Variables ge ge' : genv.
  Hypothesis Hvals : g_vals ge' = g_vals ge.
  Hypothesis PT : forall f q, find_proc f (g_procs ge) = Some q ->
    exists q' E, find_proc f (g_procs ge') = Some q' /\ proc_ok ge ge' q q' E.

  Lemma sim_all : forall f, SE ge ge' f /\ SEs ge ge' f /\ SX ge ge' f /\ SXs ge ge' f /\ SWAP ge ge' f.
  Proof.
    induction f as [|f (H1 & H2 & H3 & H4 & H5)].
    - split; [|split; [|split; [|split]]].
      + intros F E e ae s t _ _ _ _ _ _. apply sim_fail.
      + intros F E es aes s t _ _ _ _ _ _. apply sim_fail.
      + intros F E st ast s t _ _ _ _ _ _. apply sim_fail.
      + intros F E ss asts s t _ _ _ _ _ _. apply sim_fail.
      + intros F E l r l' r' s t _ _ _ _ _ _ _ _ _. apply sim_fail.
    - assert (A1 : SE ge ge' (S f)) by (apply SE_step; assumption).
      assert (A2 : SEs ge ge' (S f)) by (apply SEs_step; assumption).
      assert (A4 : SXs ge ge' (S f)) by (apply SXs_step; assumption).
      assert (A3 : SX ge ge' (S f)) by (apply SX_step; assumption).
      assert (A5 : SWAP ge ge' (S f)) by (apply SWAP_step; assumption).
      repeat split; assumption.
  Qed.
End All.

(* ================================================================== whole programs *)
(* ------------------------------------------------------------------ the declaration part *)
Definition TD (d : adecl) : decl := erase_decl (opt_decl d).

Lemma Inv_parts m st scope lkof vals n vv : Inv m st scope lkof vals n vv ->
  env_ok (envE m st scope vv) (lkof vals) /\ all_vals (envE m st scope vv) (lkof vals).
Proof. intros (A & B & _). split; assumption. Qed.

(* XSem.init_globals on the transformed global declarations gives the same constants, variables and arrays *)
Lemma init_globals_replay m st : forall ds vals vars arrs R n vv ads n' vv',
  init_globals ds vals vars arrs = inr R ->
  Inv m st ""%string (fun vs y => assoc y vs) vals n vv -> decl_ids st ""%string (fun _ => True) ds n ->
  cp_decls m st ""%string ds n vv = COk (ads, n', vv') ->
  init_globals (map TD ads) vals vars arrs = inr R.
Proof.
  induction ds as [|d r IH]; intros vals vars arrs R n vv ads n' vv' Hi HI Hid Hcp.
  - cbn in Hcp. inversion Hcp; subst. exact Hi.
  - destruct (Inv_parts _ _ _ _ _ _ _ HI) as [A B].
    destruct d as [x e|x|x e]; cbn [init_globals cp_decls decl_ids] in *.
    + destruct (eval_const (fun y => assoc y vals) e) as [u|z] eqn:Ee; [discriminate|].
      destruct (fold_agrees_xsem _ _ e z A Ee) as (ae & Hae & _ & _ & Hopt).
      destruct (fold_const_xsem _ _ e z A B Ee) as (ae' & Hae' & Hc). fold (envE m st ""%string vv) in Hcp.
      rewrite Hae in Hae'. inversion Hae'; subst ae'. rewrite Hae in Hcp. cbn [cbind] in Hcp. rewrite Hc in Hcp.
      destruct (cp_decls m st ""%string r (S n) ((n, z) :: vv)) as [[[ds' n2] v2]| |] eqn:Er; cbn [cbind] in Hcp; inversion Hcp; subst.
      cbn [map TD opt_decl erase_decl init_globals]. fold (TD). rewrite Hopt.
      destruct Hid as (_ & Hl & Hid).
      eapply IH; [exact Hi| |exact Hid|exact Er].
      apply (Inv_step m st ""%string (fun vs y => assoc y vs) (fun _ => True) (fun x z vs y _ => eq_refl)); auto.
      eapply eval_const_in_range; [|exact Ee]. intros y w Hy. apply (A y w Hy).
    + destruct (cp_decls m st ""%string r n vv) as [[[ds' n2] v2]| |] eqn:Er; cbn [cbind] in Hcp; inversion Hcp; subst.
      cbn [map TD opt_decl erase_decl init_globals]. eapply IH; eauto.
    + destruct (eval_const (fun y => assoc y vals) e) as [u|z] eqn:Ee; [discriminate|].
      destruct (fold_agrees_xsem _ _ e z A Ee) as (ae & Hae & _ & _ & Hopt). fold (envE m st ""%string vv) in Hcp.
      rewrite Hae in Hcp. cbn [cbind] in Hcp.
      destruct (cp_decls m st ""%string r n vv) as [[[ds' n2] v2]| |] eqn:Er; cbn [cbind] in Hcp; inversion Hcp; subst.
      cbn [map TD opt_decl erase_decl init_globals]. rewrite Hopt. destruct (z <? 0); [discriminate|]. eapply IH; eauto.
Qed.

Lemma lk_local_cons names gvals x z vals y : In x names ->
  lk_local names gvals ((x, z) :: vals) y = if String.eqb y x then Some z else lk_local names gvals vals y.
Proof.
  intros Hx. unfold lk_local. cbn [assoc]. destruct (String.eqb_spec y x); [|reflexivity].
  subst. rewrite (proj2 (mem_str_In x names) Hx). reflexivity.
Qed.

(* XSem.local_decls on the transformed local declarations gives the same variables and constants *)
Lemma local_decls_replay m st scope names gvals : forall ds vars vals R n vv ads n' vv',
  local_decls ds names gvals vars vals = inr R ->
  Inv m st scope (lk_local names gvals) vals n vv -> decl_ids st scope (fun x => In x names) ds n ->
  cp_decls m st scope ds n vv = COk (ads, n', vv') ->
  local_decls (map TD ads) names gvals vars vals = inr R.
Proof.
  induction ds as [|d r IH]; intros vars vals R n vv ads n' vv' Hi HI Hid Hcp.
  - cbn in Hcp. inversion Hcp; subst. exact Hi.
  - destruct (Inv_parts _ _ _ _ _ _ _ HI) as [A B].
    destruct d as [x e|x|x e]; cbn [local_decls cp_decls decl_ids] in *.
    + fold (lk_local names gvals vals) in Hi.
      destruct (eval_const (lk_local names gvals vals) e) as [u|z] eqn:Ee; [discriminate|].
      destruct (fold_agrees_xsem _ _ e z A Ee) as (ae & Hae & _ & _ & Hopt).
      destruct (fold_const_xsem _ _ e z A B Ee) as (ae' & Hae' & Hc). fold (envE m st scope vv) in Hcp.
      rewrite Hae in Hae'. inversion Hae'; subst ae'. rewrite Hae in Hcp. cbn [cbind] in Hcp. rewrite Hc in Hcp.
      destruct (cp_decls m st scope r (S n) ((n, z) :: vv)) as [[[ds' n2] v2]| |] eqn:Er; cbn [cbind] in Hcp; inversion Hcp; subst.
      cbn [map TD opt_decl erase_decl local_decls]. fold (lk_local names gvals vals). rewrite Hopt.
      destruct Hid as (Hok & Hl & Hid).
      eapply IH; [exact Hi| |exact Hid|exact Er].
      apply (Inv_step m st scope (lk_local names gvals) (fun x => In x names) (fun x z vs y Hx => lk_local_cons names gvals x z vs y Hx)); auto.
      eapply eval_const_in_range; [|exact Ee]. intros y w Hy. apply (A y w Hy).
    + destruct (cp_decls m st scope r n vv) as [[[ds' n2] v2]| |] eqn:Er; cbn [cbind] in Hcp; inversion Hcp; subst.
      cbn [map TD opt_decl erase_decl local_decls]. eapply IH; eauto.
    + discriminate.
Qed.

Lemma TD_name : forall d, XSem.decl_name (TD d) = match d with ADVal x _ _ => x | ADVar x => x | ADArray x _ => x end.
Proof. destruct d; reflexivity. Qed.
Lemma cp_decls_names m st scope : forall ds n vv ads n' vv', cp_decls m st scope ds n vv = COk (ads, n', vv') ->
  map XSem.decl_name (map TD ads) = map XSem.decl_name ds.
Proof.
  induction ds as [|d r IH]; intros n vv ads n' vv' H; cbn [cp_decls] in H.
  - inversion H; reflexivity.
  - destruct d as [x e|x|x e].
    + destruct (cp_expr _ e) as [e'| |]; cbn [cbind] in H; try discriminate.
      destruct (const_of e').
      * destruct (cp_decls m st scope r (S n) ((n, z) :: vv)) as [[[ds' n2] v2]| |] eqn:Er; cbn [cbind] in H; inversion H; subst. cbn. f_equal. eapply IH; eauto.
      * destruct repo_rejects_nonconst_val; [discriminate|].
        destruct (cp_decls m st scope r (S n) vv) as [[[ds' n2] v2]| |] eqn:Er; cbn [cbind] in H; inversion H; subst. cbn. f_equal. eapply IH; eauto.
    + destruct (cp_decls m st scope r n vv) as [[[ds' n2] v2]| |] eqn:Er; cbn [cbind] in H; inversion H; subst. cbn. f_equal. eapply IH; eauto.
    + destruct (cp_expr _ e) as [e'| |]; cbn [cbind] in H; try discriminate.
      destruct (cp_decls m st scope r n vv) as [[[ds' n2] v2]| |] eqn:Er; cbn [cbind] in H; inversion H; subst. cbn. f_equal. eapply IH; eauto.
Qed.

Lemma constprop_inv m p ap : constprop_program_with m p = COk ap ->
  redefined_proc p = None /\
  exists n' v', cp_decls m (create_symbols p) ""%string (globals p) 0 [] = COk (a_globals ap, n', v') /\
                cp_procs m (create_symbols p) (procs p) n' v' = COk (a_procs ap).
Proof.
  unfold constprop_program_with. destruct (redefined_proc p); [discriminate|]. intros H. split; [reflexivity|].
  destruct (cp_decls m (create_symbols p) ""%string (globals p) 0 []) as [[[gs n'] v']| |]; cbn [cbind] in H; try discriminate.
  destruct (cp_procs m (create_symbols p) (procs p) n' v') as [aps| |] eqn:Ep; cbn [cbind] in H; inversion H. cbn. exists n', v'. split; [reflexivity|exact Ep].
Qed.

Lemma wf_nodup p : wf_program p = None ->
  NoDup (map XConstProp.decl_name (globals p) ++ map pname (procs p)) /\ forall q, In q (procs p) -> NoDup (pnames q).
Proof.
  intros Hwf. unfold wf_program in Hwf.
  destruct (has_dup (map XSem.decl_name (globals p) ++ map pname (procs p))) eqn:E1; [discriminate|].
  destruct (forallb wf_proc (procs p)) eqn:E2; [|discriminate]. split.
  - apply has_dup_NoDup. rewrite (map_ext _ _ decl_name_same). exact E1.
  - intros q Hq. rewrite forallb_forall in E2. specialize (E2 q Hq). unfold wf_proc in E2. apply negb_true_iff in E2.
    rewrite pnames_same. apply has_dup_NoDup. exact E2.
Qed.

Lemma names_ok_spec p : names_ok p = true -> forall q, In q (procs p) -> pname q <> ""%string.
Proof.
  unfold names_ok. rewrite forallb_forall. intros H q Hq E. specialize (H q Hq). rewrite E in H. discriminate.
Qed.

Lemma Inv_nil m st scope lkof : (forall y, lkof [] y = None) -> Inv m st scope lkof [] 0 [].
Proof. intros H. split; [|split]; intros x z Hx; try (rewrite H in Hx; discriminate). discriminate. Qed.

(* (iii) the declaration part: the global declarations of the transformed program initialise the same constants,
   variables and arrays *)
Theorem front_globals_same m p ap R : wf_program p = None -> names_ok p = true ->
  constprop_program_with m p = COk ap ->
  init_globals (globals p) [] [] [] = inr R ->
  init_globals (globals (erase_program (opt_program ap))) [] [] [] = inr R.
Proof.
  intros Hwf Hn Hcp Hi. destruct (constprop_inv m p ap Hcp) as (_ & n' & v' & Hg & _).
  destruct (wf_nodup p Hwf) as [Hnd _].
  cbn [erase_program opt_program globals a_globals]. rewrite map_map.
  eapply (init_globals_replay m (create_symbols p)); [exact Hi| | |exact Hg].
  - apply Inv_nil. reflexivity.
  - exact (global_decl_ids p Hnd (names_ok_spec p Hn) [] (globals p) eq_refl).
Qed.

Definition vv_range (vv : list (nat * Z)) : Prop := forall id z, assoc_nat id vv = Some z -> in_int z = true.
Definition vv_below (n : nat) (vv : list (nat * Z)) : Prop := forall id z, assoc_nat id vv = Some z -> (id < n)%nat.

Lemma env_range_of m st scope vv : vv_range vv -> env_range (envE m st scope vv).
Proof. intros H x z Hr. apply resolve_val in Hr. destruct Hr as (id & _ & Ha). cbn in Ha. eapply H; eauto. Qed.

Definition ge_dummy : genv := {| g_vals := []; g_procs := []; g_maxdepth := O |}.

(* the model alone: processing a declaration list only adds values for fresh ValDecl numbers, all in range *)
Lemma cp_decls_mono m st scope : forall ds n vv ads n' vv', cp_decls m st scope ds n vv = COk (ads, n', vv') ->
  vv_range vv -> vv_below n vv ->
  n' = (n + nvals ds)%nat /\ vv_range vv' /\ vv_below n' vv' /\ (forall id z, assoc_nat id vv = Some z -> assoc_nat id vv' = Some z).
Proof.
  induction ds as [|d r IH]; intros n vv ads n' vv' H Hr Hb; cbn [cp_decls nvals] in H.
  - inversion H; subst. rewrite Nat.add_0_r. auto.
  - destruct d as [x e|x|x e]; cbn [nvals].
    + destruct (cp_expr _ e) as [e'| |] eqn:Ee; cbn [cbind] in H; try discriminate.
      destruct (const_of e') as [v|] eqn:Ec.
      * destruct (cp_decls m st scope r (S n) ((n, v) :: vv)) as [[[ds' n2] v2]| |] eqn:Er; cbn [cbind] in H; inversion H; subst.
        assert (Hv : in_int v = true).
        { apply (const_eval ge_dummy _ (env_range_of m st scope vv Hr) e e' v Ee Ec). }
        destruct (IH (S n) ((n, v) :: vv) ds' n' vv' Er) as (A & B & C & D).
        -- intros id z Hz. cbn [assoc_nat] in Hz. destruct (Nat.eqb n id); [inversion Hz; subst; exact Hv|eapply Hr; eauto].
        -- intros id z Hz. cbn [assoc_nat] in Hz. destruct (Nat.eqb_spec n id); [lia|specialize (Hb id z Hz); lia].
        -- split; [lia|]. split; [exact B|]. split; [exact C|]. intros id z Hz. apply D. cbn [assoc_nat].
           destruct (Nat.eqb_spec n id); [specialize (Hb id z Hz); lia|exact Hz].
      * destruct repo_rejects_nonconst_val; [discriminate|].
        destruct (cp_decls m st scope r (S n) vv) as [[[ds' n2] v2]| |] eqn:Er; cbn [cbind] in H; inversion H; subst.
        destruct (IH (S n) vv ds' n' vv' Er Hr) as (A & B & C & D); [intros id z Hz; specialize (Hb id z Hz); lia|].
        split; [lia|auto].
    + destruct (cp_decls m st scope r n vv) as [[[ds' n2] v2]| |] eqn:Er; cbn [cbind] in H; inversion H; subst. eapply IH; eauto.
    + destruct (cp_expr _ e) as [e'| |]; cbn [cbind] in H; try discriminate.
      destruct (cp_decls m st scope r n vv) as [[[ds' n2] v2]| |] eqn:Er; cbn [cbind] in H; inversion H; subst. eapply IH; eauto.
Qed.

Definition TP (a : aproc) : proc := erase_proc (opt_proc a).

(* what the compiler knows of the global vals at some point of cp_procs *)
Definition gvis (p : program) (gvals : list (string * Z)) (vv : list (nat * Z)) : Prop :=
  forall y w, assoc y gvals = Some w ->
    in_int w = true /\ In y (map XConstProp.decl_name (globals p)) /\
    exists id, find_sym (create_symbols p) ""%string y = Some (KValDecl id) /\ assoc_nat id vv = Some w.

(* the procedure table of the transformed program, procedure by procedure *)
Lemma procs_table m p gvals : forall ps pre aps n vv, procs p = pre ++ ps ->
  cp_procs m (create_symbols p) ps n vv = COk aps ->
  n = (nvals (globals p) + nlocvals pre)%nat -> gvis p gvals vv -> vv_range vv -> vv_below n vv ->
  forall fn q, find_proc fn ps = Some q ->
  exists aq pre_q post_q vv_q vv_q', find_proc fn (map TP aps) = Some (TP aq) /\ In aq aps /\
    procs p = pre_q ++ q :: post_q /\
    globals_visible p gvals (nvals (globals p) + nlocvals pre_q) vv_q /\ vv_range vv_q' /\
    cp_decls m (create_symbols p) (pname q) (locals q) (nvals (globals p) + nlocvals pre_q) vv_q
      = COk (a_locals aq, (nvals (globals p) + nlocvals (pre_q ++ [q]))%nat, vv_q') /\
    cp_stmt (envE m (create_symbols p) (pname q) vv_q') (body q) = COk (a_body aq) /\
    a_is_func aq = is_func q /\ a_formals aq = formals q /\ a_pname aq = pname q.
Proof.
  induction ps as [|q0 r IH]; intros pre aps n vv Hp Hcp Hn Hg Hr Hb fn q Hf; [discriminate|].
  cbn [cp_procs] in Hcp.
  destruct (cp_decls m (create_symbols p) (pname q0) (locals q0) n vv) as [[[ds' n2] v2]| |] eqn:Ed; cbn [cbind] in Hcp; try discriminate.
  destruct (cp_stmt _ (body q0)) as [b'| |] eqn:Eb; cbn [cbind] in Hcp; try discriminate.
  destruct (cp_procs m (create_symbols p) r n2 v2) as [r'| |] eqn:Er; cbn [cbind] in Hcp; inversion Hcp; subst aps. clear Hcp.
  destruct (cp_decls_mono m _ _ _ _ _ _ _ _ Ed Hr Hb) as (En2 & Hr2 & Hb2 & Hext).
  cbn [find_proc] in Hf. cbn [map find_proc]. unfold TP at 1. cbn [opt_proc erase_proc pname a_pname].
  destruct (String.eqb fn (pname q0)) eqn:Efn.
  - inversion Hf; subst q. eexists _, pre, r, vv, v2. split; [reflexivity|]. split; [left; reflexivity|]. split; [exact Hp|].
    subst n. split; [split; [exact Hg|exact Hb]|]. split; [exact Hr2|].
    split.
    + rewrite Ed. f_equal. f_equal. f_equal. rewrite En2. clear. induction pre as [|h t IH]; cbn [List.app nlocvals]; lia.
    + cbn. auto.
  - assert (Hp' : procs p = (pre ++ [q0]) ++ r) by (rewrite <- app_assoc; exact Hp).
    destruct (IH (pre ++ [q0]) r' n2 v2 Hp' Er) with (fn := fn) (q := q) as (aq & pre_q & post_q & vv_q & vv_q' & A1 & A2 & A3); try assumption.
    + rewrite En2, Hn. clear. induction pre as [|h t IH]; cbn [List.app nlocvals]; lia.
    + intros y w Hy. destruct (Hg y w Hy) as (B1 & B2 & id & B3 & B4). repeat split; auto. exists id. split; [exact B3|apply Hext; exact B4].
    + exists aq, pre_q, post_q, vv_q, vv_q'. split; [exact A1|]. split; [right; exact A2|exact A3].
Qed.

Lemma find_sym_in st sc x k : find_sym st sc x = Some k -> In ((sc, x), k) st.
Proof.
  induction st as [|[[s n] k'] st IH]; cbn [find_sym]; [discriminate|].
  destruct (String.eqb_spec s sc); destruct (String.eqb_spec n x); cbn [andb]; try (intros H; right; exact (IH H)).
  intros H; inversion H; subst. left. reflexivity.
Qed.

Lemma in_dentries_val sc sc' x id ds : forall n, In ((sc, x), KValDecl id) (dentries sc' ds n) -> sc = sc' /\ exists e, In (DVal x e) ds.
Proof.
  induction ds as [|d r IH]; intros n H; [destruct H|]. cbn [dentries] in H. destruct H as [H|H].
  - destruct d; cbn in H; inversion H; subst. split; [reflexivity|]. eexists. left. reflexivity.
  - destruct (IH _ H) as [A (e & B)]. split; [exact A|]. exists e. right. exact B.
Qed.

Lemma in_sym_procs e : forall ps n st, In e (snd (sym_procs ps n st)) ->
  In e st \/ exists q, In q ps /\ (e = ((""%string, pname q), KProc) \/ In e (fentries (pname q) (formals q)) \/ exists n', In e (dentries (pname q) (locals q) n')).
Proof.
  induction ps as [|q r IH]; intros n st H; [left; exact H|].
  rewrite sym_procs_cons in H. destruct (IH _ _ H) as [H1|(q' & Hq' & H1)].
  - apply in_app_or in H1. destruct H1 as [H1|H1].
    + right. exists q. split; [left; reflexivity|]. right. right. exists n. apply in_rev in H1. exact H1.
    + apply in_app_or in H1. destruct H1 as [H1|H1].
      * right. exists q. split; [left; reflexivity|]. right. left. apply in_rev in H1. exact H1.
      * destruct H1 as [H1|H1]; [right; exists q; split; [left; reflexivity|left; symmetry; exact H1]|left; exact H1].
  - right. exists q'. split; [right; exact Hq'|exact H1].
Qed.

(* a ValDecl symbol is a val declaration of that scope *)
Lemma valdecl_char p sc x id : In ((sc, x), KValDecl id) (create_symbols p) ->
  (sc = ""%string /\ exists e, In (DVal x e) (globals p)) \/ (exists q e, In q (procs p) /\ sc = pname q /\ In (DVal x e) (locals q)).
Proof.
  unfold create_symbols. rewrite sym_decls_spec. cbn [fst snd]. intros H.
  destruct (in_sym_procs _ _ _ _ H) as [H1|(q & Hq & [H1|[H1|(n' & H1)]])].
  - rewrite app_nil_r in H1. apply in_rev in H1. destruct (in_dentries_val _ _ _ _ _ _ H1) as [A B]. left. auto.
  - discriminate.
  - unfold fentries in H1. apply in_map_iff in H1. destruct H1 as (f & Hf & _). discriminate.
  - destruct (in_dentries_val _ _ _ _ _ _ H1) as [A (e & B)]. right. exists q, e. auto.
Qed.

(* declarations that XSem has processed leave every val name bound *)
Lemma decls_ok_keep lkof x : forall ds vals vals', decls_ok lkof ds vals vals' ->
  (forall e, ~ In (DVal x e) ds) -> assoc x vals' = assoc x vals.
Proof.
  induction 1 as [vals|y e r vals vals' w He Hr IH|y r vals vals' Hr IH|y e r vals vals' w He Hr IH]; intros Hn; try reflexivity.
  - rewrite IH by (intros e0 H0; apply (Hn e0); right; exact H0). cbn [assoc].
    destruct (String.eqb_spec x y); [exfalso; subst; apply (Hn e); left; reflexivity|reflexivity].
  - apply IH. intros e0 H0. apply (Hn e0). right. exact H0.
  - apply IH. intros e0 H0. apply (Hn e0). right. exact H0.
Qed.
Lemma decls_ok_bound lkof x : forall ds vals vals', decls_ok lkof ds vals vals' -> NoDup (map XConstProp.decl_name ds) ->
  (exists e, In (DVal x e) ds) -> exists z, assoc x vals' = Some z.
Proof.
  induction 1 as [vals|y e r vals vals' w He Hr IH|y r vals vals' Hr IH|y e r vals vals' w He Hr IH]; intros Hnd (e0 & Hin).
  - destruct Hin.
  - cbn [map XConstProp.decl_name] in Hnd. inversion Hnd; subst. destruct Hin as [Hin|Hin].
    + inversion Hin; subst. exists w. rewrite (decls_ok_keep lkof x r _ _ Hr).
      * cbn [assoc]. rewrite String.eqb_refl. reflexivity.
      * intros e1 Hi1. apply H1. change x with (XConstProp.decl_name (DVal x e1)). apply in_map. exact Hi1.
    + apply IH; [assumption|eauto].
  - cbn [map] in Hnd. inversion Hnd; subst. destruct Hin as [Hin|Hin]; [discriminate|]. apply IH; [assumption|eauto].
  - cbn [map] in Hnd. inversion Hnd; subst. destruct Hin as [Hin|Hin]; [discriminate|]. apply IH; [assumption|eauto].
Qed.

(* the variables of a frame are the formals and the local variables *)
Lemma local_decls_vars names gvals : forall ds vars vals vars' vals', local_decls ds names gvals vars vals = inr (vars', vals') ->
  forall x, In x (map fst vars') -> In x (map fst vars) \/ In (DVar x) ds.
Proof.
  induction ds as [|d r IH]; intros vars vals vars' vals' H x Hx; cbn [local_decls] in H.
  - inversion H; subst. left. exact Hx.
  - destruct d as [y e|y|y e].
    + destruct (eval_const _ e); [discriminate|]. destruct (IH _ _ _ _ H x Hx) as [A|A]; [left; exact A|right; right; exact A].
    + destruct (IH _ _ _ _ H x Hx) as [A|A]; [|right; right; exact A]. cbn [map fst In] in A. destruct A as [A|A]; [right; left; congruence|left; exact A].
    + discriminate.
Qed.
Lemma bind_formals_keys : forall fs vs fv, bind_formals fs vs = inr fv -> map fst fv = map XConstProp.formal_name fs.
Proof.
  induction fs as [|f r IH]; intros vs fv H; destruct vs as [|v vr]; cbn [bind_formals] in H.
  - inversion H. reflexivity.
  - inversion H.
  - destruct f; discriminate.
  - destruct f; try discriminate; destruct v; try discriminate;
      (destruct (bind_formals r vr) as [u|l] eqn:E; [discriminate|]; inversion H; subst; cbn; f_equal; eapply IH; eauto).
Qed.

Lemma nodup_map_inj {A B} (f : A -> B) l a b : NoDup (map f l) -> In a l -> In b l -> f a = f b -> a = b.
Proof.
  induction l as [|x r IH]; [intros _ []|]. cbn [map]. intros Hn Ha Hb E. inversion Hn; subst.
  destruct Ha as [Ha|Ha], Hb as [Hb|Hb]; subst; auto.
  - exfalso. apply H1. rewrite E. apply in_map. exact Hb.
  - exfalso. apply H1. rewrite <- E. apply in_map. exact Ha.
Qed.
Lemma find_sym_found st sc x : In (sc, x) (keys st) -> find_sym st sc x <> None.
Proof.
  induction st as [|[[s n] k] st IH]; [intros []|]. cbn [keys map fst In find_sym]. intros [H|H].
  - inversion H; subst. rewrite !String.eqb_refl. discriminate.
  - destruct (String.eqb s sc && String.eqb n x); [discriminate|apply IH; exact H].
Qed.
Lemma assoc_none_notin {A} x (l : list (string * A)) : ~ In x (map fst l) -> assoc x l = None.
Proof. apply assoc_none_keys. Qed.
Lemma assoc_some_in {A} x (l : list (string * A)) v : assoc x l = Some v -> In x (map fst l).
Proof. apply assoc_in. Qed.

Section Frame.
  Variables (m : arith) (p : program) (gvals : list (string * Z)).
  Hypothesis Hwf : wf_program p = None.
  Hypothesis Hnm : forall q, In q (procs p) -> pname q <> ""%string.
  Hypothesis Hgdecl : decls_ok (fun vs y => assoc y vs) (globals p) [] gvals.

  Let st := create_symbols p.

  Lemma pnames_found q pre post x : procs p = pre ++ q :: post -> In x (pnames q) -> find_sym st (pname q) x <> None.
  Proof.
    intros Hp Hx. destruct (wf_nodup p Hwf) as [Hnd Hnq].
    assert (Hq : In q (procs p)) by (rewrite Hp; apply in_or_app; right; left; reflexivity).
    assert (Hnp : NoDup (map pname (procs p))).
    { clear - Hnd. induction (map XConstProp.decl_name (globals p)) as [|a l IH]; [exact Hnd|]. cbn in Hnd. inversion Hnd; auto. }
    unfold st, create_symbols. rewrite sym_decls_spec. cbn [fst snd]. rewrite Hp, sym_procs_own by first [exact (Hnm q Hq) | rewrite <- Hp; exact Hnp].
    assert (Hk : find_sym (rev (dentries (pname q) (locals q) (nvals (globals p) + nlocvals pre)) ++ rev (fentries (pname q) (formals q))) (pname q) x <> None).
    { apply find_sym_found. rewrite keys_segment. apply in_map. unfold pnames in Hx. rewrite <- rev_app_distr, <- in_rev. exact Hx. }
    destruct (find_sym _ (pname q) x); [discriminate|contradiction].
  Qed.

  Lemma frame_inv_enter ge q pre post fv vars lvals vv' :
    g_vals ge = gvals -> procs p = pre ++ q :: post ->
    map fst fv = map XConstProp.formal_name (formals q) ->
    local_decls (locals q) (pnames q) gvals fv [] = inr (vars, lvals) ->
    all_vals (envE m st (pname q) vv') (lk_local (pnames q) gvals lvals) ->
    forall d, frame_inv ge (envE m st (pname q) vv') {| f_vars := vars; f_vals := lvals; f_depth := d |}.
  Proof.
    intros Hge Hp Hfv Hld Hall d x z Hr. cbn [f_vars f_vals]. rewrite Hge.
    destruct (wf_nodup p Hwf) as [Hnd Hnq].
    assert (Hq : In q (procs p)) by (rewrite Hp; apply in_or_app; right; left; reflexivity).
    assert (Hnp : NoDup (map pname (procs p))).
    { clear - Hnd. induction (map XConstProp.decl_name (globals p)) as [|a l IH]; [exact Hnd|]. cbn in Hnd. inversion Hnd; auto. }
    pose proof (local_decls_ok _ _ _ _ _ _ _ Hld) as Hok.
    assert (Hvars : forall y, In y (map fst vars) -> In y (map XConstProp.formal_name (formals q)) \/ In (DVar y) (locals q)).
    { intros y Hy. destruct (local_decls_vars _ _ _ _ _ _ _ Hld y Hy) as [A|A]; [left; rewrite <- Hfv; exact A|right; exact A]. }
    assert (Hvars_p : forall y, In y (map fst vars) -> In y (pnames q)).
    { intros y Hy. unfold pnames. apply in_or_app. destruct (Hvars y Hy) as [A|A]; [left; exact A|right].
      change y with (XConstProp.decl_name (DVar y)). apply in_map. exact A. }
    assert (Hlv_p : forall y, In y (map fst lvals) -> In y (pnames q)).
    { intros y Hy. destruct (decls_ok_names _ _ _ _ Hok y Hy) as [[]|A]. unfold pnames. apply in_or_app. right. exact A. }
    pose proof (proj1 (resolve_val _ _ _) Hr) as (id & Hl & Ha). cbn [envE cp_syms cp_scope cp_vals] in Hl, Ha.
    unfold lookup in Hl. destruct (find_sym st (pname q) x) as [k|] eqn:Ef.
    - (* a symbol of q's own scope: a local val *)
      inversion Hl; subst k. apply find_sym_in in Ef.
      destruct (valdecl_char p _ _ _ Ef) as [[E0 _]|(q2 & e & Hq2 & Epn & Hin)]; [exfalso; exact (Hnm q Hq E0)|].
      assert (q2 = q) by (eapply (nodup_map_inj pname); eauto). subst q2.
      destruct (decls_ok_bound _ x _ _ _ Hok) as [z' Hz'].
      { specialize (Hnq q Hq). unfold pnames in Hnq. clear - Hnq. induction (map XConstProp.formal_name (formals q)) as [|a l IH]; [exact Hnq|]. cbn in Hnq. inversion Hnq; auto. }
      { eauto. }
      assert (Hxp : In x (pnames q)).
      { unfold pnames. apply in_or_app. right. change x with (XConstProp.decl_name (DVal x e)). apply in_map. exact Hin. }
      assert (Hlk : lk_local (pnames q) gvals lvals x = Some z') by (unfold lk_local; rewrite (proj2 (mem_str_In x (pnames q)) Hxp); exact Hz').
      pose proof (Hall x z' Hlk) as Hr'. rewrite Hr in Hr'. inversion Hr'; subst z'.
      split; [|left; exact Hz'].
      apply assoc_none_notin. intros Hy. specialize (Hnq q Hq). unfold pnames in Hnq. destruct (Hvars x Hy) as [A|A].
      + eapply (NoDup_app_disjoint _ _ x Hnq A). change x with (XConstProp.decl_name (DVal x e)). apply in_map. exact Hin.
      + assert (Hnl : NoDup (map XConstProp.decl_name (locals q))).
        { clear - Hnq. induction (map XConstProp.formal_name (formals q)) as [|a l IH]; [exact Hnq|]. cbn in Hnq. inversion Hnq; auto. }
        pose proof (nodup_map_inj XConstProp.decl_name (locals q) (DVar x) (DVal x e) Hnl A Hin eq_refl). discriminate.
    - (* not declared in q: a global val *)
      assert (Hxn : ~ In x (pnames q)) by (intros Hx; exact (pnames_found q pre post x Hp Hx Ef)).
      destruct (String.eqb_spec (pname q) ""%string) as [E0|_]; [exfalso; exact (Hnm q Hq E0)|].
      apply find_sym_in in Hl.
      destruct (valdecl_char p _ _ _ Hl) as [[_ (e & Hin)]|(q2 & e & Hq2 & Epn & _)]; [|exfalso; exact (Hnm q2 Hq2 (eq_sym Epn))].
      destruct (decls_ok_bound _ x _ _ _ Hgdecl) as [z' Hz'].
      { eapply NoDup_app_l. exact Hnd. }
      { eauto. }
      assert (Hlk : lk_local (pnames q) gvals lvals x = Some z').
      { unfold lk_local. destruct (mem_str x (pnames q)) eqn:Em; [apply mem_str_In in Em; contradiction|exact Hz']. }
      pose proof (Hall x z' Hlk) as Hr'. rewrite Hr in Hr'. inversion Hr'; subst z'.
      split; [apply assoc_none_notin; intros Hy; exact (Hxn (Hvars_p x Hy))|].
      right. split; [apply assoc_none_notin; intros Hy; exact (Hxn (Hlv_p x Hy))|exact Hz'].
  Qed.
End Frame.

Lemma cp_procs_shape m st : forall ps n vv aps, cp_procs m st ps n vv = COk aps ->
  Forall2 (fun q aq => a_pname aq = pname q /\ a_formals aq = formals q /\ a_is_func aq = is_func q /\
                       map XSem.decl_name (map TD (a_locals aq)) = map XSem.decl_name (locals q)) ps aps.
Proof.
  induction ps as [|q r IH]; intros n vv aps H; cbn [cp_procs] in H.
  - inversion H. constructor.
  - destruct (cp_decls m st (pname q) (locals q) n vv) as [[[ds' n2] v2]| |] eqn:Ed; cbn [cbind] in H; try discriminate.
    destruct (cp_stmt _ (body q)) as [b'| |]; cbn [cbind] in H; try discriminate.
    destruct (cp_procs m st r n2 v2) as [r'| |] eqn:Er; cbn [cbind] in H; inversion H; subst. constructor; [|eapply IH; eauto].
    cbn. repeat split. eapply cp_decls_names; eauto.
Qed.

Lemma TP_fields aq : pname (TP aq) = a_pname aq /\ formals (TP aq) = a_formals aq /\ is_func (TP aq) = a_is_func aq /\
  locals (TP aq) = map TD (a_locals aq) /\ body (TP aq) = TS (a_body aq).
Proof. unfold TP, TS, TD. cbn. rewrite map_map. repeat split. Qed.

Lemma shape_names ps aps :
  Forall2 (fun q aq => a_pname aq = pname q /\ a_formals aq = formals q /\ a_is_func aq = is_func q /\
                       map XSem.decl_name (map TD (a_locals aq)) = map XSem.decl_name (locals q)) ps aps ->
  map pname (map TP aps) = map pname ps /\ forallb wf_proc (map TP aps) = forallb wf_proc ps.
Proof.
  induction 1 as [|q aq ps aps (A & B & C & D) _ [IH1 IH2]]; [split; reflexivity|]. cbn [map forallb].
  destruct (TP_fields aq) as (F1 & F2 & _ & F4 & _). rewrite IH1, IH2, F1, A. split; [reflexivity|]. f_equal.
  unfold wf_proc. rewrite F2, F4, B, D. reflexivity.
Qed.

Lemma wf_same p ap m : constprop_program_with m p = COk ap -> wf_program (erase_program (opt_program ap)) = wf_program p.
Proof.
  intros H. destruct (constprop_inv m p ap H) as (_ & n' & v' & Hg & Hps).
  destruct (shape_names _ _ (cp_procs_shape _ _ _ _ _ _ Hps)) as [E2 E3]. pose proof (cp_decls_names _ _ _ _ _ _ _ _ _ Hg) as Hgn.
  unfold wf_program. cbn [erase_program opt_program globals procs a_globals a_procs].
  rewrite (map_map opt_proc erase_proc).
  change (fun x => erase_proc (opt_proc x)) with TP.
  replace (map XSem.decl_name (map erase_decl (map opt_decl (a_globals ap)))) with (map XSem.decl_name (globals p)).
  - rewrite E2, E3. reflexivity.
  - rewrite (map_map opt_decl erase_decl). symmetry. exact (cp_decls_names _ _ _ _ _ _ _ _ _ Hg).
Qed.

Section Program.
  Variables (m : arith) (p : program) (ap : aprogram) (gvals : list (string * Z)) (gvars : list (string * value)) (garrs0 : list (string * arr)) (maxd : nat).
  Hypothesis Hcp : constprop_program_with m p = COk ap.
  Hypothesis Hwf : wf_program p = None.
  Hypothesis Hnames : names_ok p = true.
  Hypothesis Hsafe : swap_safe_prog ap = true.
  Hypothesis Hinit : init_globals (globals p) [] [] [] = inr (gvals, gvars, garrs0).

  Let p' := erase_program (opt_program ap).
  Let ge := {| g_vals := gvals; g_procs := procs p; g_maxdepth := maxd |}.
  Let ge' := {| g_vals := gvals; g_procs := procs p'; g_maxdepth := maxd |}.
  Let st := create_symbols p.

  Lemma program_PT : forall fn q, find_proc fn (g_procs ge) = Some q ->
    exists q' E, find_proc fn (g_procs ge') = Some q' /\ proc_ok ge ge' q q' E /\ formals q' = formals q.
  Proof.
    intros fn q Hf. cbn [g_procs ge] in Hf.
    destruct (constprop_inv m p ap Hcp) as (_ & n0 & v0 & Hg & Hps).
    pose proof (names_ok_spec p Hnames) as Hnm. destruct (wf_nodup p Hwf) as [Hnd Hnq].
    assert (Hnp : NoDup (map pname (procs p))).
    { clear - Hnd. induction (map XConstProp.decl_name (globals p)) as [|a l IH]; [exact Hnd|]. cbn in Hnd. inversion Hnd; auto. }
    (* the global part *)
    destruct (val_propagation_globals_visible m p gvals gvars garrs0 Hwf Hnm Hinit) as (gs & vv0 & Hg' & Aenv & Aall & [Gvis Gbelow]).
    rewrite Hg in Hg'. inversion Hg'; subst n0 v0. clear Hg'.
    assert (Hr0 : vv_range vv0).
    { intros id z Hz. destruct (cp_decls_mono m _ _ _ _ _ _ _ _ Hg) as (_ & R & _); [intros ? ? X; discriminate|intros ? ? X; discriminate|]. eapply R; eauto. }
    destruct (procs_table m p gvals (procs p) [] (a_procs ap) (nvals (globals p)) vv0 eq_refl Hps) with (fn := fn) (q := q)
      as (aq & pre & post & vv_q & vv_q' & T1 & T2 & T3 & T4 & T5 & T6 & T7 & T8 & T9 & T10); try assumption.
    { cbn. lia. }
    exists (TP aq), (envE m st (pname q) vv_q').
    destruct (TP_fields aq) as (F1 & F2 & F3 & F4 & F5).
    assert (Hq : In q (procs p)) by (rewrite T3; apply in_or_app; right; left; reflexivity).
    split; [change (find_proc fn (map erase_proc (map opt_proc (a_procs ap))) = Some (TP aq)); rewrite (map_map opt_proc erase_proc); exact T1|].
    split; [|rewrite F2; exact T9].
    split; [rewrite F3; exact T8|]. split; [apply env_range_of; exact T5|].
    split.
    { exists (a_body aq). split; [exact T7|]. split; [exact F5|].
      unfold swap_safe_prog in Hsafe. apply andb_true_iff in Hsafe. destruct Hsafe as [_ Hsp]. rewrite forallb_forall in Hsp.
      specialize (Hsp aq T2). unfold swap_safe_proc in Hsp. apply andb_true_iff in Hsp. apply Hsp. }
    (* entering q and q' *)
    intros vs s fr Hen. unfold enter in *. cbn [g_maxdepth g_vals ge ge'] in *.
    destruct (Nat.leb maxd (f_depth (top s))); [discriminate|].
    rewrite F2, T9. destruct (bind_formals (formals q) vs) as [u|fv] eqn:Ebf; [discriminate|].
    rewrite F4.
    assert (Enames : map XSem.formal_name (formals q) ++ map XSem.decl_name (map TD (a_locals aq)) = pnames q).
    { rewrite pnames_same. f_equal. eapply cp_decls_names; eauto. }
    rewrite Enames. rewrite <- (pnames_same q) in Hen.
    destruct (local_decls (locals q) (pnames q) gvals fv []) as [u|[vars lvals]] eqn:Eld; [discriminate|]. inversion Hen; subst fr. clear Hen.
    destruct (val_propagation_locals m p gvals q pre post fv vars lvals vv_q Hwf Hnm T3 T4 Eld) as (ads & vv'' & V1 & V2 & V3 & V4).
    rewrite T6 in V1. inversion V1; subst ads vv''. clear V1.
    assert (Hstart : Inv m st (pname q) (lk_local (pnames q) gvals) [] (nvals (globals p) + nlocvals pre) vv_q).
    { destruct T4 as [Hgq Hbq].
      assert (All : all_vals (envE m st (pname q) vv_q) (lk_local (pnames q) gvals [])).
      { intros y w Hy. unfold lk_local in Hy. destruct (mem_str y (pnames q)) eqn:Em; [discriminate|].
        destruct (Hgq y w Hy) as (Hw & Hin & id & Hfs & Ha). apply resolve_val. exists id. cbn [envE cp_syms cp_scope cp_vals]. split; [|exact Ha].
        unfold st. rewrite (lookup_not_local p q y pre post T3 (Hnm q Hq) Hnp); [exact Hfs| |].
        - intros h Hh. split; [apply Hnm; exact Hh|]. intros Eh. subst y. eapply (NoDup_app_disjoint _ _ (pname h) Hnd Hin). apply in_map. exact Hh.
        - intros Hin'. apply mem_str_In in Hin'. congruence. }
      split; [|split; [exact All|exact Hbq]].
      intros y w Hy. split; [|right; apply All; exact Hy].
      unfold lk_local in Hy. destruct (mem_str y (pnames q)); [discriminate|]. apply (Hgq y w Hy). }
    pose proof (local_decl_ids p q pre post T3 (Hnm q Hq) Hnp (Hnq q Hq) [] (locals q) eq_refl) as Hid.
    cbn [nvals] in Hid. rewrite Nat.add_0_r in Hid.
    rewrite (local_decls_replay m st (pname q) (pnames q) gvals (locals q) fv [] (vars, lvals) _ vv_q (a_locals aq) _ vv_q' Eld Hstart Hid T6).
    split; [reflexivity|].
    apply (frame_inv_enter m p gvals Hwf Hnm (init_globals_ok _ _ _ _ _ _ _ Hinit) ge q pre post fv vars lvals vv_q'); try assumption; try reflexivity.
    symmetry. rewrite (bind_formals_keys _ _ _ Ebf). reflexivity.
  Qed.
End Program.

Lemma finish_eq0 s t c : set_cur s eff0 = set_cur t eff0 -> finish s c = finish t c.
Proof. intros H. unfold finish. destruct s, t; cbn in *. inversion H; subst. reflexivity. Qed.
Lemma finish_eq s t c : st_eq s t -> finish s c = finish t c.
Proof. intros H. apply finish_eq0. apply st_eq_start. exact H. Qed.

(* THE WHOLE-PROGRAM THEOREM (fuel-generalised): a behaviour of the source program is a behaviour of the program the
   front-end passes make of it *)
Theorem front_preserves_with m p ap f steps depth inp b :
  constprop_program_with m p = COk ap -> names_ok p = true -> swap_safe_prog ap = true ->
  run_fuel f steps depth p inp = Behaviour b ->
  run_fuel (f * 4) steps depth (erase_program (opt_program ap)) inp = Behaviour b.
Proof.
  intros Hcp Hnm Hsafe Hrun. unfold run_fuel in *. rewrite (wf_same p ap m Hcp).
  destruct (wf_program p) eqn:Hwf; [discriminate|].
  destruct (init_globals (globals p) [] [] []) as [u|[[gvals gvars] garrs0]] eqn:Hi; [discriminate|].
  rewrite (front_globals_same m p ap _ Hwf Hnm Hcp Hi).
  set (ge := {| g_vals := gvals; g_procs := procs p; g_maxdepth := depth |}) in *.
  set (ge' := {| g_vals := gvals; g_procs := procs (erase_program (opt_program ap)); g_maxdepth := depth |}).
  pose proof (program_PT m p ap gvals gvars garrs0 depth Hcp Hwf Hnm Hsafe Hi) as PT3. fold ge ge' in PT3.
  assert (PT : forall fn q, find_proc fn (g_procs ge) = Some q -> exists q' E, find_proc fn (g_procs ge') = Some q' /\ proc_ok ge ge' q q' E).
  { intros fn q Hq. destruct (PT3 fn q Hq) as (q' & E & A & B & _). eauto. }
  destruct (find_proc "main" (procs p)) as [mn|] eqn:Em; [|discriminate].
  destruct (PT3 "main"%string mn Em) as (mn' & E & Em' & (Hfun & _) & Hform). cbn [g_procs ge'] in Em'. rewrite Em', Hfun, Hform.
  destruct (is_func mn || negb match formals mn with [] => true | _ :: _ => false end); [discriminate|].
  cbv zeta in *.
  match goal with |- context [invoke (exec (f * 4) ?g') ?g' false "main"%string [] ?s0] =>
    pose proof (invoke_sim ge ge' PT f (f * 4) false "main"%string [] s0 s0 (proj1 (proj2 (proj2 (sim_all ge ge' eq_refl PT f)))) (le_n _) (st_eq_refl s0)) as Hsim end.
  fold ge in Hrun. fold ge'.
  destruct (invoke (exec f ge) ge false "main"%string [] _) as [v s|c s|u] eqn:Einv; [| |discriminate].
  - specialize (Hsim I). destruct (invoke (exec (f * 4) ge') ge' false "main"%string [] _) as [v' t|c t|u]; cbn in Hsim; try contradiction.
    destruct Hsim as [_ Hs]. rewrite <- (finish_eq s t 0 Hs). exact Hrun.
  - specialize (Hsim I). destruct (invoke (exec (f * 4) ge') ge' false "main"%string [] _) as [v' t|c' t|u]; cbn in Hsim; try contradiction.
    destruct Hsim as [Hc Hs]. subst c'. rewrite <- (finish_eq0 s t c Hs). exact Hrun.
Qed.

Theorem front_preserves_partial p p' f steps depth inp b :
  front p = COk p' -> names_ok p = true -> front_swap_safe p = true ->
  run_fuel f steps depth p inp = Behaviour b -> run_fuel (f * 4) steps depth p' inp = Behaviour b.
Proof.
  unfold front, front_swap_safe, constprop_program. intros Hf Hnm Hs Hrun.
  destruct (constprop_program_with repo_arith p) as [ap| |] eqn:Hcp; cbn [cbind] in Hf; inversion Hf; subst p'.
  eapply front_preserves_with; eauto.
Qed.

(* for XSem.run (the default fuel): any behaviour the source shows within a quarter of the default fuel *)
Corollary front_preserves_run p p' f inp b :
  front p = COk p' -> names_ok p = true -> front_swap_safe p = true -> (f * 4 <= default_fuel)%nat ->
  run_fuel f default_steps default_depth p inp = Behaviour b -> run p' inp = Behaviour b.
Proof.
  intros Hf Hnm Hs Hle Hrun. unfold run. eapply run_fuel_monotone; [exact Hle|]. eapply front_preserves_partial; eauto.
Qed.

