(* XCodegenDemo.v -- the call theorems of XCodegenCall.v are not vacuous: a concrete program with a non-empty
   procedure table for which every hypothesis is discharged, and what the theorem then says about its image.

   The program (X source; XConstProp.front only turns put(..) into the system call 1):
       val put = 1; val get = 2; var g; array a[4]; var ch;
       func fd(val k) is if k = 0 then return 7 else return fd(k - 1)
       proc cd(val n, array b) is var t;
       { t := n + 48; put(t, 0); g := g + n; b[n] := t; if n = 0 then skip else cd(n - 1, b) }
       proc main() is { g := 0; cd(fd(0) - 4, a); g := fd(g) + g; g := g + a[2]; ch := get(0) + 1; put((fd(0) + ch) - 7, 0) }
   (the global array a is passed by address to the array formal b, which cd assigns through and hands on to its
   recursive call; at the end one byte is read from the console and echoed).  Its image is laid out here as xcmp does (BR _start; DATA 199993; g; a's word; _start: LDAP _exit; BR main; _exit: ..; the
   procedures), from the model's LOWERED code (prologue ++ cs body ++ exit label ++ epilogue, before the
   peepholes -- the code the theorems speak of), by the assembler model AsmLayout.assemble_directives.  All
   hypotheses about the image are established by computation through the ISA's own decoder (XCodegenImage). *)
From Coq Require Import ZArith List String Bool Lia FMapPositive.
From HexVerif Require Import WMap Isa XAst XSem XSemProps XConstProp AsmModel AsmLayout AsmSpec AsmSpecProofs
     XCodegenIsa XCodegenInv XCodegenExpr XCodegenStmt XCodegenCall XCodegenImage XCodegenProgram.
Import ListNotations.
Local Open Scope string_scope.
Local Open Scope Z_scope.

Definition demo_src : program :=
  {| globals := [DVal "put" (ENum 1); DVal "get" (ENum 2); DVar "g"; DArray "a" (ENum 4); DVar "ch"];
     procs := [ {| is_func := true; pname := "fd"; formals := [FVal "k"]; locals := [];
                   body := SIf (EBin Eq (EVar "k") (ENum 0)) (SReturn (ENum 7))
                               (SReturn (ECall "fd" [EBin Minus (EVar "k") (ENum 1)])) |};
                {| is_func := false; pname := "cd"; formals := [FVal "n"; FArray "b"]; locals := [DVar "t"];
                   body := SSeq [SAssign "t" (EBin Plus (EVar "n") (ENum 48));
                                 SCall "put" [EVar "t"; ENum 0];
                                 SAssign "g" (EBin Plus (EVar "g") (EVar "n"));
                                 SAssignSub "b" (EVar "n") (EVar "t");
                                 SIf (EBin Eq (EVar "n") (ENum 0)) SSkip (SCall "cd" [EBin Minus (EVar "n") (ENum 1); EVar "b"])] |};
                {| is_func := false; pname := "main"; formals := []; locals := [];
                   body := SSeq [SAssign "g" (ENum 0); SCall "cd" [EBin Minus (ECall "fd" [ENum 0]) (ENum 4); EVar "a"]; SAssign "g" (EBin Plus (ECall "fd" [EVar "g"]) (EVar "g"));
                   SAssign "g" (EBin Plus (EVar "g") (ESub "a" (ENum 2)));
                   SAssign "ch" (EBin Plus (ECall "get" [ENum 0]) (ENum 1)); SCall "put" [EBin Minus (EBin Plus (ECall "fd" [ENum 0]) (EVar "ch")) (ENum 7); ENum 0]] |} ] |}.

Definition p_fd : proc :=
  {| is_func := true; pname := "fd"; formals := [FVal "k"]; locals := [];
     body := SIf (EBin Eq (EVar "k") (ENum 0)) (SReturn (ENum 7)) (SReturn (ECall "fd" [EBin Minus (EVar "k") (ENum 1)])) |}.
Definition p_cd : proc :=
  {| is_func := false; pname := "cd"; formals := [FVal "n"; FArray "b"]; locals := [DVar "t"];
     body := SSeq [SAssign "t" (EBin Plus (EVar "n") (ENum 48)); SSys 1 [EVar "t"; ENum 0];
                   SAssign "g" (EBin Plus (EVar "g") (EVar "n")); SAssignSub "b" (EVar "n") (EVar "t");
                   SIf (EBin Eq (EVar "n") (ENum 0)) SSkip (SCall "cd" [EBin Minus (EVar "n") (ENum 1); EVar "b"])] |}.
Definition p_main : proc :=
  {| is_func := false; pname := "main"; formals := []; locals := [];
     body := SSeq [SAssign "g" (ENum 0); SCall "cd" [EBin Minus (ECall "fd" [ENum 0]) (ENum 4); EVar "a"]; SAssign "g" (EBin Plus (ECall "fd" [EVar "g"]) (EVar "g"));
                   SAssign "g" (EBin Plus (EVar "g") (ESub "a" (ENum 2)));
                   SAssign "ch" (EBin Plus (ESys 2 [ENum 0]) (ENum 1)); SSys 1 [EBin Minus (EBin Plus (ECall "fd" [ENum 0]) (EVar "ch")) (ENum 7); ENum 0]] |}.
Definition demo : program :=
  {| globals := [DVal "put" (ENum 1); DVal "get" (ENum 2); DVar "g"; DArray "a" (ENum 4); DVar "ch"]; procs := [p_fd; p_cd; p_main] |}.

(* the program the code generator reads *)
Lemma demo_front : front demo_src = COk demo.
Proof. vm_compute. reflexivity. Qed.
Lemma demo_spec : run_fuel 100 1000 10 demo [66; 67] =
  Behaviour {| outputs := [(0, 51); (0, 50); (0, 49); (0, 48); (0, 67)]; consumed := 1; exit_value := 0 |}.
Proof. vm_compute. reflexivity. Qed.
(* at the end of the input get answers 255 and consumes nothing (so ch = 256 and put writes the byte 0) *)
Lemma demo_spec_eof : run_fuel 100 1000 10 demo [] =
  Behaviour {| outputs := [(0, 51); (0, 50); (0, 49); (0, 48); (0, 0)]; consumed := 0; exit_value := 0 |}.
Proof. vm_compute. reflexivity. Qed.

Definition demo_ge : genv := {| g_vals := [("get", 2); ("put", 1)]; g_procs := [p_fd; p_cd; p_main]; g_maxdepth := 10 |}.
Definition demo_gaddr (x : string) : option Z := if String.eqb x "g" then Some 2 else if String.eqb x "ch" then Some 4 else None.
Definition demo_aaddr (x : string) : option Z := if String.eqb x "a" then Some 3 else None.     (* the word of the array's name *)
Definition demo_abase (x : string) : Z := if String.eqb x "a" then 199996 else 0.               (* its cells: 199996 .. 199999 *)
Definition demo_alen (x : string) : Z := if String.eqb x "a" then 4 else 0.
Definition demo_pool (v : Z) : option Z := None.
Definition demo_pinfo (x : string) : option pframe :=
  if String.eqb x "cd" then Some {| pf_entry := 100; pf_isfunc := false |}
  else if String.eqb x "main" then Some {| pf_entry := 101; pf_isfunc := false |}
  else if String.eqb x "fd" then Some {| pf_entry := 102; pf_isfunc := true |} else None.
Definition L_cd : playout := {| pl_size := 6; pl_nslots := 2; pl_og := 4; pl_exit := 0; pl_n0 := 1 |}.
Definition L_main : playout := {| pl_size := 5; pl_nslots := 1; pl_og := 4; pl_exit := 20; pl_n0 := 21 |}.
Definition L_fd : playout := {| pl_size := 3; pl_nslots := 0; pl_og := 3; pl_exit := 40; pl_n0 := 41 |}.
Definition body_code (p : proc) (L : playout) : option (list instr * label) :=
  cs demo_pinfo (frame_venv demo_gaddr p (pl_size L)) demo_pool (pl_size L) (pl_nslots L) (frame_aenv demo_aaddr p (pl_size L)) (first_temp p) (pl_og L)
     (pl_exit L) (body p) (pl_n0 L).
Definition code_of (p : proc) (L : playout) : list instr :=
  match body_code p L with Some (bc, _) => pro (pl_size L) ++ bc ++ epi_of (is_func p) (pl_exit L) (pl_size L) | None => [] end.

(* the lowered procedures are the model's cproc_lowered up to the numbering of labels and the slot bound, and the
   optimised ones are what `xcmp -S` prints (tools/c01.py re-checks the lists below against the real xcmp) *)
(* X-SOURCE-BEGIN
val put = 1;
val get = 2;
var g;
array a[4];
var ch;
func fd(val k) is
  if k = 0 then return 7 else return fd(k - 1)
proc cd(val n, array b) is
  var t;
{ t := n + 48;
  put(t, 0);
  g := g + n;
  b[n] := t;
  if n = 0 then skip else cd(n - 1, b)
}
proc main() is
{ g := 0;
  cd(fd(0) - 4, a);
  g := fd(g) + g;
  g := g + a[2];
  ch := get(0) + 1;
  put((fd(0) + ch) - 7, 0)
}
X-SOURCE-END *)
Example demo_cproc_cd : cproc demo_pinfo demo_gaddr demo_aaddr demo_pool p_cd 6 4 = Some
  (* XCMP-LISTING cd *)
  [LDBM 1; STAI 0; LDAC (-6); ADD; STAM 1; LDAI 7; LDBC 48; ADD; LDBM 1; STAI 5; LDBM 1; STAI 2; LDAC 0; LDBM 1; STAI
   3; LDAC 1; SVC; LDAM 1; LDAI 1; LDAM 2; LDBM 1; LDBI 7; ADD; STAM 2; LDAM 1; LDAI 7; LDBM 1; LDBI 8; ADD; LDBM 1;
   STAI 4; LDAM 1; LDAI 5; LDBM 1; LDBI 4; STAI 0; LDAM 1; LDAI 7; BRZ 3; LDAC 0; BR 4; LABEL 3; LDAC 1; LABEL 4; BRZ
   1; BR 2; LABEL 1; LDAM 1; LDAI 7; LDBC 1; SUB; LDBM 1; STAI 1; LDAM 1; LDAI 8; LDBM 1; STAI 2; LDAP 5; BR 100;
   LABEL 5; LABEL 2; LABEL 0; LDBM 1; LDAC 6; ADD; STAM 1; LDBI 6; BRB].
Proof. vm_compute. reflexivity. Qed.
Example demo_cproc_main : cproc demo_pinfo demo_gaddr demo_aaddr demo_pool p_main 5 4 = Some
  (* XCMP-LISTING main *)
  [LDBM 1; STAI 0; LDAC (-5); ADD; STAM 1; LDAC 0; STAM 2; LDAC 0; LDBM 1; STAI 2; LDAP 1; BR 102; LABEL 1; LDAM 1;
   LDAI 1; LDBC 4; SUB; LDBM 1; STAI 4; LDBM 1; STAI 1; LDAM 3; LDBM 1; STAI 2; LDAP 2; BR 100; LABEL 2; LDAM 2; LDBM
   1; STAI 2; LDAP 3; BR 102; LABEL 3; LDAM 1; LDAI 1; LDBM 2; ADD; STAM 2; LDAM 3; LDAI 2; LDBM 1; STAI 4; LDAM 2;
   LDBM 1; LDBI 4; ADD; STAM 2; LDAC 0; LDBM 1; STAI 2; LDAC 2; SVC; LDAM 1; LDAI 1; LDBC 1; ADD; STAM 4; LDAC 0; LDBM
   1; STAI 2; LDAP 4; BR 102; LABEL 4; LDAM 1; LDAI 1; LDBM 4; ADD; LDBC 7; SUB; LDBM 1; STAI 4; LDBM 1; STAI 2; LDAC
   0; LDBM 1; STAI 3; LDAC 1; SVC; LDAM 1; LDAI 1; LABEL 0; LDBM 1; LDAC 5; ADD; STAM 1; LDBI 5; BRB].
Proof. vm_compute. reflexivity. Qed.
Example demo_cproc_fd : cproc demo_pinfo demo_gaddr demo_aaddr demo_pool p_fd 3 3 = Some
  (* XCMP-LISTING fd *)
  [LDBM 1; STAI 0; LDAC (-3); ADD; STAM 1; LDAI 5; BRZ 3; LDAC 0; BR 4; LABEL 3; LDAC 1; LABEL 4; BRZ 1; LDAC 7; BR
   0; BR 2; LABEL 1; LDAM 1; LDAI 5; LDBC 1; SUB; LDBM 1; STAI 2; LDAP 5; BR 102; LABEL 5; LDAM 1; LDAI 1; BR 0; LABEL
   2; LABEL 0; LDBM 1; STAI 4; LDAC 3; ADD; STAM 1; LDBI 3; BRB].
Proof. vm_compute. reflexivity. Qed.

(* ---- the image *)
Definition demo_dirs : list directive :=
  [DRef TBR "_start" true; DData 199993; DLabel LId "_g"; DData 0; DData 199996; DData 0; DData 0;
   DLabel LId "_start"; DRef TLDAP "_exit" true; DRef TBR (lname 101) true;
   DLabel LId "_exit"; DImm TLDBM 1; DImm TLDAC 0; DImm TSTAI 2; DOpr TSVC] ++
  [DLabel LFunc "fd"; DLabel LId (lname 102)] ++ map dir_of (code_of p_fd L_fd) ++
  [DLabel LProc "cd"; DLabel LId (lname 100)] ++ map dir_of (code_of p_cd L_cd) ++
  [DLabel LProc "main"; DLabel LId (lname 101)] ++ map dir_of (code_of p_main L_main).

Definition demo_bytes : list Z :=
  [225; 150; 0; 0; 57; 13; 3; 0; 0; 0; 0; 0; 60; 13; 3; 0; 0; 0; 0; 0; 0; 0; 0; 0; 82; 230; 155; 17; 48; 130; 211; 17;
   128; 255; 61; 209; 33; 1; 101; 162; 48; 145; 49; 163; 55; 157; 156; 1; 101; 65; 210; 17; 130; 82; 254; 151; 1; 97;
   144; 17; 132; 51; 209; 33; 115; 208; 17; 128; 255; 58; 209; 33; 1; 103; 227; 64; 209; 17; 133; 1; 101; 17; 130; 48;
   17; 131; 49; 211; 1; 97; 2; 17; 119; 209; 34; 1; 103; 17; 120; 209; 17; 132; 1; 101; 17; 116; 128; 1; 103; 162; 48;
   145; 49; 161; 157; 1; 103; 65; 210; 17; 129; 1; 104; 17; 130; 82; 252; 146; 17; 54; 209; 33; 118; 208; 17; 128;
   255; 59; 209; 33; 48; 34; 48; 17; 130; 82; 248; 155; 1; 97; 68; 210; 17; 132; 1; 100; 17; 129; 3; 17; 130; 82; 249;
   158; 2; 17; 130; 82; 247; 149; 1; 97; 18; 209; 34; 3; 98; 17; 132; 2; 17; 116; 209; 34; 48; 17; 130; 50; 211; 1;
   97; 65; 209; 36; 48; 17; 130; 82; 245; 151; 1; 97; 20; 209; 71; 210; 17; 132; 1; 100; 17; 130; 48; 17; 131; 49;
   211; 1; 97; 17; 53; 209; 33; 117; 208; 0; 0; 0].
Definition demo_labs : list (label * Z) :=
  [(0, 128); (1, 115); (2, 128); (3, 112); (4, 113); (5, 128); (20, 219); (21, 148); (22, 164); (23, 170); (24, 200);
   (40, 59); (41, 47); (42, 59); (43, 42); (44, 43); (45, 56); (100, 66); (101, 134); (102, 31)].
Definition demo_label_names : list label := [0; 1; 2; 3; 4; 5; 20; 21; 22; 23; 24; 40; 41; 42; 43; 44; 45; 100; 101; 102].
(* the assembler model lays the directives out as these bytes, with the labels there *)
Lemma demo_assembled : exists o, assemble_directives demo_dirs [] = Ok o /\ ao_image o = demo_bytes /\
  map (fun l => (l, lab_of (ao_layout o) l)) demo_label_names = demo_labs.
Proof. vm_compute. eexists. split; [reflexivity|]. split; reflexivity. Qed.

Fixpoint lookup (l : label) (t : list (label * Z)) : Z :=
  match t with [] => -1 | (k, v) :: r => if k =? l then v else lookup l r end.
Definition demo_lab (l : label) : Z := lookup l demo_labs.
Definition demo_m0 : WMap.t := mem_of demo_bytes.
Definition demo_img : WMap.t := bytes_map demo_bytes.
Definition demo_P (a : Z) : Prop := 6 <= a < 57.      (* the code words *)
Definition demo_stack_lo : Z := 1000.
Definition demo_stack_hi : Z := 199996.   (* the root frame ends here; the array's cells follow *)
Definition demo_maxframe : Z := 6.

(* the image, run by the ISA from reset, shows the behaviour of the spec *)
Lemma demo_image_runs : exists s, Isa.run 700 (boot (words_of_bytes demo_bytes)) {| console := [66; 67]; files := fun _ => [] |} [] =
  ([Write 51 0; Write 50 0; Write 49 0; Write 48 0; Read 0 66; Write 67 0; Exit 0], {| console := [67]; files := fun _ => [] |}, s, Exited 0).
Proof. vm_compute. eexists. reflexivity. Qed.

(* ---- the hypotheses of XCodegenCall.Prog *)
Lemma demo_holds lo n : bytes_ok demo_m0 demo_img lo n = true -> 0 <= lo -> 24 <= lo -> lo + Z.of_nat n <= 228 ->
  forall m, C demo_P demo_m0 m -> holds m demo_img lo (lo + Z.of_nat n).
Proof.
  intros Hb H0 Hlo Hhi. apply bytes_ok_holds; [exact Hb | exact H0|].
  intros p Hp. unfold demo_P. split; [apply Z.div_le_lower_bound; lia | apply Z.div_lt_upper_bound; lia].
Qed.

Lemma demo_code_fd : exists bc n', body_code p_fd L_fd = Some (bc, n') /\
  code_at (C demo_P demo_m0) demo_lab 31 (pro 3 ++ bc ++ epif 40 3) 66.
Proof.
  eexists. eexists. split; [vm_compute; reflexivity|].
  apply (code_chk_sound (C demo_P demo_m0) _ demo_lab demo_img 31 66); [vm_compute; reflexivity | lia | unfold W; lia|].
  change 66 with (31 + Z.of_nat 35). apply demo_holds; [vm_compute; reflexivity | lia | lia | cbn; lia].
Qed.
Lemma demo_code_cd : exists bc n', body_code p_cd L_cd = Some (bc, n') /\
  code_at (C demo_P demo_m0) demo_lab 66 (pro 6 ++ bc ++ epi 0 6) 134.
Proof.
  eexists. eexists. split; [vm_compute; reflexivity|].
  apply (code_chk_sound (C demo_P demo_m0) _ demo_lab demo_img 66 134); [vm_compute; reflexivity | lia | unfold W; lia|].
  change 134 with (66 + Z.of_nat 68). apply demo_holds; [vm_compute; reflexivity | lia | lia | cbn; lia].
Qed.
Lemma demo_code_main : exists bc n', body_code p_main L_main = Some (bc, n') /\
  code_at (C demo_P demo_m0) demo_lab 134 (pro 5 ++ bc ++ epi 20 5) 225.
Proof.
  eexists. eexists. split; [vm_compute; reflexivity|].
  apply (code_chk_sound (C demo_P demo_m0) _ demo_lab demo_img 134 225); [vm_compute; reflexivity | lia | unfold W; lia|].
  change 225 with (134 + Z.of_nat 91). apply demo_holds; [vm_compute; reflexivity | lia | lia | cbn; lia].
Qed.

Lemma demo_simple_cd : simple_proc demo_gaddr demo_aaddr p_cd ["n"; "b"] ["t"].
Proof.
  split; [split; [reflexivity | intros f [<-|[<-|[]]]; [left | right]; reflexivity]|]. split; [reflexivity|]. split.
  - constructor; [intros [H|[H|[]]]; discriminate H|]. constructor; [intros [H|[]]; discriminate H|]. constructor; [intros []|constructor].
  - split; intros x [<-|[<-|[<-|[]]]]; reflexivity.
Qed.
Lemma demo_simple_main : simple_proc demo_gaddr demo_aaddr p_main [] [].
Proof. split; [split; [reflexivity | intros f []]|]. split; [reflexivity|]. split; [constructor|]. split; intros x []. Qed.
Lemma demo_simple_fd : simple_proc demo_gaddr demo_aaddr p_fd ["k"] [].
Proof.
  split; [split; [reflexivity | intros f [<-|[]]; left; reflexivity]|]. split; [reflexivity|]. split; [constructor; [intros []|constructor]|].
  split; intros x [<-|[]]; reflexivity.
Qed.

(* every hypothesis of the call theorems holds for the demo *)
Lemma demo_hyps : prog_hyps demo_ge demo_gaddr demo_aaddr demo_abase demo_alen demo_pool demo_P demo_m0 demo_lab demo_pinfo demo_stack_lo demo_stack_hi demo_maxframe.
Proof.
  unfold prog_hyps. split; [|split; [|split; [|split; [|split; [|split; [|split; [|split; [|split; [|split]]]]]]]]].
  - intros p pi Hp. unfold demo_pinfo in Hp.
    destruct (String.eqb p "cd") eqn:E1; [|destruct (String.eqb p "main") eqn:E2; [|destruct (String.eqb p "fd") eqn:E3; [|discriminate]]].
    + apply String.eqb_eq in E1. subst p. inversion Hp; subst pi. cbn [pf_isfunc pf_entry].
      split; [vm_compute; discriminate|].
      destruct demo_code_cd as (bc & n' & Hb & Hc).
      exists p_cd, ["n"; "b"], ["t"], L_cd, bc, n', 134. split; [reflexivity|]. split; [reflexivity|].
      split; [exact demo_simple_cd|]. split; [vm_compute; repeat split; discriminate|]. split; [exact Hb|]. split; [exact Hc | reflexivity].
    + apply String.eqb_eq in E2. subst p. inversion Hp; subst pi. cbn [pf_isfunc pf_entry].
      split; [vm_compute; discriminate|].
      destruct demo_code_main as (bc & n' & Hb & Hc).
      exists p_main, [], [], L_main, bc, n', 225. split; [reflexivity|]. split; [reflexivity|].
      split; [exact demo_simple_main|]. split; [vm_compute; repeat split; discriminate|]. split; [exact Hb|]. split; [exact Hc | reflexivity].
    + apply String.eqb_eq in E3. subst p. inversion Hp; subst pi. cbn [pf_isfunc pf_entry].
      split; [vm_compute; discriminate|].
      destruct demo_code_fd as (bc & n' & Hb & Hc).
      exists p_fd, ["k"], [], L_fd, bc, n', 66. split; [reflexivity|]. split; [reflexivity|].
      split; [exact demo_simple_fd|]. split; [vm_compute; repeat split; discriminate|]. split; [exact Hb|]. split; [exact Hc | reflexivity].
  - intros x a Hx. unfold demo_gaddr in Hx. destruct (String.eqb x "g") eqn:E; [|destruct (String.eqb x "ch") eqn:E'; [|discriminate]].
    + apply String.eqb_eq in E. subst x. inversion Hx; subst a. unfold demo_P, demo_stack_lo.
      split; [reflexivity|]. split; [lia|]. split; [lia|]. split; [lia | reflexivity].
    + apply String.eqb_eq in E'. subst x. inversion Hx; subst a. unfold demo_P, demo_stack_lo.
      split; [reflexivity|]. split; [lia|]. split; [lia|]. split; [lia | reflexivity].
  - intros x y a b Hx Hy Hne. unfold demo_gaddr in Hx, Hy.
    destruct (String.eqb x "g") eqn:E1; [|destruct (String.eqb x "ch") eqn:E1'; [|discriminate]];
      (destruct (String.eqb y "g") eqn:E2; [|destruct (String.eqb y "ch") eqn:E2'; [|discriminate]]);
      inversion Hx; inversion Hy; subst; try lia.
    + apply String.eqb_eq in E1. apply String.eqb_eq in E2. congruence.
    + apply String.eqb_eq in E1'. apply String.eqb_eq in E2'. congruence.
  - unfold demo_stack_lo, demo_P. split; [lia|]. intros a Ha. lia.
  - unfold demo_P. lia.
  - intros v a H. discriminate H.
  - intros p pi Hp. unfold demo_pinfo in Hp.
    destruct (String.eqb p "cd") eqn:E1; [|destruct (String.eqb p "main") eqn:E2; [|destruct (String.eqb p "fd") eqn:E3; [|discriminate]]].
    + apply String.eqb_eq in E1. subst p. reflexivity.
    + apply String.eqb_eq in E2. subst p. reflexivity.
    + apply String.eqb_eq in E3. subst p. reflexivity.
  - unfold demo_maxframe. lia.
  - unfold demo_stack_hi, MEMW. lia.
  - intros a w Ha. unfold demo_aaddr in Ha. destruct (String.eqb a "a") eqn:E; [|discriminate].
    apply String.eqb_eq in E. subst a. inversion Ha; subst w.
    change (demo_abase "a") with 199996. change (demo_alen "a") with 4. unfold demo_P, demo_stack_lo, demo_stack_hi.
    split; [reflexivity|]. split; [lia|]. split; [lia|]. split; [lia|]. split.
    + intros x g Hg. unfold demo_gaddr in Hg. destruct (String.eqb x "g"); [inversion Hg; lia | destruct (String.eqb x "ch"); [inversion Hg; lia | discriminate]].
    + intros i Hi. split; [unfold MEMW; lia | lia].
  - intros a w a' w' i i' Ha Ha'. unfold demo_aaddr in Ha, Ha'.
    destruct (String.eqb a "a") eqn:E; [|discriminate]. destruct (String.eqb a' "a") eqn:E'; [|discriminate].
    apply String.eqb_eq in E. apply String.eqb_eq in E'. subst a a'. change (demo_abase "a") with 199996. intros _ _ Heq. split; [reflexivity | lia].
Qed.

(* ---- what the theorems say about the image: main's body, run from main's frame *)
Definition demo_sp : Z := 199988.        (* main's frame: the initial stack pointer 199993 less main's 5 words *)
Definition demo_st0 : state :=
  {| gvars := [("ch", Vundef); ("g", Vundef)]; garrs := [("a", {| alen := 4; acells := PositiveMap.empty value |})];
     out_rev := []; input := [66; 67]; ncons := 0%nat; budget := 1000; cur := eff0;
     stk := [{| f_vars := []; f_vals := []; f_depth := 1 |}; {| f_vars := []; f_vals := []; f_depth := 0 |}] |}.
Definition demo_m : WMap.t := wr demo_m0 1 demo_sp.

Lemma demo_frame_main : frame_ok demo_gaddr demo_aaddr demo_stack_lo demo_stack_hi demo_maxframe p_main [] [] L_main demo_sp.
Proof.
  split; [exact demo_simple_main|]. split; [vm_compute; repeat split; discriminate|].
  unfold demo_stack_lo, demo_stack_hi, demo_sp, MEMW. cbn. lia.
Qed.

Lemma demo_rel : Rel demo_pinfo (Dq_of demo_ge demo_stack_lo demo_maxframe demo_sp) (frame_venv demo_gaddr p_main 5)
                     (frame_aenv demo_aaddr p_main 5) (garr_of demo_aaddr) demo_abase demo_alen demo_ge demo_P demo_m0 demo_sp demo_st0 demo_m.
Proof.
  split; [|split; [|split; [|split]]].
  - apply Cm_wr; [intros a _ _; reflexivity | lia | unfold demo_P; lia].
  - apply rd_wr_same.
  - split; [split | split].
    + intros x a Hx. unfold frame_venv in Hx. cbn in Hx. unfold demo_gaddr in Hx.
      destruct (String.eqb x "g") eqn:E; [|destruct (String.eqb x "ch") eqn:E'; [|discriminate]].
      * apply String.eqb_eq in E. subst x. inversion Hx; subst a.
        split; [reflexivity|]. split; [reflexivity|]. split; [reflexivity|]. exists Vundef. split; [reflexivity | left; reflexivity].
      * apply String.eqb_eq in E'. subst x. inversion Hx; subst a.
        split; [reflexivity|]. split; [reflexivity|]. split; [reflexivity|]. exists Vundef. split; [reflexivity | left; reflexivity].
    + intros x k Hx. unfold frame_venv in Hx. cbn in Hx. unfold demo_gaddr in Hx.
      destruct (String.eqb x "g"); [discriminate|]. destruct (String.eqb x "ch"); discriminate.
    + intros a l Hal. unfold frame_aenv in Hal. cbn in Hal. unfold demo_aaddr in Hal.
      destruct (String.eqb a "a") eqn:E; [|discriminate]. apply String.eqb_eq in E. subst a. inversion Hal; subst l.
      exists "a". split; [right; split; [reflexivity|]; split; [reflexivity|]; split; [discriminate | reflexivity]|].
      split; [reflexivity|]. split; [vm_compute; reflexivity | intros; reflexivity].
    + intros g Hg. unfold garr_of, demo_aaddr in Hg. destruct (String.eqb g "a") eqn:E; [|discriminate]. apply String.eqb_eq in E. subst g.
      split; [reflexivity|]. split; [reflexivity|]. exists {| alen := 4; acells := PositiveMap.empty value |}.
      split; [reflexivity|]. split; [reflexivity|].
      intros i n _ Hf. cbn [acells] in Hf. rewrite PositiveMap.gempty in Hf. discriminate Hf.
  - split; [discriminate|]. intros p pi _. reflexivity.
  - unfold Dq_of, demo_stack_lo, demo_maxframe, demo_sp. cbn. lia.
Qed.

(* main's body sits at bytes [140, 219) of the image *)
Lemma demo_body_main : exists bc n', body_code p_main L_main = Some (bc, n') /\ code_at (C demo_P demo_m0) demo_lab 140 bc 219.
Proof.
  eexists. eexists. split; [vm_compute; reflexivity|].
  apply (code_chk_sound (C demo_P demo_m0) _ demo_lab demo_img 140 219); [vm_compute; reflexivity | lia | unfold W; lia|].
  change 219 with (140 + Z.of_nat 79). apply demo_holds; [vm_compute; reflexivity | lia | lia | cbn; lia].
Qed.

(* The theorem applied: from main's frame (stack pointer word = 199988, g and ch not yet assigned, nothing in the
   array, the console holding the bytes 66 67), the ISA runs the code of main's body
   `g := 0; cd(fd(0) - 4, a); g := fd(g) + g; g := g + a[2]; ch := get(0) + 1; put((fd(0) + ch) - 7, 0)` -- four activations of the procedure cd, each
   with prologue, output, an assignment to an element of the global array through the array formal b (whose frame word
   holds the address of a's cells), recursive call handing b on, and epilogue, then seven activations of the function
   fd, each returning its result through the caller's outgoing word, then a read of the array, then the system call
   get, which takes one byte from the console, and put, which echoes it -- to the end of that code; the outputs among
   its events are exactly the bytes "3210C" on stream 0, the console is left with the byte 67; the stack pointer word
   is 199988 again, g's word holds 63 (= fd(6) + 6 + a[2] = 7 + 6 + 50: the call is the left operand of +, the right one
   the variable g), ch's word 67 (the byte read + 1: get as a left operand) and the cell of a[2] holds 50. *)
Theorem demo_main_body_runs : forall a b inp, console inp = [66; 67] -> exists evs a' b' m',
  runs inp (mk 140 a b 0 demo_m) evs {| console := [67]; files := files inp |} (mk 219 a' b' 0 m') /\
  writes evs = [(0, 51); (0, 50); (0, 49); (0, 48); (0, 67)] /\
  rd m' 1 = 199988 /\ rd m' 2 = 63 /\ rd m' 4 = 67 /\ rd m' 199998 = 50.
Proof.
  intros a b inp Hcon.
  destruct demo_hyps as (H1 & H2 & H3 & H4 & H5 & H6 & H7 & H8 & H9 & H10 & H11).
  pose proof (stmt_calls_closed demo_ge demo_gaddr demo_aaddr demo_abase demo_alen demo_pool demo_P demo_m0 demo_lab demo_pinfo demo_stack_lo
                demo_stack_hi demo_maxframe H1 H2 H3 H4 H5 H6 H7 H8 H9 H10 H11 100%nat p_main [] [] L_main demo_sp demo_frame_main) as Hok.
  destruct demo_body_main as (bc & n' & Hb & Hc).
  assert (He : exists st', exec 100 demo_ge (body p_main) demo_st0 = Ret Normal st' /\
                           out_rev st' = [(0, 67); (0, 48); (0, 49); (0, 50); (0, 51)] /\ input st' = [67] /\
                           assoc "g" (gvars st') = Some (Vint 63) /\ assoc "ch" (gvars st') = Some (Vint 67) /\
                           exists ar, assoc "a" (garrs st') = Some ar /\ PositiveMap.find (cell 2) (acells ar) = Some (Vint 50)).
  { vm_compute. eexists. split; [reflexivity|]. split; [reflexivity|]. split; [reflexivity|]. split; [reflexivity|]. split; [reflexivity|].
    eexists. split; reflexivity. }
  destruct He as (st' & He & Hout & Hinp & Hg & Hch & ar & Har & Hcl).
  assert (Hx : 0 <= demo_lab (pl_exit L_main) < W) by (vm_compute; split; [discriminate | reflexivity]).
  destruct (stmt_normal demo_pinfo (Fr_of demo_stack_lo demo_sp) (Dq_of demo_ge demo_stack_lo demo_maxframe demo_sp)
              (frame_venv demo_gaddr p_main (pl_size L_main)) (frame_aenv demo_aaddr p_main (pl_size L_main)) (garr_of demo_aaddr) demo_abase demo_alen demo_pool
              (pl_size L_main) (pl_nslots L_main) (first_temp p_main) (pl_og L_main) (pl_exit L_main) demo_ge demo_P demo_m0 demo_lab demo_sp
              100%nat Hok (body p_main) (pl_n0 L_main) bc n' demo_st0 st' Hb He demo_m 140 219 a b inp
              demo_rel Hcon Hc ltac:(lia) ltac:(unfold W; lia) Hx)
    as (outs & a' & b' & m' & R & HR' & Hpost & _).
  exists outs, a', b', m'.
  destruct Hpost as (P1 & _). rewrite Hout in P1. cbn [out_rev demo_st0] in P1. rewrite app_nil_r in P1.
  unfold adv in R. rewrite Hinp in R. split; [exact R|].
  split; [rewrite <- (rev_involutive (writes outs)), <- P1; reflexivity|].
  destruct HR' as (_ & S1 & ((HVg & _) & (_ & HVa)) & _). split; [exact S1|]. split; [|split].
  - destruct (HVg "g" 2 eq_refl) as (_ & _ & _ & v & Hv & Hval). rewrite Hg in Hv. inversion Hv; subst v.
    destruct Hval as [Hu|(z & Hz & _ & Hw)]; [discriminate|]. inversion Hz; subst z. rewrite Hw. reflexivity.
  - destruct (HVg "ch" 4 eq_refl) as (_ & _ & _ & v & Hv & Hval). rewrite Hch in Hv. inversion Hv; subst v.
    destruct Hval as [Hu|(z & Hz & _ & Hw)]; [discriminate|]. inversion Hz; subst z. rewrite Hw. reflexivity.
  - destruct (HVa "a" eq_refl) as (_ & _ & ar' & Har' & Hl & Hcells). rewrite Har in Har'. inversion Har'; subst ar'.
    assert (Hr : 0 <= 2 < alen ar) by (rewrite Hl; change (demo_alen "a") with 4; lia).
    destruct (Hcells 2 50 Hr Hcl) as [_ Hw]. exact Hw.
Qed.

(* ---------------------------------------------------------------- the demo through model_compile (XCodegenProgram.v) *)
Definition demo_frames : params :=      (* size, usable slots, outgoing words: xcmp's numbers; no pool constants *)
  {| p_frames := fun x => if String.eqb x "cd" then Some (6, 2, 4) else if String.eqb x "main" then Some (5, 1, 4)
                          else if String.eqb x "fd" then Some (3, 0, 3) else None;
     p_pool := [] |}.

(* opt = true: the image with the peephole pass; tools/c01.py re-checks this list against the words of the binary the
   real xcmp writes for the X source above *)
Example demo_model_image_opt : model_compile demo_frames true demo = Some
  (* XCMP-IMAGE *)
  [38625; 199993; 0; 199996; 0; 0; 295167570; 299074096; 3510501248; 815949089; 933441937; 1694604445; 2182206017;
   26803794; 2215743585; 1931596083; 4286583248; 1730269498; 298926307; 813830533; 3543237393; 285368577; 19059063;
   3514306919; 1694598161; 25195537; 2435883623; 27107633; 298991975; 292028801; 2516341378; 567358993; 2148651126;
   567360511; 288367152; 2683851394; 3527696641; 2165408785; 1384255747; 285381626; 2616676994; 3507642625; 291636002;
   1947271812; 288367313; 30618242; 617693537; 1384255792; 1627495925; 3527921940; 2182186001; 830673200; 291570131;
   1965150517; 208].
Proof. vm_compute. reflexivity. Qed.

(* opt = false: the validated image of the lowered code, the one program_correct speaks of *)
Definition demo_image : list Z :=
  [38625; 199993; 0; 199996; 0; 0; 295429714; 299074096; 3510501248; 2724528417; 2737934640; 27041079; 298991973;
   2550026882; 294674689; 567358340; 2148651123; 567360255; 1088644865; 25498065; 813830501; 3543237393; 285368577;
   19059063; 3514306919; 1694598161; 25195537; 2435883623; 27107633; 298991975; 292028801; 2466009730; 567358993;
   2148651126; 567360511; 288367152; 2616742530; 3527696641; 1677820945; 285442321; 2667139714; 1384255746;
   1627493879; 52613394; 42209634; 584152081; 847384880; 1096876499; 288367825; 2549437058; 3507773697; 2215760455;
   2182177793; 830673200; 291570131; 1965150517; 208].
Lemma demo_model_image : model_compile demo_frames false demo = Some demo_image.
Proof. vm_compute. reflexivity. Qed.

(* the end-to-end theorem applied to the demo: its image shows the spec's behaviour -- from program_correct, not by
   running the ISA.  With the console bytes 66 67 it writes "3210C" and has consumed one byte; with an empty console
   get answers 255, so it writes "3210" and the byte 0 (= 256 mod 256), and has consumed nothing *)
Theorem demo_end_to_end : exists n,
  isa_shows demo_image [66; 67] n {| outputs := [(0, 51); (0, 50); (0, 49); (0, 48); (0, 67)]; consumed := 1; exit_value := 0 |}.
Proof.
  apply (program_correct demo_frames demo [66; 67] _ demo_image); [|exact demo_model_image].
  apply (run_of_smaller_fuel 100); [unfold default_fuel; apply Nat2Z.inj_le; rewrite Z2Nat.id; lia|].
  vm_compute. reflexivity.
Qed.
Theorem demo_end_to_end_eof : exists n,
  isa_shows demo_image [] n {| outputs := [(0, 51); (0, 50); (0, 49); (0, 48); (0, 0)]; consumed := 0; exit_value := 0 |}.
Proof.
  apply (program_correct demo_frames demo [] _ demo_image); [|exact demo_model_image].
  apply (run_of_smaller_fuel 100); [unfold default_fuel; apply Nat2Z.inj_le; rewrite Z2Nat.id; lia|].
  vm_compute. reflexivity.
Qed.
